/-
  TrVerif.Model.Journey — journey reconstruction, clean-up (`optimizeJourney`) and emission.
  Code modelled: `reverse_journey.cpp` (single and all-nodes), `optimize_journey.cpp` (after the
  `fix:` commit that keeps legs and walks consistent), `forward_journey.cpp:267-322`.
-/
import TrVerif.Model.Scan
namespace Tr

/-! ### reconstruction (`reverse_journey.cpp:42-58`) -/

/-- follows the chain of reverse steps; `fuel` bounds the `while`; `none` = fuel exhausted
    (the C++ loop would not terminate). Result: legs (walk already moved *behind* each leg) and
    the stop at which the last leg alights. -/
def reconLoop (steps : Nat → JStep) : Nat → JStep → List JStep → Option Nat → Option (List JStep × Option Nat)
  | 0, cur, acc, last => if cur.hasConns then none else some (acc, last)
  | fuel+1, cur, acc, last =>
    if cur.hasConns then
      let acc' := match acc.getLast? with
        | some l => acc.dropLast ++ [{ l with walk := cur.walk, dist := cur.dist }]
        | none => acc
      let nxt := match cur.exit with
        | some x => x.arrStop
        | none => 0
      reconLoop steps fuel (steps nxt) (acc' ++ [cur]) (some nxt)
    else some (acc, last)

/-! ### clean-up (`optimizeJourney`) -/

structure LegInfo where
  trip : Nat
  s0 : Nat          -- sequenceStartIdx  (enter.seq - 1)
  s1 : Nat          -- sequenceEndIdx    (exit.seq - 1)
  first : Nat
  last : Nat
  between : List Nat

def legInfo (ds : Dataset) (j : JStep) : Option LegInfo :=
  match j.enter, j.exit with
  | some e, some x =>
    let s0 := e.seq - 1
    let s1 := x.seq - 1
    let tf := ds.tripFwd e.trip
    let between := (List.range (s1 - s0)).filterMap fun k =>
      let nd := (tf.getD (s0 + 1 + k) default).depStop
      if nd ≠ e.depStop ∧ nd ≠ x.arrStop then some nd else none
    some { trip := e.trip, s0, s1, first := e.depStop, last := x.arrStop, between }
  | _, _ => none

/-- `trip.reverseConnections[size-1-s1 .. size-1-s0]` -/
def revSlice (ds : Dataset) (trip s0 s1 : Nat) : List Conn :=
  let tr := ds.tripRev trip
  (tr.drop (tr.length - 1 - s1)).take (s1 - s0 + 1)

structure Found where
  case : Nat         -- 1 CSL, 2 BTS, 3 GTF, 4 CSS
  node : Nat
  from_ : Nat
  to : Nat
deriving Repr, DecidableEq

def betweenOf (o : Option LegInfo) : List Nat :=
  match o with
  | some li => li.between
  | none => []

/-- the four tests of one (i, idx) pair, in the order of the code: (case, stop) -/
def pairCase (ignore : List Nat) (oi : Option LegInfo) (cur : LegInfo) : Option (Nat × Nat) :=
  let bi := betweenOf oi
  if ¬ bi.isEmpty ∧ bi.contains cur.last ∧ ¬ ignore.contains cur.last then some (1, cur.last)
  else if ¬ cur.between.isEmpty ∧ ((oi.map (·.last)).any fun l => cur.between.contains l && !ignore.contains l) then
    some (2, (oi.map (·.last)).getD 0)
  else if ¬ bi.isEmpty ∧ bi.contains cur.first ∧ ¬ ignore.contains cur.first then some (3, cur.first)
  else if ¬ bi.isEmpty ∧ ¬ cur.between.isEmpty then
    (bi.find? (fun nd => cur.between.contains nd && !ignore.contains nd)).map fun nd => (4, nd)
  else none

/-- the inner `for (i = 0; i < journeyStepIdx; i++)` search for step `idx` -/
def searchPair (ignore : List Nat) (infos : List (Option LegInfo)) (idx : Nat) (cur : LegInfo) : Nat → Nat → Option Found
  | _, 0 => none
  | i, n+1 =>
    match pairCase ignore (infos.getD i none) cur with
    | some (c, nd) => some ⟨c, nd, i, idx⟩
    | none => searchPair ignore infos idx cur (i+1) n

/-- the outer `for (auto & journeyStep : journey)` search -/
def searchJourney (ds : Dataset) (ignore : List Nat) : List JStep → Nat → List (Option LegInfo) → Option Found
  | [], _, _ => none
  | j :: js, idx, infos =>
    match legInfo ds j with
    | some cur =>
      match searchPair ignore (infos ++ [some cur]) idx cur 0 idx with
      | some f => some f
      | none => searchJourney ds ignore js (idx+1) (infos ++ [some cur])
    | none => searchJourney ds ignore js (idx+1) (infos ++ [none])

def eraseRange {α : Type} (l : List α) (a b : Nat) : List α := l.take a ++ l.drop b   -- erase [a, b)

def modifyAt {α : Type} (l : List α) (i : Nat) (f : α → α) : List α :=
  match l[i]? with
  | some x => l.set i (f x)
  | none => l

structure OptState where
  journey : List JStep
  ignore : List Nat := []
  used : List Nat := []

/-- CSS: first loop (choose the exit connection), `optimize_journey.cpp:298-312` -/
def cssExit (node : Nat) : List Conn → Option Conn → Option Conn
  | [], acc => acc
  | c :: cs, acc => if c.arrStop = node then (if c.canUnboard then cssExit node cs (some c) else acc) else cssExit node cs acc

/-- CSS: second loop; returns (journey, ignore, used, applied) -/
def cssEnter (node from_ to : Nat) (exitC : Option Conn) : List Conn → List JStep × List Nat × List Nat × Bool → List JStep × List Nat × List Nat × Bool
  | [], st => st
  | c :: cs, (j, ig, us, ap) =>
    if c.depStop = node then
      match exitC with
      | some x =>
        if c.canBoard then
          cssEnter node from_ to exitC cs
            (modifyAt (modifyAt j from_ fun s => { s with exit := some x }) to fun s => { s with enter := some c },
             ig, us ++ [4], true)
        else (j, ig ++ [node], us, ap)
      | none => (j, ig ++ [node], us, ap)
    else cssEnter node from_ to exitC cs (j, ig, us, ap)

/-- apply a found case; returns the new state and whether the `while` continues -/
def applyFound (ds : Dataset) (st : OptState) (f : Found) : OptState × Bool :=
  let j := st.journey
  match f.case with
  | 1 =>
    match (j.getD f.from_ {}).enter, (j.getD f.from_ {}).exit with
    | some e, some x =>
      match (revSlice ds e.trip (e.seq - 1) (x.seq - 1)).find? (·.arrStop = f.node) with
      | some c =>
        if ¬ c.canUnboard then ({ st with ignore := st.ignore ++ [f.node] }, true)
        else
          let tow := j.getD f.to {}
          let j1 := modifyAt j f.from_ fun s => { s with walk := tow.walk, dist := tow.dist }
          let j2 := eraseRange j1 (f.from_ + 1) (f.to + 1)
          let j3 := modifyAt j2 f.from_ fun s => { s with exit := some c }
          ({ st with journey := j3, used := st.used ++ [1] }, true)
      | none => (st, true)
    | _, _ => (st, true)
  | 2 =>
    match (j.getD f.to {}).enter, (j.getD f.to {}).exit with
    | some e, some x =>
      match (revSlice ds e.trip (e.seq - 1) (x.seq - 1)).find? (·.depStop = f.node) with
      | some c =>
        if ¬ c.canBoard then ({ st with ignore := st.ignore ++ [f.node] }, false)
        else
          let j1 := modifyAt j f.to fun s => { s with enter := some c }
          let j2 := modifyAt j1 f.from_ fun s => { s with walk := 0, dist := 0 }
          let j3 := eraseRange j2 (f.from_ + 1) f.to
          ({ st with journey := j3, used := st.used ++ [2] }, false)
      | none => (st, false)
    | _, _ => (st, false)
  | 3 =>
    match (j.getD f.from_ {}).enter, (j.getD f.from_ {}).exit with
    | some e, some x =>
      match (revSlice ds e.trip (e.seq - 1) (x.seq - 1)).find? (·.arrStop = f.node) with
      | some c =>
        if ¬ c.canUnboard then ({ st with ignore := st.ignore ++ [f.node] }, true)
        else
          let j1 := modifyAt j f.from_ fun s => { s with exit := some c, walk := 0, dist := 0 }
          let j2 := eraseRange j1 (f.from_ + 1) f.to
          ({ st with journey := j2, used := st.used ++ [3] }, true)
      | none => (st, true)
    | _, _ => (st, true)
  | _ =>
    match (j.getD f.from_ {}).enter, (j.getD f.from_ {}).exit, (j.getD f.to {}).enter, (j.getD f.to {}).exit with
    | some e1, some x1, some e2, some x2 =>
      let exitC := cssExit f.node (revSlice ds e1.trip (e1.seq - 1) (x1.seq - 1)) none
      let (j1, ig, us, ap) := cssEnter f.node f.from_ f.to exitC (revSlice ds e2.trip (e2.seq - 1) (x2.seq - 1)) (j, st.ignore, st.used, false)
      let j2 := if ap then eraseRange (modifyAt j1 f.from_ fun s => { s with walk := 0, dist := 0 }) (f.from_ + 1) f.to else j1
      ({ journey := j2, ignore := ig, used := us }, true)
    | _, _, _, _ => (st, true)

/-- the `while` of `optimizeJourney` with fuel; `none` = fuel exhausted -/
def optimizeLoop (ds : Dataset) : Nat → OptState → Option OptState
  | 0, _ => none
  | fuel+1, st =>
    match searchJourney ds st.ignore st.journey 0 [] with
    | none => some st
    | some f =>
      let (st', cont) := applyFound ds st f
      if cont then optimizeLoop ds fuel st' else some st'

def legHops (j : JStep) : Nat :=
  match j.enter, j.exit with
  | some e, some x => x.seq - e.seq + 1
  | _, _ => 0

def optimizeFuel (ds : Dataset) (j : List JStep) : Nat := (j.map legHops).sum + ds.nStops + 2

def optimizeJourney (ds : Dataset) (j : List JStep) : Option OptState :=
  optimizeLoop ds (optimizeFuel ds j) { journey := j }

/-! ### emission (`reverse_journey.cpp:78-262`) -/

structure EAcc where
  totalIVT : Int := 0
  totalWalk : Int := 0
  totalWait : Int := 0
  totalTransferWalk : Int := 0
  totalTransferWait : Int := 0
  totalDist : Int := 0
  totalIVD : Int := 0
  totalWalkDist : Int := 0
  totalTransferDist : Int := -1
  accessDist : Int := 0
  egressDist : Int := 0
  transferArr : Int := -1
  arrival : Int := -1
  numTransfers : Int := -1
  accessWalk : Int := -1
  egressWalk : Int := -1
  accessWait : Int := -1
  steps : List Step := []

def sumRange (l : List Int) (a b : Nat) : Int := ((l.drop a).take (b + 1 - a)).sum   -- Σ l[a..b]

def nextWaitOf (mw : Int) (next : Option JStep) : Int :=
  match next with
  | some nx => match nx.enter with
    | some e => e.effWait mw
    | none => 0
  | none => 0

/-- in-vehicle distance of a leg: Σ segment distances when they are available, else -1 -/
def legIvd (ds : Dataset) (e x : Conn) : Int :=
  let dists := (ds.pathOfTrip e.trip).dist
  if x.seq - 1 < dists.length then sumRange dists (e.seq - 1) (x.seq - 1) else -1

def legHasDist (ds : Dataset) (e x : Conn) : Bool := decide (x.seq - 1 < (ds.pathOfTrip e.trip).dist.length)

/-- a leg (both connections present) at index `i` of `n`; written field by field - the C++ code
    performs the same updates one after the other (`reverse_journey.cpp:84-190`) -/
def emitLeg (ds : Dataset) (mw : Int) (n : Nat) (a : EAcc) (i : Nat) (js : JStep) (e x : Conn) (next : Option JStep) : EAcc :=
  let ivt := x.arr - e.dep
  let wait := e.dep - a.transferArr
  let tArr := x.arr + js.walk
  let xf := ds.transferable e.trip
  let hd := legHasDist ds e x
  let ivd := legIvd ds e x
  let mid := decide (i + 2 < n)
  let asWalk := hd && xf          -- a `transferable` leg with distances is booked as walking
  let d1 : Int := if hd then a.totalDist + ivd else -1
  { a with
    totalIVT := a.totalIVT + ivt
    totalWait := a.totalWait + wait
    numTransfers := if xf then a.numTransfers else a.numTransfers + 1
    transferArr := tArr
    arrival := x.arr
    totalDist := if mid then (if d1 ≠ -1 then d1 + js.dist else d1) else d1
    totalWalkDist := a.totalWalkDist + (if asWalk then ivd else 0) + (if mid then js.dist else 0)
    totalWalk := a.totalWalk + (if asWalk then ivt else 0) + (if mid then js.walk else 0)
    totalTransferDist := a.totalTransferDist + (if asWalk then ivd else 0) + (if mid then js.dist else 0)
    totalTransferWalk := a.totalTransferWalk + (if asWalk then ivt else 0) + (if mid then js.walk else 0)
    totalIVD := if hd then (if xf then a.totalIVD else a.totalIVD + ivd) else -1
    accessWait := if i = 1 then wait else a.accessWait
    totalTransferWait := if i = 1 then a.totalTransferWait else a.totalTransferWait + wait
    steps := a.steps ++ [Step.board e.trip e.seq e.depStop e.dep wait, Step.unboard e.trip x.seq x.arrStop x.arr ivt ivd]
              ++ (if mid then [Step.walk 1 js.walk js.dist x.arr tArr (tArr + nextWaitOf mw next)] else []) }

/-- the access step (index 0) -/
def emitAccess (mw bestDep : Int) (a : EAcc) (js : JStep) (next : Option JStep) : EAcc :=
  let tArr := bestDep + js.walk
  { a with
    totalDist := if a.totalDist ≠ -1 then a.totalDist + js.dist else a.totalDist
    totalWalkDist := a.totalWalkDist + js.dist
    transferArr := tArr
    totalWalk := a.totalWalk + js.walk
    accessWalk := js.walk
    accessDist := js.dist
    steps := a.steps ++ [Step.walk 0 js.walk js.dist bestDep tArr (tArr + nextWaitOf mw next)] }

/-- the egress step (a step without connections at an index other than 0) -/
def emitEgress (a : EAcc) (js : JStep) : EAcc :=
  { a with
    totalDist := if a.totalDist ≠ -1 then a.totalDist + js.dist else a.totalDist
    totalWalkDist := a.totalWalkDist + js.dist
    totalWalk := a.totalWalk + js.walk
    egressWalk := js.walk
    transferArr := a.arrival + js.walk
    egressDist := js.dist
    arrival := a.arrival + js.walk
    steps := a.steps ++ [Step.walk 2 js.walk js.dist a.arrival (a.arrival + js.walk) 0] }

/-- one journey step at index `i` of `n`; `next` is `journey[i+1]` -/
def emitStep (ds : Dataset) (mwDflt bestDep : Int) (n : Nat) (a : EAcc) (i : Nat) (js : JStep) (next : Option JStep) : EAcc :=
  match js.enter, js.exit with
  | some e, some x => emitLeg ds mwDflt n a i js e x next
  | _, _ => if i = 0 then emitAccess mwDflt bestDep a js next else emitEgress a js

def emitLoop (ds : Dataset) (mwDflt bestDep : Int) (n : Nat) : List JStep → Nat → EAcc → EAcc
  | [], _, a => a
  | js :: rest, i, a => emitLoop ds mwDflt bestDep n rest (i+1) (emitStep ds mwDflt bestDep n a i js rest.head?)

def emit (ds : Dataset) (mwDflt bestDep : Int) (journey : List JStep) : Route :=
  let a := emitLoop ds mwDflt bestDep journey.length journey 0 {}
  { departureTime := bestDep, arrivalTime := a.arrival, totalTravelTime := a.arrival - bestDep,
    totalDistance := a.totalDist, totalInVehicleTime := a.totalIVT, totalInVehicleDistance := a.totalIVD,
    totalNonTransitTravelTime := a.totalWalk, totalNonTransitDistance := a.totalWalkDist,
    numberOfBoardings := a.numTransfers + 1,
    numberOfTransfers := if a.numTransfers = -1 then 0 else a.numTransfers,
    transferWalkingTime := a.totalTransferWalk, transferWalkingDistance := a.totalTransferDist,
    accessTravelTime := a.accessWalk, accessDistance := a.accessDist,
    egressTravelTime := a.egressWalk, egressDistance := a.egressDist,
    transferWaitingTime := a.totalTransferWait, firstWaitingTime := a.accessWait,
    totalWaitingTime := a.totalWait, steps := a.steps }

end Tr
