/-
  TrVerif.Model.ParamsDriver — concrete `Env` and line protocol for the parameter model
  (`trmodel --classify <file>`), used by the C18 check to compare the model's classification of every
  generated request with the real server's answer.

    env <hex id of a scenario with services>* ; <hex id of a scenario without services>*
    req <route|accessibility> <data status> <hexkey>=<hexvalue> ...
  -> one line per `req`:  dataerror <code> | 400 <code> | 200 time=<t> tt=<0|1> alt=<0|1> | ? (a coordinate the
     recogniser below does not decide: huge exponents)
-/
import TrVerif.Model.Params
import TrVerif.Model.Driver
namespace Tr.Par

def hexVal (c : Char) : Nat :=
  if c.isDigit then c.toNat - 48 else if 'a' ≤ c ∧ c ≤ 'f' then c.toNat - 87 else if 'A' ≤ c ∧ c ≤ 'F' then c.toNat - 55 else 0

def unhex (s : String) : String :=
  let rec go : List Char → List Char
    | a :: b :: rest => Char.ofNat (hexVal a * 16 + hexVal b) :: go rest
    | _ => []
  String.ofList (go s.toList)

def isHexDigit (c : Char) : Bool := c.isDigit || ('a' ≤ c && c ≤ 'f') || ('A' ≤ c && c ≤ 'F')
def lower (cs : List Char) : List Char := cs.map Char.toLower

/-- digits+ at the front: (number of digits, rest) -/
def spanDigits (p : Char → Bool) (cs : List Char) : Nat × List Char := ((cs.takeWhile p).length, cs.dropWhile p)

/-- optional exponent `[eE][+-]?digits+`; none = malformed (then `stod` stops before it: not a full match);
    some (ndigits, rest) -/
def expPart (marker : Char) (cs : List Char) : Option (Nat × List Char) :=
  match cs with
  | [] => some (0, [])
  | c :: r =>
    if c.toLower = marker then
      let r := match r with | '+' :: r' => r' | '-' :: r' => r' | _ => r
      let (n, rest) := spanDigits Char.isDigit r
      if n = 0 then none else some (n, rest)
    else some (0, cs)

/-- does `std::stod` read the whole text without throwing?  `none` = not decided here (exponent or mantissa so long
    that overflow / underflow - `out_of_range` - is possible) -/
def stodOk (s : String) : Option Bool :=
  let cs := s.toList.dropWhile isSpace
  let cs := match cs with | '+' :: r => r | '-' :: r => r | _ => cs
  let l := lower cs
  if l = "inf".toList ∨ l = "infinity".toList ∨ l = "nan".toList then some true
  else if l.take 4 = "nan(".toList then
    let inner := (l.drop 4)
    some (inner.getLast? = some ')' && (inner.dropLast).all (fun c => c.isAlphanum || c = '_'))
  else if l.take 2 = "0x".toList then
    let r := cs.drop 2
    let (n1, r1) := spanDigits isHexDigit r
    let (n2, r2) := match r1 with
      | '.' :: r' => spanDigits isHexDigit r'
      | _ => (0, r1)
    if n1 + n2 = 0 then some false
    else match expPart 'p' r2 with
      | none => some false
      | some (ne, rest) => if ne > 3 ∨ n1 + n2 > 200 then none else some rest.isEmpty
  else
    let (n1, r1) := spanDigits Char.isDigit cs
    let (n2, r2) := match r1 with
      | '.' :: r' => spanDigits Char.isDigit r'
      | _ => (0, r1)
    if n1 + n2 = 0 then some false
    else match expPart 'e' r2 with
      | none => some false
      | some (ne, rest) => if ne > 2 ∨ n1 + n2 > 200 then none else some rest.isEmpty

def classifyLine (known empty : List String) (ws : List String) : String :=
  match ws with
  | ep :: status :: kvs =>
    let ps : List (String × String) := kvs.filterMap fun kv => match kv.splitOn "=" with
      | [k, v] => some (unhex k, unhex v)
      | [k] => some (unhex k, "")
      | _ => none
    let undecided := ps.any fun kv => (kv.1 = "origin" || kv.1 = "destination" || kv.1 = "place") &&
      (kv.2.splitOn ",").any (fun t => (stodOk t).isNone)
    if undecided then "?" else
    let env : Env := ⟨coordOfStod (fun t => (stodOk t).getD false),
      fun v => if known.contains v then some false else if empty.contains v then some true else none⟩
    match handle env status (ep = "accessibility") ps with
    | .dataError c => s!"dataerror {c}"
    | .queryError c => s!"400 {c}"
    | .calc c alt => s!"200 time={c.time} tt={if c.forward then 0 else 1} alt={if alt then 1 else 0}"
  | _ => "bad-line"

def classifyAll (lines : List String) : List String :=
  (lines.foldl (fun (st : (List String × List String) × List String) l =>
    match words l with
    | "env" :: rest =>
      let g := splitSemi rest
      (((g.getD 0 []).map unhex, (g.getD 1 []).map unhex), st.2)
    | "req" :: rest => (st.1, st.2 ++ [classifyLine st.1.1 st.1.2 rest])
    | _ => st) (([], []), [])).2

end Tr.Par
