/-
  TrVerif.Model.Refresh — the running server as a whole: data in memory, the scenario cache, the
  `dataStatus` variable of `main()` that the three endpoints test first (data_error fast path),
  and `/updateCache` (`transit_routing_http_server.cpp:148-300`, `TransitData::update*`,
  `transit_data.cpp:88-160`).

  Granularity: a cache kind is a field group of `Dataset` (what `CacheFetcher` reads for that
  kind); trips resolve lines / paths / services by identifier, as the loaders resolve them in the
  maps in memory at the time of the call. Data sources, persons and OD trips are not read by any
  calculation: their update calls leave the model state unchanged.

  The order of the update calls and the name of each call are *generated* from the handler
  (`Gen.updateCacheNames`), the order of the emptiness tests of `getDataStatus` likewise
  (`Gen.dataStatusOrder`), the status -> errorCode table too (`Gen.dataStatusCodes`).
-/
import TrVerif.Model.Server
namespace Tr

/-- size of the collection `getDataStatus` tests under that name -/
def Dataset.count (ds : Dataset) (coll : String) : Nat :=
  if coll = "agencies" then ds.nAgencies
  else if coll = "services" then ds.nServices
  else if coll = "nodes" then ds.nStops
  else if coll = "lines" then ds.lines.length
  else if coll = "paths" then ds.paths.length
  else if coll = "scenarios" then ds.scenarios.length
  else if coll = "trips" then ds.trips.length
  else 1

/-- `TransitData::getDataStatus`: the status of the first empty collection in source order -/
def statusFrom (order : List (String × String)) (ds : Dataset) : String :=
  match order.find? (fun p => ds.count p.1 = 0) with
  | some p => p.2
  | none => "READY"

def dataStatusOf (ds : Dataset) : String := statusFrom Gen.dataStatusOrder ds

/-- `getFastErrorResponse`: "" when ready, else the errorCode of the data_error body -/
def fastError (status : String) : String := (Gen.dataStatusCodes.lookup status).getD "PARAM_ERROR_UNKNOWN"

structure Live where
  ds : Dataset
  srv : Server
  status : String

/-- start-up on the files `disk` -/
def Live.start (disk : Dataset) (cacheAll : Bool) : Live :=
  { ds := disk, srv := Server.init cacheAll, status := dataStatusOf disk }

/-- one GET to /v2/route | summary | accessibility -/
def Live.handle (l : Live) (r : Request) : Live × String :=
  if fastError l.status = "" then
    let o := Tr.handle l.ds l.srv r
    ({ l with srv := o.1 }, o.2)
  else (l, s!"{r.kind} data_error {fastError l.status}")

def Live.run (l : Live) (h : List Request) : Live := h.foldl (fun l r => (l.handle r).1) l

/-- `ScenarioConnectionCache*::clear` -/
def Server.clear (s : Server) : Server := { s with cache := [] }

/-- one `TransitData::update*` call re-reading its kind from `disk` -/
def applyUpdate (disk : Dataset) (fn : String) (l : Live) : Live :=
  if fn = "updateAgencies" then { l with ds := { l.ds with nAgencies := disk.nAgencies } }
  else if fn = "updateServices" then { l with ds := { l.ds with nServices := disk.nServices } }
  else if fn = "updateNodes" then { l with ds := { l.ds with nStops := disk.nStops, foot := disk.foot } }
  else if fn = "updateLines" then { l with ds := { l.ds with lines := disk.lines } }
  else if fn = "updatePaths" then { l with ds := { l.ds with paths := disk.paths } }
  else if fn = "updateScenarios" then { l with ds := { l.ds with scenarios := disk.scenarios }, srv := l.srv.clear }
  else if fn = "updateSchedules" then { l with ds := { l.ds with trips := disk.trips }, srv := l.srv.clear }
  else l

/-- the body of the handler's loop for one cache name -/
def updateName (disk : Dataset) (l : Live) (name : String) : Live :=
  Gen.updateCacheNames.foldl (fun l p => if name = p.1 ∨ name = "all" then applyUpdate disk p.2 l else l) l

def knownName (name : String) : Bool := name = "all" || Gen.updateCacheNames.any (·.1 = name)

/-- GET /updateCache?names=… with the files `disk` on disk -/
def updateCache (disk : Dataset) (l : Live) (names : List String) : Live :=
  let l' := names.foldl (updateName disk) l
  if names.any knownName then { l' with status := dataStatusOf l'.ds } else l'

end Tr
