/-
  TrVerif.Model.Encode — the cache directory that ENCODES an abstract dataset, at record level
  (the `encode` of property C16). `harness/cachegen.cpp` writes exactly these records with the
  repository's compiled schemas; `check/loader_corr.py` compares `decode (cachegen ds)` with
  `printRecords (encode ds)` on every generated dataset.

  Identifiers: integer `i` of kind `k` is the uuid `00000000-0000-0000-kkkk-iiiiiiiiiiii`, i.e. the
  128-bit value `k * 2^48 + i` (1 stop, 2 agency, 3 service, 4 line, 5 path, 6 scenario, 7 trip).
-/
import TrVerif.Model.Load
namespace Tr.Load

def K (kind i : Nat) : Nat := kind * 281474976710656 + i

def modeName (m : Nat) : String := if m = 0 then "bus" else if m = 1 then "rail" else "transferable"

def encFootFile (ds : Dataset) (s : Nat) : NodeFile :=
  let l := ds.footOf s
  ⟨l.map (fun x => .id (K 1 x.stop)), l.map (·.time), l.map (·.dist)⟩

def encSegs (p : PathRec) : List (SegV × SegV) :=
  (List.range p.stops.length).map fun (k : Nat) =>
    match p.dist[k]? with
    | some d => (.num d, .num ((1000 + k : Nat) : Int))
    | none => (.absent, .absent)

def encScenario (i : Nat) (sc : Scenario) : ScenR :=
  let u (kind : Nat) (l : List Nat) : List Tok := l.map fun x => .u (.id (K kind x))
  let m (l : List Nat) : List Tok := l.map fun x => .s (modeName x)
  ⟨.id (K 6 i), .empty,
   [u 3 sc.services, u 4 sc.onlyLines, u 2 sc.onlyAgencies, [], m sc.onlyModes,
    u 4 sc.exceptLines, u 2 sc.exceptAgencies, [], m sc.exceptModes]⟩

def encTrip (t : TripRec) : TripR :=
  ⟨.id (K 7 t.id), .id (K 5 t.path), t.arr, t.dep, t.cb.map (fun b => if b then 1 else 0), t.cu.map (fun b => if b then 1 else 0)⟩

/-- trips of line `li`, in dataset order -/
def tripsOfLine (ds : Dataset) (li : Nat) : List TripRec :=
  ds.trips.filter fun t => (ds.paths.getD t.path default).line = li

/-- services of those trips in order of first appearance -/
def servicesOf (ts : List TripRec) : List Nat := (ts.map (·.service)).eraseDups

def encLineFile (ds : Dataset) (li : Nat) : List LItem :=
  let ts := tripsOfLine ds li
  (servicesOf ts).flatMap fun sv =>
    [LItem.sched (.id (K 3 sv)), LItem.period] ++ ((ts.filter (·.service = sv)).map fun t => LItem.trip (encTrip t))

def encode (ds : Dataset) : Disk :=
  { agencies := (.ok, (List.range ds.nAgencies).map fun i => .id (K 2 i)),
    services := (.ok, (List.range ds.nServices).map fun i => .id (K 3 i)),
    nodes := (.ok, (List.range ds.nStops).map fun i => .id (K 1 i)),
    nodeFiles := (List.range ds.nStops).map fun i => (K 1 i, some (encFootFile ds i)),
    lines := (.ok, ds.lines.mapIdx fun i l => ⟨.id (K 4 i), .id (K 2 l.agency), modeName l.mode⟩),
    paths := (.ok, ds.paths.mapIdx fun i p => ⟨.id (K 5 i), .id (K 4 p.line), p.stops.map (fun s => .id (K 1 s)), some (encSegs p)⟩),
    scenarios := (.ok, ds.scenarios.mapIdx encScenario),
    lineFiles := (List.range ds.lines.length).map fun li => (K 4 li, some (encLineFile ds li)) }

end Tr.Load
