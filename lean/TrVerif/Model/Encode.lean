/-
  TrVerif.Model.Encode — the cache directory that ENCODES an abstract dataset, at record level
  (the `encode` of property C16). `harness/cachegen.cpp` writes exactly these records with the
  repository's compiled schemas; `check/loader_corr.py` compares `decode (cachegen ds)` with
  `printRecords (encode ds)` on every generated dataset.

  Identifiers: integer `i` of kind `k` is the uuid `00000000-0000-0000-kkkk-iiiiiiiiiiii`, i.e. the
  128-bit value `k * 2^48 + i` (1 stop, 2 agency, 3 service, 4 line, 5 path, 6 scenario, 7 trip).

  Lists that carry their position in the identifier are written as `…From i` recursions (record
  number `i`, `i+1`, …) so that the round-trip proofs are plain inductions.
-/
import TrVerif.Model.Load
namespace Tr.Load

def K (kind i : Nat) : Nat := kind * 281474976710656 + i

def modeName (m : Nat) : String := if m = 0 then "tram" else if m = 1 then "tramTrain" else "transferable"

/-- uuid texts `K k i, K k (i+1), …` (`n` of them) -/
def idsFrom (k : Nat) : Nat → Nat → List UTok
  | _, 0 => []
  | i, n+1 => .id (K k i) :: idsFrom k (i+1) n

def encFootFile (ds : Dataset) (s : Nat) : NodeFile :=
  let l := ds.footOf s
  ⟨l.map (fun x => .id (K 1 x.stop)), l.map (·.time), l.map (·.dist)⟩

def nodeFilesFrom (ds : Dataset) : Nat → Nat → List (Nat × Option NodeFile)
  | _, 0 => []
  | i, n+1 => (K 1 i, some (encFootFile ds i)) :: nodeFilesFrom ds (i+1) n

/-- JSON segments of a path: one object per encoded distance, read for the indices `k, k+1, …` -/
def encSegsFrom (dist : List Int) : Nat → Nat → List (SegV × SegV)
  | _, 0 => []
  | k, n+1 => (match dist[k]? with
      | some d => (SegV.num d, SegV.num ((1000 + k : Nat) : Int))
      | none => (SegV.absent, SegV.absent)) :: encSegsFrom dist (k+1) n

def encSegs (p : PathRec) : List (SegV × SegV) := encSegsFrom p.dist 0 p.stops.length

def encLinesFrom : Nat → List LineRec → List LineR
  | _, [] => []
  | i, l :: ls => ⟨.id (K 4 i), .id (K 2 l.agency), modeName l.mode⟩ :: encLinesFrom (i+1) ls

def encPathsFrom : Nat → List PathRec → List PathR
  | _, [] => []
  | i, p :: ps => ⟨.id (K 5 i), .id (K 4 p.line), p.stops.map (fun s => .id (K 1 s)), some (encSegs p)⟩ :: encPathsFrom (i+1) ps

def encScenario (i : Nat) (sc : Scenario) : ScenR :=
  let u (kind : Nat) (l : List Nat) : List Tok := l.map fun x => .u (.id (K kind x))
  let m (l : List Nat) : List Tok := l.map fun x => .s (modeName x)
  ⟨.id (K 6 i), .empty,
   [u 3 sc.services, u 4 sc.onlyLines, u 2 sc.onlyAgencies, [], m sc.onlyModes,
    u 4 sc.exceptLines, u 2 sc.exceptAgencies, [], m sc.exceptModes]⟩

def encScenariosFrom : Nat → List Scenario → List ScenR
  | _, [] => []
  | i, s :: ss => encScenario i s :: encScenariosFrom (i+1) ss

def b2i (b : Bool) : Int := if b then 1 else 0

def encTrip (t : TripRec) : TripR :=
  ⟨.id (K 7 t.id), .id (K 5 t.path), t.arr, t.dep, t.cb.map b2i, t.cu.map b2i⟩

/-- trips of line `li`, in dataset order -/
def tripsOfLine (ds : Dataset) (li : Nat) : List TripRec :=
  ds.trips.filter fun t => (ds.paths.getD t.path default).line = li

/-- services of those trips in order of first appearance -/
def servicesOf (ts : List TripRec) : List Nat := (ts.map (·.service)).eraseDups

def encSchedule (ts : List TripRec) (sv : Nat) : List LItem :=
  [LItem.sched (.id (K 3 sv)), LItem.period] ++ ((ts.filter (·.service = sv)).map fun t => LItem.trip (encTrip t))

def encLineFile (ds : Dataset) (li : Nat) : List LItem :=
  let ts := tripsOfLine ds li
  (servicesOf ts).flatMap (encSchedule ts)

def lineFilesFrom (ds : Dataset) : Nat → Nat → List (Nat × Option (List LItem))
  | _, 0 => []
  | i, n+1 => (K 4 i, some (encLineFile ds i)) :: lineFilesFrom ds (i+1) n

def encode (ds : Dataset) : Disk :=
  { agencies := (.ok, idsFrom 2 0 ds.nAgencies),
    services := (.ok, idsFrom 3 0 ds.nServices),
    nodes := (.ok, idsFrom 1 0 ds.nStops),
    nodeFiles := nodeFilesFrom ds 0 ds.nStops,
    lines := (.ok, encLinesFrom 0 ds.lines),
    paths := (.ok, encPathsFrom 0 ds.paths),
    scenarios := (.ok, encScenariosFrom 0 ds.scenarios),
    lineFiles := lineFilesFrom ds 0 ds.lines.length }

end Tr.Load
