/-
  TrVerif.Model.Concurrent — interleaving semantics of concurrent handler invocations.

  A worker thread serving a request performs, in this order (`transit_data.cpp:354-485`,
  `resets.cpp:221-225`, `connection_cache.cpp`):
    parse                      thread-local
    get        (shared lock)   atomic w.r.t. `set`; hit -> holds a shared_ptr to the cached set
    compute    thread-local    on a miss: builds the connection set of its scenario
    set        (unique lock)   atomic; publishes the new set (One: replaces the single entry)
    use        thread-local    scans with the set it holds (a `std::shared_ptr`: the object lives
                               as long as the thread holds it, whatever happens to the cache)
  The four yield points of the TRROUTING_VERIF hook sit exactly between these actions.
  Assumed, not derived (trusted base): a critical section is atomic, `std::shared_ptr` keeps its
  object alive; that the code takes these locks / holds shared ownership is read off the source by
  the translator (`Gen.facts`).
-/
import TrVerif.Model.Server
namespace Tr

inductive Pc
  | start
  | ready (p : Params)                 -- parsed, about to call `get`
  | missed (p : Params)                -- `get` missed, about to compute
  | computed (p : Params) (cs : ConnSet)   -- computed, about to `set`
  | holding (p : Params) (cs : ConnSet)    -- holds a reference, about to scan
  | done (resp : String)

structure Thread where
  req : Request
  pc : Pc

structure World where
  srv : Server
  threads : List Thread

/-- one atomic action of thread `t` on the shared cache -/
def threadStep (ds : Dataset) (srv : Server) (t : Thread) : Server × Thread :=
  match t.pc with
  | .start =>
    match parseParams ds t.req.kvs with
    | .error e => (srv, { t with pc := .done s!"{t.req.kind} query_error {paramErrorType e}" })
    | .ok p =>
      if reachesFilters ds t.req.kind p then (srv, { t with pc := .ready p })
      else (srv, { t with pc := .done (respond ds (mkConnSet [] [] []) t.req.kind p) })
  | .ready p =>
    match srv.get p.scenario with
    | some cs => (srv, { t with pc := .holding p cs })
    | none => (srv, { t with pc := .missed p })
  | .missed p => (srv, { t with pc := .computed p (ds.connSetOf (ds.scenarios.getD p.scenario default)) })
  | .computed p cs => (srv.set p.scenario cs, { t with pc := .holding p cs })
  | .holding p cs => (srv, { t with pc := .done (respond ds cs t.req.kind p) })
  | .done r => (srv, { t with pc := .done r })

/-- the scheduler picks thread `i` (out-of-range picks are no-ops) -/
def worldStep (ds : Dataset) (w : World) (i : Nat) : World :=
  match w.threads[i]? with
  | none => w
  | some t =>
    let (srv', t') := threadStep ds w.srv t
    { srv := srv', threads := w.threads.set i t' }

def runSchedule (ds : Dataset) (w : World) (sched : List Nat) : World := sched.foldl (worldStep ds) w

def World.init (cacheAll : Bool) (reqs : List Request) : World :=
  { srv := Server.init cacheAll, threads := reqs.map fun r => { req := r, pc := .start } }

end Tr
