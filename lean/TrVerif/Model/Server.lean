/-
  TrVerif.Model.Server — the state shared between requests: the per-scenario connection-set
  cache (`ScenarioConnectionCacheOne` / `ScenarioConnectionCacheAll`, `connection_cache.cpp`),
  `TransitData::getConnectionsForScenario` (`transit_data.cpp:354-485`) and the request handlers
  (`transit_routing_http_server.cpp:301-502`): every handler invocation builds its own
  `Calculator`, so the cache is the only state one request leaves for the next.
-/
import TrVerif.Model.Driver
namespace Tr

structure Request where
  kind : String                 -- "route" | "summary" | "accessibility"
  kvs : List String             -- `key=value` words
deriving Repr, Inhabited, DecidableEq

structure Server where
  cacheAll : Bool               -- `--cacheAllConnectionSets`
  cache : List (Nat × ConnSet)  -- One: at most the last entry; All: every scenario computed so far
deriving Inhabited

def Server.init (cacheAll : Bool) : Server := { cacheAll, cache := [] }

/-- `ScenarioConnectionCache*::get` -/
def Server.get (s : Server) (sc : Nat) : Option ConnSet := (s.cache.find? (·.1 = sc)).map (·.2)

/-- `ScenarioConnectionCache*::set` -/
def Server.set (s : Server) (sc : Nat) (cs : ConnSet) : Server :=
  if s.cacheAll then { s with cache := (sc, cs) :: s.cache.filter (·.1 ≠ sc) }
  else { s with cache := [(sc, cs)] }

/-- `TransitData::getConnectionsForScenario`: cache hit, or compute and publish -/
def obtain (ds : Dataset) (s : Server) (sc : Nat) : ConnSet × Server :=
  match s.get sc with
  | some cs => (cs, s)
  | none =>
    let cs := ds.connSetOf (ds.scenarios.getD sc default)
    (cs, s.set sc cs)

/-- does the calculation get as far as `resetFilters` (where the connection set is obtained)?
    `Calculator::reset` throws before that when the walking router offers no stop -/
def reachesFilters (ds : Dataset) (kind : String) (p : Params) : Bool :=
  if kind = "accessibility" then
    if p.forward then !(routerLookup ds.access p.maxAccess).isEmpty else !(routerLookup ds.egress p.maxEgress).isEmpty
  else !(routerLookup ds.access p.maxAccess).isEmpty && !(routerLookup ds.egress p.maxEgress).isEmpty

/-- the response computed with connection set `cs` -/
def respond (ds : Dataset) (cs : ConnSet) (kind : String) (p : Params) : String :=
  if kind = "route" then renderRouteAnswerCS ds cs p
  else if kind = "summary" then renderSummaryAnswerCS ds cs p
  else renderAccessibilityAnswerCS ds cs { p with alternatives := false }

/-- one handler invocation -/
def handle (ds : Dataset) (s : Server) (r : Request) : Server × String :=
  match parseParams ds r.kvs with
  | .error e => (s, s!"{r.kind} query_error {paramErrorType e}")
  | .ok p =>
    if reachesFilters ds r.kind p then
      let (cs, s') := obtain ds s p.scenario
      (s', respond ds cs r.kind p)
    else
      -- the connection set is never consulted: any value gives the same "no access" answer
      (s, respond ds (mkConnSet [] [] []) r.kind p)

def run (ds : Dataset) (s : Server) (h : List Request) : Server := h.foldl (fun s r => (handle ds s r).1) s

end Tr
