/-
  TrVerif.Model.Osrm — what the walking-router client makes of a reply
  (`OsrmGeoFilter::getAccessibleNodesFootpathsFromPoint`, `src/osrmgeofilter.cpp:17-115`) and how
  a request is answered when a look-up fails (`resets.cpp`, the catch-all of the handlers).

  Sockets, time-outs and the HTTP client are not modelled: a reply is abstracted to what the
  client code distinguishes. `candidates` are the stops sent in the request (after the
  bird-distance pre-filter), in request order; entry i of the table row answers candidate i-1.
-/
import TrVerif.Model.Server
namespace Tr

inductive Body where
  | unparsable                                   -- empty or not JSON: `json::parse` throws
  | noTable                                      -- `durations` / `distances` absent or null, or their row 0 null
  | rows (dur dist : List (Option Nat))          -- row 0 of both tables; `none` = a JSON null entry
deriving Repr, DecidableEq

inductive Reply where
  | transport                                    -- connect refused, connection dropped or cut short: `request()` throws, caught in place
  | http (is200 : Bool) (b : Body)
deriving Repr, DecidableEq

inductive RLookup where
  | stops (l : List NTD)
  | throws                                       -- an exception leaves the look-up (caught by the handler's catch-all)
deriving Repr, DecidableEq

/-- the loop over `durations[0][1..]` -/
def rowsLoop (cands : List Nat) (maxT : Nat) (dur dist : List (Option Nat)) : Nat → Nat → List NTD → RLookup
  | 0, _, acc => .stops acc
  | fuel + 1, i, acc =>
    match dur[i]? with
    | none => .stops acc                                      -- i = numberOfDurations: the loop ends
    | some none => .throws                                    -- (float) of null: type_error
    | some (some t) =>
      if t ≤ maxT then
        match dist[i]? with
        | some (some d) =>
          match cands[i - 1]? with
          | some c => rowsLoop cands maxT dur dist fuel (i + 1) (acc ++ [⟨c, t, d⟩])
          | none => .throws                                    -- more entries than requested: out of the property's scope (undefined behaviour in C++)
        | _ => .throws                                         -- null, or past the end (operator[] yields null)
      else rowsLoop cands maxT dur dist fuel (i + 1) acc

def lookup (cands : List Nat) (maxT : Nat) : Reply → RLookup
  | .transport => .stops []
  | .http false _ => .stops []
  | .http true .unparsable => .throws
  | .http true .noTable => .stops []
  | .http true (.rows dur dist) =>
    if dur.length > 0 ∧ dist.length > 0 then rowsLoop cands maxT dur dist dur.length 1 [] else .stops []

/-- the stub's fault names (check/osrm_stub.py) as abstract replies, for a healthy row `dur`, `dist` -/
def faultReply (name : String) (dur dist : List (Option Nat)) : Reply :=
  if name = "refuse" ∨ name = "drop" ∨ name = "truncate" then .transport
  else if name = "http500" ∨ name = "http503late" then .http false .unparsable
  else if name = "empty" ∨ name = "nonjson" then .http true .unparsable
  else if name = "nodurations" then .http true .noTable
  else if name = "nulls" then .http true (.rows (dur.map fun _ => none) dist)
  else if name = "fewer" then .http true (.rows dur.dropLast dist.dropLast)
  else .http true (.rows dur dist)

def RLookup.isThrow : RLookup → Bool
  | .throws => true
  | .stops _ => false

def RLookup.get : RLookup → List NTD
  | .stops l => l
  | .throws => []

/-- what the two look-ups of one request returned -/
structure RouterView where
  access : RLookup
  egress : RLookup

def Dataset.withRouter (ds : Dataset) (a e : List NTD) : Dataset := { ds with access := a, egress := e }

/-- does a look-up this request really makes throw? (an invalid request makes none) -/
def throwsFor (ds : Dataset) (v : RouterView) (r : Request) : Bool :=
  match parseParams ds r.kvs with
  | .error _ => false
  | .ok p =>
    if r.kind = "accessibility" then (if p.forward then v.access.isThrow else v.egress.isThrow)
    else v.access.isThrow || v.egress.isThrow

/-- one handler invocation under the router behaviour `v` -/
def handleView (ds : Dataset) (s : Server) (v : RouterView) (r : Request) : Server × String :=
  if throwsFor ds v r then (s, s!"{r.kind} query_error PARAM_ERROR_UNKNOWN")
  else handle (ds.withRouter v.access.get v.egress.get) s r

def runViews (ds : Dataset) (s : Server) (h : List (RouterView × Request)) : Server :=
  h.foldl (fun s vr => (handleView ds s vr.1 vr.2).1) s

end Tr
