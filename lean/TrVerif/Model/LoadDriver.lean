/-
  TrVerif.Model.LoadDriver — reads the RECORDS text of `harness/decode.cpp`, runs the loader model,
  prints the LOADED text that `harness/loader_harness.cpp` prints for the real loader
  (`notes/loader-protocol.md`).
-/
import TrVerif.Model.Encode
import TrVerif.Model.Driver
namespace Tr.Load

def parseU (s : String) : UTok :=
  if s = "bad" then .bad else if s = "empty" then .empty else
  match s.toNat? with
  | some n => .id n
  | none => .bad

def parseSt (s : String) : FSt := if s = "ok" then .ok else if s = "missing" then .missing else .bad

def parseSegV (s : String) : SegV :=
  if s = "-" then .absent else match s.toInt? with | some n => .num n | none => .wrong

/-- `J<d>,<t>` -/
def parseSeg (s : String) : SegV × SegV :=
  match (s.drop 1).toString.splitOn "," with
  | [d, t] => (parseSegV d, parseSegV t)
  | _ => (.wrong, .wrong)

structure PState where
  d : Disk := {}
  /-- the open line file: (line id, items so far) -/
  cur : Option (Nat × List LItem) := none

def PState.close (p : PState) : PState :=
  match p.cur with
  | none => p
  | some (k, items) => { d := { p.d with lineFiles := p.d.lineFiles ++ [(k, some items)] }, cur := none }

def addItem (p : PState) (i : LItem) : PState :=
  match p.cur with
  | some (k, items) => { p with cur := some (k, items ++ [i]) }
  | none => p

def recLine (p : PState) (ws : List String) : PState :=
  let d := p.d
  match ws with
  | "agencies" :: st :: us => { p with d := { d with agencies := (parseSt st, us.map parseU) } }
  | "services" :: st :: us => { p with d := { d with services := (parseSt st, us.map parseU) } }
  | "nodes" :: st :: us => { p with d := { d with nodes := (parseSt st, us.map parseU) } }
  | "nodefile" :: k :: st :: rest =>
    let g := splitSemi rest
    let f : Option NodeFile := if st = "ok" then
      some ⟨(g.getD 1 []).map parseU, toInts (g.getD 2 []), toInts (g.getD 3 [])⟩ else none
    { p with d := { d with nodeFiles := d.nodeFiles ++ [(k.toNat!, f)] } }
  | ["lines", st] => { p with d := { d with lines := (parseSt st, []) } }
  | ["line", u, a, m] => { p with d := { d with lines := (d.lines.1, d.lines.2 ++ [⟨parseU u, parseU a, m⟩]) } }
  | ["paths", st] => { p with d := { d with paths := (parseSt st, []) } }
  | "path" :: u :: l :: rest =>
    let g := splitSemi rest
    let segs := g.getD 2 []
    let sv : Option (List (SegV × SegV)) := if segs = ["badjson"] then none else some (segs.map parseSeg)
    { p with d := { d with paths := (d.paths.1, d.paths.2 ++ [⟨parseU u, parseU l, (g.getD 1 []).map parseU, sv⟩]) } }
  | ["scenarios", st] => { p with d := { d with scenarios := (parseSt st, []) } }
  | "scenario" :: u :: sim :: rest =>
    let g := splitSemi rest
    let ul (i : Nat) : List Tok := (g.getD i []).map fun s => Tok.u (parseU s)
    let sl (i : Nat) : List Tok := (g.getD i []).map Tok.s
    -- protocol order: svc onlyL exceptL onlyA exceptA onlyN exceptN onlyM exceptM  (groups 1..9)
    -- code order:     svc onlyL onlyA onlyN onlyM exceptL exceptA exceptN exceptM
    let lists := [ul 1, ul 2, ul 4, ul 6, sl 8, ul 3, ul 5, ul 7, sl 9]
    { p with d := { d with scenarios := (d.scenarios.1, d.scenarios.2 ++ [⟨parseU u, parseU sim, lists⟩]) } }
  | ["linefile", k, st] =>
    let p := p.close
    if st = "ok" then { p with cur := some (k.toNat!, []) }
    else { p with d := { p.d with lineFiles := p.d.lineFiles ++ [(k.toNat!, none)] } }
  | ["sched", u] => addItem p (.sched (parseU u))
  | ["period"] => addItem p .period
  | "trip" :: u :: pu :: rest =>
    let g := splitSemi rest
    addItem p (.trip ⟨parseU u, parseU pu, toInts (g.getD 1 []), toInts (g.getD 2 []), toInts (g.getD 3 []), toInts (g.getD 4 [])⟩)
  | _ => p

def parseRecords (lines : List String) : Disk :=
  ((lines.foldl (fun p l => recLine p (words l)) {}).close).d

def sp (l : List String) : String := " ".intercalate l
def nats (l : List Nat) : String := sp (l.map toString)
def b01 (b : Bool) : String := if b then "1" else "0"

def valStr : Val → String
  | .id n => toString n
  | .mode m => m

def ntds (l : List NTDu) : String := "".intercalate (l.map fun x => s!" ; {x.node} {x.time} {x.dist}")

/-- lists of a scenario in protocol order from the code-order storage -/
def scenStr (s : LScen) : String :=
  let g (i : Nat) : String := sp ((s.lists.getD i []).map valStr)
  " ; ".intercalate [g 0, g 1, g 5, g 2, g 6, g 3, g 7, g 4, g 8]

def key (c : LConn) : String := s!"{c.trip}:{c.seq}"

def tidy (s : String) : String := sp (words s)

def printLoaded (td : TD) : List String :=
  (["loaded", s!"datastatus {td.status}", "agencies " ++ nats td.agencies.keys, "services " ++ nats td.services.keys,
    "nodes " ++ nats td.nodes.keys] ++
  td.nodes.flatMap (fun p => [s!"foot {p.1}" ++ ntds p.2.foot, s!"rfoot {p.1}" ++ ntds p.2.rfoot]) ++
  td.lines.map (fun p => s!"line {p.1} {p.2.agency} {p.2.mode}") ++
  td.paths.map (fun p => s!"path {p.1} {p.2.line} ; {nats p.2.nodes} ; {sp (p.2.dist.map toString)}") ++
  td.scenarios.map (fun p => s!"scenario {p.1} ; " ++ scenStr p.2) ++
  td.trips.map (fun p => s!"trip {p.1} {p.2.path} {p.2.line} {p.2.agency} {p.2.mode} {p.2.service}") ++
  td.conns.map (fun c => s!"conn {c.depNode} {c.arrNode} {c.dep} {c.arr} {c.trip} {c.seq} {b01 c.cb} {b01 c.cu} {c.mw}") ++
  ["fwd " ++ sp (td.fwd.map key), "rev " ++ sp (td.rev.map key)] ++
  (if td.ub then ["UB"] else []) ++ ["end"]).map tidy


/-! ### RECORDS text of a `Disk` (the output format of harness/decode.cpp) -/

def uStr : UTok → String
  | .bad => "bad" | .empty => "empty" | .id n => toString n
def stStr : FSt → String
  | .ok => "ok" | .missing => "missing" | .bad => "bad"
def segVStr : SegV → String
  | .num n => toString n | .absent => "-" | .wrong => "x"
def tokStr : Tok → String
  | .u t => uStr t | .s m => m
def ints (l : List Int) : String := sp (l.map toString)

def itemStr : LItem → String
  | .sched u => s!"sched {uStr u}"
  | .period => "period"
  | .trip t => s!"trip {uStr t.uuid} {uStr t.path} ; {ints t.arr} ; {ints t.dep} ; {ints t.cb} ; {ints t.cu}"

def printRecords (d : Disk) : List String :=
  (["records", s!"agencies {stStr d.agencies.1} " ++ sp (d.agencies.2.map uStr), s!"services {stStr d.services.1} " ++ sp (d.services.2.map uStr),
    s!"nodes {stStr d.nodes.1} " ++ sp (d.nodes.2.map uStr)] ++
  d.nodeFiles.map (fun (p : Nat × Option NodeFile) => match p.2 with
    | some f => s!"nodefile {p.1} ok ; {sp (f.uuids.map uStr)} ; {ints f.times} ; {ints f.dists}"
    | none => s!"nodefile {p.1} bad ; ; ;") ++
  [s!"lines {stStr d.lines.1}"] ++ d.lines.2.map (fun (r : LineR) => s!"line {uStr r.uuid} {uStr r.agency} {r.mode}") ++
  [s!"paths {stStr d.paths.1}"] ++ d.paths.2.map (fun (r : PathR) => s!"path {uStr r.uuid} {uStr r.line} ; {sp (r.nodes.map uStr)} ; " ++
      (match r.segs with | none => "badjson" | some l => sp (l.map fun (x : SegV × SegV) => s!"J{segVStr x.1},{segVStr x.2}"))) ++
  [s!"scenarios {stStr d.scenarios.1}"] ++ d.scenarios.2.map (fun (r : ScenR) =>
      let g (i : Nat) : String := sp ((r.lists.getD i []).map tokStr)
      s!"scenario {uStr r.uuid} {uStr r.sim} ; " ++ " ; ".intercalate [g 0, g 1, g 5, g 2, g 6, g 3, g 7, g 4, g 8]) ++
  d.lineFiles.flatMap (fun (p : Nat × Option (List LItem)) => match p.2 with
    | some items => s!"linefile {p.1} ok" :: items.map itemStr
    | none => [s!"linefile {p.1} bad"]) ++ ["end"]).map tidy

end Tr.Load
