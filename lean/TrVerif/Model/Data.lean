/-
  TrVerif.Model.Data — from the dataset to sorted connection lists, per-scenario connection
  sets and their hour index.
  Code modelled: harness/`trips_and_connections_cache_fetcher.cpp:95-123` (connection
  construction), `transit_data.cpp:153-259` (sorting, per-trip lists), `transit_data.cpp:354-485`
  (scenario filter), `connection_set.cpp` (hour index and its two guarded look-ups).
-/
import TrVerif.Model.Basic
namespace Tr

/-! ### connections of a trip -/

/-- connections of one trip: hop `k` goes from stop `k` to stop `k+1` of the path, departs at
    `dep[k]`, arrives at `arr[k+1]`, may be boarded iff `cb[k]`, alighted iff `cu[k+1]`,
    `seq = k+1`. -/
def tripConnsAux (tr : TripRec) (stops : List Nat) (mw : Int) : Nat → Nat → List Conn
  | _, 0 => []
  | k, n+1 =>
    { depStop := stops.getD k 0, arrStop := stops.getD (k+1) 0,
      dep := tr.dep.getD k 0, arr := tr.arr.getD (k+1) 0,
      trip := tr.id, seq := k+1,
      canBoard := tr.cb.getD k true, canUnboard := tr.cu.getD (k+1) true,
      minWait := mw } :: tripConnsAux tr stops mw (k+1) n

def Dataset.tripConns (ds : Dataset) (tr : TripRec) : List Conn :=
  let p := ds.paths.getD tr.path default
  let mw : Int := if (ds.lineRec p.line).mode == 2 then 0 else -1
  tripConnsAux tr p.stops mw 0 (tr.arr.length - 1)

/-- `TransitData::connections` in creation order -/
def Dataset.conns (ds : Dataset) : List Conn := ds.trips.flatMap ds.tripConns

/-! ### stable sorting (`std::stable_sort`) -/

/-- insert `x` before the first element that is not strictly smaller (stable for a foldr) -/
def insertBy {α : Type} (lt : α → α → Bool) (x : α) : List α → List α
  | [] => [x]
  | y :: ys => if lt y x then y :: insertBy lt x ys else x :: y :: ys

def isort {α : Type} (lt : α → α → Bool) (l : List α) : List α := l.foldr (insertBy lt) []

/-- comparator of `transit_data.cpp:172-199`: departure time, trip uuid, sequence — ascending -/
def fwdLt (a b : Conn) : Bool :=
  decide (a.dep < b.dep) || (decide (a.dep = b.dep) &&
    (decide (a.trip < b.trip) || (decide (a.trip = b.trip) && decide (a.seq < b.seq))))

/-- comparator of `transit_data.cpp:202-229`: arrival time, trip uuid, sequence — descending -/
def revLt (a b : Conn) : Bool :=
  decide (a.arr > b.arr) || (decide (a.arr = b.arr) &&
    (decide (a.trip > b.trip) || (decide (a.trip = b.trip) && decide (a.seq > b.seq))))

def Dataset.fwdAll (ds : Dataset) : List Conn := isort fwdLt ds.conns
def Dataset.revAll (ds : Dataset) : List Conn := isort revLt ds.conns

/-- `Trip::forwardConnections` / `Trip::reverseConnections` -/
def Dataset.tripFwd (ds : Dataset) (t : Nat) : List Conn := ds.fwdAll.filter (·.trip = t)
def Dataset.tripRev (ds : Dataset) (t : Nat) : List Conn := ds.revAll.filter (·.trip = t)

/-! ### scenario filter -/

/-- `enabled` of `TransitData::getConnectionsForScenario`, from the attributes of a trip -/
def scenarioAdmits (sc : Scenario) (service line agency mode : Nat) : Bool :=
  (sc.services.isEmpty || sc.services.contains service) &&
  (sc.onlyLines.isEmpty || sc.onlyLines.contains line) &&
  (sc.onlyModes.isEmpty || sc.onlyModes.contains mode) &&
  (sc.onlyAgencies.isEmpty || sc.onlyAgencies.contains agency) &&
  !(sc.exceptLines.contains line) &&
  !(sc.exceptModes.contains mode) &&
  !(sc.exceptAgencies.contains agency)

def Dataset.tripEnabled (ds : Dataset) (sc : Scenario) (t : Nat) : Bool :=
  scenarioAdmits sc (ds.serviceOfTrip t) (ds.lineOfTrip t) (ds.agencyOfTrip t) (ds.modeOfTrip t)

/-! ### hour index -/

def HOUR_END : Nat := 32

/-- forward index: for each connection (position `pos`) `while dep >= hour*3600 { push pos; hour++ }`;
    in closed form the loop pushes `dep/3600 - hour + 1` times when `dep >= hour*3600`. -/
def fwdIndexLoop : List Conn → Nat → Nat → List Nat → Nat × List Nat
  | [], hour, _, acc => (hour, acc)
  | c :: cs, hour, pos, acc =>
    if c.dep ≥ (hour : Int) * 3600 then
      let n := (c.dep / 3600 - hour + 1).toNat
      fwdIndexLoop cs (hour + n) (pos + 1) (acc ++ List.replicate n pos)
    else fwdIndexLoop cs hour (pos + 1) acc

/-- `forwardConnectionsBeginIteratorCache` as positions; `l.length` is the end iterator -/
def fwdIndex (l : List Conn) : List Nat :=
  let (hour, acc) := fwdIndexLoop l 0 0 []
  acc ++ List.replicate (HOUR_END - hour) l.length

/-- inner `while (arr <= hour*3600 && hour > 0) { insert-front pos; hour-- }` -/
def revInner (arr : Int) (pos : Nat) : Nat → List Nat → Nat × List Nat
  | 0, acc => (0, acc)
  | h+1, acc => if arr ≤ ((h+1 : Nat) : Int) * 3600 then revInner arr pos h (pos :: acc) else (h+1, acc)

def revIndexLoop : List Conn → Nat → Nat → List Nat → Nat × List Nat
  | [], hour, _, acc => (hour, acc)
  | c :: cs, hour, pos, acc =>
    let (h', acc') := revInner c.arr pos hour acc
    revIndexLoop cs h' (pos + 1) acc'

/-- `reverseConnectionsBeginIteratorCache`; after the loop hours `hour … 0` get the end iterator -/
def revIndex (l : List Conn) : List Nat :=
  let (hour, acc) := revIndexLoop l (HOUR_END - 1) 0 []
  List.replicate (hour + 1) l.length ++ acc

inductive Lookup
  | pos (p : Nat)
  | outOfBounds            -- read past the index vector (undefined behaviour in C++)
deriving DecidableEq, Repr

/-- `getForwardConnectionsBeginAtDepartureHour` (after the `fix:` `>=`) -/
def fwdLookup (l : List Conn) (idx : List Nat) (hour : Int) : Lookup :=
  if hour ≥ (HOUR_END : Int) ∨ hour < 0 then .pos l.length
  else match idx[hour.toNat]? with
    | some p => .pos p
    | none => .outOfBounds

/-- `getReverseConnectionsBeginAtArrivalHour` -/
def revLookup (l : List Conn) (idx : List Nat) (hour : Int) : Lookup :=
  if hour < 0 then .pos l.length
  else if hour > (HOUR_END : Int) - 1 then .pos 0
  else match idx[hour.toNat]? with
    | some p => .pos p
    | none => .outOfBounds

/-- a per-scenario `ConnectionSet` -/
structure ConnSet where
  trips : List Nat
  fwd : List Conn
  rev : List Conn
  fwdIdx : List Nat
  revIdx : List Nat
deriving Repr, Inhabited

def mkConnSet (trips : List Nat) (fwd rev : List Conn) : ConnSet :=
  { trips, fwd, rev, fwdIdx := fwdIndex fwd, revIdx := revIndex rev }

/-- `TransitData::getConnectionsForScenario` without the cache -/
def Dataset.connSetOf (ds : Dataset) (sc : Scenario) : ConnSet :=
  mkConnSet ((ds.trips.map (·.id)).filter (ds.tripEnabled sc))
    (ds.fwdAll.filter fun c => ds.tripEnabled sc c.trip)
    (ds.revAll.filter fun c => ds.tripEnabled sc c.trip)

end Tr
