/-
  TrVerif.Model.Block — runs the request lines of one dataset block through the server model
  (one `Server` per block, like one `TransitData` per block in the harness).

  `update <kinds…> [swap]`: the harness keeps a second trip set ("the files now on disk");
  `swap` exchanges it with the set the fetcher serves, then each named kind is re-read by the
  corresponding `TransitData::update*` call (model: `applyUpdate`, `Model/Refresh.lean`).
-/
import TrVerif.Model.Refresh
namespace Tr

/-- harness word (`schedules`, `scenarios`, …) -> update call, through the generated handler table -/
def updateFnOf (w : String) : Option String := Gen.updateCacheNames.lookup w

def runBlock (st : DState) : List String :=
  let rec go : List String → Nat → Live → List TripRec → List TripRec → List String → List String
    | [], _, _, _, _, out => out
    | r :: rs, i, l, onDisk, other, out =>
      match words r with
      | "update" :: ws =>
        -- words in order, like the harness: `swap` exchanges the trip sets, a kind is re-read from what is on disk then
        let (l', onDisk', other') := ws.foldl (fun (acc : Live × List TripRec × List TripRec) w =>
            if w = "swap" then (acc.1, acc.2.2, acc.2.1)
            else match updateFnOf w with
              | some fn => (applyUpdate { st.ds with trips := acc.2.1 } fn acc.1, acc.2.1, acc.2.2)
              | none => acc) (l, onDisk, other)
        go rs (i+1) l' onDisk' other' (out ++ [s!"A {st.id} {i} updated"])
      | kind :: kvs =>
        let (srv', resp) := handle l.ds l.srv { kind, kvs }
        go rs (i+1) { l with srv := srv' } onDisk other (out ++ [s!"A {st.id} {i} {resp}"])
      | [] => go rs i l onDisk other out
  go st.reqs 0 (Live.start st.ds st.cacheAll) st.ds.trips st.trips2 []

end Tr
