/-
  TrVerif.Model.Block — runs the request lines of one dataset block through the server model
  (one `Server` per block, like one `TransitData` per block in the harness).
-/
import TrVerif.Model.Server
namespace Tr

def runBlock (st : DState) : List String :=
  let rec go : List String → Nat → Dataset → List TripRec → Server → List String → List String
    | [], _, _, _, _, out => out
    | r :: rs, i, ds, t2, srv, out =>
      match words r with
      | "update" :: ws =>
        -- in-memory refresh: `swap` exchanges the two trip sets, every named kind is re-read
        let (ds', t2') := if ws.contains "swap" then ({ ds with trips := t2 }, ds.trips) else (ds, t2)
        go rs (i+1) ds' t2' srv (out ++ [s!"A {st.id} {i} updated"])
      | kind :: kvs =>
        let (srv', resp) := handle ds srv { kind, kvs }
        go rs (i+1) ds t2 srv' (out ++ [s!"A {st.id} {i} {resp}"])
      | [] => go rs i ds t2 srv out
  go st.reqs 0 st.ds st.trips2 (Server.init st.cacheAll) []

end Tr
