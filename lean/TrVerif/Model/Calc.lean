/-
  TrVerif.Model.Calc — `Calculator::calculateSingle`, `calculateAllNodes`, `alternativesRouting`.
  Code modelled: `calculator.cpp`, `resets.cpp`, `reverse_journey.cpp:268-345`,
  `forward_journey.cpp:267-322`, `alternatives_routing.cpp`, `include/combinations.hpp`.
-/
import TrVerif.Model.Journey
namespace Tr

/-- the walking router as a table: entries within the maximum, in table order
    (`resets.cpp:189,213`; harness `TableGeo`) -/
def routerLookup (table : List NTD) (maxT : Int) : List NTD := table.filter fun e => decide (e.time ≤ maxT)

/-- per-query trip filter of `resets.cpp:221-325`; only `exceptLines` can be non-empty (the
    alternatives search), all other lists of `CommonParameters` stay empty in API v2 -/
def queryDisabled (ds : Dataset) (p : Params) (t : Nat) : Bool := p.exceptLines.contains (ds.lineOfTrip t)

def hourOf (t : Int) : Int := t / 3600

def lookupPos : Lookup → Option Nat
  | .pos p => some p
  | .outOfBounds => none

/-- `reverseJourneyStep`: reconstruction, clean-up, emission -/
def reverseJourney (cx : Ctx) (s : RState) (best : Option (Int × Nat)) : Outcome Route :=
  match best with
  | none => .noRouting .noRoutingFound
  | some (bestDep, node) =>
    match s.acc node with
    | none => .exception "empty result"
    | some first =>
      match reconLoop s.steps (cx.ds.nStops + 2) first [] none with
      | none => .exception "nontermination in journey reconstruction"
      | some (legs, lastStop) =>
        match cx.nodesAccess node, lastStop.bind cx.nodesEgress with
        | some ac, some eg =>
          let journey := [{ walk := ac.time, dist := ac.dist : JStep }] ++ legs ++ [{ walk := eg.time, dist := eg.dist : JStep }]
          match optimizeJourney cx.ds journey with
          | none => .exception "nontermination in optimizeJourney"
          | some o => .ok (emit cx.ds cx.p.minWait bestDep o.journey)
        | _, _ => .exception "map::at"

def mkCtx (ds : Dataset) (p : Params) (cs : ConnSet) (accessFoot egressFoot : List NTD) (depT arrT : Int) : Ctx :=
  { ds, p, cs, disabled := queryDisabled ds p, accessFoot, egressFoot, depT, arrT }

/-- the scenario record a parsed request names -/
def Dataset.scenarioOf (ds : Dataset) (p : Params) : Scenario := ds.scenarios.getD p.scenario default

/-- second half of `calculateSingle`: the reverse pass from arrival time `cx.arrT` -/
def singleReverse (cx : Ctx) (usable : Nat → Bool) : Outcome Route :=
  match lookupPos (revLookup cx.cs.rev cx.cs.revIdx (hourOf cx.arrT + 1)) with
  | none => .exception "hour index out of bounds"
  | some start =>
    let s := revScan cx usable true start
    if s.count = 0 then .noRouting .noServiceToDestination
    else reverseJourney cx s (bestAccess cx s)

/-- `Calculator::calculateSingle` with the footpaths already looked up (`resetAccessPaths`
    only decides whether the router is asked again; the alternatives search passes the lists
    of the first calculation) -/
def calculateSingleWith (ds : Dataset) (cs : ConnSet) (p : Params) (accessFoot egressFoot : List NTD) : Outcome Route :=
  if accessFoot.isEmpty ∧ egressFoot.isEmpty then .noRouting .noAccessAtOriginAndDestination
  else if accessFoot.isEmpty then .noRouting .noAccessAtOrigin
  else if egressFoot.isEmpty then .noRouting .noAccessAtDestination
  else if p.forward then
    let cx := mkCtx ds p cs accessFoot egressFoot p.time (-1)
    match lookupPos (fwdLookup cx.cs.fwd cx.cs.fwdIdx (hourOf p.time)) with
    | none => .exception "hour index out of bounds"
    | some start =>
      let fs := fwdScan cx true start
      if fs.count = 0 then .noRouting .noServiceFromOrigin
      else match bestEgress cx fs with
        | none => .noRouting .noRoutingFound
        | some (bestArr, _) => singleReverse { cx with arrT := bestArr } fs.usable
  else
    let cx := mkCtx ds p cs accessFoot egressFoot (-1) p.time
    singleReverse cx (fun _ => true)

/-- Everything a calculation reads about trips concerns trips of its connection set (the legs of
    a journey are built from scanned connections).  The model makes that explicit: below the
    entry points the dataset is restricted to the trips of `cs` (and its scenario table, already
    resolved into `cs`, is dropped). -/
def Dataset.restrict (ds : Dataset) (cs : ConnSet) : Dataset :=
  { ds with trips := ds.trips.filter (fun t => cs.trips.contains t.id), scenarios := [] }

/-- with the per-scenario connection set `cs` the calculator obtained from `TransitData` -/
def calculateSingleCS (ds : Dataset) (cs : ConnSet) (p : Params) : Outcome Route :=
  calculateSingleWith (ds.restrict cs) cs p (routerLookup ds.access p.maxAccess) (routerLookup ds.egress p.maxEgress)

def calculateSingle (ds : Dataset) (p : Params) : Outcome Route :=
  calculateSingleCS ds (ds.connSetOf (ds.scenarioOf p)) p

/-! ### accessibility (all nodes) -/

def countTransfers (ds : Dataset) (j : List JStep) : Int :=
  j.foldl (fun n s => match s.enter, s.exit with
    | some e, some _ => if ds.transferable e.trip then n else n + 1
    | _, _ => n) (-1)

/-- `reverseJourneyStepAllNodes` for one stop -/
def reverseNode (cx : Ctx) (s : RState) (node : Nat) : Outcome (Option AccNode) :=
  match s.acc node with
  | none => .ok none
  | some first =>
    match reconLoop s.steps (cx.ds.nStops + 2) first [] none with
    | none => .exception "nontermination in journey reconstruction"
    | some (legs, lastStop) =>
      match lastStop.bind cx.nodesEgress with
      | none => .exception "map::at"
      | some eg =>
        match optimizeJourney cx.ds (legs ++ [{ walk := eg.time, dist := eg.dist : JStep }]) with
        | none => .exception "nontermination in optimizeJourney"
        | some o =>
          match first.enter with
          | none => .ok none
          | some e =>
            let depD := e.dep - e.effWait cx.p.minWait
            if cx.arrT - depD ≤ cx.p.maxTotal then
              .ok (some { stop := node, nodeTime := cx.arrT - (cx.arrT - depD), totalTravelTime := cx.arrT - depD,
                          numberOfTransfers := countTransfers cx.ds o.journey })
            else .ok none

/-- the chain walk of `forwardJourneyStepAllNodes` (counts non-"transferable" legs) -/
def fwdChain (ds : Dataset) (steps : Nat → JStep) : Nat → JStep → Int → Option Int
  | 0, cur, n => if cur.hasConns then none else some n
  | fuel+1, cur, n =>
    match cur.enter, cur.exit with
    | some e, some _ => fwdChain ds steps fuel (steps e.depStop) (if ds.transferable e.trip then n else n + 1)
    | _, _ => some n

def forwardNode (cx : Ctx) (s : FState) (node : Nat) : Outcome (Option AccNode) :=
  match s.egr node with
  | none => .ok none
  | some first =>
    match fwdChain cx.ds s.steps (cx.ds.nStops + 2) first (-1) with
    | none => .exception "nontermination in forward chain"
    | some nt =>
      match first.enter, first.exit with
      | some _, some x =>
        if x.arr - cx.depT ≤ cx.p.maxTotal then
          .ok (some { stop := node, nodeTime := x.arr, totalTravelTime := x.arr - cx.depT, numberOfTransfers := nt })
        else .ok none
      | _, _ => .ok none

def collectNodes (f : Nat → Outcome (Option AccNode)) : List Nat → List AccNode → Outcome (List AccNode)
  | [], acc => .ok acc
  | n :: ns, acc =>
    match f n with
    | .ok (some a) => collectNodes f ns (acc ++ [a])
    | .ok none => collectNodes f ns acc
    | .noRouting r => .noRouting r
    | .exception w => .exception w

/-- `Calculator::calculateAllNodes`; result: nodes (ascending stop id) and `totalNodeCount` -/
def calculateAllNodesCS (ds0 : Dataset) (cs : ConnSet) (p : Params) : Outcome (List AccNode × Nat) :=
  let ds := ds0.restrict cs
  if p.forward then
    let accessFoot := routerLookup ds.access p.maxAccess
    if accessFoot.isEmpty then .noRouting .noAccessAtOrigin else
    let cx := mkCtx ds p cs accessFoot [] p.time (-1)
    match lookupPos (fwdLookup cx.cs.fwd cx.cs.fwdIdx (hourOf p.time)) with
    | none => .exception "hour index out of bounds"
    | some start =>
      let fs := fwdScan cx false start
      if fs.count = 0 then .noRouting .noServiceFromOrigin
      else match collectNodes (forwardNode cx fs) (List.range ds.nStops) [] with
        | .ok l => .ok (l, ds.nStops)
        | .noRouting r => .noRouting r
        | .exception w => .exception w
  else
    let egressFoot := routerLookup ds.egress p.maxEgress
    if egressFoot.isEmpty then .noRouting .noAccessAtDestination else
    let cx := mkCtx ds p cs [] egressFoot (-1) p.time
    match lookupPos (revLookup cx.cs.rev cx.cs.revIdx (hourOf p.time + 1)) with
    | none => .exception "hour index out of bounds"
    | some start =>
      let s := revScan cx (fun _ => true) false start
      if s.count = 0 then .noRouting .noServiceToDestination
      else match collectNodes (reverseNode cx s) (List.range ds.nStops) [] with
        | .ok l => .ok (l, ds.nStops)
        | .noRouting r => .noRouting r
        | .exception w => .exception w

def calculateAllNodes (ds : Dataset) (p : Params) : Outcome (List AccNode × Nat) :=
  calculateAllNodesCS ds (ds.connSetOf (ds.scenarioOf p)) p

/-! ### alternatives -/

/-- `Combinations<T>(s, m)`: all size-`m` sub-lists of `s` in the order of `combinations.hpp` -/
def combinations {α : Type} : List α → Nat → List (List α)
  | _, 0 => [[]]
  | [], _+1 => []
  | x :: xs, m+1 => (combinations xs m).map (x :: ·) ++ combinations xs (m+1)

def insertNat (x : Nat) : List Nat → List Nat
  | [] => [x]
  | y :: ys => if y < x then y :: insertNat x ys else x :: y :: ys   -- stable w.r.t. equal keys
def sortNat (l : List Nat) : List Nat := l.foldr insertNat []

/-- lines of the boarding steps of a route, in step order (`LineVisitor`) -/
def routeLines (ds : Dataset) (r : Route) : List Nat :=
  r.steps.filterMap fun st => match st with
    | .board trip _ _ _ _ => some (ds.lineOfTrip trip)
    | _ => none

def allCombos (lines : List Nat) : List (List Nat) :=
  (List.range lines.length).flatMap fun k => combinations lines (k+1)

structure AltState where
  routes : List Route
  allComb : List (List Nat)
  failed : List (List Nat) := []
  calculated : List (List Nat)          -- keys of `alreadyCalculatedCombinations`
  found : List (List Nat)               -- keys of `alreadyFoundLines`
  seq : Nat := 2                        -- `alternativeSequence`
  count : Nat := 2                      -- `alternativesCalculatedCount`

/-- `maxTravelTime` of `alternatives_routing.cpp:126-135` (`1.75f * t` is exact for the
    magnitudes considered; the product is truncated to int) -/
def altMaxTravelTime (p : Params) (r : Route) : Int :=
  let raw : Int := (175 * r.totalTravelTime) / 100 + (if p.forward then r.departureTime - p.time else 0)
  let m := if raw < 1800 then 1800 else if raw > r.totalTravelTime + 3600 then r.totalTravelTime + 3600 else raw
  if m < p.maxTotal then m else p.maxTotal

/-- new combinations generated after a successful alternative (`alternatives_routing.cpp:224-261`) -/
def addCombos (combination : List Nat) (st : AltState) : List (List Nat) → AltState
  | [] => st
  | nc :: rest =>
    let nc' := sortNat (nc ++ combination)
    if st.calculated.contains nc' then addCombos combination st rest
    else
      let matchesFailed := st.failed.any fun fc => fc.all fun l => nc'.contains l
      let st' := { st with allComb := if matchesFailed then st.allComb else st.allComb ++ [nc'],
                           calculated := st.calculated ++ [nc'] }
      addCombos combination st' rest

/-- the main loop over `allCombinations` (which grows while it is traversed); `i` is the index,
    `fuel` bounds the number of iterations -/
def altLoop (ds : Dataset) (cs : ConnSet) (pAlt : Params) (baseExcept : List Nat) (accessFoot egressFoot : List NTD)
    : Nat → Nat → AltState → Outcome AltState
  | 0, _, st => .ok st
  | fuel+1, i, st =>
    match st.allComb[i]? with
    | none => .ok st
    | some combination =>
      if st.count < 200 ∧ st.seq - 1 < 50 then
        let p' := { pAlt with exceptLines := baseExcept ++ combination }
        match calculateSingleWith ds cs p' accessFoot egressFoot with
        | .exception w => .exception w
        | .noRouting _ => altLoop ds cs pAlt baseExcept accessFoot egressFoot fuel (i+1)
            { st with failed := st.failed ++ [combination], count := st.count + 1 }
        | .ok r =>
          let fl := sortNat (routeLines ds r)
          if ¬ fl.isEmpty ∧ ¬ st.found.contains fl then
            let st1 := { st with routes := st.routes ++ [r], found := st.found ++ [fl] }
            let st2 := addCombos combination st1 (allCombos fl)
            altLoop ds cs pAlt baseExcept accessFoot egressFoot fuel (i+1) { st2 with seq := st2.seq + 1, count := st2.count + 1 }
          else altLoop ds cs pAlt baseExcept accessFoot egressFoot fuel (i+1) { st with count := st.count + 1 }
      else altLoop ds cs pAlt baseExcept accessFoot egressFoot fuel (i+1) st

/-- `Calculator::alternativesRouting`: routes and `totalAlternativesCalculated` -/
def alternativesRoutingCS (ds0 : Dataset) (cs : ConnSet) (p : Params) : Outcome (List Route × Nat) :=
  let ds := ds0.restrict cs
  let accessFoot := routerLookup ds.access p.maxAccess
  let egressFoot := routerLookup ds.egress p.maxEgress
  match calculateSingleWith ds cs p accessFoot egressFoot with
  | .exception w => .exception w
  | .noRouting r => .noRouting r
  | .ok r0 =>
    let pAlt := { p with maxTotal := altMaxTravelTime p r0 }
    let fl := sortNat (routeLines ds r0)
    let combos := (allCombos fl).map sortNat
    let st0 : AltState := { routes := [r0], allComb := combos, calculated := combos, found := [fl] }
    -- at most 200 calculations are made, and indices past the cap only skip: the list can
    -- grow by at most the number of calculations times 2^|lines| entries; fuel is generous
    match altLoop ds cs pAlt p.exceptLines accessFoot egressFoot 100000 0 st0 with
    | .ok st => .ok (st.routes, st.count)
    | .noRouting r => .noRouting r
    | .exception w => .exception w

def alternativesRouting (ds : Dataset) (p : Params) : Outcome (List Route × Nat) :=
  alternativesRoutingCS ds (ds.connSetOf (ds.scenarioOf p)) p

end Tr
