/-
  TrVerif.Model.Driver — line-protocol driver: parses the dataset / request lines of
  DESIGN.md 3.2 and prints one canonical line per request:  `A <dataset> <index> <canonical>`.
  Parameter handling mirrors `common_parameters.cpp:68-199` for well-formed integer values
  (the full string-level parser is `TrVerif.Model.Params`).
-/
import TrVerif.Model.Render
namespace Tr

def words (s : String) : List String := (s.trimAscii.toString.splitOn " ").filter (· ≠ "")

def splitSemi (ws : List String) : List (List String) :=
  ws.foldl (fun acc w => if w = ";" then acc ++ [[]] else
    match acc.getLast? with
    | some l => acc.dropLast ++ [l ++ [w]]
    | none => [[w]]) [[]]

def toInts (ws : List String) : List Int := ws.filterMap String.toInt?
def toNats (ws : List String) : List Nat := ws.filterMap String.toNat?

structure DState where
  id : String := "0"
  cacheAll : Bool := false
  ds : Dataset := Dataset.empty
  trips2 : List TripRec := []
  reqs : List String := []

def parseTrip (ws : List String) : Option TripRec :=
  match ws with
  | p :: s :: i :: rest =>
    let groups := splitSemi rest
    let arr := toInts (groups.getD 0 [])
    let dep := toInts (groups.getD 1 [])
    let cb := (toNats (groups.getD 2 [])).map (· == 1)
    let cu := (toNats (groups.getD 3 [])).map (· == 1)
    some { id := i.toNat!, path := p.toNat!, service := s.toNat!, arr, dep,
           cb := if cb.isEmpty then arr.map fun _ => true else cb,
           cu := if cu.isEmpty then arr.map fun _ => true else cu }
  | _ => none

def dataLine (st : DState) (ws : List String) : Option DState :=
  let ds := st.ds
  match ws with
  | ["stops", n] => some { st with ds := { ds with nStops := n.toNat! } }
  | ["agencies", n] => some { st with ds := { ds with nAgencies := n.toNat! } }
  | ["services", n] => some { st with ds := { ds with nServices := n.toNat! } }
  | ["cacheall", v] => some { st with cacheAll := v ≠ "0" }
  | ["foot", a, b, t, d] => some { st with ds := { ds with foot := ds.foot ++ [⟨a.toNat!, b.toNat!, t.toInt!, d.toInt!⟩] } }
  | ["line", a, m] => some { st with ds := { ds with lines := ds.lines ++ [⟨a.toNat!, m.toNat!⟩] } }
  | "path" :: l :: rest =>
    let g := splitSemi rest
    some { st with ds := { ds with paths := ds.paths ++ [⟨l.toNat!, toNats (g.getD 0 []), toInts (g.getD 1 [])⟩] } }
  | "trip" :: rest => (parseTrip rest).map fun t => { st with ds := { ds with trips := ds.trips ++ [t] } }
  | "trip2" :: rest => (parseTrip rest).map fun t => { st with trips2 := st.trips2 ++ [t] }
  | "scenario" :: rest =>
    let g := (splitSemi rest).map toNats
    some { st with ds := { ds with scenarios := ds.scenarios ++
      [⟨g.getD 0 [], g.getD 1 [], g.getD 2 [], g.getD 3 [], g.getD 4 [], g.getD 5 [], g.getD 6 []⟩] } }
  | ["access", s, t, d] => some { st with ds := { ds with access := ds.access ++ [⟨s.toNat!, t.toInt!, d.toInt!⟩] } }
  | ["egress", s, t, d] => some { st with ds := { ds with egress := ds.egress ++ [⟨s.toNat!, t.toInt!, d.toInt!⟩] } }
  | _ => none

inductive ParamError | missingScenario | emptyScenario | missingTime | invalidNumber
deriving Repr, DecidableEq

def paramErrorType : ParamError → Nat
  | .missingScenario => 0 | .missingTime => 3 | .emptyScenario => 5 | .invalidNumber => 9

structure PState where
  time : Int := -1
  p : Params := { forward := true, time := -1, scenario := 0 }
  scen : Option Nat := none
  err : Option ParamError := none

def numericKeys : List String := ["time_of_trip", "min_waiting_time", "max_travel_time", "max_access_travel_time",
  "max_egress_travel_time", "max_transfer_travel_time", "max_first_waiting_time"]

def paramStep (ds : Dataset) (st : PState) (kv : String) : PState :=
  if st.err.isSome then st else
  match kv.splitOn "=" with
  | [k, v] =>
    if k = "time_type" then (if v = "1" then { st with p := { st.p with forward := false } } else st)
    else if k = "scenario" then
      match v.toNat? with
      | some i => if i < ds.scenarios.length then { st with scen := some i } else st
      | none => st
    else if k = "alternatives" then
      (if v = "true" ∨ v = "1" then { st with p := { st.p with alternatives := true } } else st)
    else if numericKeys.contains k then
      match v.toInt? with
      | none => { st with err := some .invalidNumber }
      | some n =>
        if k = "time_of_trip" then { st with time := if n < 0 then -1 else n }
        else if k = "min_waiting_time" then { st with p := { st.p with minWait := if n < 0 then 0 else n } }
        else if k = "max_travel_time" then { st with p := { st.p with maxTotal := if n ≤ 0 then MAX_INT else n } }
        else if k = "max_access_travel_time" then { st with p := { st.p with maxAccess := if n ≤ 0 then MAX_INT else n } }
        else if k = "max_egress_travel_time" then { st with p := { st.p with maxEgress := if n ≤ 0 then MAX_INT else n } }
        else if k = "max_transfer_travel_time" then { st with p := { st.p with maxTransfer := if n ≤ 0 then MAX_INT else n } }
        else { st with p := { st.p with maxFirstWait := if n ≤ 0 then -1 else n } }
    else st
  | _ => st

/-- `createCommonParameter` on `k=v` words whose numeric values are plain integers -/
def parseParams (ds : Dataset) (kvs : List String) : Except ParamError Params :=
  let st := kvs.foldl (paramStep ds) {}
  match st.err with
  | some e => .error e
  | none =>
    match st.scen with
    | none => .error .missingScenario
    | some i =>
      if (ds.scenarios.getD i default).services.isEmpty then .error .emptyScenario
      else if st.time < 0 then .error .missingTime
      else .ok { st.p with time := st.time, scenario := i }

end Tr
