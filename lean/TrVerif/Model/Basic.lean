/-
  TrVerif.Model.Basic — data types of the executable model of trRouting.

  Everything is a small total function over `List`, `Nat`, `Int`, `Option`.
  Identifiers (stops, trips, lines, …) are natural numbers; the harness maps integer `i` of
  kind `k` to the UUID `00000000-0000-0000-kkkk-iiiiiiiiiiii`, so UUID order is integer order.
-/
namespace Tr

/-- `MAX_INT` of `include/toolbox.hpp` (std::numeric_limits<int>::max()). -/
def MAX_INT : Int := 2147483647

/-- point update of a table represented as a function -/
def upd {α : Type} (f : Nat → α) (k : Nat) (v : α) : Nat → α := fun x => if x = k then v else f x

@[simp] theorem upd_same {α : Type} (f : Nat → α) (k : Nat) (v : α) : upd f k v k = v := by simp [upd]
@[simp] theorem upd_other {α : Type} (f : Nat → α) (k x : Nat) (v : α) (h : x ≠ k) : upd f k v x = f x := by
  simp [upd, h]
theorem upd_apply {α : Type} (f : Nat → α) (k x : Nat) (v : α) : upd f k v x = if x = k then v else f x := rfl

/-- A connection: one hop of one trip between two consecutive stops of its path
    (`include/connection.hpp`). `seq` is 1-based (`sequenceInTrip`), `minWait = -1` means
    "inherit the query's minimum waiting time". -/
structure Conn where
  depStop : Nat
  arrStop : Nat
  dep : Int
  arr : Int
  trip : Nat
  seq : Nat
  canBoard : Bool
  canUnboard : Bool
  minWait : Int
deriving DecidableEq, Repr, Inhabited

/-- `Connection::getMinWaitingTimeOrDefault` (after the `fix:` that makes it an `int`). -/
def Conn.effWait (c : Conn) (dflt : Int) : Int := if c.minWait ≥ 0 then c.minWait else dflt

structure LineRec where
  agency : Nat
  mode : Nat            -- 0 tram, 1 tramTrain (two modes that share one extended GTFS route type in the server's table), 2 "transferable"
deriving Repr, Inhabited, DecidableEq

structure PathRec where
  line : Nat
  stops : List Nat
  dist : List Int       -- segmentsDistanceMeters
deriving Repr, Inhabited, DecidableEq

structure TripRec where
  id : Nat              -- integer of the trip uuid (sort tie-break, overlay index)
  path : Nat
  service : Nat
  arr : List Int        -- per stop of the path
  dep : List Int
  cb : List Bool        -- boarding allowed at stop i
  cu : List Bool        -- alighting allowed at stop i
deriving Repr, Inhabited, DecidableEq

structure Scenario where
  services : List Nat
  onlyLines : List Nat
  exceptLines : List Nat
  onlyAgencies : List Nat
  exceptAgencies : List Nat
  onlyModes : List Nat
  exceptModes : List Nat
deriving Repr, Inhabited, DecidableEq

/-- one footpath record `foot a b time dist`: `b` is in `a`'s transferable list and `a` in
    `b`'s reverse transferable list -/
structure Foot where
  a : Nat
  b : Nat
  time : Int
  dist : Int
deriving Repr, Inhabited, DecidableEq

/-- entry of a walking-router table / of a footpath list: (stop, time, distance) -/
structure NTD where
  stop : Nat
  time : Int
  dist : Int
deriving Repr, Inhabited, DecidableEq

structure Dataset where
  nStops : Nat
  nAgencies : Nat := 1
  nServices : Nat := 1
  foot : List Foot
  lines : List LineRec
  paths : List PathRec
  trips : List TripRec
  scenarios : List Scenario
  access : List NTD      -- what the walking router knows around the origin / departure place
  egress : List NTD      -- … around the destination / arrival place
deriving Repr, Inhabited

def Dataset.empty : Dataset :=
  { nStops := 0, foot := [], lines := [], paths := [], trips := [], scenarios := [], access := [], egress := [] }

/-- `Node::transferableNodes` of stop `s`, in insertion order -/
def Dataset.footOf (ds : Dataset) (s : Nat) : List NTD :=
  ds.foot.filterMap fun f => if f.a = s then some ⟨f.b, f.time, f.dist⟩ else none

/-- `Node::reverseTransferableNodes` of stop `s` -/
def Dataset.rfootOf (ds : Dataset) (s : Nat) : List NTD :=
  ds.foot.filterMap fun f => if f.b = s then some ⟨f.a, f.time, f.dist⟩ else none

def Dataset.tripRec? (ds : Dataset) (t : Nat) : Option TripRec := ds.trips.find? (·.id = t)
def Dataset.pathOfTrip (ds : Dataset) (t : Nat) : PathRec :=
  match ds.tripRec? t with
  | some tr => ds.paths.getD tr.path default
  | none => default
def Dataset.lineOfTrip (ds : Dataset) (t : Nat) : Nat := (ds.pathOfTrip t).line
def Dataset.lineRec (ds : Dataset) (l : Nat) : LineRec := ds.lines.getD l default
def Dataset.modeOfTrip (ds : Dataset) (t : Nat) : Nat := (ds.lineRec (ds.lineOfTrip t)).mode
def Dataset.agencyOfTrip (ds : Dataset) (t : Nat) : Nat := (ds.lineRec (ds.lineOfTrip t)).agency
def Dataset.serviceOfTrip (ds : Dataset) (t : Nat) : Nat :=
  match ds.tripRec? t with | some tr => tr.service | none => 0
def Dataset.transferable (ds : Dataset) (t : Nat) : Bool := ds.modeOfTrip t == 2

/-- parameters of a calculation after parsing and normalisation (`CommonParameters`) -/
structure Params where
  forward : Bool
  time : Int
  minWait : Int := 180
  maxTotal : Int := MAX_INT
  maxAccess : Int := 1200
  maxEgress : Int := 1200
  maxTransfer : Int := 1200
  maxFirstWait : Int := 1800
  scenario : Nat
  alternatives : Bool := false
  exceptLines : List Nat := []       -- only filled by the alternatives search
deriving Repr, Inhabited

inductive Reason
  | noRoutingFound | noAccessAtOrigin | noAccessAtDestination | noServiceFromOrigin
  | noServiceToDestination | noAccessAtOriginAndDestination
deriving DecidableEq, Repr, Inhabited

/-- `JourneyStep` (the trip is that of `enter`; both connections are always set together
    with it in the code) -/
structure JStep where
  enter : Option Conn := none
  exit : Option Conn := none
  walk : Int := -1
  dist : Int := -1
deriving Repr, Inhabited, DecidableEq

def JStep.hasConns (j : JStep) : Bool := j.enter.isSome && j.exit.isSome

/-- rendered steps of a route -/
inductive Step
  | walk (kind : Nat) (tt dist dep arr ready : Int)          -- kind 0 access, 1 transfer, 2 egress
  | board (trip seq stop : Nat) (dep wait : Int)
  | unboard (trip seq stop : Nat) (arr ivt ivd : Int)
deriving Repr, Inhabited, DecidableEq

/-- `SingleCalculationResult` -/
structure Route where
  departureTime : Int
  arrivalTime : Int
  totalTravelTime : Int
  totalDistance : Int
  totalInVehicleTime : Int
  totalInVehicleDistance : Int
  totalNonTransitTravelTime : Int
  totalNonTransitDistance : Int
  numberOfBoardings : Int
  numberOfTransfers : Int
  transferWalkingTime : Int
  transferWalkingDistance : Int
  accessTravelTime : Int
  accessDistance : Int
  egressTravelTime : Int
  egressDistance : Int
  transferWaitingTime : Int
  firstWaitingTime : Int
  totalWaitingTime : Int
  steps : List Step
deriving Repr, Inhabited, DecidableEq

structure AccNode where
  stop : Nat
  nodeTime : Int
  totalTravelTime : Int
  numberOfTransfers : Int
deriving Repr, Inhabited, DecidableEq

/-- what a calculation can produce -/
inductive Outcome (α : Type)
  | ok (a : α)
  | noRouting (r : Reason)
  | exception (what : String)     -- an uncaught C++ exception / undefined access; never expected
deriving Repr, Inhabited

end Tr
