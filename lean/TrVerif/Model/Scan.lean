/-
  TrVerif.Model.Scan — the forward and reverse connection scans, one `step` per connection with
  the guards of the code in the order of the code.
  Code modelled: `forward_calculation.cpp`, `reverse_calculation.cpp` (single and all-nodes
  variants, which differ only in the early-termination test and the "reached" bookkeeping),
  `resets.cpp:20-170` (initial tables).
-/
import TrVerif.Model.Data
namespace Tr

/-- read-only context of one calculation (what `Calculator::reset` establishes) -/
structure Ctx where
  ds : Dataset
  p : Params
  cs : ConnSet
  disabled : Nat → Bool          -- `tripsDisabled`
  accessFoot : List NTD          -- `accessFootpaths` (empty when no origin is given)
  egressFoot : List NTD          -- `egressFootpaths`
  depT : Int                     -- `departureTimeSeconds` (-1 when unset)
  arrT : Int                     -- `arrivalTimeSeconds`

def Ctx.nodesAccess (cx : Ctx) (s : Nat) : Option NTD := cx.accessFoot.find? (·.stop = s)
def Ctx.nodesEgress (cx : Ctx) (s : Nat) : Option NTD := cx.egressFoot.find? (·.stop = s)
def minTime (l : List NTD) : Int := l.foldl (fun m e => if e.time < m then e.time else m) MAX_INT
def maxTime (l : List NTD) : Int := l.foldl (fun m e => if e.time > m then e.time else m) (-1)
def Ctx.minAccess (cx : Ctx) : Int := minTime cx.accessFoot
def Ctx.maxAccess (cx : Ctx) : Int := maxTime cx.accessFoot
def Ctx.minEgress (cx : Ctx) : Int := minTime cx.egressFoot
def Ctx.maxEgress (cx : Ctx) : Int := maxTime cx.egressFoot

/-! ## forward scan -/

structure FState where
  tent : Nat → Int                 -- `nodesTentativeTime`
  steps : Nat → JStep              -- `forwardJourneysSteps`
  enterC : Nat → Option Conn       -- `tripsQueryOverlay[].enterConnection`
  usable : Nat → Bool              -- `tripsQueryOverlay[].usable`
  egr : Nat → Option JStep         -- `forwardEgressJourneysSteps`
  count : Nat := 0                 -- `reachableConnectionsCount`
  reached : Bool := false          -- `reachedAtLeastOneEgressNode`
  tentEgrArr : Int := MAX_INT      -- `tentativeEgressNodeArrivalTime`
  stop : Bool := false             -- the loop has executed `break`

/-- tables after `reset` for a calculation with an origin -/
def FState.init (cx : Ctx) : FState :=
  { tent := cx.accessFoot.foldl (fun f e => upd f e.stop (cx.depT + e.time)) (fun _ => MAX_INT),
    steps := cx.accessFoot.foldl (fun f e => upd f e.stop { walk := e.time, dist := e.dist }) (fun _ => {}),
    enterC := fun _ => none, usable := fun _ => false, egr := fun _ => none }

/-- one iteration of the footpath loop of the forward scan (`forward_calculation.cpp:114-156`) -/
def fwdFoot (cx : Ctx) (c : Conn) (s : FState) (f : NTD) : FState :=
  let cur := s.tent f.stop
  if f.stop ≠ c.arrStop ∧ cur < c.arr then s
  else if f.time ≤ cx.p.maxTransfer then
    let js : JStep := { enter := s.enterC c.trip, exit := some c, walk := f.time, dist := f.dist }
    let s1 := if f.time + c.arr < cur then
        { s with tent := upd s.tent f.stop (f.time + c.arr), steps := upd s.steps f.stop js }
      else s
    if f.stop = c.arrStop ∧
        ((s1.egr f.stop).all fun e => e.exit.any fun x => decide (x.arr > c.arr)) then
      { s1 with egr := upd s1.egr f.stop (some js) }
    else s1
  else s

/-- one connection of the forward scan; `single = false` is the all-nodes variant -/
def fwdStep (cx : Ctx) (single : Bool) (s : FState) (c : Conn) : FState :=
  if s.stop then s else
  if ¬ (c.dep ≥ cx.depT + cx.minAccess) then s else
  if cx.disabled c.trip then s else
  let mw := c.effWait cx.p.minWait
  if (single ∧ s.reached ∧ cx.maxEgress ≥ 0 ∧ s.tentEgrArr < MAX_INT ∧ c.dep > s.tentEgrArr + cx.maxEgress)
      ∨ c.dep - cx.depT > cx.p.maxTotal then { s with stop := true } else
  let tripEnter := s.enterC c.trip
  let nodeT := s.tent c.depStop
  let fromOrigin : Bool := decide (cx.p.maxFirstWait > 0) &&
    ((cx.nodesAccess c.depStop).any fun a => decide (a.time ≥ 0)) && (s.steps c.depStop).enter.isNone
  if ¬ ((tripEnter.isSome ∨ nodeT ≤ c.dep - mw) ∧ (¬ fromOrigin ∨ c.dep - nodeT ≤ cx.p.maxFirstWait)) then s else
  let s1 : FState := if c.canBoard ∧ tripEnter.isNone then
      { s with usable := upd s.usable c.trip true, enterC := upd s.enterC c.trip (some c) }
    else s
  let s2 : FState := if c.canUnboard ∧ (s1.enterC c.trip).isSome then
      let s1' : FState := if single ∧ ¬ s1.reached ∧
          ((cx.nodesEgress c.arrStop).any fun (e : NTD) => decide (e.time ≠ -1)) then
          { s1 with reached := true, tentEgrArr := c.arr }
        else s1
      (cx.ds.footOf c.arrStop).foldl (fwdFoot cx c) s1'
    else s1
  { s2 with count := s2.count + 1 }

/-- the scan starts at the position the hour index gives -/
def fwdScan (cx : Ctx) (single : Bool) (start : Nat) : FState :=
  (cx.cs.fwd.drop start).foldl (fwdStep cx single) (FState.init cx)

/-- best egress stop (`forward_calculation.cpp:170-201`): (arrival time, stop) -/
def bestEgress (cx : Ctx) (s : FState) : Option (Int × Nat) :=
  (cx.egressFoot.foldl (fun (acc : Int × Option Nat) e =>
    match s.egr e.stop with
    | some js => match js.exit, cx.nodesEgress e.stop with
      | some x, some eg =>
        let t := x.arr + eg.time
        if t ≥ 0 ∧ t - cx.depT ≤ cx.p.maxTotal ∧ t < acc.1 ∧ t < MAX_INT then (t, some eg.stop) else acc
      | _, _ => acc
    | none => acc) (MAX_INT, none)) |> fun r => r.2.map fun st => (r.1, st)

/-! ## reverse scan -/

structure RState where
  lab : Nat → Int                  -- `nodesReverseTentativeTime`
  steps : Nat → JStep              -- `reverseJourneysSteps`
  exitC : Nat → Option Conn        -- `tripsQueryOverlay[].exitConnection`
  exitW : Nat → Int                -- `tripsQueryOverlay[].exitConnectionTransferTravelTime`
  acc : Nat → Option JStep         -- `reverseAccessJourneysSteps`
  count : Nat := 0
  reached : Bool := false          -- `reachedAtLeastOneAccessNode`
  tentAccDep : Int := -1           -- `tentativeAccessNodeDepartureTime`
  stop : Bool := false

/-- tables after `reset` (+ the re-seeding of `calculator.cpp:56-59`) for arrival time `cx.arrT` -/
def RState.init (cx : Ctx) : RState :=
  { lab := cx.egressFoot.foldl (fun f e => upd f e.stop (cx.arrT - e.time)) (fun _ => -1),
    steps := cx.egressFoot.foldl (fun f e => upd f e.stop { walk := e.time, dist := e.dist }) (fun _ => {}),
    exitC := fun _ => none, exitW := fun _ => MAX_INT, acc := fun _ => none }

/-- footpath loop of the reverse scan, first half: a strictly later label replaces label and step
    of the footpath's stop (`reverse_calculation.cpp:138-144`) -/
def revFootLabel (c : Conn) (mw : Int) (s : RState) (f : NTD) : RState :=
  if c.dep - f.time - mw > s.lab f.stop then
    { s with lab := upd s.lab f.stop (c.dep - f.time - mw),
             steps := upd s.steps f.stop { enter := some c, exit := s.exitC c.trip, walk := f.time, dist := f.dist } }
  else s

/-- may `c` become the boarding kept for its own stop? (`reverse_calculation.cpp:145-169`):
    keep rule (after the `fix:`: departure minus minimum waiting on both sides), not before the
    requested departure, first-waiting cap -/
def revAccAccept (cx : Ctx) (c : Conn) (mw : Int) (s : RState) (f : NTD) : Bool :=
  decide (f.stop = c.depStop) &&
  ((s.acc f.stop).all fun a => a.enter.any fun e => decide (e.dep - e.effWait cx.p.minWait ≤ c.dep - mw)) &&
  (decide (cx.depT = -1) || ((cx.nodesAccess c.depStop).any fun a => decide (c.dep - a.time - mw ≥ cx.depT))) &&
  (decide (cx.depT = -1) || decide (cx.p.maxFirstWait < mw) ||
    ((cx.nodesAccess c.depStop).any fun a => decide (c.dep - cx.depT - a.time ≤ cx.p.maxFirstWait)))

/-- second half: the access candidate of the connection's own stop -/
def revFootAcc (cx : Ctx) (c : Conn) (mw : Int) (s : RState) (f : NTD) : RState :=
  if revAccAccept cx c mw s f then
    { s with acc := upd s.acc f.stop (some { enter := some c, exit := s.exitC c.trip, walk := 0, dist := 0 }) }
  else s

/-- one iteration of the footpath loop of the reverse scan (`reverse_calculation.cpp:124-177`) -/
def revFoot (cx : Ctx) (c : Conn) (mw : Int) (s : RState) (f : NTD) : RState :=
  if f.stop ≠ c.depStop ∧ s.lab f.stop > c.dep - mw then s
  else if f.time ≤ cx.p.maxTransfer then revFootAcc cx c mw (revFootLabel c mw s f) f
  else s

/-- minimum waiting time in force for the boarding a journey step starts with (0 if none) -/
def enterWait (mw : Int) (js : JStep) : Int :=
  match js.enter with
  | some e => e.effWait mw
  | none => 0

/-- is `c` a "closer" exit for its trip than the current one? (`reverse_calculation.cpp:89-100`) -/
def closerExit (cx : Ctx) (s : RState) (c : Conn) : Bool :=
  let st := s.steps c.arrStop
  st.enter.isSome && decide (st.walk ≥ 0) && decide (st.walk < s.exitW c.trip) &&
    decide (c.arr + enterWait cx.p.minWait st ≤ s.lab c.arrStop)

/-- the alighting part of one connection (`reverse_calculation.cpp:80-107`): the trip's exit
    connection is set when the trip has none, or replaced by a "closer" one -/
def revUnboard (cx : Ctx) (s : RState) (c : Conn) : RState :=
  if c.canUnboard ∧ ((s.exitC c.trip).isNone ∨ closerExit cx s c) then
    { s with exitC := upd s.exitC c.trip (some c), exitW := upd s.exitW c.trip (s.steps c.arrStop).walk }
  else s

/-- the boarding part (`reverse_calculation.cpp:109-178`) -/
def revBoard (cx : Ctx) (single : Bool) (s1 : RState) (c : Conn) : RState :=
  if c.canBoard ∧ (s1.exitC c.trip).isSome then
    let mw := c.effWait cx.p.minWait
    let s1' : RState := if single ∧ ¬ s1.reached ∧
        ((cx.nodesAccess c.depStop).any fun (a : NTD) => decide (a.time ≠ -1)) then
        { s1 with reached := true, tentAccDep := c.dep }
      else s1
    (cx.ds.rfootOf c.depStop).foldl (revFoot cx c mw) s1'
  else s1

/-- has the loop reached its `break` at connection `c`? (after the `fix:` a7932ab: one more default
    minimum waiting time is scanned, because a later-scanned boarding may need less waiting) -/
def revBreak (cx : Ctx) (single : Bool) (s : RState) (c : Conn) : Bool :=
  decide ((single ∧ s.reached ∧ cx.maxAccess ≥ 0 ∧ c.arr < s.tentAccDep - cx.maxAccess - cx.p.minWait) ∨ cx.arrT - c.arr > cx.p.maxTotal)

/-- one connection of the reverse scan; `usable` comes from the forward pass (all `true` for
    arrival-time queries) -/
def revStep (cx : Ctx) (usable : Nat → Bool) (single : Bool) (s : RState) (c : Conn) : RState :=
  if s.stop then s else
  if ¬ (c.arr ≤ cx.arrT - (if single then cx.minEgress else 0)) then s else
  if ¬ (usable c.trip ∧ ¬ cx.disabled c.trip) then s else
  if revBreak cx single s c then { s with stop := true } else
  if ¬ ((s.exitC c.trip).isSome ∨ s.lab c.arrStop ≥ c.arr) then s else
  let s2 := revBoard cx single (revUnboard cx s c) c
  { s2 with count := s2.count + 1 }

def revScan (cx : Ctx) (usable : Nat → Bool) (single : Bool) (start : Nat) : RState :=
  (cx.cs.rev.drop start).foldl (revStep cx usable single) (RState.init cx)

/-- best access stop (`reverse_calculation.cpp:191-221`): (departure time, stop) -/
def bestAccess (cx : Ctx) (s : RState) : Option (Int × Nat) :=
  (cx.accessFoot.foldl (fun (acc : Int × Option Nat) a =>
    match s.acc a.stop with
    | some js => match js.enter, cx.nodesAccess a.stop with
      | some e, some ac =>
        let t := e.dep - ac.time - e.effWait cx.p.minWait
        if t ≥ 0 ∧ cx.arrT - t ≤ cx.p.maxTotal ∧ t > acc.1 ∧ t < MAX_INT then (t, some ac.stop) else acc
      | _, _ => acc
    | none => acc) (-1, none)) |> fun r => r.2.map fun st => (r.1, st)

end Tr
