/-
  Property C11 — restricting a scenario is equivalent to deleting the excluded trips.

  `deleteExcluded ds sc` is the copy of the data from which the trips the scenario does not admit
  are physically removed and whose only scenario is the all-inclusive one.  The theorems say that
  the per-scenario connection set (trips, both filtered lists, both hour indices) and everything
  else a calculation reads are identical on both sides, hence all answers are.
  Mechanism proved: `filter` commutes with the stable sort (`Proofs/Sort.lean`), the hour index
  is a function of the filtered lists.
-/
import TrVerif.Model.Calc
import TrVerif.Proofs.Sort
namespace Tr

/-- does the scenario admit this trip record (service, line, agency, mode)? - written from the
    API description of scenarios -/
def Dataset.admitsTrip (ds : Dataset) (sc : Scenario) (tr : TripRec) : Bool :=
  let line := (ds.paths.getD tr.path default).line
  scenarioAdmits sc tr.service line (ds.lineRec line).agency (ds.lineRec line).mode

/-- the all-inclusive scenario: every service, no only/except list -/
def Dataset.allInclusive (ds : Dataset) : Scenario :=
  { services := List.range ds.nServices, onlyLines := [], exceptLines := [], onlyAgencies := [],
    exceptAgencies := [], onlyModes := [], exceptModes := [] }

/-- the data with the excluded trips physically removed -/
def Dataset.deleteExcluded (ds : Dataset) (sc : Scenario) : Dataset :=
  { ds with trips := ds.trips.filter (ds.admitsTrip sc), scenarios := [ds.allInclusive] }

/-- well-formedness used here: trip identifiers are unique, services are declared -/
structure WFIds (ds : Dataset) : Prop where
  nodup : (ds.trips.map (·.id)).Nodup
  services : ∀ tr ∈ ds.trips, tr.service < ds.nServices

/-! ### lookups by trip id -/

theorem find_of_mem_nodup {l : List TripRec} (h : (l.map (·.id)).Nodup) {tr : TripRec} (hm : tr ∈ l) :
    l.find? (·.id = tr.id) = some tr := by
  induction l with
  | nil => cases hm
  | cons a rest ih =>
    simp only [List.map_cons, List.nodup_cons] at h
    rcases List.mem_cons.mp hm with e | e
    · subst e; simp [List.find?_cons]
    · have hne : ¬ a.id = tr.id := by
        intro he; apply h.1; rw [he]; exact List.mem_map_of_mem e
      simp [List.find?_cons, hne, ih h.2 e]

theorem tripEnabled_of_mem {ds : Dataset} (h : WFIds ds) (sc : Scenario) {tr : TripRec} (hm : tr ∈ ds.trips) :
    ds.tripEnabled sc tr.id = ds.admitsTrip sc tr := by
  have hf : ds.tripRec? tr.id = some tr := find_of_mem_nodup h.nodup hm
  simp [Dataset.tripEnabled, Dataset.admitsTrip, Dataset.serviceOfTrip, Dataset.lineOfTrip, Dataset.agencyOfTrip,
    Dataset.modeOfTrip, Dataset.pathOfTrip, hf]

theorem wf_deleteExcluded {ds : Dataset} (h : WFIds ds) (sc : Scenario) : WFIds (ds.deleteExcluded sc) := by
  constructor
  · simp only [Dataset.deleteExcluded]
    exact List.Nodup.sublist (List.Sublist.map _ List.filter_sublist) h.nodup
  · intro tr hm
    simp only [Dataset.deleteExcluded] at hm ⊢
    exact h.services tr (List.mem_filter.mp hm).1

/-- under the all-inclusive scenario every remaining trip is enabled -/
theorem allInclusive_admits {ds : Dataset} (h : WFIds ds) (sc : Scenario) {tr : TripRec}
    (hm : tr ∈ (ds.deleteExcluded sc).trips) :
    (ds.deleteExcluded sc).admitsTrip ds.allInclusive tr = true := by
  have hs := (wf_deleteExcluded h sc).services tr hm
  simp only [Dataset.deleteExcluded] at hs
  simp [Dataset.admitsTrip, Dataset.allInclusive, scenarioAdmits, hs]

/-! ### connections -/

theorem tripConns_delete (ds : Dataset) (sc : Scenario) (tr : TripRec) :
    (ds.deleteExcluded sc).tripConns tr = ds.tripConns tr := rfl

theorem tripConnsAux_trip (tr : TripRec) (stops : List Nat) (mw : Int) (k n : Nat) :
    ∀ c ∈ tripConnsAux tr stops mw k n, c.trip = tr.id := by
  induction n generalizing k with
  | zero => intro c hc; simp [tripConnsAux] at hc
  | succ n ih =>
    intro c hc
    simp only [tripConnsAux, List.mem_cons] at hc
    rcases hc with e | e
    · rw [e]
    · exact ih (k + 1) c e

theorem tripConns_trip (ds : Dataset) (tr : TripRec) : ∀ c ∈ ds.tripConns tr, c.trip = tr.id := by
  intro c hc; exact tripConnsAux_trip _ _ _ _ _ c hc

/-- connections of the reduced data = connections of the surviving trips -/
theorem conns_delete {ds : Dataset} (h : WFIds ds) (sc : Scenario) :
    (ds.deleteExcluded sc).conns = ds.conns.filter (fun c => ds.tripEnabled sc c.trip) := by
  simp only [Dataset.conns, Dataset.deleteExcluded]
  have : ∀ (l : List TripRec), (∀ tr ∈ l, tr ∈ ds.trips) →
      (l.filter (ds.admitsTrip sc)).flatMap (Dataset.tripConns { ds with trips := ds.trips.filter (ds.admitsTrip sc), scenarios := [ds.allInclusive] })
        = (l.flatMap ds.tripConns).filter (fun c => ds.tripEnabled sc c.trip) := by
    intro l
    induction l with
    | nil => intro _; rfl
    | cons tr rest ih =>
      intro hsub
      have hm : tr ∈ ds.trips := hsub tr (List.mem_cons_self ..)
      have hrest := ih (fun x hx => hsub x (List.mem_cons_of_mem _ hx))
      have hen := tripEnabled_of_mem h sc hm
      have hall : ∀ c ∈ ds.tripConns tr, ds.tripEnabled sc c.trip = ds.admitsTrip sc tr := by
        intro c hc; rw [tripConns_trip ds tr c hc, hen]
      simp only [List.flatMap_cons, List.filter_append]
      by_cases ha : ds.admitsTrip sc tr = true
      · rw [List.filter_cons_of_pos ha, List.flatMap_cons, hrest]
        have e1 : (ds.tripConns tr).filter (fun c => ds.tripEnabled sc c.trip) = ds.tripConns tr := by
          rw [List.filter_eq_self]; intro c hc; rw [hall c hc, ha]
        rw [e1]; rfl
      · have ha' : ds.admitsTrip sc tr = false := by simpa using ha
        rw [List.filter_cons_of_neg ha, hrest]
        have e1 : (ds.tripConns tr).filter (fun c => ds.tripEnabled sc c.trip) = [] := by
          rw [List.filter_eq_nil_iff]; intro c hc; rw [hall c hc, ha']; simp
        rw [e1]; rfl
  exact this ds.trips (fun _ h => h)

/-- every connection of the reduced data belongs to a trip the all-inclusive scenario enables -/
theorem enabled_all_delete {ds : Dataset} (h : WFIds ds) (sc : Scenario) :
    ∀ c ∈ (ds.deleteExcluded sc).conns, (ds.deleteExcluded sc).tripEnabled ds.allInclusive c.trip = true := by
  intro c hc
  simp only [Dataset.conns, List.mem_flatMap] at hc
  obtain ⟨tr, htr, hc⟩ := hc
  rw [tripConns_trip _ tr c hc, tripEnabled_of_mem (wf_deleteExcluded h sc) _ htr]
  exact allInclusive_admits h sc htr

/-- **C11 (connection set).** The connection set of the reduced data under the all-inclusive
    scenario is the connection set of the original data under the restricting scenario: same
    trips, same forward and reverse lists, same hour indices. -/
theorem C11_connSet {ds : Dataset} (h : WFIds ds) (sc : Scenario) :
    (ds.deleteExcluded sc).connSetOf ds.allInclusive = ds.connSetOf sc := by
  have hfwd : (ds.deleteExcluded sc).fwdAll.filter (fun c => (ds.deleteExcluded sc).tripEnabled ds.allInclusive c.trip)
      = ds.fwdAll.filter (fun c => ds.tripEnabled sc c.trip) := by
    rw [List.filter_eq_self.mpr]
    · simp only [Dataset.fwdAll]
      rw [conns_delete h sc, ← filter_isort fwdLt fwdLt_strictWeak]
    · intro c hc
      exact enabled_all_delete h sc c ((mem_isort fwdLt c _).mp hc)
  have hrev : (ds.deleteExcluded sc).revAll.filter (fun c => (ds.deleteExcluded sc).tripEnabled ds.allInclusive c.trip)
      = ds.revAll.filter (fun c => ds.tripEnabled sc c.trip) := by
    rw [List.filter_eq_self.mpr]
    · simp only [Dataset.revAll]
      rw [conns_delete h sc, ← filter_isort revLt revLt_strictWeak]
    · intro c hc
      exact enabled_all_delete h sc c ((mem_isort revLt c _).mp hc)
  have htrips : ((ds.deleteExcluded sc).trips.map (·.id)).filter ((ds.deleteExcluded sc).tripEnabled ds.allInclusive)
      = (ds.trips.map (·.id)).filter (ds.tripEnabled sc) := by
    rw [List.filter_eq_self.mpr]
    · simp only [Dataset.deleteExcluded]
      have : ∀ (l : List TripRec), (∀ tr ∈ l, tr ∈ ds.trips) →
          (l.filter (ds.admitsTrip sc)).map (·.id) = (l.map (·.id)).filter (ds.tripEnabled sc) := by
        intro l
        induction l with
        | nil => intro _; rfl
        | cons tr rest ih =>
          intro hsub
          have hen := tripEnabled_of_mem h sc (hsub tr (List.mem_cons_self ..))
          have hrest := ih (fun x hx => hsub x (List.mem_cons_of_mem _ hx))
          by_cases ha : ds.admitsTrip sc tr = true
          · rw [List.filter_cons_of_pos ha, List.map_cons, List.map_cons, List.filter_cons_of_pos (by rw [hen, ha]), hrest]
          · rw [List.filter_cons_of_neg ha, List.map_cons, List.filter_cons_of_neg (by rw [hen]; exact ha), hrest]
      exact this ds.trips (fun _ h => h)
    · intro t ht
      obtain ⟨tr, htr, rfl⟩ := List.mem_map.mp ht
      rw [tripEnabled_of_mem (wf_deleteExcluded h sc) _ htr]
      exact allInclusive_admits h sc htr
  simp only [Dataset.connSetOf, hfwd, hrev, htrips]

/-- what a calculation reads besides the connection set is the same on both sides -/
theorem C11_restrict {ds : Dataset} (h : WFIds ds) (sc : Scenario) :
    (ds.deleteExcluded sc).restrict (ds.connSetOf sc) = ds.restrict (ds.connSetOf sc) := by
  simp only [Dataset.restrict, Dataset.deleteExcluded]
  congr 1
  rw [List.filter_filter]
  apply List.filter_congr
  intro tr htr
  by_cases hc : (ds.connSetOf sc).trips.contains tr.id = true
  · have : ds.admitsTrip sc tr = true := by
      simp only [Dataset.connSetOf, mkConnSet, List.contains_iff_mem, List.mem_filter] at hc
      rw [← tripEnabled_of_mem h sc htr]; exact hc.2
    simp [this]
  · have hc' : ¬ tr.id ∈ (ds.connSetOf sc).trips := by simpa using hc
    simp [hc']

/-- **C11.** For every dataset with unique trip identifiers and declared services, every
    scenario definition `sc` and every query `p`: the route calculation, the accessibility
    calculation and the alternatives search run on the reduced data with the all-inclusive
    scenario give exactly the answers they give on the original data with `sc` (the scenario
    index inside `p` only selects the connection set; the `…CS` functions never read it). -/
theorem C11_answers {ds : Dataset} (h : WFIds ds) (sc : Scenario) (p : Params) :
    calculateSingleCS (ds.deleteExcluded sc) ((ds.deleteExcluded sc).connSetOf ds.allInclusive) p
      = calculateSingleCS ds (ds.connSetOf sc) p ∧
    calculateAllNodesCS (ds.deleteExcluded sc) ((ds.deleteExcluded sc).connSetOf ds.allInclusive) p
      = calculateAllNodesCS ds (ds.connSetOf sc) p ∧
    alternativesRoutingCS (ds.deleteExcluded sc) ((ds.deleteExcluded sc).connSetOf ds.allInclusive) p
      = alternativesRoutingCS ds (ds.connSetOf sc) p := by
  rw [C11_connSet h sc]
  refine ⟨?_, ?_, ?_⟩
  · simp only [calculateSingleCS, C11_restrict h sc]; rfl
  · simp only [calculateAllNodesCS, C11_restrict h sc]
  · simp only [alternativesRoutingCS, C11_restrict h sc]

/-- the wrapper the handlers use: `calculateSingle ds p` is the `…CS` function at the connection
    set of the scenario `p` names -/
theorem C11_route (ds : Dataset) (h : WFIds ds) (p : Params) :
    calculateSingle ds p =
      calculateSingleCS (ds.deleteExcluded (ds.scenarioOf p)) ((ds.deleteExcluded (ds.scenarioOf p)).connSetOf ds.allInclusive) p := by
  rw [(C11_answers h (ds.scenarioOf p) p).1]; rfl

/-! non-vacuity: a two-trip dataset whose scenario really excludes one trip -/
def exDs : Dataset :=
  { nStops := 2, nServices := 2, foot := [], lines := [⟨0, 0⟩, ⟨0, 1⟩],
    paths := [⟨0, [0, 1], [10]⟩, ⟨1, [0, 1], [10]⟩],
    trips := [⟨5, 0, 0, [100, 200], [100, 200], [true, true], [true, true]⟩,
              ⟨3, 1, 1, [150, 250], [150, 250], [true, true], [true, true]⟩],
    scenarios := [], access := [], egress := [] }
def exSc : Scenario := { services := [0, 1], onlyLines := [], exceptLines := [1], onlyAgencies := [], exceptAgencies := [], onlyModes := [], exceptModes := [] }
example : WFIds exDs := ⟨by decide, by decide⟩
example : ((exDs.deleteExcluded exSc).trips.map (·.id)) = [5] ∧ (exDs.connSetOf exSc).trips = [5] := by decide

end Tr
