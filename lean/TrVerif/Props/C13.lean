/-
  Property C13 — an answer depends only on the data and the request, not on earlier requests.

  State shared between requests = the scenario connection-set cache (each handler invocation
  constructs its own `Calculator`: structural facts read off the source by the translator,
  `C13_structure`).  Invariant: every cached entry is the connection set of its scenario.
-/
import TrVerif.Model.Server
namespace Tr

/-- every cached connection set is the one `getConnectionsForScenario` would compute -/
def Coherent (ds : Dataset) (s : Server) : Prop :=
  ∀ sc cs, s.get sc = some cs → cs = ds.connSetOf (ds.scenarios.getD sc default)

theorem coherent_init (ds : Dataset) (b : Bool) : Coherent ds (Server.init b) := by
  intro sc cs h; simp [Server.init, Server.get] at h

theorem find_filter_ne (l : List (Nat × ConnSet)) (sc sc' : Nat) (h : sc' ≠ sc) :
    (l.filter (fun x => decide (x.1 ≠ sc))).find? (fun x => decide (x.1 = sc')) = l.find? (fun x => decide (x.1 = sc')) := by
  rw [List.find?_filter]
  congr 1
  funext a
  by_cases h2 : a.1 = sc'
  · have : a.1 ≠ sc := by rw [h2]; exact h
    simp [h2, h]
  · simp [h2]

theorem get_set (s : Server) (sc sc' : Nat) (cs : ConnSet) :
    (s.set sc cs).get sc' = if sc' = sc then some cs else if s.cacheAll then s.get sc' else none := by
  unfold Server.set Server.get
  by_cases hA : s.cacheAll
  · by_cases h : sc' = sc
    · subst h; simp [hA, List.find?_cons]
    · have h' : ¬ sc = sc' := fun e => h e.symm
      simp only [hA, if_true, h, if_false]
      rw [List.find?_cons]
      simp only [h', decide_false]
      rw [find_filter_ne _ _ _ h]
  · by_cases h : sc' = sc
    · subst h; simp [hA, List.find?_cons]
    · have h' : ¬ sc = sc' := fun e => h e.symm
      simp [hA, h, List.find?_cons, h']

theorem coherent_set {ds : Dataset} {s : Server} (h : Coherent ds s) (sc : Nat) :
    Coherent ds (s.set sc (ds.connSetOf (ds.scenarios.getD sc default))) := by
  intro sc' cs hg
  rw [get_set] at hg
  by_cases h1 : sc' = sc
  · subst h1; simp at hg; exact hg.symm
  · simp only [h1, if_false] at hg
    by_cases hA : s.cacheAll
    · simp only [hA, if_true] at hg; exact h sc' cs hg
    · simp [hA] at hg

theorem obtain_coherent {ds : Dataset} {s : Server} (h : Coherent ds s) (sc : Nat) :
    (obtain ds s sc).1 = ds.connSetOf (ds.scenarios.getD sc default) ∧ Coherent ds (obtain ds s sc).2 := by
  unfold obtain
  cases hg : s.get sc with
  | none => exact ⟨rfl, coherent_set h sc⟩
  | some cs => exact ⟨h sc cs hg, h⟩

theorem handle_coherent {ds : Dataset} {s : Server} (h : Coherent ds s) (r : Request) :
    Coherent ds (handle ds s r).1 := by
  unfold handle
  cases parseParams ds r.kvs with
  | error e => exact h
  | ok p =>
    by_cases hr : reachesFilters ds r.kind p
    · simp only [hr, if_true]; exact (obtain_coherent h p.scenario).2
    · simp only [hr]; exact h

theorem run_coherent {ds : Dataset} (hist : List Request) : ∀ {s : Server}, Coherent ds s → Coherent ds (run ds s hist) := by
  induction hist with
  | nil => intro s h; exact h
  | cons r rest ih => intro s h; exact ih (handle_coherent h r)

/-- the response of a request on any coherent server state -/
theorem handle_response {ds : Dataset} {s : Server} (h : Coherent ds s) (r : Request) :
    (handle ds s r).2 =
      match parseParams ds r.kvs with
      | .error e => s!"{r.kind} query_error {paramErrorType e}"
      | .ok p => if reachesFilters ds r.kind p
          then respond ds (ds.connSetOf (ds.scenarios.getD p.scenario default)) r.kind p
          else respond ds (mkConnSet [] [] []) r.kind p := by
  unfold handle
  cases parseParams ds r.kvs with
  | error e => rfl
  | ok p =>
    by_cases hr : reachesFilters ds r.kind p
    · simp only [hr, if_true]; rw [(obtain_coherent h p.scenario).1]
    · simp only [hr]; rfl

/-- **C13.** For every dataset, both settings of `cacheAllConnectionSets`, every finite sequence
    `hist` of route / alternatives / summary / accessibility requests (valid, failing or invalid)
    and every request `req`: the response to `req` after serving `hist` equals the response of a
    fresh server - whether the per-scenario set was cached or is built for this request. -/
theorem C13_history_independent (ds : Dataset) (cacheAll : Bool) (hist : List Request) (req : Request) :
    (handle ds (run ds (Server.init cacheAll) hist) req).2 = (handle ds (Server.init cacheAll) req).2 := by
  rw [handle_response (run_coherent hist (coherent_init ds cacheAll)), handle_response (coherent_init ds cacheAll)]

/-- … and it does not depend on the cache setting either -/
theorem C13_cache_kind_irrelevant (ds : Dataset) (hist1 hist2 : List Request) (req : Request) :
    (handle ds (run ds (Server.init true) hist1) req).2 = (handle ds (run ds (Server.init false) hist2) req).2 := by
  rw [handle_response (run_coherent hist1 (coherent_init ds true)), handle_response (run_coherent hist2 (coherent_init ds false))]

/-- structural facts the model rests on, read off the current source by the translator: one
    `Calculator` per handler invocation, the cache reached only through `get`/`set`, no static
    state in the calculator, no data member in the geography filters the requests share (the model's
    walking router is a function of the dataset only) -/
theorem C13_structure :
    (["handler_route_own_calculator", "handler_summary_own_calculator", "handler_accessibility_own_calculator",
      "cache_touched_only_via_get_set", "no_static_state_in_calculator", "geofilters_are_stateless"].all
        fun k => Gen.facts.lookup k == some true) = true := by decide

/-- non-vacuity: a history that really fills and replaces the cache -/
example : ((Server.init false).set 1 (mkConnSet [] [] [])).get 1 = some (mkConnSet [] [] []) := by
  simp [get_set]

end Tr
