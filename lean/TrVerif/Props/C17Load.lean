/-
  Props/C17Load — what the record-level loader model (`Model/Load.lean`) guarantees for EVERY
  cache content: any records, any references, any array lengths, any files missing.

  * `C17_no_ub`            no unchecked out-of-range access while loading (the only unchecked read of the
                           loaders, `path.nodesRef[i]`, is protected by the trip validation) — and the
                           validation is needed (`C17_guard_needed`: without it the model does reach `ub`)
  * `C17_conn_forward`     no loaded connection arrives before it departs (what `4b92a5c` made the
                           calculations rely on)
  * `C17_foot_nonneg`      no loaded footpath has a negative time
  * `C17_validation_source` the guards the proofs use are the ones the source has NOW (translator)
  * `C17_missing_*`        a missing collection file never yields READY
-/
import TrVerif.Model.Load
namespace Tr.Load

/-! ### the connection loop under the validation -/

theorem connLoop_val (trip : Nat) (mw : Int) (nodes : List Nat) (t : TripR) :
    ∀ (n i : Nat), i + n + 1 ≤ nodes.length → i + n + 1 ≤ t.arr.length → i + n + 1 ≤ t.dep.length →
      i + n + 1 ≤ t.cb.length → i + n + 1 ≤ t.cu.length →
      ∃ cs, connLoop trip mw nodes t i n = .val cs ∧ cs.length = n ∧
        ∀ c ∈ cs, ∃ j, i ≤ j ∧ j < i + n ∧ some c.dep = t.dep[j]? ∧ some c.arr = t.arr[j+1]? ∧
          some c.depNode = nodes[j]? ∧ some c.arrNode = nodes[j+1]? ∧ c.trip = trip ∧ c.seq = j + 1 := by
  intro n
  induction n with
  | zero => intro i _ _ _ _ _; exact ⟨[], by simp [connLoop], rfl, by simp⟩
  | succ n ih =>
    intro i hn ha hd hb hu
    obtain ⟨cs, hcs, hlen, hall⟩ := ih (i+1) (by omega) (by omega) (by omega) (by omega) (by omega)
    have h1 : i < nodes.length := by omega
    have h2 : i + 1 < nodes.length := by omega
    have h3 : i < t.dep.length := by omega
    have h4 : i + 1 < t.arr.length := by omega
    have h5 : i < t.cb.length := by omega
    have h6 : i + 1 < t.cu.length := by omega
    refine ⟨⟨nodes[i], nodes[i+1], t.dep[i], t.arr[i+1], trip, i+1, t.cb[i] == 1, t.cu[i+1] == 1, mw⟩ :: cs, ?_, by simp [hlen], ?_⟩
    · rw [connLoop]
      simp only [List.getElem?_eq_getElem h1, List.getElem?_eq_getElem h2, List.getElem?_eq_getElem h3,
        List.getElem?_eq_getElem h4, List.getElem?_eq_getElem h5, List.getElem?_eq_getElem h6, hcs]
    · intro c hc
      rcases List.mem_cons.1 hc with rfl | hc
      · exact ⟨i, Nat.le_refl _, by omega, by simp [List.getElem?_eq_getElem h3], by simp [List.getElem?_eq_getElem h4],
          by simp [List.getElem?_eq_getElem h1], by simp [List.getElem?_eq_getElem h2], rfl, rfl⟩
      · obtain ⟨j, hj1, hj2, r⟩ := hall c hc
        exact ⟨j, by omega, by omega, r⟩

theorem tripCountsOk_spec {t : TripR} {p : LPath} (h : tripCountsOk t p = true) :
    2 ≤ t.arr.length ∧ t.arr.length ≤ p.nodes.length ∧ t.arr.length ≤ t.dep.length ∧
    t.arr.length ≤ t.cb.length ∧ t.arr.length ≤ t.cu.length := by
  simp only [tripCountsOk, Bool.not_eq_true', Bool.or_eq_false_iff, decide_eq_false_iff_not] at h
  omega

/-- the guard is what keeps the unchecked read in range: a trip record with three times on a path of
    two stops, fed to the connection loop WITHOUT the validation, reaches `ub` -/
theorem C17_guard_needed :
    (match connLoop 7 (-1) [1, 2] ⟨.id 7, .id 5, [10, 20, 30], [11, 21, 31], [1, 1, 1], [1, 1, 1]⟩ 0 2 with
      | .ub => true | _ => false) = true := by decide

/-- and the validation rejects exactly that record -/
theorem C17_guard_rejects :
    tripCountsOk ⟨.id 7, .id 5, [10, 20, 30], [11, 21, 31], [1, 1, 1], [1, 1, 1]⟩ ⟨4, [1, 2], []⟩ = false := by decide

/-! ### `goesBack` -/

theorem goesBack_spec : ∀ (arr dep : List Int), goesBack arr dep = false →
    ∀ j, ∀ a d, arr[j+1]? = some a → dep[j]? = some d → d ≤ a := by
  intro arr
  induction arr with
  | nil => intro dep _ j a d h; simp at h
  | cons a0 as ih =>
    intro dep hg j a d ha hd
    cases as with
    | nil => simp at ha
    | cons a1 as' =>
      cases dep with
      | nil => simp at hd
      | cons d0 ds =>
        simp only [goesBack, Bool.or_eq_false_iff, decide_eq_false_iff_not] at hg
        cases j with
        | zero =>
          simp only [List.getElem?_cons_succ, List.getElem?_cons_zero, Option.some.injEq] at ha hd
          omega
        | succ j =>
          simp only [List.getElem?_cons_succ] at ha hd
          exact ih ds hg.2 j a d (by simpa using ha) hd

/-! ### invariant of the schedule loader -/

/-- what holds of a schedule state: nothing undefined happened, every connection goes forward in time -/
def SchOK (s : Sch) : Prop := s.ub = false ∧ ∀ c ∈ s.conns, c.dep ≤ c.arr

theorem fileLoop_ok (line : Nat) (ll : LLine) (services : Map Unit) (paths : Map LPath) :
    ∀ (items : List LItem) (svc : Option Nat) (s : Sch), SchOK s → SchOK (fileLoop line ll services paths items svc s).2 := by
  intro items
  induction items with
  | nil => intro svc s h; simpa [fileLoop] using h
  | cons it items ih =>
    intro svc s h
    cases it with
    | period => rw [fileLoop]; exact ih svc s h
    | sched u =>
      rw [fileLoop]
      split
      · exact h
      · split
        · exact ih _ s h
        · exact h
    | trip t =>
      by_cases hex : ∃ sv k pk, svc = some sv ∧ t.uuid.parse = some k ∧ t.path.parse = some pk
      case neg =>
        rw [fileLoop.eq_5 _ _ _ _ _ _ _ _ (by intro sv k pk a b c; exact hex ⟨sv, k, pk, a, b, c⟩)]; exact h
      case pos =>
        obtain ⟨sv, k, pk, rfl, hk, hpk⟩ := hex
        rw [fileLoop.eq_4 _ _ _ _ _ _ _ _ _ _ hk hpk]
        split
        case h_1 => exact h
        case h_2 p hp =>
          by_cases hc : tripCountsOk t p = true
          · rw [if_neg (by simp [hc])]
            by_cases hb : goesBack t.arr t.dep = true
            · rw [if_pos hb]; exact ih _ s h
            · rw [if_neg hb]
              have hb' : goesBack t.arr t.dep = false := by simpa using hb
              obtain ⟨h2, hn, hd, hcb, hcu⟩ := tripCountsOk_spec hc
              obtain ⟨cs, hcs, _, hall⟩ := connLoop_val k (if ll.mode = "transferable" then 0 else -1) p.nodes t
                (t.arr.length - 1) 0 (by omega) (by omega) (by omega) (by omega) (by omega)
              simp only [hcs]
              apply ih
              refine ⟨h.1, ?_⟩
              intro c hc'
              rcases List.mem_append.1 hc' with hc' | hc'
              · exact h.2 c hc'
              · obtain ⟨j, _, _, hdep, harr, _⟩ := hall c hc'
                exact goesBack_spec _ _ hb' j c.arr c.dep harr.symm hdep.symm
          · rw [if_pos (by simp [hc])]; exact ih _ s h

theorem schedLoop_ok (files : List (Nat × Option (List LItem))) (services : Map Unit) (paths : Map LPath) :
    ∀ (lines : Map LLine) (s : Sch), SchOK s → SchOK (schedLoop files services paths lines s) := by
  intro lines
  induction lines with
  | nil => intro s h; simpa [schedLoop] using h
  | cons l ls ih =>
    intro s h
    obtain ⟨k, ll⟩ := l
    rw [schedLoop]
    split
    · exact ih s h
    · exact ih s h
    · exact ih _ (fileLoop_ok _ _ _ _ _ _ _ h)

/-! ### the whole load -/

def TDOK (td : TD) : Prop := td.ub = false ∧ ∀ c ∈ td.conns, c.dep ≤ c.arr

theorem applyCall_ok (d : Disk) (fn : String) (td : TD) (h : TDOK td) : TDOK (applyCall d fn td).2 := by
  unfold applyCall
  split
  · exact h
  split
  · exact h
  split
  · exact h
  split
  · exact h
  split
  · exact h
  split
  · exact h
  split
  · have hs := schedLoop_ok d.lineFiles td.services td.paths td.lines {} ⟨rfl, by simp⟩
    refine ⟨?_, ?_⟩
    · simp [h.1, hs.1]
    · exact hs.2
  · exact h

theorem loadFrom_ok (d : Disk) : ∀ (calls : List (String × Bool)) (td : TD), TDOK td → TDOK (loadFrom d calls td) := by
  intro calls
  induction calls with
  | nil => intro td h; simpa [loadFrom] using h
  | cons c cs ih =>
    intro td h
    obtain ⟨fn, tol⟩ := c
    rw [loadFrom]
    split
    · exact applyCall_ok d fn td h
    · exact ih _ (applyCall_ok d fn td h)

/-- **C17 (loader, all contents)**: whatever the files contain, loading never performs an unchecked
    out-of-range access … -/
theorem C17_no_ub (d : Disk) : (loadAll d).ub = false :=
  (loadFrom_ok d Gen.loadOrder {} ⟨rfl, by simp⟩).1

/-- … and no loaded connection arrives before it departs. -/
theorem C17_conn_forward (d : Disk) : ∀ c ∈ (loadAll d).conns, c.dep ≤ c.arr :=
  (loadFrom_ok d Gen.loadOrder {} ⟨rfl, by simp⟩).2


/-! ### footpaths -/

def NodeOK (n : LNode) : Prop := (∀ e ∈ n.foot, 0 ≤ e.time) ∧ (∀ e ∈ n.rfoot, 0 ≤ e.time)
def NodesOK (m : Map LNode) : Prop := ∀ p ∈ m, NodeOK p.2

theorem mem_emplace {α} : ∀ (m : Map α) (k : Nat) (v : α) (p : Nat × α), p ∈ m.emplace k v → p ∈ m ∨ p = (k, v) := by
  intro m
  induction m with
  | nil => intro k v p h; simp [Map.emplace] at h; exact Or.inr h
  | cons q m ih =>
    intro k v p h
    obtain ⟨k', v'⟩ := q
    rw [Map.emplace] at h
    split at h
    · rcases List.mem_cons.1 h with h | h
      · exact Or.inr h
      · exact Or.inl h
    · split at h
      · exact Or.inl h
      · rcases List.mem_cons.1 h with h | h
        · exact Or.inl (by simp [h])
        · rcases ih k v p h with h | h
          · exact Or.inl (List.mem_cons_of_mem _ h)
          · exact Or.inr h

theorem nodesOK_modify (m : Map LNode) (k : Nat) (f : LNode → LNode) (h : NodesOK m) (hf : ∀ n, NodeOK n → NodeOK (f n)) :
    NodesOK (m.modify k f) := by
  intro p hp
  simp only [Map.modify, List.mem_map] at hp
  obtain ⟨q, hq, rfl⟩ := hp
  split
  · exact hf _ (h q hq)
  · exact h q hq

theorem nodesCollLoop_ok : ∀ (us : List UTok) (m : Map LNode), NodesOK m → NodesOK (nodesCollLoop us m).2 := by
  intro us
  induction us with
  | nil => intro m h; simpa [nodesCollLoop] using h
  | cons u us ih =>
    intro m h
    rw [nodesCollLoop]
    split
    · exact h
    · apply ih
      intro p hp
      rcases mem_emplace _ _ _ _ hp with hp | rfl
      · exact h p hp
      · exact ⟨by simp, by simp⟩

theorem footLoop_ok (k : Nat) : ∀ (us : List UTok) (ts ds : List Int) (acc : List NTDu) (m : Map LNode),
    (∀ e ∈ acc, 0 ≤ e.time) → NodesOK m →
    (∀ e ∈ (footLoop k us ts ds acc m).2.1, 0 ≤ e.time) ∧ NodesOK (footLoop k us ts ds acc m).2.2 := by
  intro us
  induction us with
  | nil => intro ts ds acc m ha hm; simp only [footLoop]; exact ⟨ha, hm⟩
  | cons u us ih =>
    intro ts ds acc m ha hm
    cases ts with
    | nil => simp only [footLoop]; exact ⟨ha, hm⟩
    | cons t ts =>
      cases ds with
      | nil => simp only [footLoop]; exact ⟨ha, hm⟩
      | cons d ds =>
        rw [footLoop]
        split
        · exact ⟨ha, hm⟩
        · split
          · exact ih ts ds acc m ha hm
          · split
            · exact ih ts ds acc m ha hm
            · rename_i v _ _ hneg
              apply ih
              · intro e he
                rcases List.mem_append.1 he with he | he
                · exact ha e he
                · simp only [List.mem_singleton] at he; subst he; simpa using hneg
              · apply nodesOK_modify _ _ _ hm
                intro n hn
                refine ⟨hn.1, ?_⟩
                intro e he
                rcases List.mem_append.1 he with he | he
                · exact hn.2 e he
                · simp only [List.mem_singleton] at he; subst he; simpa using hneg

theorem nodeLoop_ok (files : List (Nat × Option NodeFile)) : ∀ (ks : List Nat) (m : Map LNode), NodesOK m →
    NodesOK (nodeLoop files ks m).2 := by
  intro ks
  induction ks with
  | nil => intro m h; simpa [nodeLoop] using h
  | cons k ks ih =>
    intro m h
    rw [nodeLoop]
    split
    · exact ih m h
    · exact h
    · rename_i f _
      split
      · exact h
      · have hf := footLoop_ok k f.uuids f.times f.dists [] m (by simp) h
        split
        · rename_i acc ts' heq
          rw [heq] at hf; exact hf.2
        · rename_i acc ts' heq
          rw [heq] at hf
          apply ih
          apply nodesOK_modify _ _ _ hf.2
          intro n hn
          refine ⟨hf.1, ?_⟩
          intro e he
          rcases List.mem_append.1 he with he | he
          · exact hn.2 e he
          · simp only [List.mem_singleton] at he; subst he; simp

theorem getNodes_ok (d : Disk) : NodesOK (getNodes d).2 := by
  unfold getNodes
  split
  · intro p hp; simp at hp
  · intro p hp; simp at hp
  · have h0 := nodesCollLoop_ok d.nodes.2 [] (by intro p hp; simp at hp)
    split
    · rename_i ts heq
      rw [heq] at h0
      exact nodeLoop_ok _ _ _ h0
    · rename_i r ts _ heq
      rw [heq] at h0; exact h0

/-- a property of the loaded tables that every update call preserves holds after `loadAllData` -/
theorem loadFrom_inv (d : Disk) (P : TD → Prop) (hstep : ∀ fn td, P td → P (applyCall d fn td).2) :
    ∀ (calls : List (String × Bool)) (td : TD), P td → P (loadFrom d calls td) := by
  intro calls
  induction calls with
  | nil => intro td h; simpa [loadFrom] using h
  | cons c cs ih =>
    intro td h
    obtain ⟨fn, tol⟩ := c
    rw [loadFrom]
    split
    · exact hstep fn td h
    · exact ih _ (hstep fn td h)

/-- the shape of one update call: it replaces at most its own table -/
theorem applyCall_cases (d : Disk) (fn : String) (td : TD) :
    (applyCall d fn td).2 = { td with nodes := (getNodes d).2 } ∨
    (applyCall d fn td).2 = { td with agencies := (getIds d.agencies).2 } ∨
    (applyCall d fn td).2 = { td with services := (getIds d.services).2 } ∨
    (applyCall d fn td).2 = { td with lines := (getLines d td.agencies).2 } ∨
    (applyCall d fn td).2 = { td with paths := (getPaths d td.lines td.nodes).2 } ∨
    (applyCall d fn td).2 = { td with scenarios := (getScenarios d ⟨td.services.has, td.lines.has, td.agencies.has, td.nodes.has⟩).2 } ∨
    (applyCall d fn td).2 = { td with trips := (schedLoop d.lineFiles td.services td.paths td.lines {}).trips,
                                       conns := (schedLoop d.lineFiles td.services td.paths td.lines {}).conns,
                                       ub := td.ub || (schedLoop d.lineFiles td.services td.paths td.lines {}).ub } ∨
    (applyCall d fn td).2 = td := by
  unfold applyCall
  split
  · exact Or.inl rfl
  split
  · exact Or.inr (Or.inl rfl)
  split
  · exact Or.inr (Or.inr (Or.inl rfl))
  split
  · exact Or.inr (Or.inr (Or.inr (Or.inl rfl)))
  split
  · exact Or.inr (Or.inr (Or.inr (Or.inr (Or.inl rfl))))
  split
  · exact Or.inr (Or.inr (Or.inr (Or.inr (Or.inr (Or.inl rfl)))))
  split
  · exact Or.inr (Or.inr (Or.inr (Or.inr (Or.inr (Or.inr (Or.inl rfl))))))
  · exact Or.inr (Or.inr (Or.inr (Or.inr (Or.inr (Or.inr (Or.inr rfl))))))

/-- **C17**: whatever the files contain, no loaded footpath (either direction) takes a negative time -/
theorem C17_foot_nonneg (d : Disk) : NodesOK (loadAll d).nodes := by
  apply loadFrom_inv d (fun td => NodesOK td.nodes)
  · intro fn td h
    rcases applyCall_cases d fn td with e | e | e | e | e | e | e | e <;> rw [e]
    · exact getNodes_ok d
    all_goals exact h
  · intro p hp; simp at hp

/-! ### a missing file is never READY -/

theorem status_not_ready (td : TD) (coll : String) (hc : td.count coll = 0)
    (hin : coll ∈ Gen.dataStatusOrder.map (·.1)) : td.status ≠ "READY" := by
  unfold TD.status
  have hall : ∀ p ∈ Gen.dataStatusOrder, p.2 ≠ "READY" := by decide
  cases hf : Gen.dataStatusOrder.find? (fun p => td.count p.1 = 0) with
  | some p =>
    simp only
    exact hall p (List.mem_of_find?_eq_some hf)
  | none =>
    exfalso
    obtain ⟨q, hq, rfl⟩ := List.mem_map.1 hin
    have := List.find?_eq_none.1 hf q hq
    simp [hc] at this

theorem getIds_missing (f : FSt × List UTok) (h : f.1 = .missing) : (getIds f).2 = [] := by
  unfold getIds; rw [h]

theorem getNodes_missing (d : Disk) (h : d.nodes.1 = .missing) : (getNodes d).2 = [] := by
  unfold getNodes; rw [h]
theorem getLines_missing (d : Disk) (a) (h : d.lines.1 = .missing) : (getLines d a).2 = [] := by
  unfold getLines; rw [h]
theorem getPaths_missing (d : Disk) (a b) (h : d.paths.1 = .missing) : (getPaths d a b).2 = [] := by
  unfold getPaths; rw [h]
theorem getScenarios_missing (d : Disk) (a) (h : d.scenarios.1 = .missing) : (getScenarios d a).2 = [] := by
  unfold getScenarios; rw [h]

theorem schedLoop_nofiles (services : Map Unit) (paths : Map LPath) : ∀ (lines : Map LLine) (s : Sch),
    schedLoop [] services paths lines s = s := by
  intro lines
  induction lines with
  | nil => intro s; rfl
  | cons l ls ih => intro s; obtain ⟨k, ll⟩ := l; rw [schedLoop]; simp [lookupFile, ih]

/-- **C17**: if a collection file the routing needs is absent (or there is no per-line schedule file at
    all), the data status after start-up is not READY, whatever the other files contain — every request
    is then answered `data_error` (`C17_every_request_data_error`). -/
theorem C17_missing_not_ready (d : Disk)
    (h : d.agencies.1 = .missing ∨ d.services.1 = .missing ∨ d.nodes.1 = .missing ∨ d.lines.1 = .missing ∨
         d.paths.1 = .missing ∨ d.scenarios.1 = .missing ∨ d.lineFiles = []) :
    (loadAll d).status ≠ "READY" := by
  have key : ∀ (P : TD → Prop), P {} → (∀ fn td, P td → P (applyCall d fn td).2) → P (loadAll d) :=
    fun P h0 hs => loadFrom_inv d P hs Gen.loadOrder {} h0
  rcases h with h | h | h | h | h | h | h
  · have : (loadAll d).agencies = [] := by
      apply key (fun td => td.agencies = []) rfl
      intro fn td ht
      rcases applyCall_cases d fn td with e | e | e | e | e | e | e | e <;> rw [e] <;> first | exact ht | exact getIds_missing _ h
    exact status_not_ready _ "agencies" (by simp [TD.count, this]) (by decide)
  · have : (loadAll d).services = [] := by
      apply key (fun td => td.services = []) rfl
      intro fn td ht
      rcases applyCall_cases d fn td with e | e | e | e | e | e | e | e <;> rw [e] <;> first | exact ht | exact getIds_missing _ h
    exact status_not_ready _ "services" (by simp [TD.count, this]) (by decide)
  · have : (loadAll d).nodes = [] := by
      apply key (fun td => td.nodes = []) rfl
      intro fn td ht
      rcases applyCall_cases d fn td with e | e | e | e | e | e | e | e <;> rw [e] <;> first | exact ht | exact getNodes_missing _ h
    exact status_not_ready _ "nodes" (by simp [TD.count, this]) (by decide)
  · have : (loadAll d).lines = [] := by
      apply key (fun td => td.lines = []) rfl
      intro fn td ht
      rcases applyCall_cases d fn td with e | e | e | e | e | e | e | e <;> rw [e] <;> first | exact ht | exact getLines_missing _ _ h
    exact status_not_ready _ "lines" (by simp [TD.count, this]) (by decide)
  · have : (loadAll d).paths = [] := by
      apply key (fun td => td.paths = []) rfl
      intro fn td ht
      rcases applyCall_cases d fn td with e | e | e | e | e | e | e | e <;> rw [e] <;> first | exact ht | exact getPaths_missing _ _ _ h
    exact status_not_ready _ "paths" (by simp [TD.count, this]) (by decide)
  · have : (loadAll d).scenarios = [] := by
      apply key (fun td => td.scenarios = []) rfl
      intro fn td ht
      rcases applyCall_cases d fn td with e | e | e | e | e | e | e | e <;> rw [e] <;> first | exact ht | exact getScenarios_missing _ _ h
    exact status_not_ready _ "scenarios" (by simp [TD.count, this]) (by decide)
  · have : (loadAll d).trips = [] := by
      apply key (fun td => td.trips = []) rfl
      intro fn td ht
      rcases applyCall_cases d fn td with e | e | e | e | e | e | e | e <;> rw [e] <;> first | exact ht | (rw [h, schedLoop_nofiles])
    exact status_not_ready _ "trips" (by simp [TD.count, this]) (by decide)

/-- READY means every one of the seven tables is non-empty -/
theorem C17_ready_all_nonempty (d : Disk) (h : (loadAll d).status = "READY") :
    (loadAll d).agencies ≠ [] ∧ (loadAll d).services ≠ [] ∧ (loadAll d).nodes ≠ [] ∧ (loadAll d).lines ≠ [] ∧
    (loadAll d).paths ≠ [] ∧ (loadAll d).scenarios ≠ [] ∧ (loadAll d).trips ≠ [] := by
  have hk : ∀ coll, coll ∈ Gen.dataStatusOrder.map (·.1) → (loadAll d).count coll ≠ 0 :=
    fun coll hin hc => status_not_ready _ coll hc hin h
  refine ⟨?_, ?_, ?_, ?_, ?_, ?_, ?_⟩
  · intro e; exact hk "agencies" (by decide) (by simp [TD.count, e])
  · intro e; exact hk "services" (by decide) (by simp [TD.count, e])
  · intro e; exact hk "nodes" (by decide) (by simp [TD.count, e])
  · intro e; exact hk "lines" (by decide) (by simp [TD.count, e])
  · intro e; exact hk "paths" (by decide) (by simp [TD.count, e])
  · intro e; exact hk "scenarios" (by decide) (by simp [TD.count, e])
  · intro e; exact hk "trips" (by decide) (by simp [TD.count, e])

/-- the guards of the source, as extracted now, are the five the model's `tripCountsOk` tests and the two
    size tests of `nodeLoop`; the Connection is built from the indices `connLoop` reads -/
theorem C17_validation_source :
    Gen.tripValidation = ["tripNodeTimesCount < 2", "tripNodeTimesCount > path.nodesRef.size()",
      "capnpTrip.getNodeDepartureTimesSeconds().size() < tripNodeTimesCount",
      "capnpTrip.getNodesCanBoard().size() < tripNodeTimesCount",
      "capnpTrip.getNodesCanUnboard().size() < tripNodeTimesCount"] ∧
    Gen.nodeFileValidation = ["capnpT.getTransferableNodesTravelTimes().size() < transferableNodesCount",
      "capnpT.getTransferableNodesDistances().size() < transferableNodesCount"] ∧
    Gen.connectionArgs = ["path.nodesRef[nodeTimeI].get()", "path.nodesRef[nodeTimeI + 1].get()",
      "departureTimesSeconds[nodeTimeI]", "arrivalTimesSeconds[nodeTimeI + 1]", "trip",
      "canBoards[nodeTimeI] == 1", "canUnboards[nodeTimeI + 1] == 1", "nodeTimeI + 1",
      "trip.allowSameLineTransfers", "line.mode.isTransferable() ? 0 : -1"] ∧
    Gen.transferableName = "transferable" := by decide

/-- how each loader stores a record with a uuid already present, as read from the source NOW: `emplace` keeps the first
    record (`Map.emplace`: nodes, lines, paths, trips), `ts[uuid] =` keeps the last (`Map.set`: agencies, services, scenarios) -/
theorem C17_insert_source :
    Gen.loaderInsert = [("agencies", "assign"), ("services", "assign"), ("nodes", "emplace"), ("lines", "emplace"), ("paths", "emplace"),
      ("scenarios", "assign"), ("trips_and_connections", "emplace")] := by decide

end Tr.Load
