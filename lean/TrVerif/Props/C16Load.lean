/-
  Props/C16Load — **round trip of the loaders** (property C16 at record level).

  For every dataset `ds` that the cache schema can encode (`Enc ds`: identifiers in range, parallel
  arrays aligned, at least two and at most as many stop times as the path has stops, no hop that
  arrives before it leaves, no negative footpath), running the model of the real loaders
  (`Load.loadAll`, `Model/Load.lean`) on the records that `cachegen` writes (`Load.encode`) yields
  EXACTLY:

  * the seven tables (`C16_roundtrip`): stops with their footpath vectors and reverse vectors, lines
    with agency and mode, paths with stop order and segment distances, scenarios with all their
    lists, trips with path / line / agency / mode / service;
  * as `connections` (`C16_loaded_conns`): for the trips in file order, the connections of
    `Dataset.tripConns` — hop k from stop k to stop k+1, departure of k, arrival of k+1, boarding flag
    of k, alighting flag of k+1, sequence k+1;
  * file order is a permutation of the dataset's trip list (`C16_loadTrips_perm`), and with unique trip
    ids both sorted lists are the model's `fwdAll` / `revAll` (`C16_loaded_sorted`): everything the
    calculations read from loaded data is what the theorems C01–C12 speak about.

  The tie of `loadAll` / `encode` to /repo is check/loader_corr.py (model vs real loader on every
  generated directory; `encode` vs the files cachegen wrote).
-/
import TrVerif.Proofs.LoadSched
import TrVerif.Proofs.Sort
import TrVerif.Proofs.DataFacts
namespace Tr.Load

structure Enc (ds : Dataset) : Prop where
  lineAgency : ∀ l ∈ ds.lines, l.agency < ds.nAgencies
  paths : ∀ p ∈ ds.paths, p.line < ds.lines.length ∧ ∀ s ∈ p.stops, s < ds.nStops
  foot : ∀ f ∈ ds.foot, f.a < ds.nStops ∧ f.b < ds.nStops ∧ 0 ≤ f.time
  scen : ∀ sc ∈ ds.scenarios, ScenInRange ds.nServices ds.lines.length ds.nAgencies sc
  trips : ∀ t ∈ ds.trips, TripOK ds t

/-- the schedule state after all line files -/
def finalSch (ds : Dataset) : Sch := (List.range' 0 ds.lines.length).foldl (addLine ds) {}

theorem foldl_addTrip_ub (ds : Dataset) : ∀ (l : List TripRec) (s : Sch), (l.foldl (addTrip ds) s).ub = s.ub := by
  intro l; induction l with
  | nil => intro s; rfl
  | cons t l ih => intro s; rw [List.foldl_cons, ih]; rfl

theorem addLine_ub (ds : Dataset) (s : Sch) (li : Nat) : (addLine ds s li).ub = s.ub := by
  unfold addLine
  generalize servicesOf (tripsOfLine ds li) = svs
  induction svs generalizing s with
  | nil => rfl
  | cons sv svs ih => rw [List.foldl_cons, ih, foldl_addTrip_ub]

theorem finalSch_ub (ds : Dataset) : (finalSch ds).ub = false := by
  unfold finalSch
  generalize List.range' 0 ds.lines.length = l
  have : ∀ (s : Sch), (l.foldl (addLine ds) s).ub = s.ub := by
    induction l with
    | nil => intro s; rfl
    | cons a l ih => intro s; rw [List.foldl_cons, ih, addLine_ub]
  rw [this]

theorem expLines_has (ds : Dataset) (a : Nat) : (expLines ds).has (K 4 a) = decide (a < ds.lines.length) := by
  unfold expLines; rw [expFrom_has]
theorem expNodes_has (ds : Dataset) (a : Nat) : (expNodes ds).has (K 1 a) = decide (a < ds.nStops) := by
  unfold expNodes; rw [mkNodes_has]

theorem getLines_enc (ds : Dataset) (h : Enc ds) : getLines (encode ds) (expIds 2 ds.nAgencies) = (0, expLines ds) := by
  unfold getLines
  simp only [encode]
  rw [linesLoop_enc (expIds 2 ds.nAgencies) ds.nAgencies (expIds_has 2 ds.nAgencies) ds.lines 0 [] h.lineAgency
    (by intro p hp; simp at hp)]
  rfl

theorem getPaths_enc (ds : Dataset) (h : Enc ds) : getPaths (encode ds) (expLines ds) (expNodes ds) = (0, expPaths ds) := by
  unfold getPaths
  simp only [encode]
  rw [pathsLoop_enc (expLines ds) (expNodes ds) ds.lines.length ds.nStops (expLines_has ds) (expNodes_has ds) ds.paths 0 []
    h.paths (by intro p hp; simp at hp)]
  rfl

theorem getScenarios_enc (ds : Dataset) (h : Enc ds) :
    getScenarios (encode ds) ⟨(expIds 3 ds.nServices).has, (expLines ds).has, (expIds 2 ds.nAgencies).has, (expNodes ds).has⟩ = (0, expScen ds) := by
  unfold getScenarios
  simp only [encode]
  rw [scenLoop_enc _ ds.nServices ds.lines.length ds.nAgencies (expIds_has 3 ds.nServices) (expLines_has ds)
    (expIds_has 2 ds.nAgencies) ds.scenarios 0 [] h.scen (by intro p hp; simp at hp)]
  rfl

theorem schedules_enc (ds : Dataset) (h : Enc ds) :
    schedLoop (encode ds).lineFiles (expIds 3 ds.nServices) (expPaths ds) (expLines ds) {} = finalSch ds := by
  simp only [encode]
  unfold expLines finalSch
  exact schedLoop_enc ds (expIds 3 ds.nServices) (expIds_has 3 ds.nServices) h.trips ds.lines 0 {} (by omega) (by intro j; simp)

/-- the tables `C16_roundtrip` states -/
def expTD (ds : Dataset) : TD :=
  { agencies := expIds 2 ds.nAgencies, services := expIds 3 ds.nServices, nodes := expNodes ds,
    lines := expLines ds, paths := expPaths ds, scenarios := expScen ds,
    trips := (finalSch ds).trips, conns := (finalSch ds).conns, ub := false }

/-- **C16 round trip**: the loaders, run on the records that encode `ds`, build exactly these tables. -/
theorem C16_roundtrip (ds : Dataset) (h : Enc ds) :
    loadAll (encode ds) =
      { agencies := expIds 2 ds.nAgencies, services := expIds 3 ds.nServices, nodes := expNodes ds,
        lines := expLines ds, paths := expPaths ds, scenarios := expScen ds,
        trips := (finalSch ds).trips, conns := (finalSch ds).conns, ub := false } := by
  have hN : getNodes (encode ds) = (0, expNodes ds) := getNodes_enc ds h.foot
  have hA : getIds (encode ds).agencies = (0, expIds 2 ds.nAgencies) := getIds_enc 2 ds.nAgencies
  have hS : getIds (encode ds).services = (0, expIds 3 ds.nServices) := getIds_enc 3 ds.nServices
  simp [loadAll, Gen.loadOrder, loadFrom, applyCall, hN, hA, hS, getLines_enc ds h, getPaths_enc ds h, getScenarios_enc ds h, schedules_enc ds h,
    ENOENT, finalSch_ub]

/-! ### the connections, in file order -/

/-- trips in the order the files list them: lines in uuid order, per line the services in order of
    first appearance, per service the trips in dataset order -/
def loadTrips (ds : Dataset) : List TripRec :=
  (List.range' 0 ds.lines.length).flatMap fun li =>
    (servicesOf (tripsOfLine ds li)).flatMap fun sv => schedTrips ds li sv

theorem foldl_addTrip_conns (ds : Dataset) : ∀ (l : List TripRec) (s : Sch),
    (l.foldl (addTrip ds) s).conns = s.conns ++ l.flatMap (fun t => (ds.tripConns t).map liftConn) := by
  intro l; induction l with
  | nil => intro s; simp
  | cons t l ih => intro s; rw [List.foldl_cons, ih]; simp [addTrip, List.append_assoc]

theorem finalSch_eq (ds : Dataset) : finalSch ds = (loadTrips ds).foldl (addTrip ds) {} := by
  unfold finalSch loadTrips addLine
  rw [List.foldl_flatMap]
  congr 1
  funext s li
  rw [List.foldl_flatMap]

/-- **C16**: `TransitData::connections` after loading the encoded files = for every trip, in file order,
    the connections the model builds from that trip's record (`Dataset.tripConns`). -/
theorem C16_loaded_conns (ds : Dataset) (h : Enc ds) :
    (loadAll (encode ds)).conns = (loadTrips ds).flatMap (fun t => (ds.tripConns t).map liftConn) := by
  rw [C16_roundtrip ds h]
  simp only [finalSch_eq, foldl_addTrip_conns]
  simp


/-! ### file order is a permutation of the dataset's trips -/

theorem flatMap_congr' {α β : Type} : ∀ (l : List α) (f g : α → List β), (∀ x ∈ l, f x = g x) → l.flatMap f = l.flatMap g := by
  intro l
  induction l with
  | nil => intro f g _; rfl
  | cons a l ih =>
    intro f g h
    rw [List.flatMap_cons, List.flatMap_cons, h a (by simp), ih f g (fun x hx => h x (List.mem_cons_of_mem _ hx))]

theorem perm_flatMap_filter {α : Type} (f : α → Nat) : ∀ (keys : List Nat), keys.Nodup → ∀ (l : List α), (∀ x ∈ l, f x ∈ keys) →
    (keys.flatMap fun k => l.filter (fun x => f x = k)).Perm l := by
  intro keys
  induction keys with
  | nil =>
    intro _ l h
    cases l with
    | nil => simp
    | cons x xs => exact absurd (h x (by simp)) (by simp)
  | cons k ks ih =>
    intro hnd l h
    obtain ⟨hk, hks⟩ := List.nodup_cons.1 hnd
    rw [List.flatMap_cons]
    have hrest : (ks.flatMap fun k' => l.filter (fun x => f x = k')) =
        (ks.flatMap fun k' => (l.filter (fun x => !decide (f x = k))).filter (fun x => f x = k')) := by
      apply flatMap_congr'
      intro k' hk'
      rw [List.filter_filter]
      apply List.filter_congr
      intro x _
      by_cases e : f x = k'
      · have hne : ¬ k' = k := fun e2 => hk (by rw [← e2]; exact hk')
        simp [e, hne]
      · simp [e]
    rw [hrest]
    have h2 := ih hks (l.filter (fun x => !decide (f x = k))) (by
      intro x hx
      simp only [List.mem_filter, Bool.not_eq_true', decide_eq_false_iff_not] at hx
      have := h x hx.1
      simp only [List.mem_cons] at this
      rcases this with e | e
      · exact absurd e hx.2
      · exact e)
    exact (List.Perm.append_left _ h2).trans (List.filter_append_perm (fun x => decide (f x = k)) l)

theorem nodup_eraseDups : ∀ (n : Nat) (l : List Nat), l.length ≤ n → l.eraseDups.Nodup := by
  intro n
  induction n with
  | zero => intro l h; have : l = [] := List.length_eq_zero_iff.1 (by omega); subst this; simp
  | succ n ih =>
    intro l h
    cases l with
    | nil => simp
    | cons a as =>
      rw [List.eraseDups_cons]
      refine List.nodup_cons.2 ⟨?_, ih _ ?_⟩
      · intro hm
        have := List.mem_eraseDups.1 hm
        simp at this
      · have := List.length_filter_le (fun b => !b == a) as
        simp only [List.length_cons] at h; omega

/-- **C16**: the trips the loader creates, in file order, are the dataset's trips in another order -/
theorem C16_loadTrips_perm (ds : Dataset) (h : Enc ds) : (loadTrips ds).Perm ds.trips := by
  unfold loadTrips
  have inner : ∀ li, ((servicesOf (tripsOfLine ds li)).flatMap fun sv => schedTrips ds li sv).Perm (tripsOfLine ds li) := by
    intro li
    exact perm_flatMap_filter (fun t : TripRec => t.service) _ (nodup_eraseDups _ _ (Nat.le_refl _)) (tripsOfLine ds li)
      (by intro t ht; simp only [servicesOf, List.mem_eraseDups, List.mem_map]; exact ⟨t, ht, rfl⟩)
  have outer : ((List.range' 0 ds.lines.length).flatMap fun li => tripsOfLine ds li).Perm ds.trips := by
    exact perm_flatMap_filter (fun t : TripRec => (ds.paths.getD t.path default).line) _ (List.nodup_range' (step := 1) (by omega)) ds.trips
      (by intro t ht; simp only [List.mem_range'_1]; exact ⟨Nat.zero_le _, by simpa [pathOfRec] using (h.trips t ht).line⟩)
  refine List.Perm.trans ?_ outer
  generalize List.range' 0 ds.lines.length = ls
  induction ls with
  | nil => simp
  | cons li ls ih => simp only [List.flatMap_cons]; exact List.Perm.append (inner li) ih

theorem C16_loaded_conns_perm (ds : Dataset) (h : Enc ds) :
    (loadAll (encode ds)).conns.Perm (ds.conns.map liftConn) := by
  rw [C16_loaded_conns ds h]
  have := (C16_loadTrips_perm ds h).flatMap_right (fun t => (ds.tripConns t).map liftConn)
  refine this.trans ?_
  simp [Dataset.conns, List.map_flatMap]


/-! ### both sorted lists of the loaded data are the model's -/

theorem insertBy_perm {α : Type} (lt : α → α → Bool) (a : α) : ∀ (l : List α), (insertBy lt a l).Perm (a :: l) := by
  intro l
  induction l with
  | nil => exact List.Perm.refl _
  | cons y ys ih =>
    rw [insertBy]
    split
    · exact (List.Perm.cons y ih).trans (List.Perm.swap a y ys)
    · exact List.Perm.refl _

theorem isort_perm {α : Type} (lt : α → α → Bool) : ∀ (l : List α), (isort lt l).Perm l := by
  intro l
  induction l with
  | nil => exact List.Perm.refl _
  | cons a l ih =>
    show (insertBy lt a (isort lt l)).Perm (a :: l)
    exact (insertBy_perm lt a _).trans (List.Perm.cons a ih)

/-- two sorted arrangements of the same elements coincide when distinct elements are comparable -/
theorem sorted_perm_eq {α : Type} (lt : α → α → Bool) : ∀ (l1 l2 : List α), l1.Perm l2 → SortedBy lt l1 → SortedBy lt l2 →
    (∀ x ∈ l1, ∀ y ∈ l1, x ≠ y → lt x y = true ∨ lt y x = true) → l1 = l2 := by
  intro l1
  induction l1 with
  | nil => intro l2 hp _ _ _; exact (List.Perm.nil_eq hp)
  | cons a l1 ih =>
    intro l2 hp s1 s2 tot
    cases l2 with
    | nil => exact absurd hp.symm (by intro h; have := h.length_eq; simp at this)
    | cons b l2 =>
      have hab : a = b := by
        by_cases e : a = b
        · exact e
        · exfalso
          have ha2 : a ∈ b :: l2 := hp.subset (by simp)
          have hb1 : b ∈ a :: l1 := hp.symm.subset (by simp)
          have ha2' : a ∈ l2 := by
            rcases List.mem_cons.1 ha2 with h | h
            · exact absurd h e
            · exact h
          have hb1' : b ∈ l1 := by
            rcases List.mem_cons.1 hb1 with h | h
            · exact absurd h.symm e
            · exact h
          have h1 : lt a b = false := (List.pairwise_cons.1 s2).1 a ha2'
          have h2 : lt b a = false := (List.pairwise_cons.1 s1).1 b hb1'
          rcases tot a (by simp) b hb1 e with h | h
          · rw [h1] at h; exact absurd h (by simp)
          · rw [h2] at h; exact absurd h (by simp)
      subst hab
      have hp' : l1.Perm l2 := List.Perm.cons_inv hp
      rw [ih l2 hp' (List.pairwise_cons.1 s1).2 (List.pairwise_cons.1 s2).2
        (fun x hx y hy => tot x (List.mem_cons_of_mem _ hx) y (List.mem_cons_of_mem _ hy))]

theorem insertBy_map {α β : Type} (lt : α → α → Bool) (lt' : β → β → Bool) (g : α → β) (hg : ∀ a b, lt' (g a) (g b) = lt a b) (x : α) :
    ∀ (l : List α), insertBy lt' (g x) (l.map g) = (insertBy lt x l).map g := by
  intro l
  induction l with
  | nil => rfl
  | cons y ys ih =>
    simp only [List.map_cons, insertBy, hg]
    split
    · simp [ih]
    · rfl

theorem isort_map {α β : Type} (lt : α → α → Bool) (lt' : β → β → Bool) (g : α → β) (hg : ∀ a b, lt' (g a) (g b) = lt a b) :
    ∀ (l : List α), isort lt' (l.map g) = (isort lt l).map g := by
  intro l
  induction l with
  | nil => rfl
  | cons a l ih =>
    show insertBy lt' (g a) (isort lt' (l.map g)) = (insertBy lt a (isort lt l)).map g
    rw [ih, insertBy_map lt lt' g hg]

theorem lFwdLt_lift (a b : Conn) : lFwdLt (liftConn a) (liftConn b) = fwdLt a b := by
  apply Bool.eq_iff_iff.2
  simp only [lFwdLt, fwdLt, Bool.or_eq_true, Bool.and_eq_true, decide_eq_true_eq]
  simp only [liftConn, K_lt, K_inj]
theorem lRevLt_lift (a b : Conn) : lRevLt (liftConn a) (liftConn b) = revLt a b := by
  apply Bool.eq_iff_iff.2
  simp only [lRevLt, revLt, Bool.or_eq_true, Bool.and_eq_true, decide_eq_true_eq]
  simp only [liftConn, gt_iff_lt, K_lt, K_inj]

theorem tripConnsAux_seq_inj (tr : TripRec) (stops : List Nat) (mw : Int) : ∀ (n k : Nat),
    ∀ c1 ∈ tripConnsAux tr stops mw k n, ∀ c2 ∈ tripConnsAux tr stops mw k n, c1.seq = c2.seq → c1 = c2 := by
  intro n
  induction n with
  | zero => intro k c1 h1; simp [tripConnsAux] at h1
  | succ n ih =>
    intro k c1 h1 c2 h2 hs
    simp only [tripConnsAux, List.mem_cons] at h1 h2
    rcases h1 with e1 | e1 <;> rcases h2 with e2 | e2
    · rw [e1, e2]
    · have := (tripConnsAux_facts tr stops mw n (k+1) c2 e2).2.1
      rw [e1] at hs; simp only at hs; omega
    · have := (tripConnsAux_facts tr stops mw n (k+1) c1 e1).2.1
      rw [e2] at hs; simp only at hs; omega
    · exact ih (k+1) c1 e1 c2 e2 hs

theorem conn_eq_of_trip_seq {ds : Dataset} (hnd : (ds.trips.map (·.id)).Nodup) {a b : Conn} (ha : a ∈ ds.conns) (hb : b ∈ ds.conns)
    (ht : a.trip = b.trip) (hs : a.seq = b.seq) : a = b := by
  obtain ⟨t1, ht1, ha1⟩ := mem_conns ha
  obtain ⟨t2, ht2, hb2⟩ := mem_conns hb
  have e1 := (tripConns_facts ds t1 a ha1).1
  have e2 := (tripConns_facts ds t2 b hb2).1
  have : t1 = t2 := trip_unique hnd ht1 ht2 (by rw [← e1, ← e2, ht])
  subst this
  exact tripConnsAux_seq_inj _ _ _ _ _ a ha1 b hb2 hs

/-- the connections of all trips in file order -/
def loadConns (ds : Dataset) : List Conn := (loadTrips ds).flatMap ds.tripConns

theorem loadConns_perm (ds : Dataset) (h : Enc ds) : (loadConns ds).Perm ds.conns :=
  (C16_loadTrips_perm ds h).flatMap_right ds.tripConns

/-- **C16**: with unique trip ids, `forwardConnections` and `reverseConnections` of the loaded data are the
    model's `fwdAll` / `revAll` (up to the identifier embedding) — the lists every calculation scans. -/
theorem C16_loaded_sorted (ds : Dataset) (h : Enc ds) (hnd : (ds.trips.map (·.id)).Nodup) :
    (loadAll (encode ds)).fwd = ds.fwdAll.map liftConn ∧ (loadAll (encode ds)).rev = ds.revAll.map liftConn := by
  have hc : (loadAll (encode ds)).conns = (loadConns ds).map liftConn := by
    rw [C16_loaded_conns ds h]; simp [loadConns, List.map_flatMap]
  have hp := loadConns_perm ds h
  have totF : ∀ x ∈ loadConns ds, ∀ y ∈ loadConns ds, x ≠ y → fwdLt x y = true ∨ fwdLt y x = true := by
    intro x hx y hy hne
    have hx' := hp.subset hx; have hy' := hp.subset hy
    have key : ¬ (x.dep = y.dep ∧ x.trip = y.trip ∧ x.seq = y.seq) := fun ⟨_, b, c⟩ => hne (conn_eq_of_trip_seq hnd hx' hy' b c)
    simp only [fwdLt, Bool.or_eq_true, Bool.and_eq_true, decide_eq_true_eq]
    omega
  have totR : ∀ x ∈ loadConns ds, ∀ y ∈ loadConns ds, x ≠ y → revLt x y = true ∨ revLt y x = true := by
    intro x hx y hy hne
    have hx' := hp.subset hx; have hy' := hp.subset hy
    have key : ¬ (x.arr = y.arr ∧ x.trip = y.trip ∧ x.seq = y.seq) := fun ⟨_, b, c⟩ => hne (conn_eq_of_trip_seq hnd hx' hy' b c)
    simp only [revLt, Bool.or_eq_true, Bool.and_eq_true, decide_eq_true_eq]
    omega
  have tot' : ∀ (lt : Conn → Conn → Bool), (∀ x ∈ loadConns ds, ∀ y ∈ loadConns ds, x ≠ y → lt x y = true ∨ lt y x = true) →
      ∀ x ∈ isort lt (loadConns ds), ∀ y ∈ isort lt (loadConns ds), x ≠ y → lt x y = true ∨ lt y x = true :=
    fun lt t x hx y hy => t x ((mem_isort lt x _).1 hx) y ((mem_isort lt y _).1 hy)
  constructor
  · unfold TD.fwd Dataset.fwdAll
    rw [hc, isort_map fwdLt lFwdLt liftConn lFwdLt_lift]
    congr 1
    exact sorted_perm_eq fwdLt _ _ ((isort_perm fwdLt _).trans (hp.trans (isort_perm fwdLt _).symm))
      (sorted_isort fwdLt fwdLt_strictWeak _) (sorted_isort fwdLt fwdLt_strictWeak _) (tot' fwdLt totF)
  · unfold TD.rev Dataset.revAll
    rw [hc, isort_map revLt lRevLt liftConn lRevLt_lift]
    congr 1
    exact sorted_perm_eq revLt _ _ ((isort_perm revLt _).trans (hp.trans (isort_perm revLt _).symm))
      (sorted_isort revLt revLt_strictWeak _) (sorted_isort revLt revLt_strictWeak _) (tot' revLt totR)


/-! ### non-vacuity: a dataset that meets `Enc`, loaded by the model -/

def nvLoad : Dataset :=
  { nStops := 4, nAgencies := 2, nServices := 2,
    foot := [⟨0, 0, 0, 0⟩, ⟨0, 1, 60, 70⟩, ⟨1, 1, 0, 0⟩, ⟨2, 2, 0, 0⟩, ⟨3, 3, 0, 0⟩, ⟨3, 1, 120, 130⟩],
    lines := [⟨0, 0⟩, ⟨1, 2⟩], paths := [⟨0, [0, 1, 2], [500, 0]⟩, ⟨1, [2, 3], [700]⟩],
    trips := [⟨5, 1, 0, [400, 500], [410, 510], [true, true], [true, true]⟩,
              ⟨3, 0, 1, [100, 200, 300], [110, 210, 310], [true, false, true], [true, true, false]⟩,
              ⟨9, 0, 0, [1100, 1200, 1300], [1110, 1210, 1310], [true, true, true], [true, true, true]⟩],
    scenarios := [{ services := [0, 1], onlyLines := [], exceptLines := [1], onlyAgencies := [], exceptAgencies := [], onlyModes := [0], exceptModes := [] }],
    access := [], egress := [] }

theorem nv_enc : Enc nvLoad ∧ (nvLoad.trips.map (·.id)).Nodup := by
  refine ⟨⟨by decide, by decide, by decide, ?_, ?_⟩, by decide⟩
  · intro sc hsc
    simp only [nvLoad, List.mem_singleton] at hsc
    subst hsc
    constructor <;> decide
  · intro t ht
    simp only [nvLoad, List.mem_cons, List.not_mem_nil, or_false] at ht
    rcases ht with rfl | rfl | rfl <;> constructor <;> decide

/-- on that dataset the model loader is READY, creates 5 connections in file order (line 0: service 1 then
    service 0; line 1; the `transferable` line's connection waits 0) and sorts them by departure -/
theorem nv_loaded :
    (loadAll (encode nvLoad)).status = "READY" ∧
    (loadAll (encode nvLoad)).conns.map (fun c => (c.trip, c.seq)) = [(K 7 3, 1), (K 7 3, 2), (K 7 9, 1), (K 7 9, 2), (K 7 5, 1)] ∧
    (loadAll (encode nvLoad)).fwd.map (fun c => (c.trip, c.seq)) = [(K 7 3, 1), (K 7 3, 2), (K 7 5, 1), (K 7 9, 1), (K 7 9, 2)] ∧
    (loadAll (encode nvLoad)).conns.map (fun c => [c.dep, c.arr, c.mw]) = [[110, 200, -1], [210, 300, -1], [1110, 1200, -1], [1210, 1300, -1], [410, 500, 0]] := by
  refine ⟨by decide, by decide, by decide, by decide⟩

end Tr.Load
