/-
  Property C12 — shifting timetable and request shifts the answer.  PARTIAL.

  Proved here: the hour index - the one place where absolute hour boundaries (x:00, 24:00, the
  slots next to 0:00 and 32:00) enter a calculation - is TRANSPARENT: every route and
  accessibility calculation returns exactly what the same calculation returns when each scan
  starts at the head of the sorted list (`calculateSingle0`, `calculateAllNodes0`: no index, no
  hour arithmetic at all).  What the index skips are connections that leave before the
  requested departure resp. arrive after the requested arrival, and the first test of a scan
  step discards those without touching the tables.

  NOT proved: that the index-free calculation commutes with a translation of all clock values
  (every guard compares differences of clock values; the tests against the constants -1 /
  MAX_INT / 0 are where the in-range hypotheses of the property are needed).  That half is
  evaluated on the implementation and on the model for generated offsets (check/inproc.py C12).
-/
import TrVerif.Props.C07Fwd2
namespace Tr

theorem foldl_fixed {σ α : Type} (f : σ → α → σ) (s : σ) : ∀ (l : List α), (∀ c ∈ l, f s c = s) → l.foldl f s = s := by
  intro l
  induction l with
  | nil => intro _; rfl
  | cons a rest ih =>
    intro h
    rw [List.foldl_cons, h a (List.mem_cons_self ..)]
    exact ih (fun c hc => h c (List.mem_cons_of_mem _ hc))

theorem fwdStep_early (cx : Ctx) (single : Bool) (s : FState) (c : Conn) (h : c.dep < cx.depT + cx.minAccess) :
    fwdStep cx single s c = s := by
  unfold fwdStep
  by_cases h0 : s.stop = true
  · rw [if_pos h0]
  · rw [if_neg h0, if_pos (by omega)]

theorem revStep_late (cx : Ctx) (u : Nat → Bool) (single : Bool) (s : RState) (c : Conn)
    (h : c.arr > cx.arrT - (if single = true then cx.minEgress else 0)) : revStep cx u single s c = s := by
  unfold revStep
  by_cases h0 : s.stop = true
  · rw [if_pos h0]
  · rw [if_neg h0, if_pos (by omega)]

/-- a forward scan started where the hour index says equals the scan of the whole list -/
theorem fwdScan_from_start (cx : Ctx) (single : Bool) (start : Nat)
    (h : ∀ c ∈ cx.cs.fwd.take start, c.dep < cx.depT + cx.minAccess) :
    fwdScan cx single start = fwdScan cx single 0 := by
  unfold fwdScan
  rw [List.drop_zero]
  conv => rhs; rw [← List.take_append_drop start cx.cs.fwd, List.foldl_append]
  rw [foldl_fixed _ _ _ (fun c hc => fwdStep_early cx single _ c (h c hc))]

/-- a reverse scan started where the hour index says equals the scan of the whole list -/
theorem revScan_from_start (cx : Ctx) (u : Nat → Bool) (single : Bool) (start : Nat)
    (h : ∀ c ∈ cx.cs.rev.take start, c.arr > cx.arrT - (if single = true then cx.minEgress else 0)) :
    revScan cx u single start = revScan cx u single 0 := by
  unfold revScan
  rw [List.drop_zero]
  conv => rhs; rw [← List.take_append_drop start cx.cs.rev, List.foldl_append]
  rw [foldl_fixed _ _ _ (fun c hc => revStep_late cx u single _ c (h c hc))]

/-! ### the calculations without hour index -/

def singleReverse0 (cx : Ctx) (usable : Nat → Bool) : Outcome Route :=
  let s := revScan cx usable true 0
  if s.count = 0 then .noRouting .noServiceToDestination
  else reverseJourney cx s (bestAccess cx s)

def calculateSingleWith0 (ds : Dataset) (cs : ConnSet) (p : Params) (accessFoot egressFoot : List NTD) : Outcome Route :=
  if accessFoot.isEmpty ∧ egressFoot.isEmpty then .noRouting .noAccessAtOriginAndDestination
  else if accessFoot.isEmpty then .noRouting .noAccessAtOrigin
  else if egressFoot.isEmpty then .noRouting .noAccessAtDestination
  else if p.forward then
    let cx := mkCtx ds p cs accessFoot egressFoot p.time (-1)
    let fs := fwdScan cx true 0
    if fs.count = 0 then .noRouting .noServiceFromOrigin
    else match bestEgress cx fs with
      | none => .noRouting .noRoutingFound
      | some (bestArr, _) => singleReverse0 { cx with arrT := bestArr } fs.usable
  else
    singleReverse0 (mkCtx ds p cs accessFoot egressFoot (-1) p.time) (fun _ => true)

def calculateSingle0 (ds : Dataset) (p : Params) : Outcome Route :=
  calculateSingleWith0 (ds.restrict (ds.connSetOf (ds.scenarioOf p))) (ds.connSetOf (ds.scenarioOf p)) p
    (routerLookup ds.access p.maxAccess) (routerLookup ds.egress p.maxEgress)

def calculateAllNodes0 (ds0 : Dataset) (p : Params) : Outcome (List AccNode × Nat) :=
  let cs := ds0.connSetOf (ds0.scenarioOf p)
  let ds := ds0.restrict cs
  if p.forward then
    let accessFoot := routerLookup ds.access p.maxAccess
    if accessFoot.isEmpty then .noRouting .noAccessAtOrigin else
    let cx := mkCtx ds p cs accessFoot [] p.time (-1)
    let fs := fwdScan cx false 0
    if fs.count = 0 then .noRouting .noServiceFromOrigin
    else match collectNodes (forwardNode cx fs) (List.range ds.nStops) [] with
      | .ok l => .ok (l, ds.nStops)
      | .noRouting r => .noRouting r
      | .exception w => .exception w
  else
    let egressFoot := routerLookup ds.egress p.maxEgress
    if egressFoot.isEmpty then .noRouting .noAccessAtDestination else
    let cx := mkCtx ds p cs [] egressFoot (-1) p.time
    let s := revScan cx (fun _ => true) false 0
    if s.count = 0 then .noRouting .noServiceToDestination
    else match collectNodes (reverseNode cx s) (List.range ds.nStops) [] with
      | .ok l => .ok (l, ds.nStops)
      | .noRouting r => .noRouting r
      | .exception w => .exception w

theorem singleReverse_eq0 (cx : Ctx) (u : Nat → Bool) (hidx : cx.cs.revIdx = revIndex cx.cs.rev) (h0 : 0 ≤ cx.arrT)
    (hme : 0 ≤ cx.minEgress) : singleReverse cx u = singleReverse0 cx u := by
  obtain ⟨start, hst⟩ := rev_start_exists cx.cs.rev (hourOf cx.arrT + 1)
  rw [← hidx] at hst
  unfold singleReverse singleReverse0
  rw [hst]
  simp only
  rw [revScan_from_start cx u true start]
  intro c hc
  have := before_start_late cx.cs hidx cx.arrT h0 start hst c hc
  simp only [if_true]
  omega

theorem minTime_nonneg' (l : List NTD) (h : ∀ a ∈ l, 0 ≤ a.time) : 0 ≤ minTime l := minTime_nonneg l h

/-- **C12 (hour index transparent, route).** For every dataset, scenario and route query with the
    requested time in [0, 32 h) and non-negative walks of the router, the answer equals the answer
    of the calculation that uses no hour index at all. -/
theorem C12_index_transparent_route (ds : Dataset) (p : Params) (h0 : 0 ≤ p.time) (ht : p.time < (HOUR_END : Int) * 3600)
    (hacc : ∀ a ∈ ds.access, 0 ≤ a.time) (hegr : ∀ g ∈ ds.egress, 0 ≤ g.time) :
    calculateSingle ds p = calculateSingle0 ds p := by
  have hma : 0 ≤ minTime (routerLookup ds.access p.maxAccess) :=
    minTime_nonneg _ (fun a ha => hacc a (List.mem_filter.mp ha).1)
  have hme : 0 ≤ minTime (routerLookup ds.egress p.maxEgress) :=
    minTime_nonneg _ (fun g hg => hegr g (List.mem_filter.mp hg).1)
  unfold calculateSingle calculateSingleCS calculateSingle0 calculateSingleWith calculateSingleWith0
  by_cases h1 : (routerLookup ds.access p.maxAccess).isEmpty = true ∧ (routerLookup ds.egress p.maxEgress).isEmpty = true
  · rw [if_pos h1, if_pos h1]
  · rw [if_neg h1, if_neg h1]
    by_cases h2 : (routerLookup ds.access p.maxAccess).isEmpty = true
    · rw [if_pos h2, if_pos h2]
    · rw [if_neg h2, if_neg h2]
      by_cases h3 : (routerLookup ds.egress p.maxEgress).isEmpty = true
      · rw [if_pos h3, if_pos h3]
      · rw [if_neg h3, if_neg h3]
        by_cases hf : p.forward = true
        · rw [if_pos hf, if_pos hf]
          simp only
          obtain ⟨start, hst⟩ := fwd_start_exists (ds.connSetOf (ds.scenarioOf p)).fwd (hourOf p.time)
          have hst' : lookupPos (fwdLookup
              (mkCtx (ds.restrict (ds.connSetOf (ds.scenarioOf p))) p (ds.connSetOf (ds.scenarioOf p))
                (routerLookup ds.access p.maxAccess) (routerLookup ds.egress p.maxEgress) p.time (-1)).cs.fwd
              (mkCtx (ds.restrict (ds.connSetOf (ds.scenarioOf p))) p (ds.connSetOf (ds.scenarioOf p))
                (routerLookup ds.access p.maxAccess) (routerLookup ds.egress p.maxEgress) p.time (-1)).cs.fwdIdx
              (hourOf p.time)) = some start := hst
          rw [hst']
          simp only
          have hscan := fwdScan_from_start
            (mkCtx (ds.restrict (ds.connSetOf (ds.scenarioOf p))) p (ds.connSetOf (ds.scenarioOf p))
              (routerLookup ds.access p.maxAccess) (routerLookup ds.egress p.maxEgress) p.time (-1)) true start
            (by
              intro c hc
              have := before_start_early (ds.connSetOf (ds.scenarioOf p)) rfl p.time h0 start hst ht c hc
              show c.dep < p.time + minTime (routerLookup ds.access p.maxAccess)
              omega)
          rw [hscan]
          by_cases hc : (fwdScan (mkCtx (ds.restrict (ds.connSetOf (ds.scenarioOf p))) p (ds.connSetOf (ds.scenarioOf p))
              (routerLookup ds.access p.maxAccess) (routerLookup ds.egress p.maxEgress) p.time (-1)) true 0).count = 0
          · rw [if_pos hc, if_pos hc]
          · rw [if_neg hc, if_neg hc]
            cases hbest : bestEgress (mkCtx (ds.restrict (ds.connSetOf (ds.scenarioOf p))) p (ds.connSetOf (ds.scenarioOf p))
                (routerLookup ds.access p.maxAccess) (routerLookup ds.egress p.maxEgress) p.time (-1))
                (fwdScan (mkCtx (ds.restrict (ds.connSetOf (ds.scenarioOf p))) p (ds.connSetOf (ds.scenarioOf p))
                (routerLookup ds.access p.maxAccess) (routerLookup ds.egress p.maxEgress) p.time (-1)) true 0) with
            | none => rfl
            | some b =>
              obtain ⟨ba, node⟩ := b
              simp only
              obtain ⟨_, _, _, _, _, _, _, _, _, _, hba0⟩ := bestEgress_sound hbest
              exact singleReverse_eq0 _ _ rfl hba0 hme
        · rw [if_neg hf, if_neg hf]
          exact singleReverse_eq0 _ _ rfl h0 hme

/-- **C12 (hour index transparent, accessibility).** -/
theorem C12_index_transparent_accessibility (ds : Dataset) (p : Params) (h0 : 0 ≤ p.time) (ht : p.time < (HOUR_END : Int) * 3600)
    (hacc : ∀ a ∈ ds.access, 0 ≤ a.time) :
    calculateAllNodes ds p = calculateAllNodes0 ds p := by
  unfold calculateAllNodes calculateAllNodesCS calculateAllNodes0
  simp only
  by_cases hf : p.forward = true
  · rw [if_pos hf, if_pos hf]
    by_cases h1 : (routerLookup (ds.restrict (ds.connSetOf (ds.scenarioOf p))).access p.maxAccess).isEmpty = true
    · rw [if_pos h1, if_pos h1]
    · rw [if_neg h1, if_neg h1]
      obtain ⟨start, hst⟩ := fwd_start_exists (ds.connSetOf (ds.scenarioOf p)).fwd (hourOf p.time)
      have hst' : lookupPos (fwdLookup
          (mkCtx (ds.restrict (ds.connSetOf (ds.scenarioOf p))) p (ds.connSetOf (ds.scenarioOf p))
            (routerLookup (ds.restrict (ds.connSetOf (ds.scenarioOf p))).access p.maxAccess) [] p.time (-1)).cs.fwd
          (mkCtx (ds.restrict (ds.connSetOf (ds.scenarioOf p))) p (ds.connSetOf (ds.scenarioOf p))
            (routerLookup (ds.restrict (ds.connSetOf (ds.scenarioOf p))).access p.maxAccess) [] p.time (-1)).cs.fwdIdx
          (hourOf p.time)) = some start := hst
      rw [hst']
      simp only
      rw [fwdScan_from_start _ false start (by
        intro c hc
        have := before_start_early (ds.connSetOf (ds.scenarioOf p)) rfl p.time h0 start hst ht c hc
        have hma : 0 ≤ minTime (routerLookup ds.access p.maxAccess) :=
          minTime_nonneg _ (fun a ha => hacc a (List.mem_filter.mp ha).1)
        show c.dep < p.time + minTime (routerLookup ds.access p.maxAccess)
        omega)]
      rfl
  · rw [if_neg hf, if_neg hf]
    by_cases h1 : (routerLookup (ds.restrict (ds.connSetOf (ds.scenarioOf p))).egress p.maxEgress).isEmpty = true
    · rw [if_pos h1, if_pos h1]
    · rw [if_neg h1, if_neg h1]
      obtain ⟨start, hst⟩ := rev_start_exists (ds.connSetOf (ds.scenarioOf p)).rev (hourOf p.time + 1)
      have hst' : lookupPos (revLookup
          (mkCtx (ds.restrict (ds.connSetOf (ds.scenarioOf p))) p (ds.connSetOf (ds.scenarioOf p))
            [] (routerLookup (ds.restrict (ds.connSetOf (ds.scenarioOf p))).egress p.maxEgress) (-1) p.time).cs.rev
          (mkCtx (ds.restrict (ds.connSetOf (ds.scenarioOf p))) p (ds.connSetOf (ds.scenarioOf p))
            [] (routerLookup (ds.restrict (ds.connSetOf (ds.scenarioOf p))).egress p.maxEgress) (-1) p.time).cs.revIdx
          (hourOf p.time + 1)) = some start := hst
      rw [hst']
      simp only
      rw [revScan_from_start _ _ false start (by
        intro c hc
        have := before_start_late (ds.connSetOf (ds.scenarioOf p)) rfl p.time h0 start hst c hc
        simp
        exact this)]
      rfl

end Tr
