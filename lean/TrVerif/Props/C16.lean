/-
  Property C16 — data loaded from cache files routes like the dataset they encode.  PARTIAL.

  The model's `Dataset` is the record-level content of the cache files (trips with per-stop
  times and flags, paths with stop order, footpaths, lines, scenarios).  What the loaders and
  `TransitData` build from those records - connections, sorted lists, per-trip lists, reverse
  footpaths - is the model's data layer.  Proved here: that data layer means what C16 says the
  files encode.  NOT modelled: the bytes (Cap'n Proto decoding is trusted base) and the loaders'
  own code; that the real loaders produce this data layer from real files is decided by running
  the server on generated cache directories against the in-memory calculation and the model
  (check/http_checks.py C16).
-/
import TrVerif.Proofs.DataTerm
import TrVerif.Generated.Tables
namespace Tr

/-- **connections of a trip**: one per consecutive stop pair; the i-th leaves stop i of the path
    at the trip's i-th departure time, reaches stop i+1 at the (i+1)-th arrival time, may be
    boarded / alighted as the flags of those two stops say, and carries sequence number i+1 -/
theorem C16_connections (ds : Dataset) (tr : TripRec) :
    (ds.tripConns tr).length = tr.arr.length - 1 ∧
    ∀ (i : Nat) (hi : i < (ds.tripConns tr).length),
      (ds.tripConns tr)[i] =
        { depStop := (ds.paths.getD tr.path default).stops.getD i 0,
          arrStop := (ds.paths.getD tr.path default).stops.getD (i + 1) 0,
          dep := tr.dep.getD i 0, arr := tr.arr.getD (i + 1) 0, trip := tr.id, seq := i + 1,
          canBoard := tr.cb.getD i true, canUnboard := tr.cu.getD (i + 1) true,
          minWait := ds.lineMinWait tr } := by
  refine ⟨tripConnsAux_length _ _ _ _ _, ?_⟩
  intro i hi
  rw [tripConns_getElem_eq ds tr i hi]
  rfl

/-- **reverse footpaths** are exactly the footpaths read backwards -/
theorem C16_reverse_footpaths (ds : Dataset) (y z : Nat) (t d : Int) :
    (⟨y, t, d⟩ : NTD) ∈ ds.rfootOf z ↔ (⟨z, t, d⟩ : NTD) ∈ ds.footOf y := by
  simp only [Dataset.rfootOf, Dataset.footOf, List.mem_filterMap]
  constructor
  · rintro ⟨f, hf, h⟩
    refine ⟨f, hf, ?_⟩
    by_cases hb : f.b = z
    · simp only [hb, if_true, Option.some.injEq, NTD.mk.injEq] at h
      obtain ⟨h1, h2, h3⟩ := h
      simp [h1, hb, h2, h3]
    · simp [hb] at h
  · rintro ⟨f, hf, h⟩
    refine ⟨f, hf, ?_⟩
    by_cases ha : f.a = y
    · simp only [ha, if_true, Option.some.injEq, NTD.mk.injEq] at h
      obtain ⟨h1, h2, h3⟩ := h
      simp [h1, ha, h2, h3]
    · simp [ha] at h

/-- **the two global lists** hold exactly the connections of all trips, in the order of the two
    comparators of `transit_data.cpp` (departure / trip / sequence ascending; arrival / trip /
    sequence descending) -/
theorem C16_sorted_lists (ds : Dataset) :
    (∀ c, c ∈ ds.fwdAll ↔ c ∈ ds.conns) ∧ (∀ c, c ∈ ds.revAll ↔ c ∈ ds.conns) ∧
    ds.fwdAll.Pairwise (fun a b => fwdLt b a = false) ∧ ds.revAll.Pairwise (fun a b => revLt b a = false) :=
  ⟨fun c => mem_isort fwdLt c _, fun c => mem_isort revLt c _,
   sorted_isort fwdLt fwdLt_strictWeak _, sorted_isort revLt revLt_strictWeak _⟩

/-- **per-trip lists** (`Trip::forwardConnections` / `reverseConnections`) of a well-formed
    dataset: the trip's connections in hop order / in reverse hop order -/
theorem C16_trip_lists {ds : Dataset} (h : WFData ds) {tr : TripRec} (htr : tr ∈ ds.trips) :
    ds.tripFwd tr.id = ds.tripConns tr ∧ ds.tripRev tr.id = (ds.tripConns tr).reverse :=
  ⟨tripFwd_eq h.toWFSchedule htr (h.depMono tr htr), tripRev_eq h.toWFSchedule htr⟩

/-- **a scenario's connection set**: the connections of the trips the scenario admits, in the
    order of the global lists, with both hour indexes built from exactly those lists -/
theorem C16_scenario_set (ds : Dataset) (sc : Scenario) :
    (ds.connSetOf sc).fwd = ds.fwdAll.filter (fun c => ds.tripEnabled sc c.trip) ∧
    (ds.connSetOf sc).rev = ds.revAll.filter (fun c => ds.tripEnabled sc c.trip) ∧
    (ds.connSetOf sc).fwdIdx = fwdIndex (ds.connSetOf sc).fwd ∧
    (ds.connSetOf sc).revIdx = revIndex (ds.connSetOf sc).rev :=
  ⟨rfl, rfl, rfl, rfl⟩

/-- **the comparators of the two stable sorts, re-read from the source on every run**: the forward
    list is ordered by departure time, then trip, then sequence number (each ascending), the
    reverse list by arrival time, then trip, then sequence number (each descending) - the keys and
    directions of the model's `fwdLt` / `revLt`, which `C16_sorted_lists` is about.  (Two
    connections of one trip can tie in time - consecutive stops served in the same second - and
    then only the sequence number orders them.) -/
theorem C16_comparators :
    Gen.fwdSortKeys = [("getDepartureTime()", "<"), ("getTrip().uuid", "<"), ("getSequenceInTrip()", "<")] ∧
    Gen.revSortKeys = [("getArrivalTime()", ">"), ("getTrip().uuid", ">"), ("getSequenceInTrip()", ">")] := by decide

end Tr
