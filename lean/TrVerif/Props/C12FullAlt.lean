/-
  Props/C12FullAlt — translation invariance of the calculation itself for ALTERNATIVES queries: the search loop of
  `alternativesRouting` (which lines to exclude next, when to stop, which routes to keep) depends on the routes only through
  durations and line sets, so with every single calculation equivariant (`C12_full_route_*`) the whole search is.
-/
import TrVerif.Props.C12FullRouteDep
namespace Tr

def shAltOut (k : Int) : Outcome (List Route × Nat) → Outcome (List Route × Nat)
  | .ok (l, n) => .ok (l.map (shRoute k), n)
  | .noRouting r => .noRouting r
  | .exception w => .exception w

def shAlt (k : Int) (st : AltState) : AltState := { st with routes := st.routes.map (shRoute k) }

def shAltSt (k : Int) : Outcome AltState → Outcome AltState
  | .ok st => .ok (shAlt k st)
  | .noRouting r => .noRouting r
  | .exception w => .exception w

theorem routeLines_shift (k : Int) (ds : Dataset) (r : Route) : routeLines (shiftDs k ds) (shRoute k r) = routeLines ds r := by
  unfold routeLines
  simp only [shRoute, List.filterMap_map]
  congr 1
  funext st
  cases st <;> simp [shStep, lineOfTrip_shift]

theorem altMaxTravelTime_shift (k : Int) (p : Params) (r : Route) : altMaxTravelTime (shiftP k p) (shRoute k r) = altMaxTravelTime p r := by
  unfold altMaxTravelTime
  have e : (shRoute k r).departureTime - (shiftP k p).time = r.departureTime - p.time := by
    show r.departureTime + k - (p.time + k) = _; omega
  simp only [e]
  rfl

theorem addCombos_shift (k : Int) (comb : List Nat) : ∀ (l : List (List Nat)) (st : AltState),
    addCombos comb (shAlt k st) l = shAlt k (addCombos comb st l) := by
  intro l
  induction l with
  | nil => intro st; rfl
  | cons nc rest ih =>
    intro st
    simp only [addCombos]
    have e1 : (shAlt k st).calculated = st.calculated := rfl
    have e2 : (shAlt k st).failed = st.failed := rfl
    have e3 : (shAlt k st).allComb = st.allComb := rfl
    simp only [e1, e2, e3]
    split
    · exact ih st
    · exact ih { st with allComb := if (st.failed.any fun fc => fc.all fun l => (sortNat (nc ++ comb)).contains l) then st.allComb else st.allComb ++ [sortNat (nc ++ comb)], calculated := st.calculated ++ [sortNat (nc ++ comb)] }

/-- the search loop, given that every single calculation it makes is equivariant -/
theorem altLoop_shift (k : Int) (ds ds' : Dataset) (cs cs' : ConnSet) (pAlt pAlt' : Params) (base : List Nat) (A E : List NTD)
    (hlines : ∀ r, routeLines ds' (shRoute k r) = routeLines ds r)
    (H : ∀ ex, calculateSingleWith ds' cs' { pAlt' with exceptLines := ex } A E = shRouteOut k (calculateSingleWith ds cs { pAlt with exceptLines := ex } A E)) :
    ∀ (fuel i : Nat) (st : AltState),
      altLoop ds' cs' pAlt' base A E fuel i (shAlt k st) = shAltSt k (altLoop ds cs pAlt base A E fuel i st) := by
  intro fuel
  induction fuel with
  | zero => intro i st; rfl
  | succ fuel ih =>
    intro i st
    simp only [altLoop]
    have e1 : (shAlt k st).allComb = st.allComb := rfl
    have e2 : (shAlt k st).count = st.count := rfl
    have e3 : (shAlt k st).seq = st.seq := rfl
    have e4 : (shAlt k st).found = st.found := rfl
    simp only [e1, e2, e3, e4]
    cases hc : st.allComb[i]? with
    | none => rfl
    | some combination =>
      simp only
      by_cases g : st.count < 200 ∧ st.seq - 1 < 50
      · simp only [if_pos g]
        rw [H]
        cases hr : calculateSingleWith ds cs { pAlt with exceptLines := base ++ combination } A E with
        | exception w => rfl
        | noRouting _ =>
          simp only [shRouteOut]
          exact ih (i+1) { st with failed := st.failed ++ [combination], count := st.count + 1 }
        | ok r =>
          simp only [shRouteOut, hlines]
          generalize sortNat (routeLines ds r) = fl
          by_cases g2 : ¬ fl.isEmpty = true ∧ ¬ st.found.contains fl = true
          · simp only [if_pos g2]
            have hst1 : ({ shAlt k st with routes := (shAlt k st).routes ++ [shRoute k r], found := (shAlt k st).found ++ [fl] } : AltState) = shAlt k { st with routes := st.routes ++ [r], found := st.found ++ [fl] } := by
              simp [shAlt]
            have key := addCombos_shift k combination (allCombos fl) { st with routes := st.routes ++ [r], found := st.found ++ [fl] }
            rw [← hst1] at key
            refine Eq.trans (congrArg _ ?_) (ih (i+1) { addCombos combination { st with routes := st.routes ++ [r], found := st.found ++ [fl] } (allCombos fl) with seq := (addCombos combination { st with routes := st.routes ++ [r], found := st.found ++ [fl] } (allCombos fl)).seq + 1, count := (addCombos combination { st with routes := st.routes ++ [r], found := st.found ++ [fl] } (allCombos fl)).count + 1 })
            show ({ addCombos combination { shAlt k st with routes := (shAlt k st).routes ++ [shRoute k r], found := (shAlt k st).found ++ [fl] } (allCombos fl) with seq := (addCombos combination { shAlt k st with routes := (shAlt k st).routes ++ [shRoute k r], found := (shAlt k st).found ++ [fl] } (allCombos fl)).seq + 1, count := (addCombos combination { shAlt k st with routes := (shAlt k st).routes ++ [shRoute k r], found := (shAlt k st).found ++ [fl] } (allCombos fl)).count + 1 } : AltState) = _
            rw [key]
            rfl
          · simp only [if_neg g2]
            exact ih (i+1) { st with count := st.count + 1 }
      · simp only [if_neg g]
        exact ih (i+1) st

/-- **the alternatives search is equivariant** whenever every single calculation it makes is (same request with another travel-time
    limit and another set of excluded lines) -/
theorem alternativesRouting_shift (k : Int) (ds : Dataset) (p : Params)
    (hsingle : ∀ (m : Int) (ex : List Nat), calculateSingle (shiftDs k ds) (shiftP k { p with maxTotal := m, exceptLines := ex }) =
      shRouteOut k (calculateSingle ds { p with maxTotal := m, exceptLines := ex })) :
    alternativesRouting (shiftDs k ds) (shiftP k p) = shAltOut k (alternativesRouting ds p) := by
  have hsc : (shiftDs k ds).scenarioOf (shiftP k p) = ds.scenarioOf p := rfl
  have hrs : (shiftDs k ds).restrict ((shiftDs k ds).connSetOf (ds.scenarioOf p)) = shiftDs k (ds.restrict (ds.connSetOf (ds.scenarioOf p))) :=
    restrict_shift k ds (ds.scenarioOf p)
  unfold alternativesRouting alternativesRoutingCS
  simp only [hsc]
  have ha : routerLookup ((shiftDs k ds).restrict ((shiftDs k ds).connSetOf (ds.scenarioOf p))).access (shiftP k p).maxAccess =
      routerLookup (ds.restrict (ds.connSetOf (ds.scenarioOf p))).access p.maxAccess := rfl
  have he : routerLookup ((shiftDs k ds).restrict ((shiftDs k ds).connSetOf (ds.scenarioOf p))).egress (shiftP k p).maxEgress =
      routerLookup (ds.restrict (ds.connSetOf (ds.scenarioOf p))).egress p.maxEgress := rfl
  rw [ha, he]
  have h0 := hsingle p.maxTotal p.exceptLines
  have h0' : calculateSingleWith ((shiftDs k ds).restrict ((shiftDs k ds).connSetOf (ds.scenarioOf p))) ((shiftDs k ds).connSetOf (ds.scenarioOf p)) (shiftP k p)
      (routerLookup (ds.restrict (ds.connSetOf (ds.scenarioOf p))).access p.maxAccess) (routerLookup (ds.restrict (ds.connSetOf (ds.scenarioOf p))).egress p.maxEgress) =
      shRouteOut k (calculateSingleWith (ds.restrict (ds.connSetOf (ds.scenarioOf p))) (ds.connSetOf (ds.scenarioOf p)) p
      (routerLookup (ds.restrict (ds.connSetOf (ds.scenarioOf p))).access p.maxAccess) (routerLookup (ds.restrict (ds.connSetOf (ds.scenarioOf p))).egress p.maxEgress)) := h0
  rw [h0']
  cases hr0 : calculateSingleWith (ds.restrict (ds.connSetOf (ds.scenarioOf p))) (ds.connSetOf (ds.scenarioOf p)) p
      (routerLookup (ds.restrict (ds.connSetOf (ds.scenarioOf p))).access p.maxAccess) (routerLookup (ds.restrict (ds.connSetOf (ds.scenarioOf p))).egress p.maxEgress) with
  | exception w => rfl
  | noRouting r => rfl
  | ok r0 =>
    simp only [shRouteOut]
    have hlines : ∀ r, routeLines ((shiftDs k ds).restrict ((shiftDs k ds).connSetOf (ds.scenarioOf p))) (shRoute k r) =
        routeLines (ds.restrict (ds.connSetOf (ds.scenarioOf p))) r := by
      intro r; rw [hrs]; exact routeLines_shift k _ r
    rw [hlines, altMaxTravelTime_shift]
    generalize sortNat (routeLines (ds.restrict (ds.connSetOf (ds.scenarioOf p))) r0) = fl
    have hst0 : ({ routes := [shRoute k r0], allComb := (allCombos fl).map sortNat, calculated := (allCombos fl).map sortNat, found := [fl] } : AltState) = shAlt k { routes := [r0], allComb := (allCombos fl).map sortNat, calculated := (allCombos fl).map sortNat, found := [fl] } := rfl
    rw [hst0]
    have hloop := altLoop_shift k (ds.restrict (ds.connSetOf (ds.scenarioOf p))) ((shiftDs k ds).restrict ((shiftDs k ds).connSetOf (ds.scenarioOf p)))
      (ds.connSetOf (ds.scenarioOf p)) ((shiftDs k ds).connSetOf (ds.scenarioOf p))
      { p with maxTotal := altMaxTravelTime p r0 } { shiftP k p with maxTotal := altMaxTravelTime p r0 } p.exceptLines
      (routerLookup (ds.restrict (ds.connSetOf (ds.scenarioOf p))).access p.maxAccess) (routerLookup (ds.restrict (ds.connSetOf (ds.scenarioOf p))).egress p.maxEgress)
      hlines (fun ex => hsingle (altMaxTravelTime p r0) ex)
    erw [hloop]
    cases altLoop (ds.restrict (ds.connSetOf (ds.scenarioOf p))) (ds.connSetOf (ds.scenarioOf p)) { p with maxTotal := altMaxTravelTime p r0 } p.exceptLines
      (routerLookup (ds.restrict (ds.connSetOf (ds.scenarioOf p))).access p.maxAccess) (routerLookup (ds.restrict (ds.connSetOf (ds.scenarioOf p))).egress p.maxEgress)
      100000 0 _ <;> rfl

/-- **C12 in full for alternatives queries** (the entry point the server runs, with the hour index), both time types: for every
    well-formed dataset, every query and every offset such that request and shifted request lie in [0, 32 h) and the clock values stay
    clear of the sentinels (range conditions), the list of alternatives of the shifted problem is the shifted list - same number of
    routes in the same order, every clock time moved by `k`, everything else unchanged - and the same number of calculations was made. -/
theorem C12_full_alternatives (ds : Dataset) (hwf : WFData ds) (p : Params) (k L B W : Int) (hal : TripsAligned ds)
    (hmw : 0 ≤ p.minWait) (hmt : 0 ≤ p.maxTransfer)
    (R : (p.forward = true ∧ RouteFwdRange ds p k L B W) ∨ (p.forward = false ∧ RouteRevRange ds p k L B W))
    (h0 : 0 ≤ p.time) (ht : p.time < (HOUR_END : Int) * 3600) (h0' : 0 ≤ p.time + k) (ht' : p.time + k < (HOUR_END : Int) * 3600)
    (hacc : ∀ a ∈ ds.access, 0 ≤ a.time) (hegr : ∀ g ∈ ds.egress, 0 ≤ g.time) :
    alternativesRouting (shiftDs k ds) (shiftP k p) = shAltOut k (alternativesRouting ds p) := by
  apply alternativesRouting_shift
  intro m ex
  rcases R with ⟨hf, R⟩ | ⟨hf, R⟩
  · exact C12_full_route_departure_indexed ds hwf { p with maxTotal := m, exceptLines := ex } k L B W hal hf hmw hmt
      ⟨R.hL, R.hLk, R.hB, R.hB0, R.hW, R.time0, R.timek, R.foot, R.rfoot, R.connsF, R.connsR, R.access0, R.egrB, R.egress, R.access⟩ ht ht' hacc hegr
  · exact C12_full_route_arrival_indexed ds hwf { p with maxTotal := m, exceptLines := ex } k L B W hal hf hmw hmt
      ⟨R.hL, R.hLk, R.hB, R.hB0, R.hW, R.rfoot, R.conns, R.egress, R.access⟩ h0 ht h0' ht' hacc hegr

/-- non-vacuity: the hypotheses of `C12_full_alternatives` hold of the example dataset for an offset that moves the request across an
    hour mark, both time types, and the two lists of alternatives are shifted copies of each other -/
theorem nv_full_alternatives :
    RouteFwdRange nvDs' nvFwd' 1700 600 100000 60 ∧ RouteRevRange nvDs' nvRev' 1700 600 100000 60 ∧
    (match alternativesRouting nvDs' nvFwd', alternativesRouting (shiftDs 1700 nvDs') (shiftP 1700 nvFwd') with
      | .ok (l, n), .ok (l', n') => decide (l.map (shRoute 1700) = l') && decide (n = n') && !l.isEmpty
      | _, _ => false) = true ∧
    (match alternativesRouting nvDs' nvRev', alternativesRouting (shiftDs 1700 nvDs') (shiftP 1700 nvRev') with
      | .ok (l, n), .ok (l', n') => decide (l.map (shRoute 1700) = l') && decide (n = n') && !l.isEmpty
      | _, _ => false) = true :=
  ⟨nv_full_route_departure.1, nv_full_route_arrival.1, by decide, by decide⟩

end Tr
