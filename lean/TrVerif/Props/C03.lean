/-
  Property C03 — departure-time queries return the earliest possible arrival, if any exists.

  Over the model, on the property's domain (well-formed data, positive hop times, first-waiting
  cap disabled, non-negative walks, the router lists each stop once, clock values in [0, 32 h);
  lines of the `transferable` mode allowed):

    * `C03_optimal` (1): when the answer is a route, it arrives no later than ANY admissible
      journey (`AdmFwd`: a boarding reachable from the place at the requested time - `Reach` -,
      permitted, on an admitted trip; a permitted alighting of that trip at a stop the router
      offers around the destination; arrival = alighting + egress walk within max_travel_time).
      That the route itself is such a journey is C01 + C02; so its arrival IS the minimum.
    * `C03_optimal` (2): when an admissible journey exists the answer is not no_routing_found.
      This is the half that was FALSE on the code as found: the second (reverse) pass could stop
      before the only acceptable first boarding (fix a7932ab, DESIGN 0.3).
  NOT proved: that the model never ends in its `exception` outcome on well-formed data.

  Structure: forward single scan complete up to an upper cut line (`FCβ`), best egress selection,
  forward soundness gives a journey J* arriving at the chosen time, `reach_reverse` turns J* into an
  admissible journey of the second pass, all of whose trips are flagged usable, and
  `singleReverse_gen` shows the second pass finds a route; C02-style soundness bounds its arrival.
-/
import TrVerif.Proofs.Reversal
import TrVerif.Props.C02
namespace Tr

/-- a journey confined to what the scan has seen by the cut line only uses trips flagged usable -/
theorem Reach.usable {cx : Ctx} {L P : List Conn} {s : FState} {β : Int} (w : FW cx L) (hPL : ∀ a ∈ P, a ∈ L)
    (hF : FCβ cx β P s) {y : Nat} {t : Int} (h : Reach cx P y t) (ht : t ≤ β) :
    Reach cx (P.filter fun c => s.usable c.trip) y t := by
  induction h with
  | access a ha => exact Reach.access a ha
  | ride y' t' e x f hsub he hx h1 h2 h3 h4 h5 h6 h7 h8 h9 ih =>
    have hw := effWait_nonneg e cx.p.minWait w.mw
    have hdm := w.depMono e (hPL e he) x (hPL x hx) h3 h4
    have hph := w.posHop x (hPL x hx)
    have hfn := w.footNonneg _ f h8
    have hen := hF.enter e he ⟨h5, h7, t', by rw [h1]; exact hsub, h2⟩ (by omega)
    have hue := hF.usable e.trip hen
    exact Reach.ride y' t' e x f (ih (by omega)) (List.mem_filter.mpr ⟨he, hue⟩)
      (List.mem_filter.mpr ⟨hx, by rw [← h3]; exact hue⟩) h1 h2 h3 h4 h5 h6 h7 h8 h9

/-- a valid complete journey arrives by the arrival time of its context -/
theorem journeyOK_arrival {cx : Ctx} {C : List Conn} {bd : Int} {j : List JStep} (h : JourneyOK cx C bd j) (hnd : cx.EgrNodup) :
    (emit cx.ds cx.p.minWait bd j).arrivalTime ≤ cx.arrT := by
  obtain ⟨acc, legs, egr, rfl, hacc, hegr, hne, hok, _, hlast⟩ := h
  rw [emit_arrival _ _ _ acc egr legs hacc hegr hne hok.allLegs]
  obtain ⟨l, hl⟩ : ∃ l, legs.getLast? = some l := by
    cases hg : legs.getLast? with
    | none => simp at hg; exact absurd hg hne
    | some l => exact ⟨l, rfl⟩
  obtain ⟨e, x, _, hx⟩ := hok.allLegs l (List.mem_of_getLast? hl)
  rw [finalArrival_last egr legs l x hl hx]
  exact (hlast l x hl hx).2 hnd

/-- an admissible journey of a departure-time query, seen from its last ride -/
structure AdmFwd (cx : Ctx) (L : List Conn) (e x : Conn) (g : NTD) : Prop where
  board : BoardP cx L e
  he : e ∈ L
  hx : x ∈ L
  trip : e.trip = x.trip
  seq : e.seq ≤ x.seq
  unboard : x.canUnboard = true
  egr : g ∈ cx.egressFoot
  stop : g.stop = x.arrStop

/-- everything the optimality proof assumes about the data, the query and the connection set -/
structure FwdDomain (ds : Dataset) (cs : ConnSet) (p : Params) (acc egr : List NTD) : Prop where
  wF : FW (mkCtx ds p cs acc egr p.time (-1)) cs.fwd
  wR : ∀ t', RW { mkCtx ds p cs acc egr p.time (-1) with arrT := t' } cs.rev
  sortedF : SortedFwd cs.fwd
  sortedR : SortedRev cs.rev
  idxF : cs.fwdIdx = fwdIndex cs.fwd
  idxR : cs.revIdx = revIndex cs.rev
  fr : ∀ c ∈ cs.fwd, c ∈ cs.rev
  rf : ∀ c ∈ cs.rev, c ∈ cs.fwd
  mwb : ∀ c ∈ cs.rev, c.effWait p.minWait ≤ p.minWait
  boundD : ∀ c ∈ cs.rev, c.dep < MAX_INT
  boundA : ∀ c ∈ cs.fwd, ∀ g ∈ egr, c.arr + g.time < MAX_INT
  t0 : 0 ≤ p.time
  t1 : p.time < (HOUR_END : Int) * 3600
  cap : p.maxFirstWait < 0
  clean : ∀ t', CleanupPreserves { mkCtx ds p cs acc egr p.time (-1) with arrT := t' } cs.rev

/-- **the departure-time calculation is optimal and complete** (connection-set level) -/
theorem forwardSingle_optimal {ds : Dataset} {cs : ConnSet} {p : Params} {acc egr : List NTD} (hp : p.forward = true)
    (D : FwdDomain ds cs p acc egr) (hane : acc ≠ []) (hene : egr ≠ [])
    {e x : Conn} {g : NTD} (hJ : AdmFwd (mkCtx ds p cs acc egr p.time (-1)) cs.fwd e x g)
    (hT : x.arr + g.time - p.time ≤ p.maxTotal) :
    (∀ r, calculateSingleWith ds cs p acc egr = .ok r → r.arrivalTime ≤ x.arr + g.time) ∧
    (∀ reason, calculateSingleWith ds cs p acc egr ≠ .noRouting reason) ∧
    (∀ r, calculateSingleWith ds cs p acc egr = .ok r → ∀ a0 e0 x0,
      AdmRev { mkCtx ds p cs acc egr p.time (-1) with arrT := r.arrivalTime } cs.rev a0 e0 x0 →
      p.time ≤ e0.dep - e0.effWait p.minWait - a0.time → e0.dep - e0.effWait p.minWait - a0.time ≤ r.departureTime) := by
  have ha' : acc.isEmpty = false := by cases acc with | nil => exact absurd rfl hane | cons _ _ => rfl
  have he' : egr.isEmpty = false := by cases egr with | nil => exact absurd rfl hene | cons _ _ => rfl
  unfold calculateSingleWith
  simp only [ha', he', Bool.false_eq_true, false_and, and_false, if_false, hp, if_true]
  have wF0 := D.wF
  have wR0 := D.wR
  have hclean0 := D.clean
  generalize hcx : mkCtx ds p cs acc egr p.time (-1) = cx at hJ wF0 wR0 hclean0 ⊢
  have hcs : cx.cs = cs := by rw [← hcx]; rfl
  have hdepT : cx.depT = p.time := by rw [← hcx]; rfl
  have hpp : cx.p = p := by rw [← hcx]; rfl
  have hegrF : cx.egressFoot = egr := by rw [← hcx]; rfl
  rw [← hcs] at hJ wF0 wR0 hclean0
  have wF : FW cx cx.cs.fwd := wF0
  have wR : ∀ t', RW { cx with arrT := t' } cx.cs.rev := wR0
  have hclean : ∀ t', CleanupPreserves { cx with arrT := t' } cx.cs.rev := hclean0
  cases hl : lookupPos (fwdLookup cx.cs.fwd cx.cs.fwdIdx (hourOf p.time)) with
  | none => simp
  | some start =>
    simp only
    generalize hfsdef : fwdScan cx true start = fs
    have hfsfold : fs = (cx.cs.fwd.drop start).foldl (fwdStep cx true) (FState.init cx) := by rw [← hfsdef]; rfl
    -- the upper cut line, from the final state
    obtain ⟨β, hβdef⟩ : ∃ β : Int, β = if fs.reached = true ∧ cx.maxEgress ≥ 0 ∧ fs.tentEgrArr < MAX_INT ∧
        fs.tentEgrArr + cx.maxEgress ≤ cx.depT + cx.p.maxTotal then fs.tentEgrArr + cx.maxEgress else cx.depT + cx.p.maxTotal := ⟨_, rfl⟩
    have hβ1 : β ≤ cx.depT + cx.p.maxTotal := by
      rw [hβdef]; split
      · rename_i hc; exact hc.2.2.2
      · exact Int.le_refl _
    have hfin : fs.reached = true → cx.maxEgress ≥ 0 → fs.tentEgrArr < MAX_INT → β ≤ fs.tentEgrArr + cx.maxEgress := by
      intro hr hm hlt
      rw [hβdef]
      by_cases hc : fs.reached = true ∧ cx.maxEgress ≥ 0 ∧ fs.tentEgrArr < MAX_INT ∧ fs.tentEgrArr + cx.maxEgress ≤ cx.depT + cx.p.maxTotal
      · rw [if_pos hc]; exact Int.le_refl _
      · rw [if_neg hc]
        have : ¬ (fs.tentEgrArr + cx.maxEgress ≤ cx.depT + cx.p.maxTotal) := fun hh => hc ⟨hr, hm, hlt, hh⟩
        omega
    have hsubd : ∀ a ∈ cx.cs.fwd.drop start, a ∈ cx.cs.fwd := fun a ha => List.mem_of_mem_drop ha
    have hsorted : SortedFwd ([] ++ cx.cs.fwd.drop start) := by
      show List.Pairwise _ ([] ++ cx.cs.fwd.drop start)
      rw [List.nil_append, hcs]
      exact List.Pairwise.sublist (List.drop_sublist _ _) D.sortedF
    have hF := fwdScanList1_FCβ wF β hβ1 (cx.cs.fwd.drop start) [] (FState.init cx) (by simpa using hsubd) hsorted
      (init_FCβ cx β wF.accNodup) (by rw [← hfsfold]; exact hfin)
    simp only [List.nil_append] at hF
    rw [← hfsfold] at hF
    have hbF : ∀ c ∈ cx.cs.fwd, c.dep < MAX_INT := by rw [hcs]; exact fun c hc => D.boundD c (D.fr c hc)
    have hS := fwdScanList_inv (cx := cx) true cx.cs.fwd wF.depMono wF.mw hbF
      (cx.cs.fwd.drop start) [] (FState.init cx) (by simpa using hsubd) hsorted (init_FInv cx _)
    simp only [List.nil_append] at hS
    rw [← hfsfold] at hS
    -- everything that leaves no earlier than the request is in the scanned range
    have hin : ∀ a ∈ cx.cs.fwd, cx.depT ≤ a.dep → a ∈ cx.cs.fwd.drop start := by
      intro a ha hd
      rw [← List.take_append_drop start cx.cs.fwd] at ha
      rcases List.mem_append.mp ha with h1 | h1
      · have := before_start_early cx.cs (by rw [hcs]; exact D.idxF) p.time D.t0 start hl D.t1 a h1
        omega
      · exact h1
    have hmin : 0 ≤ cx.minAccess := minTime_nonneg cx.accessFoot wF.accNonneg
    have hegrNN : ∀ g' ∈ cx.egressFoot, 0 ≤ g'.time := (wR 0).egrNonneg
    have hegrND : (cx.egressFoot.map (·.stop)).Nodup := (wR 0).egrNodup
    -- the given journey, inside the scanned range
    obtain ⟨hcb, hdis, t, hr, hrt⟩ := hJ.board
    have hrP := hr.restrict wF hsubd hin
    have hge := hrP.time_ge wF hsubd
    have hwe := effWait_nonneg e cx.p.minWait wF.mw
    have hdmx := wF.depMono e hJ.he x hJ.hx hJ.trip hJ.seq
    have hphx := wF.posHop x hJ.hx
    have hgt := hegrNN g hJ.egr
    have heP : e ∈ cx.cs.fwd.drop start := hin e hJ.he (by omega)
    have hxP : x ∈ cx.cs.fwd.drop start := hin x hJ.hx (by omega)
    have harrpos : ∀ y js x', fs.egr y = some js → js.exit = some x' → 0 ≤ x'.arr := by
      intro y js x' hj hx'
      obtain ⟨e'', x'', _, h2, _, h4, h5, h6, _, hb8⟩ := hS.egr y js hj
      rw [hx'] at h2; cases h2
      obtain ⟨he'', _, _, t'', hr'', ht''⟩ := hb8
      have hr2 := hr''.restrict wF hsubd hin
      have := hr2.time_ge wF hsubd
      have h10 := wF.depMono e'' he'' x' h4 h5 h6
      have h11 := wF.posHop x' h4
      have h12 := effWait_nonneg e'' cx.p.minWait wF.mw
      have := D.t0
      omega
    -- a recorded alighting at an offered stop that is at least as good, and a positive count
    have hkey : ∃ g1 ∈ cx.egressFoot, ∃ b, EgrLe fs g1.stop b ∧ b + g1.time ≤ x.arr + g.time ∧ 1 ≤ fs.count ∧
        b + g1.time < MAX_INT := by
      by_cases hcut : x.dep ≤ β
      · obtain ⟨hegr1, hcnt⟩ := hF.egr e heP x hxP ⟨hcb, hdis, t, hrP, hrt⟩ hJ.trip hJ.seq hJ.unboard hcut
        refine ⟨g, hJ.egr, x.arr, by rw [hJ.stop]; exact hegr1, Int.le_refl _, hcnt, ?_⟩
        have := D.boundA x (by rw [← hcs]; exact hJ.hx) g (by rw [← hegrF]; exact hJ.egr)
        exact this
      · have hβ' : fs.reached = true ∧ β = fs.tentEgrArr + cx.maxEgress := by
          by_cases hc : fs.reached = true ∧ cx.maxEgress ≥ 0 ∧ fs.tentEgrArr < MAX_INT ∧ fs.tentEgrArr + cx.maxEgress ≤ cx.depT + cx.p.maxTotal
          · exact ⟨hc.1, by rw [hβdef, if_pos hc]⟩
          · have : β = cx.depT + cx.p.maxTotal := by rw [hβdef, if_neg hc]
            rw [hdepT, hpp] at this
            omega
        obtain ⟨c1, hc1, harr1, ⟨g1, hng1⟩, hegr1, hcnt1⟩ := hF.reach hβ'.1
        have hm1 := nodes_mem hng1
        have hmax := maxTime_ge cx.egressFoot g1 hm1.1
        have hmaxdef : cx.maxEgress = maxTime cx.egressFoot := rfl
        refine ⟨g1, hm1.1, c1.arr, by rw [hm1.2]; exact hegr1, by omega, hcnt1, ?_⟩
        have := D.boundA c1 (by rw [← hcs]; exact hsubd c1 hc1) g1 (by rw [← hegrF]; exact hm1.1)
        exact this
    obtain ⟨g1, hg1, b, hegr1, hb1, hcnt, hlt1⟩ := hkey
    have hb0 : 0 ≤ b + g1.time := by
      obtain ⟨js, x', hj, hx', hxb⟩ := hegr1
      -- `b` bounds a recorded arrival from above; use that arrival itself
      exact Int.le_trans (Int.add_nonneg (harrpos _ _ _ hj hx') (hegrNN g1 hg1)) (by omega)
    -- tighten `b` to the recorded arrival so that the selection tests are about a real time
    obtain ⟨ba, node, hbest, hba⟩ := bestEgress_le hegrND hg1 hegr1 hb0 (by rw [hdepT, hpp]; omega) hlt1 harrpos hegrNN
    rw [if_neg (by omega), hbest]
    simp only
    -- the second pass arrives by the chosen time
    have harrive : ∀ r, singleReverse { cx with arrT := ba } fs.usable = .ok r → r.arrivalTime ≤ ba := by
      intro r hr'
      obtain ⟨bd, j, hrj, hJok, _⟩ := singleReverse_emits (cx := { cx with arrT := ba }) fs.usable
        (by show SortedRev cx.cs.rev; rw [hcs]; exact D.sortedR) (wR ba).arrMono (by show 0 ≤ cx.p.minWait; exact wF.mw) (hclean ba) hr'
      rw [hrj]
      have := journeyOK_arrival hJok (by show ((cx.egressFoot).map (·.stop)).Nodup; exact hegrND)
      exact this
    obtain ⟨gs, hgs, js, xs, egs, hjs, hxs, hngs, hbaeq, hbaT, hba0⟩ := bestEgress_sound hbest
    -- the chosen time is not beyond the cut line
    have hbaβ : ba ≤ β := by
      rw [hβdef]
      by_cases hc : fs.reached = true ∧ cx.maxEgress ≥ 0 ∧ fs.tentEgrArr < MAX_INT ∧ fs.tentEgrArr + cx.maxEgress ≤ cx.depT + cx.p.maxTotal
      · rw [if_pos hc]
        obtain ⟨c1, hc1, harr1, ⟨g1', hng1⟩, hegr1', _⟩ := hF.reach hc.1
        have hm1 := nodes_mem hng1
        have hmax := maxTime_ge cx.egressFoot g1' hm1.1
        have hmaxdef : cx.maxEgress = maxTime cx.egressFoot := rfl
        have hc1pos : 0 ≤ c1.arr := by
          obtain ⟨js1, x1, hj1, hx1, hx1b⟩ := hegr1'
          have := harrpos _ _ _ hj1 hx1
          omega
        obtain ⟨ba', node', hbest', hba'⟩ := bestEgress_le hegrND hm1.1 (by rw [hm1.2]; exact hegr1')
          (by have := hegrNN g1' hm1.1; omega) (by omega)
          (D.boundA c1 (by rw [← hcs]; exact hsubd c1 hc1) g1' (by rw [← hegrF]; exact hm1.1)) harrpos hegrNN
        rw [hbest] at hbest'
        simp only [Option.some.injEq, Prod.mk.injEq] at hbest'
        omega
      · rw [if_neg hc]; omega
    have hcapc : cx.p.maxFirstWait < 0 := by rw [hpp]; exact D.cap
    have hmem2 : ∀ a ∈ (cx.cs.fwd.drop start).filter (fun c => fs.usable c.trip), a ∈ cx.cs.rev.filter (fun c => fs.usable c.trip) := by
      intro a ha
      obtain ⟨ha1, ha2⟩ := List.mem_filter.mp ha
      exact List.mem_filter.mpr ⟨by rw [hcs]; exact D.fr a (by rw [← hcs]; exact hsubd a ha1), ha2⟩
    -- the general second-pass theorem, instantiated
    have hgen : ∀ {a0 : NTD} {e0 x0 : Conn}, AdmRev { cx with arrT := ba } (cx.cs.rev.filter fun c => fs.usable c.trip) a0 e0 x0 →
        cx.depT ≤ e0.dep - e0.effWait cx.p.minWait - a0.time →
        (∀ r, singleReverse { cx with arrT := ba } fs.usable = .ok r → e0.dep - e0.effWait cx.p.minWait - a0.time ≤ r.departureTime) ∧
        (∀ reason, singleReverse { cx with arrT := ba } fs.usable ≠ .noRouting reason) := by
      intro a0 e0 x0 hAdm hdep0'
      have hna0 : cx.nodesAccess e0.depStop = some a0 := by
        have := nodes_find_nodup wF.accNodup hAdm.acc
        rw [hAdm.stop] at this
        exact this
      have hwe0 := effWait_nonneg e0 cx.p.minWait wF.mw
      have hok0 : AccOK { cx with arrT := ba } e0 :=
        Or.inr ⟨a0, hna0, by show cx.depT ≤ e0.dep - a0.time - e0.effWait cx.p.minWait; omega,
          Or.inl (by show cx.p.maxFirstWait < e0.effWait cx.p.minWait; omega)⟩
      have hd0 : 0 ≤ admDeparture { cx with arrT := ba } a0 e0 := by
        show 0 ≤ e0.dep - e0.effWait cx.p.minWait - a0.time
        have := D.t0; rw [hdepT] at hdep0'; omega
      have hspan : ({ cx with arrT := ba } : Ctx).arrT - admDeparture { cx with arrT := ba } a0 e0 ≤ cx.p.maxTotal := by
        show ba - (e0.dep - e0.effWait cx.p.minWait - a0.time) ≤ cx.p.maxTotal
        omega
      exact singleReverse_gen (cx := { cx with arrT := ba }) fs.usable (wR ba)
        (by show SortedRev cx.cs.rev; rw [hcs]; exact D.sortedR) (by show cx.cs.revIdx = revIndex cx.cs.rev; rw [hcs]; exact D.idxR)
        (by show ∀ c ∈ cx.cs.rev, c.effWait cx.p.minWait ≤ cx.p.minWait; rw [hcs, hpp]; exact D.mwb)
        wF.accNodup wF.accNonneg (by show ∀ c ∈ cx.cs.rev, c.dep < MAX_INT; rw [hcs]; exact D.boundD)
        hba0 hAdm hok0 (Or.inr ⟨hcapc, hdep0'⟩) hd0 hspan
    refine ⟨?_, ?_, ?_⟩
    · -- (1)
      intro r hr'
      have := harrive r hr'
      omega
    · -- (2) the second pass does not fail: the journey that realises the chosen time is found
      obtain ⟨es, xs', h1, h2, h3, h4, h5, h6, h7, hb8⟩ := hS.egr gs.stop js hjs
      rw [hxs] at h2; cases h2
      obtain ⟨hes, hescb, hesdis, ts, hrs, hts⟩ := hb8
      have hrsP := hrs.restrict wF hsubd hin
      have hges := hrsP.time_ge wF hsubd
      have hwes := effWait_nonneg es cx.p.minWait wF.mw
      have hdms := wF.depMono es hes xs h4 h5 h6
      have hphs := wF.posHop xs h4
      have hmegs := nodes_mem hngs
      have hegst := hegrNN egs hmegs.1
      have hesP : es ∈ cx.cs.fwd.drop start := hin es hes (by omega)
      have hxsP : xs ∈ cx.cs.fwd.drop start := hin xs h4 (by omega)
      have husable := (hrsP.usable wF hsubd hF (by omega))
      have hen := hF.enter es hesP ⟨hescb, hesdis, ts, hrsP, hts⟩ (by omega)
      have hues := hF.usable es.trip hen
      have hreach2 : Reach { cx with arrT := ba } (cx.cs.rev.filter fun c => fs.usable c.trip) es.depStop ts :=
        (husable.mono_set hmem2).arrT ba
      have hes2 : es ∈ cx.cs.rev.filter (fun c => fs.usable c.trip) := hmem2 es (List.mem_filter.mpr ⟨hesP, hues⟩)
      have hxs2 : xs ∈ cx.cs.rev.filter (fun c => fs.usable c.trip) := hmem2 xs (List.mem_filter.mpr ⟨hxsP, by rw [← h5]; exact hues⟩)
      have hunb : UnboardP { cx with arrT := ba } (cx.cs.rev.filter fun c => fs.usable c.trip) xs := by
        refine ⟨h7, by rw [← h5]; exact hesdis, ba - egs.time, ?_, by omega⟩
        have := RReach.egress (cx := { cx with arrT := ba }) (C := cx.cs.rev.filter fun c => fs.usable c.trip) egs hmegs.1
        rw [hmegs.2, ← h3] at this
        exact this
      obtain ⟨a0, e0, x0, hAdm, hdep0⟩ := reach_reverse hreach2 es xs hes2 hxs2 rfl hts h5 h6 hescb hunb
      exact (hgen hAdm hdep0).2
    · -- (3) no admissible journey that meets the reported arrival leaves later
      intro r hr' a0 e0 x0 hAdm hdepJ
      have harr := harrive r hr'
      rw [← hcs] at hAdm
      rw [← hdepT, ← hpp] at hdepJ
      rw [← hpp]
      -- the journey, for the chosen time `ba`
      obtain ⟨hcu0, hdis0, t0, hr0, hrt0⟩ := hAdm.unboard
      obtain ⟨t0', ht0', hr0'⟩ := hr0.arrT_mono (A' := ba) harr
      have hr0'' : RReach { cx with arrT := ba } cx.cs.rev x0.arrStop t0' := hr0'
      have hwe0 := effWait_nonneg e0 cx.p.minWait wF.mw
      have hat0 := wF.accNonneg a0 hAdm.acc
      have he0F : e0 ∈ cx.cs.fwd := by rw [hcs]; exact D.rf e0 (by rw [← hcs]; exact hAdm.he)
      have hx0F : x0 ∈ cx.cs.fwd := by rw [hcs]; exact D.rf x0 (by rw [← hcs]; exact hAdm.hx)
      have hdm0 := wF.depMono e0 he0F x0 hx0F hAdm.trip hAdm.seq
      have hph0 := wF.posHop x0 hx0F
      have he0P : e0 ∈ cx.cs.fwd.drop start := hin e0 he0F (by omega)
      have hx0P : x0 ∈ cx.cs.fwd.drop start := hin x0 hx0F (by omega)
      have hle0 := hr0''.time_le (wR ba) (fun a ha => ha)
      have hboard0 : BoardP cx (cx.cs.fwd.drop start) e0 :=
        ⟨hAdm.board, hdis0 ▸ (by rw [hAdm.trip]), cx.depT + a0.time, by rw [← hAdm.stop]; exact Reach.access a0 hAdm.acc, by omega⟩
      have hen0 := hF.enter e0 he0P hboard0 (by
        show e0.dep ≤ β
        have : ({ cx with arrT := ba } : Ctx).arrT = ba := rfl
        omega)
      have hu0 := hF.usable e0.trip hen0
      have hcont := rreach_usable (cx := cx) (cx' := { cx with arrT := ba }) (L := cx.cs.fwd) (P := cx.cs.fwd.drop start) (Lr := cx.cs.rev)
        wF (wR ba) hsubd (by rw [hcs]; exact D.rf) hF hin (by show ba ≤ β; exact hbaβ) ⟨rfl, rfl, rfl⟩ hr0''
        e0 x0 he0P hx0P hboard0 hAdm.trip hAdm.seq hcu0 rfl (by omega)
      have hAdm2 : AdmRev { cx with arrT := ba } (cx.cs.rev.filter fun c => fs.usable c.trip) a0 e0 x0 :=
        ⟨hAdm.acc, hAdm.stop, List.mem_filter.mpr ⟨hAdm.he, hu0⟩, List.mem_filter.mpr ⟨hAdm.hx, by rw [← hAdm.trip]; exact hu0⟩,
          hAdm.trip, hAdm.seq, hAdm.board, ⟨hcu0, hdis0, t0', hcont, by omega⟩⟩
      exact (hgen hAdm2 hdepJ).1 r hr'

/-! ### dataset level -/

/-- arrival plus egress walk fits the integer type of the tables -/
def ArrBounded (ds : Dataset) : Prop := ∀ c ∈ ds.conns, ∀ g ∈ ds.egress, c.arr + g.time < MAX_INT

theorem connSetOf_rev_mem_fwd (ds : Dataset) (sc : Scenario) : ∀ c ∈ (ds.connSetOf sc).rev, c ∈ (ds.connSetOf sc).fwd := by
  intro c hc
  simp only [Dataset.connSetOf, mkConnSet, Dataset.fwdAll, Dataset.revAll, List.mem_filter] at hc ⊢
  exact ⟨(mem_isort fwdLt c _).mpr ((mem_isort revLt c _).mp hc.1), hc.2⟩

theorem FwdDomain_dataset {ds : Dataset} (hwf : WFData ds) (p : Params) (hmw : 0 ≤ p.minWait) (hmt : 0 ≤ p.maxTransfer)
    (hpos : PosHops ds) (hself : SelfFootArr ds) (hb : TimesBounded ds) (hba : ArrBounded ds) (hcap : p.maxFirstWait < 0)
    (hacc : ∀ a ∈ ds.access, 0 ≤ a.time) (hand : (ds.access.map (·.stop)).Nodup)
    (hegr : ∀ g ∈ ds.egress, 0 ≤ g.time) (hend : (ds.egress.map (·.stop)).Nodup)
    (h0 : 0 ≤ p.time) (ht : p.time < (HOUR_END : Int) * 3600) :
    FwdDomain (ds.restrict (ds.connSetOf (ds.scenarioOf p))) (ds.connSetOf (ds.scenarioOf p)) p
      (routerLookup ds.access p.maxAccess) (routerLookup ds.egress p.maxEgress) := by
  have hsub := connSetOf_rev_sub ds (ds.scenarioOf p)
  have hfr := connSetOf_fwd_mem_rev ds (ds.scenarioOf p)
  refine ⟨?_, ?_, connSetOf_sortedFwd ds _, connSetOf_sorted ds _, rfl, rfl, hfr, connSetOf_rev_mem_fwd ds _, ?_, fun c hc => hb c (hsub c hc), ?_, h0, ht, hcap, ?_⟩
  · -- FW
    have hw := timeWF_dataset hwf p hmw hmt (ds.scenarioOf p) (routerLookup ds.access p.maxAccess) (routerLookup ds.egress p.maxEgress) p.time (-1)
    refine ⟨?_, ?_, ?_, ?_, ?_, ?_, hmw, ?_, ?_, by show p.maxFirstWait ≤ 0; omega⟩
    · intro c hc; exact hpos c (hsub c (hfr c hc))
    · intro a ha b hb'; exact hw.depMono a (hfr a ha) b (hfr b hb')
    · intro a ha b hb'; exact hw.arrMono a (hfr a ha) b (hfr b hb')
    · intro a ha b hb'; exact conns_unique hwf.toWFSchedule a (hsub a (hfr a ha)) b (hsub b (hfr b hb'))
    · intro z f hf
      have := footOf_mem (ds := ds.restrict (ds.connSetOf (ds.scenarioOf p))) hf
      exact hwf.footNonneg _ this
    · intro c hc
      obtain ⟨d, hd⟩ := hself c (hsub c (hfr c hc))
      refine ⟨⟨c.arrStop, 0, d⟩, ?_, rfl, hmt⟩
      show (⟨c.arrStop, 0, d⟩ : NTD) ∈ (ds.restrict (ds.connSetOf (ds.scenarioOf p))).footOf c.arrStop
      simp only [Dataset.footOf, Dataset.restrict, List.mem_filterMap]
      exact ⟨_, hd, by simp⟩
    · intro a ha; exact hacc a (List.mem_filter.mp ha).1
    · exact routerLookup_nodup _ _ hand
  · -- RW, for every arrival time
    intro t'
    have hw := timeWF_dataset hwf p hmw hmt (ds.scenarioOf p) (routerLookup ds.access p.maxAccess) (routerLookup ds.egress p.maxEgress) p.time t'
    refine ⟨?_, hw.depMono, hw.arrMono, ?_, hw.footNonneg, ?_, hmw, ?_, ?_⟩
    · intro c hc; exact hpos c (hsub c hc)
    · intro a ha b hb'; exact conns_unique hwf.toWFSchedule a (hsub a ha) b (hsub b hb')
    · intro c hc
      obtain ⟨d, hd⟩ := hw.selfFoot c hc
      exact ⟨⟨c.depStop, 0, d⟩, hd, rfl, hmt⟩
    · intro g hg; exact hegr g (List.mem_filter.mp hg).1
    · exact routerLookup_nodup _ _ hend
  · -- minimum waiting times
    intro c hc
    obtain ⟨tr, _, hc'⟩ := mem_conns (hsub c hc)
    have hm := (tripConns_facts ds tr c hc').2.2.2.2
    show c.effWait p.minWait ≤ p.minWait
    unfold Conn.effWait
    rw [hm]
    unfold Dataset.lineMinWait
    split <;> split <;> omega
  · intro c hc g hg
    exact hba c (hsub c (hfr c hc)) g (List.mem_filter.mp hg).1
  · intro t'
    exact cleanupPreserves (timeWF_dataset hwf p hmw hmt _ _ _ p.time t') (sliceOK_dataset hwf p _ _ _ p.time t')

/-- **C03.** On the property's domain: a returned route arrives no later than any admissible
    journey, and an admissible journey is never answered no_routing_found. -/
theorem C03_optimal (ds : Dataset) (hwf : WFData ds) (p : Params) (hp : p.forward = true) (hmw : 0 ≤ p.minWait)
    (hmt : 0 ≤ p.maxTransfer) (hpos : PosHops ds) (hself : SelfFootArr ds) (hb : TimesBounded ds) (hba : ArrBounded ds)
    (hcap : p.maxFirstWait < 0)
    (hacc : ∀ a ∈ ds.access, 0 ≤ a.time) (hand : (ds.access.map (·.stop)).Nodup)
    (hegr : ∀ g ∈ ds.egress, 0 ≤ g.time) (hend : (ds.egress.map (·.stop)).Nodup)
    (h0 : 0 ≤ p.time) (ht : p.time < (HOUR_END : Int) * 3600)
    {e x : Conn} {g : NTD}
    (hJ : AdmFwd (mkCtx (ds.restrict (ds.connSetOf (ds.scenarioOf p))) p (ds.connSetOf (ds.scenarioOf p))
        (routerLookup ds.access p.maxAccess) (routerLookup ds.egress p.maxEgress) p.time (-1))
        (ds.connSetOf (ds.scenarioOf p)).fwd e x g)
    (hT : x.arr + g.time - p.time ≤ p.maxTotal) :
    (∀ r, calculateSingle ds p = .ok r → r.arrivalTime ≤ x.arr + g.time) ∧
    (∀ reason, calculateSingle ds p ≠ .noRouting reason) ∧
    (∀ r, calculateSingle ds p = .ok r → ∀ a0 e0 x0,
      AdmRev { mkCtx (ds.restrict (ds.connSetOf (ds.scenarioOf p))) p (ds.connSetOf (ds.scenarioOf p))
          (routerLookup ds.access p.maxAccess) (routerLookup ds.egress p.maxEgress) p.time (-1) with arrT := r.arrivalTime }
        (ds.connSetOf (ds.scenarioOf p)).rev a0 e0 x0 →
      p.time ≤ e0.dep - e0.effWait p.minWait - a0.time → e0.dep - e0.effWait p.minWait - a0.time ≤ r.departureTime) := by
  have D := FwdDomain_dataset hwf p hmw hmt hpos hself hb hba hcap hacc hand hegr hend h0 ht
  have hane : routerLookup ds.access p.maxAccess ≠ [] := by
    obtain ⟨_, _, t, hr, _⟩ := hJ.board
    intro hh
    have : ∀ {y t}, Reach (mkCtx (ds.restrict (ds.connSetOf (ds.scenarioOf p))) p (ds.connSetOf (ds.scenarioOf p))
        (routerLookup ds.access p.maxAccess) (routerLookup ds.egress p.maxEgress) p.time (-1))
        (ds.connSetOf (ds.scenarioOf p)).fwd y t → False := by
      intro y t h
      induction h with
      | access a ha => simp only [mkCtx] at ha; rw [hh] at ha; cases ha
      | ride _ _ _ _ _ _ _ _ _ _ _ _ _ _ _ _ _ ih => exact ih
    exact this hr
  have hene : routerLookup ds.egress p.maxEgress ≠ [] := by
    intro hh
    have := hJ.egr
    simp only [mkCtx] at this
    rw [hh] at this
    cases this
  exact forwardSingle_optimal hp D hane hene hJ hT

end Tr
