/- aggregator: every theorem that decides part of C07 -/
import TrVerif.Props.C07Data
import TrVerif.Props.C07Rev
