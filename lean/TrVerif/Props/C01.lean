/-
  Property C01 — every returned route is an executable itinerary in the scenario timetable.

  `C01` (bottom of this file): for every well-formed dataset, scenario and query, both time
  types, every route returned by the single calculation is a `ValidItinerary`
  (`Spec/Itinerary.lean`).  `C01_with` is the same for any recalculation of the alternatives
  search.  Proved chain, all in Lean, no hypothesis left:
    reverse-scan invariant            Proofs/Reverse.lean      (revScanList_inv)
    reconstruction -> valid journey   Proofs/JourneyValid.lean (reconLoop_valid)
    clean-up preserves validity       Proofs/Cleanup.lean      (cleanupPreserves: CSL/BTS/GTF/CSS)
    emission -> valid itinerary       Proofs/RenderValid.lean, Proofs/Emit.lean (emit_valid)
    dataset facts                     Proofs/DataFacts.lean, Slice.lean, DataWF.lean
  `C01_modulo_cleanup` is the intermediate statement with the clean-up as a hypothesis.
-/
import TrVerif.Proofs.Assembly
import TrVerif.Proofs.Sort
import TrVerif.Proofs.DataFacts
import TrVerif.Proofs.DataWF
namespace Tr

theorem singleReverse_valid {cx : Ctx} {T : List Conn} (usable : Nat → Bool)
    (hT : ∀ c ∈ cx.cs.rev, c ∈ T) (hs : SortedRev cx.cs.rev) (hm : ArrMono cx.cs.rev) (hmw : 0 ≤ cx.p.minWait)
    (mwOf : Nat → Int) (hmwOf : ∀ c ∈ cx.cs.rev, c.effWait cx.p.minWait = mwOf c.trip)
    (hclean : CleanupPreserves cx cx.cs.rev) {r : Route} (h : singleReverse cx usable = .ok r) :
    ValidItinerary T cx.ds.foot cx.accessFoot cx.egressFoot mwOf r := by
  unfold singleReverse at h
  cases hl : lookupPos (revLookup cx.cs.rev cx.cs.revIdx (hourOf cx.arrT + 1)) with
  | none => rw [hl] at h; cases h
  | some start =>
    rw [hl] at h
    simp only at h
    split at h
    · cases h
    · -- the scan keeps the invariant over the scanned suffix
      have hsub : ∀ a ∈ cx.cs.rev.drop start, a ∈ cx.cs.rev := fun a ha => List.mem_of_mem_drop ha
      have hsorted : SortedRev ([] ++ cx.cs.rev.drop start) := by
        show List.Pairwise _ ([] ++ cx.cs.rev.drop start)
        rw [List.nil_append]
        exact List.Pairwise.sublist (List.drop_sublist _ _) hs
      have hinv := revScanList_inv usable true cx.cs.rev hm hmw (cx.cs.rev.drop start) [] (RState.init cx)
        (by simpa using hsub) hsorted (init_RInv cx)
      simp only [List.nil_append] at hinv
      have hinv' : RInv cx cx.cs.rev (revScan cx usable true start) := hinv.mono_pre hsub
      exact reverseJourney_valid hinv' hT mwOf hmwOf hclean h

/-- **C01 (modulo the clean-up lemma).** -/
theorem C01_modulo_cleanup (ds : Dataset) (cs : ConnSet) (p : Params) (accessFoot egressFoot : List NTD)
    (T : List Conn) (hT : ∀ c ∈ cs.rev, c ∈ T) (hs : SortedRev cs.rev) (hm : ArrMono cs.rev) (hmw : 0 ≤ p.minWait)
    (mwOf : Nat → Int) (hmwOf : ∀ c ∈ cs.rev, c.effWait p.minWait = mwOf c.trip)
    (hclean : ∀ depT arrT, CleanupPreserves (mkCtx ds p cs accessFoot egressFoot depT arrT) cs.rev)
    {r : Route} (h : calculateSingleWith ds cs p accessFoot egressFoot = .ok r) :
    ValidItinerary T ds.foot accessFoot egressFoot mwOf r := by
  unfold calculateSingleWith at h
  split at h
  · cases h
  · split at h
    · cases h
    · split at h
      · cases h
      · split at h
        · -- departure-time query: forward pass, then the reverse pass from the best arrival time
          simp only at h
          split at h
          · cases h
          · split at h
            · cases h
            · split at h
              · cases h
              · rename_i bestArr _ _
                exact singleReverse_valid (cx := { mkCtx ds p cs accessFoot egressFoot p.time (-1) with arrT := bestArr })
                  _ hT hs hm hmw mwOf hmwOf (hclean p.time bestArr) h
        · -- arrival-time query
          exact singleReverse_valid (cx := mkCtx ds p cs accessFoot egressFoot (-1) p.time)
            _ hT hs hm hmw mwOf hmwOf (hclean (-1) p.time) h

/-- the reverse list of a per-scenario connection set is sorted the way the scan needs -/
theorem connSetOf_sorted (ds : Dataset) (sc : Scenario) : SortedRev (ds.connSetOf sc).rev := by
  simp only [Dataset.connSetOf, mkConnSet, Dataset.revAll]
  exact List.Pairwise.sublist List.filter_sublist (sorted_isort revLt revLt_strictWeak ds.conns)

/-- **C01 at dataset level (modulo the clean-up lemma).**  For every dataset with unique trip
    identifiers and arrival times non-decreasing along each trip, every scenario, every query
    with a non-negative minimum waiting time (the parser normalises it so), both time types:
    a route returned by `calculateSingle` is an executable itinerary on the timetable `ds.conns`,
    using footpath records of the data, starting with a walk the router offers within the access
    maximum and ending with one it offers within the egress maximum, every boarding respecting
    the minimum waiting time in force for that trip (0 for `transferable` lines). -/
theorem C01_dataset (ds : Dataset) (hwf : WFSchedule ds) (p : Params) (hmw : 0 ≤ p.minWait)
    (hclean : ∀ depT arrT, CleanupPreserves
      (mkCtx (ds.restrict (ds.connSetOf (ds.scenarioOf p))) p (ds.connSetOf (ds.scenarioOf p))
        (routerLookup ds.access p.maxAccess) (routerLookup ds.egress p.maxEgress) depT arrT)
      (ds.connSetOf (ds.scenarioOf p)).rev)
    {r : Route} (h : calculateSingle ds p = .ok r) :
    ValidItinerary ds.conns ds.foot (routerLookup ds.access p.maxAccess) (routerLookup ds.egress p.maxEgress)
      (ds.mwOfTrip p) r := by
  have hsub := connSetOf_rev_sub ds (ds.scenarioOf p)
  have hm : ArrMono (ds.connSetOf (ds.scenarioOf p)).rev :=
    fun a ha b hb => conns_arrMono hwf a (hsub a ha) b (hsub b hb)
  exact C01_modulo_cleanup (ds.restrict (ds.connSetOf (ds.scenarioOf p))) (ds.connSetOf (ds.scenarioOf p)) p _ _
    ds.conns hsub (connSetOf_sorted ds _) hm hmw (ds.mwOfTrip p)
    (fun c hc => conns_effWait hwf p c (hsub c hc)) hclean h

/-- the clean-up is the identity on journeys in which it finds nothing to rewrite: for such
    answers C01 holds outright -/
theorem cleanup_identity (ds : Dataset) (j : List JStep) (h : searchJourney ds [] j 0 [] = none) :
    optimizeJourney ds j = some { journey := j } := by
  simp [optimizeJourney, optimizeFuel, optimizeLoop, h]

/-! non-vacuity: the hypotheses are met by the example dataset of `Props/C11.lean` -/
example : WFSchedule exDs := by
  refine ⟨by decide, ?_⟩
  intro tr htr i j hij hj
  simp [exDs] at htr
  rcases htr with rfl | rfl
  · simp at hj
    have : i = 0 ∨ i = 1 := by omega
    have : j = 0 ∨ j = 1 := by omega
    rcases ‹i = 0 ∨ i = 1› with rfl | rfl <;> rcases ‹j = 0 ∨ j = 1› with rfl | rfl <;> simp_all
  · simp at hj
    have : i = 0 ∨ i = 1 := by omega
    have : j = 0 ∨ j = 1 := by omega
    rcases ‹i = 0 ∨ i = 1› with rfl | rfl <;> rcases ‹j = 0 ∨ j = 1› with rfl | rfl <;> simp_all

/-- **C01.**  For every well-formed dataset (unique trip identifiers; arrival and departure
    times non-decreasing along each trip and no hop of negative duration; walks >= 0; every stop
    a vehicle leaves from transferable to itself in 0 s), every scenario, every query whose
    minimum waiting time and transfer maximum are non-negative (the parameter parser guarantees
    both), departure- and arrival-time queries alike: a route returned by the single calculation
    is an executable itinerary - access walk offered by the router within the access maximum,
    rides on scheduled hops of one trip each, boarded before they are left, where boarding resp.
    alighting is permitted, at the scheduled times; transfer walks that are footpath records of
    the data for exactly the two stops they join; egress walk offered by the router; every
    boarding no earlier than the traveller's arrival at the stop plus the minimum waiting time
    in force for that trip.  No hypothesis about the clean-up remains: `cleanupPreserves`. -/
theorem C01 (ds : Dataset) (hwf : WFData ds) (p : Params) (hmw : 0 ≤ p.minWait) (hmt : 0 ≤ p.maxTransfer)
    {r : Route} (h : calculateSingle ds p = .ok r) :
    ValidItinerary ds.conns ds.foot (routerLookup ds.access p.maxAccess) (routerLookup ds.egress p.maxEgress)
      (ds.mwOfTrip p) r :=
  C01_dataset ds hwf.toWFSchedule p hmw
    (fun depT arrT => cleanupPreserves (timeWF_dataset hwf p hmw hmt _ _ _ depT arrT) (sliceOK_dataset hwf p _ _ _ depT arrT)) h

/-- the same for every route of an alternatives answer is clause (c) of C10: each alternative is
    `calculateSingleWith` on the same tables with more lines excluded and a smaller maximum -/
theorem C01_with (ds : Dataset) (hwf : WFData ds) (p : Params) (hmw : 0 ≤ p.minWait) (hmt : 0 ≤ p.maxTransfer)
    (sc : Scenario) (a e : List NTD) {r : Route}
    (h : calculateSingleWith (ds.restrict (ds.connSetOf sc)) (ds.connSetOf sc) p a e = .ok r) :
    ValidItinerary ds.conns ds.foot a e (ds.mwOfTrip p) r := by
  have hsub := connSetOf_rev_sub ds sc
  have hm : ArrMono (ds.connSetOf sc).rev := fun x hx y hy => conns_arrMono hwf.toWFSchedule x (hsub x hx) y (hsub y hy)
  exact C01_modulo_cleanup (ds.restrict (ds.connSetOf sc)) (ds.connSetOf sc) p a e ds.conns hsub (connSetOf_sorted ds _)
    hm hmw (ds.mwOfTrip p) (fun c hc => conns_effWait hwf.toWFSchedule p c (hsub c hc))
    (fun depT arrT => cleanupPreserves (timeWF_dataset hwf p hmw hmt sc a e depT arrT) (sliceOK_dataset hwf p sc a e depT arrT)) h

/-! ### every returned route is `emit` of a valid journey (used by C06 and C02) -/

theorem singleReverse_emits {cx : Ctx} (usable : Nat → Bool)
    (hs : SortedRev cx.cs.rev) (hm : ArrMono cx.cs.rev) (hmw : 0 ≤ cx.p.minWait)
    (hclean : CleanupPreserves cx cx.cs.rev) {r : Route} (h : singleReverse cx usable = .ok r) :
    ∃ bd j, r = emit cx.ds cx.p.minWait bd j ∧ JourneyOK cx cx.cs.rev bd j ∧
      0 ≤ bd ∧ cx.arrT - bd ≤ cx.p.maxTotal ∧ (cx.depT ≠ -1 → cx.depT ≤ bd) := by
  unfold singleReverse at h
  cases hl : lookupPos (revLookup cx.cs.rev cx.cs.revIdx (hourOf cx.arrT + 1)) with
  | none => rw [hl] at h; cases h
  | some start =>
    rw [hl] at h
    simp only at h
    split at h
    · cases h
    · have hsub : ∀ a ∈ cx.cs.rev.drop start, a ∈ cx.cs.rev := fun a ha => List.mem_of_mem_drop ha
      have hsorted : SortedRev ([] ++ cx.cs.rev.drop start) := by
        show List.Pairwise _ ([] ++ cx.cs.rev.drop start)
        rw [List.nil_append]
        exact List.Pairwise.sublist (List.drop_sublist _ _) hs
      have hinv := revScanList_inv usable true cx.cs.rev hm hmw (cx.cs.rev.drop start) [] (RState.init cx)
        (by simpa using hsub) hsorted (init_RInv cx)
      simp only [List.nil_append] at hinv
      exact reverseJourney_emits (hinv.mono_pre hsub) hclean h

theorem calculateSingleWith_emits (ds : Dataset) (cs : ConnSet) (p : Params) (accessFoot egressFoot : List NTD)
    (hs : SortedRev cs.rev) (hm : ArrMono cs.rev) (hmw : 0 ≤ p.minWait)
    (hclean : ∀ depT arrT, CleanupPreserves (mkCtx ds p cs accessFoot egressFoot depT arrT) cs.rev)
    {r : Route} (h : calculateSingleWith ds cs p accessFoot egressFoot = .ok r) :
    ∃ depT arrT bd j, r = emit ds p.minWait bd j ∧ JourneyOK (mkCtx ds p cs accessFoot egressFoot depT arrT) cs.rev bd j ∧
      0 ≤ bd ∧ (p.forward = true → p.time ≤ bd) ∧ (p.forward = false → p.time - bd ≤ p.maxTotal) ∧
      (p.forward = false → arrT = p.time) ∧ (p.forward = true → arrT - p.time ≤ p.maxTotal) ∧
      (p.forward = true → depT = p.time) := by
  unfold calculateSingleWith at h
  split at h
  · cases h
  · split at h
    · cases h
    · split at h
      · cases h
      · by_cases hfwd : p.forward = true
        · rw [if_pos hfwd] at h
          simp only at h
          split at h
          · cases h
          · split at h
            · cases h
            · split at h
              · cases h
              · rename_i bestArr bestNode hbe
                obtain ⟨bd, j, h1, h2, h3, _, h5⟩ := singleReverse_emits
                  (cx := { mkCtx ds p cs accessFoot egressFoot p.time (-1) with arrT := bestArr })
                  _ hs hm hmw (hclean p.time bestArr) h
                have hspan := bestEgress_spec hbe
                refine ⟨p.time, bestArr, bd, j, h1, h2, h3, ?_, ?_, ?_, ?_, ?_⟩
                · intro _
                  by_cases hd : p.time = -1
                  · omega
                  · exact h5 hd
                · intro hf; rw [hf] at hfwd; cases hfwd
                · intro hf; rw [hf] at hfwd; cases hfwd
                · intro _; exact hspan
                · intro _; rfl
        · rw [if_neg hfwd] at h
          obtain ⟨bd, j, h1, h2, h3, h4, _⟩ := singleReverse_emits (cx := mkCtx ds p cs accessFoot egressFoot (-1) p.time)
            _ hs hm hmw (hclean (-1) p.time) h
          refine ⟨-1, p.time, bd, j, h1, h2, h3, ?_, ?_, ?_, ?_, ?_⟩
          · intro hf; exact absurd hf hfwd
          · intro _; exact h4
          · intro _; rfl
          · intro hf; exact absurd hf hfwd
          · intro hf; exact absurd hf hfwd

end Tr
