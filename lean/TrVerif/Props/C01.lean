/-
  Property C01 — every returned route is an executable itinerary in the scenario timetable.

  `C01_modulo_cleanup`: for every dataset, connection set (sorted the way `TransitData` sorts it,
  arrival times non-decreasing along each trip), walking-router tables and query, every route
  returned by the single calculation (departure- and arrival-time queries) is a `ValidItinerary`
  - PROVIDED the journey clean-up (`optimizeJourney`) maps valid journeys to valid journeys
  (`CleanupPreserves`, the one link of the chain not yet discharged in Lean; it is covered by
  the correspondence run on the directed rewrite-template stream and by the itinerary validator
  evaluated on every implementation answer).
  Proved chain: reverse-scan invariant (`Proofs/Reverse.lean`) -> reconstruction yields a valid
  journey (`Proofs/JourneyValid.lean`) -> emission renders a valid journey to a valid itinerary
  (`Proofs/RenderValid.lean`, `Proofs/Emit.lean`).
-/
import TrVerif.Proofs.Assembly
import TrVerif.Proofs.Sort
import TrVerif.Proofs.DataFacts
namespace Tr

theorem singleReverse_valid {cx : Ctx} {T : List Conn} (usable : Nat → Bool)
    (hT : ∀ c ∈ cx.cs.rev, c ∈ T) (hs : SortedRev cx.cs.rev) (hm : ArrMono cx.cs.rev) (hmw : 0 ≤ cx.p.minWait)
    (mwOf : Nat → Int) (hmwOf : ∀ c ∈ cx.cs.rev, c.effWait cx.p.minWait = mwOf c.trip)
    (hclean : CleanupPreserves cx cx.cs.rev) {r : Route} (h : singleReverse cx usable = .ok r) :
    ValidItinerary T cx.ds.foot cx.accessFoot cx.egressFoot mwOf r := by
  unfold singleReverse at h
  cases hl : lookupPos (revLookup cx.cs.rev cx.cs.revIdx (hourOf cx.arrT + 1)) with
  | none => rw [hl] at h; cases h
  | some start =>
    rw [hl] at h
    simp only at h
    split at h
    · cases h
    · -- the scan keeps the invariant over the scanned suffix
      have hsub : ∀ a ∈ cx.cs.rev.drop start, a ∈ cx.cs.rev := fun a ha => List.mem_of_mem_drop ha
      have hsorted : SortedRev ([] ++ cx.cs.rev.drop start) := by
        show List.Pairwise _ ([] ++ cx.cs.rev.drop start)
        rw [List.nil_append]
        exact List.Pairwise.sublist (List.drop_sublist _ _) hs
      have hinv := revScanList_inv usable true cx.cs.rev hm hmw (cx.cs.rev.drop start) [] (RState.init cx)
        (by simpa using hsub) hsorted (init_RInv cx)
      simp only [List.nil_append] at hinv
      have hinv' : RInv cx cx.cs.rev (revScan cx usable true start) := hinv.mono_pre hsub
      exact reverseJourney_valid hinv' hT mwOf hmwOf hclean h

/-- **C01 (modulo the clean-up lemma).** -/
theorem C01_modulo_cleanup (ds : Dataset) (cs : ConnSet) (p : Params) (accessFoot egressFoot : List NTD)
    (T : List Conn) (hT : ∀ c ∈ cs.rev, c ∈ T) (hs : SortedRev cs.rev) (hm : ArrMono cs.rev) (hmw : 0 ≤ p.minWait)
    (mwOf : Nat → Int) (hmwOf : ∀ c ∈ cs.rev, c.effWait p.minWait = mwOf c.trip)
    (hclean : ∀ depT arrT, CleanupPreserves (mkCtx ds p cs accessFoot egressFoot depT arrT) cs.rev)
    {r : Route} (h : calculateSingleWith ds cs p accessFoot egressFoot = .ok r) :
    ValidItinerary T ds.foot accessFoot egressFoot mwOf r := by
  unfold calculateSingleWith at h
  split at h
  · cases h
  · split at h
    · cases h
    · split at h
      · cases h
      · split at h
        · -- departure-time query: forward pass, then the reverse pass from the best arrival time
          simp only at h
          split at h
          · cases h
          · split at h
            · cases h
            · split at h
              · cases h
              · rename_i bestArr _ _
                exact singleReverse_valid (cx := { mkCtx ds p cs accessFoot egressFoot p.time (-1) with arrT := bestArr })
                  _ hT hs hm hmw mwOf hmwOf (hclean p.time bestArr) h
        · -- arrival-time query
          exact singleReverse_valid (cx := mkCtx ds p cs accessFoot egressFoot (-1) p.time)
            _ hT hs hm hmw mwOf hmwOf (hclean (-1) p.time) h

/-- the reverse list of a per-scenario connection set is sorted the way the scan needs -/
theorem connSetOf_sorted (ds : Dataset) (sc : Scenario) : SortedRev (ds.connSetOf sc).rev := by
  simp only [Dataset.connSetOf, mkConnSet, Dataset.revAll]
  exact List.Pairwise.sublist List.filter_sublist (sorted_isort revLt revLt_strictWeak ds.conns)

/-- **C01 at dataset level (modulo the clean-up lemma).**  For every dataset with unique trip
    identifiers and arrival times non-decreasing along each trip, every scenario, every query
    with a non-negative minimum waiting time (the parser normalises it so), both time types:
    a route returned by `calculateSingle` is an executable itinerary on the timetable `ds.conns`,
    using footpath records of the data, starting with a walk the router offers within the access
    maximum and ending with one it offers within the egress maximum, every boarding respecting
    the minimum waiting time in force for that trip (0 for `transferable` lines). -/
theorem C01_dataset (ds : Dataset) (hwf : WFSchedule ds) (p : Params) (hmw : 0 ≤ p.minWait)
    (hclean : ∀ depT arrT, CleanupPreserves
      (mkCtx (ds.restrict (ds.connSetOf (ds.scenarioOf p))) p (ds.connSetOf (ds.scenarioOf p))
        (routerLookup ds.access p.maxAccess) (routerLookup ds.egress p.maxEgress) depT arrT)
      (ds.connSetOf (ds.scenarioOf p)).rev)
    {r : Route} (h : calculateSingle ds p = .ok r) :
    ValidItinerary ds.conns ds.foot (routerLookup ds.access p.maxAccess) (routerLookup ds.egress p.maxEgress)
      (ds.mwOfTrip p) r := by
  have hsub := connSetOf_rev_sub ds (ds.scenarioOf p)
  have hm : ArrMono (ds.connSetOf (ds.scenarioOf p)).rev :=
    fun a ha b hb => conns_arrMono hwf a (hsub a ha) b (hsub b hb)
  exact C01_modulo_cleanup (ds.restrict (ds.connSetOf (ds.scenarioOf p))) (ds.connSetOf (ds.scenarioOf p)) p _ _
    ds.conns hsub (connSetOf_sorted ds _) hm hmw (ds.mwOfTrip p)
    (fun c hc => conns_effWait hwf p c (hsub c hc)) hclean h

/-- the clean-up is the identity on journeys in which it finds nothing to rewrite: for such
    answers C01 holds outright -/
theorem cleanup_identity (ds : Dataset) (j : List JStep) (h : searchJourney ds [] j 0 [] = none) :
    optimizeJourney ds j = some { journey := j } := by
  simp [optimizeJourney, optimizeFuel, optimizeLoop, h]

/-! non-vacuity: the hypotheses are met by the example dataset of `Props/C11.lean` -/
example : WFSchedule exDs := by
  refine ⟨by decide, ?_⟩
  intro tr htr i j hij hj
  simp [exDs] at htr
  rcases htr with rfl | rfl
  · simp at hj
    have : i = 0 ∨ i = 1 := by omega
    have : j = 0 ∨ j = 1 := by omega
    rcases ‹i = 0 ∨ i = 1› with rfl | rfl <;> rcases ‹j = 0 ∨ j = 1› with rfl | rfl <;> simp_all
  · simp at hj
    have : i = 0 ∨ i = 1 := by omega
    have : j = 0 ∨ j = 1 := by omega
    rcases ‹i = 0 ∨ i = 1› with rfl | rfl <;> rcases ‹j = 0 ∨ j = 1› with rfl | rfl <;> simp_all

end Tr
