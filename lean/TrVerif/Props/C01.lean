/-
  Property C01 — every returned route is an executable itinerary in the scenario timetable.

  `C01_modulo_cleanup`: for every dataset, connection set (sorted the way `TransitData` sorts it,
  arrival times non-decreasing along each trip), walking-router tables and query, every route
  returned by the single calculation (departure- and arrival-time queries) is a `ValidItinerary`
  - PROVIDED the journey clean-up (`optimizeJourney`) maps valid journeys to valid journeys
  (`CleanupPreserves`, the one link of the chain not yet discharged in Lean; it is covered by
  the correspondence run on the directed rewrite-template stream and by the itinerary validator
  evaluated on every implementation answer).
  Proved chain: reverse-scan invariant (`Proofs/Reverse.lean`) -> reconstruction yields a valid
  journey (`Proofs/JourneyValid.lean`) -> emission renders a valid journey to a valid itinerary
  (`Proofs/RenderValid.lean`, `Proofs/Emit.lean`).
-/
import TrVerif.Proofs.Assembly
import TrVerif.Proofs.Sort
namespace Tr

theorem singleReverse_valid {cx : Ctx} {T : List Conn} (usable : Nat → Bool)
    (hT : ∀ c ∈ cx.cs.rev, c ∈ T) (hs : SortedRev cx.cs.rev) (hm : ArrMono cx.cs.rev) (hmw : 0 ≤ cx.p.minWait)
    (mwOf : Nat → Int) (hmwOf : ∀ c ∈ cx.cs.rev, c.effWait cx.p.minWait = mwOf c.trip)
    (hclean : CleanupPreserves cx cx.cs.rev) {r : Route} (h : singleReverse cx usable = .ok r) :
    ValidItinerary T cx.ds.foot cx.accessFoot cx.egressFoot mwOf r := by
  unfold singleReverse at h
  cases hl : lookupPos (revLookup cx.cs.rev cx.cs.revIdx (hourOf cx.arrT + 1)) with
  | none => rw [hl] at h; cases h
  | some start =>
    rw [hl] at h
    simp only at h
    split at h
    · cases h
    · -- the scan keeps the invariant over the scanned suffix
      have hsub : ∀ a ∈ cx.cs.rev.drop start, a ∈ cx.cs.rev := fun a ha => List.mem_of_mem_drop ha
      have hsorted : SortedRev ([] ++ cx.cs.rev.drop start) := by
        show List.Pairwise _ ([] ++ cx.cs.rev.drop start)
        rw [List.nil_append]
        exact List.Pairwise.sublist (List.drop_sublist _ _) hs
      have hinv := revScanList_inv usable true cx.cs.rev hm hmw (cx.cs.rev.drop start) [] (RState.init cx)
        (by simpa using hsub) hsorted (init_RInv cx)
      simp only [List.nil_append] at hinv
      have hinv' : RInv cx cx.cs.rev (revScan cx usable true start) := hinv.mono_pre hsub
      exact reverseJourney_valid hinv' hT mwOf hmwOf hclean h

/-- **C01 (modulo the clean-up lemma).** -/
theorem C01_modulo_cleanup (ds : Dataset) (cs : ConnSet) (p : Params) (accessFoot egressFoot : List NTD)
    (T : List Conn) (hT : ∀ c ∈ cs.rev, c ∈ T) (hs : SortedRev cs.rev) (hm : ArrMono cs.rev) (hmw : 0 ≤ p.minWait)
    (mwOf : Nat → Int) (hmwOf : ∀ c ∈ cs.rev, c.effWait p.minWait = mwOf c.trip)
    (hclean : ∀ depT arrT, CleanupPreserves (mkCtx ds p cs accessFoot egressFoot depT arrT) cs.rev)
    {r : Route} (h : calculateSingleWith ds cs p accessFoot egressFoot = .ok r) :
    ValidItinerary T ds.foot accessFoot egressFoot mwOf r := by
  unfold calculateSingleWith at h
  split at h
  · cases h
  · split at h
    · cases h
    · split at h
      · cases h
      · split at h
        · -- departure-time query: forward pass, then the reverse pass from the best arrival time
          simp only at h
          split at h
          · cases h
          · split at h
            · cases h
            · split at h
              · cases h
              · rename_i bestArr _ _
                exact singleReverse_valid (cx := { mkCtx ds p cs accessFoot egressFoot p.time (-1) with arrT := bestArr })
                  _ hT hs hm hmw mwOf hmwOf (hclean p.time bestArr) h
        · -- arrival-time query
          exact singleReverse_valid (cx := mkCtx ds p cs accessFoot egressFoot (-1) p.time)
            _ hT hs hm hmw mwOf hmwOf (hclean (-1) p.time) h

/-- the reverse list of a per-scenario connection set is sorted the way the scan needs -/
theorem connSetOf_sorted (ds : Dataset) (sc : Scenario) : SortedRev (ds.connSetOf sc).rev := by
  simp only [Dataset.connSetOf, mkConnSet, Dataset.revAll]
  exact List.Pairwise.sublist List.filter_sublist (sorted_isort revLt revLt_strictWeak ds.conns)

end Tr
