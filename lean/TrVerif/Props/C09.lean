/-
  Property C09 — arrival accessibility lists exactly the usable stops, latest boarding times.

  PARTIAL: the *soundness* half. Every stop an arrival-time accessibility answer lists is usable,
  with the reported time: there is a chain of scheduled rides (`LegsOK`: each a ride of one trip,
  boarding and alighting permitted, each change by one footpath within the transfer maximum and
  after the minimum waiting time) that boards at that stop at `nodeTime` + minimum waiting, and
  whose last alighting is at a stop the router offers around the place, early enough to walk there
  by the requested time; `totalTravelTime` is the requested time minus `nodeTime` and is within
  max_travel_time; each stop is listed once, in ascending order; `totalNodeCount` is the number of
  stops. NOT proved: that every usable stop is listed, and that `nodeTime` is the LATEST such time
  (completeness / optimality of the reverse scan; decided per answer by the reference solver of
  `check/oracles.py`).
-/
import TrVerif.Props.C02
namespace Tr

theorem collectNodes_mem (f : Nat → Outcome (Option AccNode)) :
    ∀ (ns : List Nat) (acc l : List AccNode), collectNodes f ns acc = .ok l →
      ∀ a ∈ l, a ∈ acc ∨ ∃ n ∈ ns, f n = .ok (some a) := by
  intro ns
  induction ns with
  | nil => intro acc l h a ha; simp [collectNodes] at h; subst h; exact Or.inl ha
  | cons n rest ih =>
    intro acc l h a ha
    unfold collectNodes at h
    cases hf : f n with
    | ok o =>
      cases o with
      | none =>
        simp only [hf] at h
        rcases ih acc l h a ha with h1 | ⟨m, hm, hfm⟩
        · exact Or.inl h1
        · exact Or.inr ⟨m, List.mem_cons_of_mem _ hm, hfm⟩
      | some b =>
        simp only [hf] at h
        rcases ih (acc ++ [b]) l h a ha with h1 | ⟨m, hm, hfm⟩
        · rcases List.mem_append.mp h1 with h2 | h2
          · exact Or.inl h2
          · simp at h2; subst h2; exact Or.inr ⟨n, List.mem_cons_self .., hf⟩
        · exact Or.inr ⟨m, List.mem_cons_of_mem _ hm, hfm⟩
    | noRouting r => simp [hf] at h
    | exception w => simp [hf] at h

theorem collectNodes_sorted (f : Nat → Outcome (Option AccNode)) (hstop : ∀ n a, f n = .ok (some a) → a.stop = n) :
    ∀ (ns : List Nat) (acc l : List AccNode), collectNodes f ns acc = .ok l →
      (acc.map (·.stop) ++ ns).Pairwise (· < ·) → (l.map (·.stop)).Pairwise (· < ·) := by
  intro ns
  induction ns with
  | nil => intro acc l h hp; simp [collectNodes] at h; subst h; simpa using hp
  | cons n rest ih =>
    intro acc l h hp
    unfold collectNodes at h
    cases hf : f n with
    | ok o =>
      cases o with
      | none =>
        simp only [hf] at h
        refine ih acc l h (List.Pairwise.sublist ?_ hp)
        exact List.Sublist.append_left (List.sublist_cons_self n rest) _
      | some b =>
        simp only [hf] at h
        refine ih (acc ++ [b]) l h ?_
        have := hstop n b hf
        simpa [this] using hp
    | noRouting r => simp [hf] at h
    | exception w => simp [hf] at h

/-- what `reverseJourneyStepAllNodes` returns for a listed stop, on any state satisfying the
    reverse-scan invariant -/
theorem reverseNode_sound {cx : Ctx} {pre : List Conn} {s : RState} (hI : RInv cx pre s) {node : Nat} {a : AccNode}
    (h : reverseNode cx s node = .ok (some a)) :
    a.stop = node ∧ a.totalTravelTime = cx.arrT - a.nodeTime ∧ a.totalTravelTime ≤ cx.p.maxTotal ∧
    ∃ e legs xl eg, LegsOK cx pre legs ∧ legs.head?.bind (·.enter) = some e ∧ e.depStop = node ∧ e.canBoard = true ∧
      a.nodeTime = e.dep - e.effWait cx.p.minWait ∧
      lastExit legs = some xl ∧ eg ∈ cx.egressFoot ∧ eg.stop = xl.arrStop ∧ (cx.EgrNodup → xl.arr + eg.time ≤ cx.arrT) := by
  unfold reverseNode at h
  cases hacc : s.acc node with
  | none => rw [hacc] at h; simp at h
  | some first =>
    rw [hacc] at h
    simp only at h
    cases hrec : reconLoop s.steps (cx.ds.nStops + 2) first [] none with
    | none => rw [hrec] at h; cases h
    | some res =>
      obtain ⟨legs, lastStop⟩ := res
      rw [hrec] at h
      simp only at h
      cases heg : lastStop.bind cx.nodesEgress with
      | none => rw [heg] at h; cases h
      | some eg =>
        rw [heg] at h
        simp only at h
        cases hopt : optimizeJourney cx.ds (legs ++ [{ walk := eg.time, dist := eg.dist : JStep }]) with
        | none => rw [hopt] at h; cases h
        | some o =>
          rw [hopt] at h
          simp only at h
          obtain ⟨e1, x1, a1, a2, a3, a4, _⟩ := hI.acc node first hacc
          rw [a1] at h
          simp only at h
          by_cases hc : cx.arrT - (e1.dep - e1.effWait cx.p.minWait) ≤ cx.p.maxTotal
          · rw [if_pos hc] at h
            simp only [Outcome.ok.injEq, Option.some.injEq] at h
            subst h
            have hconn : first.hasConns = true := (hasConns_iff first).mpr ⟨e1, x1, a1, a2⟩
            have hinit : RecInv cx pre s [] first none := by
              refine ⟨trivial, rfl, ?_, fun h => absurd rfl h⟩
              intro e he; rw [a1] at he; cases he; exact ⟨x1, a2, a3⟩
            have hres := reconLoop_valid hI _ _ _ _ _ _ hinit (fun _ => hconn) hrec
            have hhead := reconLoop_head s.steps _ _ _ _ _ _ (fun _ => hconn) hrec
            simp only [List.nil_append, List.head?_cons, Option.bind_some] at hhead
            obtain ⟨ll, el, xl, hl1, hl2, hl3, hl4, hl5, _, _⟩ := hres.fin
            rw [hl4] at heg
            simp only [Option.bind_some] at heg
            have hm := nodes_mem heg
            refine ⟨rfl, by simp; omega, by simpa using hc, e1, legs, xl, eg, hres.ok, by rw [hhead, a1], a4, a3.2.2.2.2.1, by simp; omega,
              by simp [lastExit, hl1, hl3], hm.1, hm.2, ?_⟩
            intro hnd
            have hlab := init_lab_egress hnd hm.1
            rw [hm.2] at hlab
            rw [hlab] at hl5
            omega
          · rw [if_neg hc] at h; simp at h

/-- **C09 (soundness half).** -/
theorem C09_sound (ds : Dataset) (hwf : WFData ds) (p : Params) (hp : p.forward = false) (hmw : 0 ≤ p.minWait)
    {l : List AccNode} {n : Nat} (h : calculateAllNodes ds p = .ok (l, n)) :
    n = ds.nStops ∧ (l.map (·.stop)).Pairwise (· < ·) ∧
    ∀ a ∈ l, a.stop < ds.nStops ∧ a.totalTravelTime = p.time - a.nodeTime ∧ a.totalTravelTime ≤ p.maxTotal ∧
      ∃ e legs xl eg,
        LegsOK (mkCtx (ds.restrict (ds.connSetOf (ds.scenarioOf p))) p (ds.connSetOf (ds.scenarioOf p)) []
          (routerLookup ds.egress p.maxEgress) (-1) p.time) (ds.connSetOf (ds.scenarioOf p)).rev legs ∧
        legs.head?.bind (·.enter) = some e ∧ e.depStop = a.stop ∧ e.canBoard = true ∧
        a.nodeTime = e.dep - ds.mwOfTrip p e.trip ∧
        lastExit legs = some xl ∧ eg ∈ routerLookup ds.egress p.maxEgress ∧ eg.stop = xl.arrStop ∧
        ((ds.egress.map (·.stop)).Nodup → xl.arr + eg.time ≤ p.time) := by
  have hsub := connSetOf_rev_sub ds (ds.scenarioOf p)
  have hm : ArrMono (ds.connSetOf (ds.scenarioOf p)).rev :=
    fun x hx y hy => conns_arrMono hwf.toWFSchedule x (hsub x hx) y (hsub y hy)
  unfold calculateAllNodes calculateAllNodesCS at h
  simp only [hp, Bool.false_eq_true, if_false] at h
  split at h
  · cases h
  · generalize hcx : mkCtx (ds.restrict (ds.connSetOf (ds.scenarioOf p))) p (ds.connSetOf (ds.scenarioOf p)) []
        (routerLookup (ds.restrict (ds.connSetOf (ds.scenarioOf p))).egress p.maxEgress) (-1) p.time = cx at h
    have hcs : cx.cs = ds.connSetOf (ds.scenarioOf p) := by rw [← hcx]; rfl
    split at h
    · cases h
    · rename_i start hstart
      split at h
      · cases h
      · split at h
        · rename_i l' hcoll
          simp only [Outcome.ok.injEq, Prod.mk.injEq] at h
          obtain ⟨rfl, rfl⟩ := h
          -- the invariant at the end of the scan
          have hsubd : ∀ a ∈ cx.cs.rev.drop start, a ∈ cx.cs.rev := fun a ha => List.mem_of_mem_drop ha
          have hsorted : SortedRev ([] ++ cx.cs.rev.drop start) := by
            show List.Pairwise _ ([] ++ cx.cs.rev.drop start)
            rw [List.nil_append, hcs]
            exact List.Pairwise.sublist (List.drop_sublist _ _) (connSetOf_sorted ds _)
          have hinv := revScanList_inv (cx := cx) (fun _ => true) false cx.cs.rev (by rw [hcs]; exact hm) (by rw [← hcx]; exact hmw)
            (cx.cs.rev.drop start) [] (RState.init cx) (by simpa using hsubd) hsorted (init_RInv cx)
          simp only [List.nil_append] at hinv
          have hI := hinv.mono_pre hsubd
          refine ⟨rfl, ?_, ?_⟩
          · refine collectNodes_sorted _ ?_ _ _ _ hcoll (by simpa using List.pairwise_lt_range)
            intro n a hn
            exact (reverseNode_sound hI hn).1
          · intro a ha
            rcases collectNodes_mem _ _ _ _ hcoll a ha with h0 | ⟨m, hmr, hfm⟩
            · cases h0
            · obtain ⟨h1, h2, h3, e, legs, xl, eg, k1, k2, k3, k4, k5, k6, k7, k8, k9⟩ := reverseNode_sound hI hfm
              have hmem : e ∈ cx.cs.rev := by
                cases hh : legs.head? with
                | none => rw [hh] at k2; simp at k2
                | some l0 =>
                  rw [hh] at k2
                  simp only [Option.bind_some] at k2
                  exact k1.mem_enter l0 (List.mem_of_mem_head? hh) e k2
              rw [hcs] at hmem
              have hmwe : e.effWait p.minWait = ds.mwOfTrip p e.trip := conns_effWait hwf.toWFSchedule p e (hsub e hmem)
              have hlt : m < ds.nStops := by simpa [Dataset.restrict] using hmr
              subst hcx
              refine ⟨by rw [h1]; exact hlt, h2, h3, e, legs, xl, eg, k1, k2, by rw [h1]; exact k3, k4, ?_, k6, k7, k8,
                fun hnd => k9 (routerLookup_nodup _ _ hnd)⟩
              rw [← hmwe]; exact k5
        · cases h
        · cases h

end Tr
