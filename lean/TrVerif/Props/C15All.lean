import TrVerif.Props.C15
import TrVerif.Props.C15Load
