import TrVerif.Props.C18
import TrVerif.Props.C18Params
