/-
  Property C07 — a no_routing_found answer carries the most specific reason that is true.
  Here: the decision structure that does not depend on the scans (which exception `reset`
  raises for which emptiness pattern of the walking-router tables; which string each reason is
  rendered to on both endpoints, from the switches re-read from the source).  The
  characterisation of NO_SERVICE_* by the connections of the data is in `Props/C07Scan.lean`.
-/
import TrVerif.Model.Render
namespace Tr

/-- reason strings of `/v2/route` (switch of `result_to_v2.cpp`, regenerated every run) -/
theorem C07_route_strings :
    routeReasonString .noRoutingFound = "NO_ROUTING_FOUND" ∧
    routeReasonString .noAccessAtOrigin = "NO_ACCESS_AT_ORIGIN" ∧
    routeReasonString .noAccessAtDestination = "NO_ACCESS_AT_DESTINATION" ∧
    routeReasonString .noServiceFromOrigin = "NO_SERVICE_FROM_ORIGIN" ∧
    routeReasonString .noServiceToDestination = "NO_SERVICE_TO_DESTINATION" ∧
    routeReasonString .noAccessAtOriginAndDestination = "NO_ACCESS_AT_ORIGIN_AND_DESTINATION" := by decide

/-- the accessibility endpoint reports the same facts as `..._AT_PLACE` -/
theorem C07_accessibility_strings :
    accReasonString .noAccessAtOrigin = "NO_ACCESS_AT_PLACE" ∧
    accReasonString .noAccessAtDestination = "NO_ACCESS_AT_PLACE" ∧
    accReasonString .noServiceFromOrigin = "NO_SERVICE_AT_PLACE" ∧
    accReasonString .noServiceToDestination = "NO_SERVICE_AT_PLACE" ∧
    accReasonString .noRoutingFound = "NO_ROUTING_FOUND" := by decide

/-- the enum the tables are indexed by has the order the model's `reasonIndex` assumes -/
theorem C07_enum_order :
    Gen.reasonEnum = ["NO_ROUTING_FOUND", "NO_ACCESS_AT_ORIGIN", "NO_ACCESS_AT_DESTINATION", "NO_SERVICE_FROM_ORIGIN",
      "NO_SERVICE_TO_DESTINATION", "NO_ACCESS_AT_ORIGIN_AND_DESTINATION"] := by decide

/-- **C07 (access part).** For every dataset, connection set and query: the route calculation
    answers NO_ACCESS_AT_ORIGIN_AND_DESTINATION / _ORIGIN / _DESTINATION exactly when the walking
    router offers no stop within the maxima at both ends / at the origin / at the destination,
    and in no other case. -/
theorem C07_access (ds : Dataset) (cs : ConnSet) (p : Params) :
    let acc := routerLookup ds.access p.maxAccess
    let egr := routerLookup ds.egress p.maxEgress
    (calculateSingleCS ds cs p = .noRouting .noAccessAtOriginAndDestination ↔ acc = [] ∧ egr = []) ∧
    (calculateSingleCS ds cs p = .noRouting .noAccessAtOrigin ↔ acc = [] ∧ egr ≠ []) ∧
    (calculateSingleCS ds cs p = .noRouting .noAccessAtDestination ↔ acc ≠ [] ∧ egr = []) := by
  intro acc egr
  have key : ∀ r, (acc ≠ [] ∧ egr ≠ []) → calculateSingleCS ds cs p = .noRouting r →
      r = .noRoutingFound ∨ r = .noServiceFromOrigin ∨ r = .noServiceToDestination := by
    intro r ⟨ha, he⟩ h
    simp only [calculateSingleCS, calculateSingleWith] at h
    have ha' : (routerLookup ds.access p.maxAccess).isEmpty = false := by simpa [acc] using ha
    have he' : (routerLookup ds.egress p.maxEgress).isEmpty = false := by simpa [egr] using he
    simp only [ha', he', Bool.false_eq_true, false_and, and_false, if_false] at h
    split at h
    · split at h
      · simp at h
      · split at h
        · simp at h; simp [← h]
        · split at h
          · simp at h; simp [← h]
          · simp only [singleReverse] at h
            split at h
            · simp at h
            · split at h
              · simp at h; simp [← h]
              · simp only [reverseJourney] at h
                repeat' split at h
                all_goals (first | (simp at h; done) | (simp at h; simp [← h]))
    · simp only [singleReverse] at h
      split at h
      · simp at h
      · split at h
        · simp at h; simp [← h]
        · simp only [reverseJourney] at h
          repeat' split at h
          all_goals (first | (simp at h; done) | (simp at h; simp [← h]))
  by_cases ha : acc = [] <;> by_cases he : egr = []
  · have : calculateSingleCS ds cs p = .noRouting .noAccessAtOriginAndDestination := by
      simp only [calculateSingleCS, calculateSingleWith]
      have : (routerLookup ds.access p.maxAccess).isEmpty = true := by simpa [acc] using ha
      have : (routerLookup ds.egress p.maxEgress).isEmpty = true := by simpa [egr] using he
      simp [*]
    simp [this, ha, he]
  · have : calculateSingleCS ds cs p = .noRouting .noAccessAtOrigin := by
      simp only [calculateSingleCS, calculateSingleWith]
      have h1 : (routerLookup ds.access p.maxAccess).isEmpty = true := by simpa [acc] using ha
      have h2 : (routerLookup ds.egress p.maxEgress).isEmpty = false := by simpa [egr] using he
      simp [h1, h2]
    simp [this, ha, he]
  · have : calculateSingleCS ds cs p = .noRouting .noAccessAtDestination := by
      simp only [calculateSingleCS, calculateSingleWith]
      have h1 : (routerLookup ds.access p.maxAccess).isEmpty = false := by simpa [acc] using ha
      have h2 : (routerLookup ds.egress p.maxEgress).isEmpty = true := by simpa [egr] using he
      simp [h1, h2]
    simp [this, ha, he]
  · refine ⟨⟨fun h => ?_, fun h => absurd h.1 ha⟩, ⟨fun h => ?_, fun h => absurd h.1 ha⟩, ⟨fun h => ?_, fun h => absurd h.2 he⟩⟩
    · rcases key _ ⟨ha, he⟩ h with e | e | e <;> cases e
    · rcases key _ ⟨ha, he⟩ h with e | e | e <;> cases e
    · rcases key _ ⟨ha, he⟩ h with e | e | e <;> cases e

/-- where the scans start, re-read from the source on every run: the forward scans hand
    `departureTimeSeconds / 3600` to the hour index, the reverse scans `arrivalTimeSeconds / 3600 + 1`
    (the model's `hourOf p.time` and `hourOf cx.arrT + 1`; the transparency lemmas `fwdIndex_spec` /
    `revIndex_spec` are about exactly these hours) -/
theorem C07_scan_start :
    (["forward_scans_start_at_hour_of_departure_time", "reverse_scans_start_at_hour_after_arrival_time"].all
        fun k => Gen.facts.lookup k == some true) = true := by decide

end Tr
