/-
  Property C02 (partial) — query limits and scenario restrictions are honoured by every route.

  Proved for every well-formed dataset, scenario and query, both time types (`C02_partial`):
    * every ride is on a hop of the scenario's own connection set, i.e. of a trip whose service,
      line, agency and mode the scenario admits (`tripEnabled`);
    * the access walk is an entry of the router's table within max_access_travel_time, the egress
      walk one within max_egress_travel_time;
    * every transfer walk is at most max_transfer_travel_time.
  Not yet proved in Lean (covered by the correspondence run and by `check_limits` evaluated on
  every implementation answer): departure >= requested / arrival <= requested, the span limit
  and the first-waiting cap - they need two more conjuncts in the access-candidate invariant
  (`AccFact`) and the forward pass's best-arrival bound.
-/
import TrVerif.Props.C01
namespace Tr

/-- all transfer walks of a step list are within `maxT` -/
def transferWalksWithin (maxT : Int) (steps : List Step) : Prop :=
  ∀ s ∈ steps, ∀ tt d dep arr rdy, s = .walk 1 tt d dep arr rdy → tt ≤ maxT

theorem stepsOfLegs_transfer (cx : Ctx) (C : List Conn) (egr : JStep) :
    ∀ (legs : List JStep) (t : Int), LegsOK cx C legs →
      transferWalksWithin cx.p.maxTransfer (stepsOfLegs cx.ds cx.p.minWait t legs egr) := by
  intro legs
  induction legs with
  | nil => intro t _ s hs; simp [stepsOfLegs] at hs
  | cons l rest ih =>
    intro t hok
    cases rest with
    | nil =>
      obtain ⟨e, x, he, hx, _⟩ := hok
      intro s hs tt d dep arr rdy heq
      simp only [stepsOfLegs, he, hx, boardOf, unboardOf, List.mem_cons, List.mem_nil_iff, or_false] at hs
      rcases hs with h | h | h <;> (rw [h] at heq; cases heq)
    | cons l2 r2 =>
      obtain ⟨⟨e, x, e', he, hx, _, _, hlink⟩, hrest⟩ := hok
      have hrec := ih (x.arr + l.walk) hrest
      intro s hs tt d dep arr rdy heq
      simp only [stepsOfLegs, he, hx, List.cons_append, List.nil_append, boardOf, unboardOf, List.mem_cons] at hs
      rcases hs with h | h | h | h
      · rw [h] at heq; cases heq
      · rw [h] at heq; cases heq
      · rw [h] at heq; cases heq; exact hlink.2.1
      · exact hrec s h tt d dep arr rdy heq

theorem routerLookup_le (tab : List NTD) (m : Int) : ∀ n ∈ routerLookup tab m, n.time ≤ m ∧ n ∈ tab := by
  intro n hn
  simp only [routerLookup, List.mem_filter, decide_eq_true_eq] at hn
  exact ⟨hn.2, hn.1⟩

theorem connSetOf_enabled (ds : Dataset) (sc : Scenario) : ∀ c ∈ (ds.connSetOf sc).rev, ds.tripEnabled sc c.trip = true := by
  intro c hc
  simp only [Dataset.connSetOf, mkConnSet, List.mem_filter] at hc
  exact hc.2

/-- **C02 (scenario, access / egress / transfer maxima).** -/
theorem C02_partial (ds : Dataset) (hwf : WFData ds) (p : Params) (hmw : 0 ≤ p.minWait) (hmt : 0 ≤ p.maxTransfer)
    {r : Route} (h : calculateSingle ds p = .ok r) :
    -- rides only on hops of the scenario's connection set, walks from the router's tables within the maxima …
    ValidItinerary (ds.connSetOf (ds.scenarioOf p)).rev ds.foot
      (routerLookup ds.access p.maxAccess) (routerLookup ds.egress p.maxEgress) (ds.mwOfTrip p) r ∧
    (∀ c ∈ (ds.connSetOf (ds.scenarioOf p)).rev, ds.tripEnabled (ds.scenarioOf p) c.trip = true) ∧
    (∀ n ∈ routerLookup ds.access p.maxAccess, n.time ≤ p.maxAccess) ∧
    (∀ n ∈ routerLookup ds.egress p.maxEgress, n.time ≤ p.maxEgress) ∧
    -- … and no transfer walk longer than the transfer maximum
    transferWalksWithin p.maxTransfer r.steps := by
  have hsub := connSetOf_rev_sub ds (ds.scenarioOf p)
  have hm : ArrMono (ds.connSetOf (ds.scenarioOf p)).rev :=
    fun x hx y hy => conns_arrMono hwf.toWFSchedule x (hsub x hx) y (hsub y hy)
  have hclean := fun depT arrT => cleanupPreserves
    (timeWF_dataset hwf p hmw hmt (ds.scenarioOf p) (routerLookup ds.access p.maxAccess) (routerLookup ds.egress p.maxEgress) depT arrT)
    (sliceOK_dataset hwf p (ds.scenarioOf p) (routerLookup ds.access p.maxAccess) (routerLookup ds.egress p.maxEgress) depT arrT)
  refine ⟨?_, connSetOf_enabled ds _, fun n hn => (routerLookup_le _ _ n hn).1, fun n hn => (routerLookup_le _ _ n hn).1, ?_⟩
  · exact C01_modulo_cleanup (ds.restrict (ds.connSetOf (ds.scenarioOf p))) (ds.connSetOf (ds.scenarioOf p)) p _ _
      (ds.connSetOf (ds.scenarioOf p)).rev (fun c hc => hc) (connSetOf_sorted ds _) hm hmw (ds.mwOfTrip p)
      (fun c hc => conns_effWait hwf.toWFSchedule p c (hsub c hc)) hclean h
  · obtain ⟨depT, arrT, bd, j, rfl, hJ, _⟩ := calculateSingleWith_emits _ _ p _ _ (connSetOf_sorted ds _) hm hmw hclean h
    obtain ⟨acc, legs, egr, rfl, hacc, hegr, hne, hok, _, _⟩ := hJ
    obtain ⟨hsteps, _⟩ := emit_steps (ds.restrict (ds.connSetOf (ds.scenarioOf p))) p.minWait bd acc egr legs hacc hegr hne hok.allLegs
    rw [hsteps]
    intro s hs tt d dep arr rdy heq
    rcases List.mem_cons.mp hs with h0 | h0
    · rw [h0] at heq; cases heq
    · exact stepsOfLegs_transfer _ _ egr legs (bd + acc.walk) hok s h0 tt d dep arr rdy heq

/-- **C02 (time clauses proved so far).** A returned route never leaves before a requested
    departure time; for an arrival-time query its span back from the requested time is at most
    max_travel_time; it never leaves before 0:00. -/
theorem C02_times (ds : Dataset) (hwf : WFData ds) (p : Params) (hmw : 0 ≤ p.minWait) (hmt : 0 ≤ p.maxTransfer)
    {r : Route} (h : calculateSingle ds p = .ok r) :
    0 ≤ r.departureTime ∧ (p.forward = true → p.time ≤ r.departureTime) ∧
    (p.forward = false → p.time - r.departureTime ≤ p.maxTotal) := by
  have hsub := connSetOf_rev_sub ds (ds.scenarioOf p)
  have hm : ArrMono (ds.connSetOf (ds.scenarioOf p)).rev :=
    fun x hx y hy => conns_arrMono hwf.toWFSchedule x (hsub x hx) y (hsub y hy)
  obtain ⟨depT, arrT, bd, j, rfl, _, h0, h1, h2⟩ := calculateSingleWith_emits _ _ p _ _ (connSetOf_sorted ds _) hm hmw
    (fun depT arrT => cleanupPreserves (timeWF_dataset hwf p hmw hmt _ _ _ depT arrT) (sliceOK_dataset hwf p _ _ _ depT arrT)) h
  exact ⟨h0, h1, h2⟩

end Tr
