/-
  Property C02 (partial) — query limits and scenario restrictions are honoured by every route.

  Proved for every well-formed dataset, scenario and query, both time types (`C02_partial`):
    * every ride is on a hop of the scenario's own connection set, i.e. of a trip whose service,
      line, agency and mode the scenario admits (`tripEnabled`);
    * the access walk is an entry of the router's table within max_access_travel_time, the egress
      walk one within max_egress_travel_time;
    * every transfer walk is at most max_transfer_travel_time.
  Not yet proved in Lean (covered by the correspondence run and by `check_limits` evaluated on
  every implementation answer): departure >= requested / arrival <= requested, the span limit
  and the first-waiting cap - they need two more conjuncts in the access-candidate invariant
  (`AccFact`) and the forward pass's best-arrival bound.
-/
import TrVerif.Props.C01
namespace Tr

/-- all transfer walks of a step list are within `maxT` -/
def transferWalksWithin (maxT : Int) (steps : List Step) : Prop :=
  ∀ s ∈ steps, ∀ tt d dep arr rdy, s = .walk 1 tt d dep arr rdy → tt ≤ maxT

theorem stepsOfLegs_transfer (cx : Ctx) (C : List Conn) (egr : JStep) :
    ∀ (legs : List JStep) (t : Int), LegsOK cx C legs →
      transferWalksWithin cx.p.maxTransfer (stepsOfLegs cx.ds cx.p.minWait t legs egr) := by
  intro legs
  induction legs with
  | nil => intro t _ s hs; simp [stepsOfLegs] at hs
  | cons l rest ih =>
    intro t hok
    cases rest with
    | nil =>
      obtain ⟨e, x, he, hx, _⟩ := hok
      intro s hs tt d dep arr rdy heq
      simp only [stepsOfLegs, he, hx, boardOf, unboardOf, List.mem_cons, List.mem_nil_iff, or_false] at hs
      rcases hs with h | h | h <;> (rw [h] at heq; cases heq)
    | cons l2 r2 =>
      obtain ⟨⟨e, x, e', he, hx, _, _, hlink⟩, hrest⟩ := hok
      have hrec := ih (x.arr + l.walk) hrest
      intro s hs tt d dep arr rdy heq
      simp only [stepsOfLegs, he, hx, List.cons_append, List.nil_append, boardOf, unboardOf, List.mem_cons] at hs
      rcases hs with h | h | h | h
      · rw [h] at heq; cases heq
      · rw [h] at heq; cases heq
      · rw [h] at heq; cases heq; exact hlink.2.1
      · exact hrec s h tt d dep arr rdy heq

theorem routerLookup_le (tab : List NTD) (m : Int) : ∀ n ∈ routerLookup tab m, n.time ≤ m ∧ n ∈ tab := by
  intro n hn
  simp only [routerLookup, List.mem_filter, decide_eq_true_eq] at hn
  exact ⟨hn.2, hn.1⟩

theorem connSetOf_enabled (ds : Dataset) (sc : Scenario) : ∀ c ∈ (ds.connSetOf sc).rev, ds.tripEnabled sc c.trip = true := by
  intro c hc
  simp only [Dataset.connSetOf, mkConnSet, List.mem_filter] at hc
  exact hc.2

/-- **C02 (scenario, access / egress / transfer maxima).** -/
theorem C02_partial (ds : Dataset) (hwf : WFData ds) (p : Params) (hmw : 0 ≤ p.minWait) (hmt : 0 ≤ p.maxTransfer)
    {r : Route} (h : calculateSingle ds p = .ok r) :
    -- rides only on hops of the scenario's connection set, walks from the router's tables within the maxima …
    ValidItinerary (ds.connSetOf (ds.scenarioOf p)).rev ds.foot
      (routerLookup ds.access p.maxAccess) (routerLookup ds.egress p.maxEgress) (ds.mwOfTrip p) r ∧
    (∀ c ∈ (ds.connSetOf (ds.scenarioOf p)).rev, ds.tripEnabled (ds.scenarioOf p) c.trip = true) ∧
    (∀ n ∈ routerLookup ds.access p.maxAccess, n.time ≤ p.maxAccess) ∧
    (∀ n ∈ routerLookup ds.egress p.maxEgress, n.time ≤ p.maxEgress) ∧
    -- … and no transfer walk longer than the transfer maximum
    transferWalksWithin p.maxTransfer r.steps := by
  have hsub := connSetOf_rev_sub ds (ds.scenarioOf p)
  have hm : ArrMono (ds.connSetOf (ds.scenarioOf p)).rev :=
    fun x hx y hy => conns_arrMono hwf.toWFSchedule x (hsub x hx) y (hsub y hy)
  have hclean := fun depT arrT => cleanupPreserves
    (timeWF_dataset hwf p hmw hmt (ds.scenarioOf p) (routerLookup ds.access p.maxAccess) (routerLookup ds.egress p.maxEgress) depT arrT)
    (sliceOK_dataset hwf p (ds.scenarioOf p) (routerLookup ds.access p.maxAccess) (routerLookup ds.egress p.maxEgress) depT arrT)
  refine ⟨?_, connSetOf_enabled ds _, fun n hn => (routerLookup_le _ _ n hn).1, fun n hn => (routerLookup_le _ _ n hn).1, ?_⟩
  · exact C01_modulo_cleanup (ds.restrict (ds.connSetOf (ds.scenarioOf p))) (ds.connSetOf (ds.scenarioOf p)) p _ _
      (ds.connSetOf (ds.scenarioOf p)).rev (fun c hc => hc) (connSetOf_sorted ds _) hm hmw (ds.mwOfTrip p)
      (fun c hc => conns_effWait hwf.toWFSchedule p c (hsub c hc)) hclean h
  · obtain ⟨depT, arrT, bd, j, rfl, hJ, _⟩ := calculateSingleWith_emits _ _ p _ _ (connSetOf_sorted ds _) hm hmw hclean h
    obtain ⟨acc, legs, egr, rfl, hacc, hegr, hne, hok, _, _⟩ := hJ
    obtain ⟨hsteps, _⟩ := emit_steps (ds.restrict (ds.connSetOf (ds.scenarioOf p))) p.minWait bd acc egr legs hacc hegr hne hok.allLegs
    rw [hsteps]
    intro s hs tt d dep arr rdy heq
    rcases List.mem_cons.mp hs with h0 | h0
    · rw [h0] at heq; cases heq
    · exact stepsOfLegs_transfer _ _ egr legs (bd + acc.walk) hok s h0 tt d dep arr rdy heq

/-- **C02 (time clauses proved so far).** A returned route never leaves before a requested
    departure time; for an arrival-time query its span back from the requested time is at most
    max_travel_time; it never leaves before 0:00. -/
theorem C02_times (ds : Dataset) (hwf : WFData ds) (p : Params) (hmw : 0 ≤ p.minWait) (hmt : 0 ≤ p.maxTransfer)
    {r : Route} (h : calculateSingle ds p = .ok r) :
    0 ≤ r.departureTime ∧ (p.forward = true → p.time ≤ r.departureTime) ∧
    (p.forward = false → p.time - r.departureTime ≤ p.maxTotal) := by
  have hsub := connSetOf_rev_sub ds (ds.scenarioOf p)
  have hm : ArrMono (ds.connSetOf (ds.scenarioOf p)).rev :=
    fun x hx y hy => conns_arrMono hwf.toWFSchedule x (hsub x hx) y (hsub y hy)
  obtain ⟨depT, arrT, bd, j, rfl, _, h0, h1, h2, _, _, _⟩ := calculateSingleWith_emits _ _ p _ _ (connSetOf_sorted ds _) hm hmw
    (fun depT arrT => cleanupPreserves (timeWF_dataset hwf p hmw hmt _ _ _ depT arrT) (sliceOK_dataset hwf p _ _ _ depT arrT)) h
  exact ⟨h0, h1, h2⟩

theorem finalArrival_last (egr : JStep) : ∀ (legs : List JStep) (l : JStep) (x : Conn),
    legs.getLast? = some l → l.exit = some x → finalArrival legs egr = x.arr + egr.walk := by
  intro legs
  induction legs with
  | nil => intro l x h; simp at h
  | cons a rest ih =>
    intro l x hl hx
    cases rest with
    | nil => simp at hl; subst hl; simp [finalArrival, hx]
    | cons b r =>
      rw [List.getLast?_cons_cons] at hl
      simp only [finalArrival]
      exact ih l x hl hx

theorem emit_arrival (ds : Dataset) (mw bd : Int) (acc egr : JStep) (legs : List JStep) (hacc : acc.enter = none)
    (hegr : egr.enter = none) (hne : legs ≠ []) (hall : AllLegs legs) :
    (emit ds mw bd ([acc] ++ legs ++ [egr])).arrivalTime = finalArrival legs egr := by
  obtain ⟨l1, rest, rfl⟩ : ∃ l1 rest, legs = l1 :: rest := by
    cases legs with
    | nil => exact absurd rfl hne
    | cons a b => exact ⟨a, b, rfl⟩
  have hn : ([acc] ++ (l1 :: rest) ++ [egr]).length = (l1 :: rest).length + 2 := by simp
  have hloop : emitLoop ds mw bd ([acc] ++ (l1 :: rest) ++ [egr]).length ([acc] ++ (l1 :: rest) ++ [egr]) 0 {}
      = emitLoop ds mw bd ([acc] ++ (l1 :: rest) ++ [egr]).length ((l1 :: rest) ++ [egr]) 1
          (emitAccess mw bd {} acc (some l1)) := by
    simp [emitLoop, emitStep, hacc]
  obtain ⟨_, harr, _⟩ := emitLoop_from1 ds mw bd _ egr hegr (l1 :: rest) (emitAccess mw bd {} acc (some l1)) hne hall hn
  simp only [emit, hloop, harr]

theorem routerLookup_nodup (tab : List NTD) (m : Int) (h : (tab.map (·.stop)).Nodup) :
    ((routerLookup tab m).map (·.stop)).Nodup :=
  List.Nodup.sublist (List.Sublist.map _ List.filter_sublist) h

/-- **C02 (arrival clauses).** When the walking router lists every stop at most once around the
    destination: an arrival-time query never arrives after the requested time, and a departure-time
    query arrives within max_travel_time of the requested departure. -/
theorem C02_arrival (ds : Dataset) (hwf : WFData ds) (p : Params) (hmw : 0 ≤ p.minWait) (hmt : 0 ≤ p.maxTransfer)
    (hnd : (ds.egress.map (·.stop)).Nodup) {r : Route} (h : calculateSingle ds p = .ok r) :
    (p.forward = false → r.arrivalTime ≤ p.time) ∧ (p.forward = true → r.arrivalTime - p.time ≤ p.maxTotal) := by
  have hsub := connSetOf_rev_sub ds (ds.scenarioOf p)
  have hm : ArrMono (ds.connSetOf (ds.scenarioOf p)).rev :=
    fun x hx y hy => conns_arrMono hwf.toWFSchedule x (hsub x hx) y (hsub y hy)
  obtain ⟨depT, arrT, bd, j, rfl, hJ, _, _, _, hA, hB, _⟩ := calculateSingleWith_emits _ _ p _ _ (connSetOf_sorted ds _) hm hmw
    (fun depT arrT => cleanupPreserves (timeWF_dataset hwf p hmw hmt _ _ _ depT arrT) (sliceOK_dataset hwf p _ _ _ depT arrT)) h
  obtain ⟨acc, legs, egr, rfl, hacc, hegr, hne, hok, _, hlast⟩ := hJ
  rw [emit_arrival _ _ _ acc egr legs hacc hegr hne hok.allLegs]
  obtain ⟨l, hl⟩ : ∃ l, legs.getLast? = some l := by
    cases hg : legs.getLast? with
    | none => simp at hg; exact absurd hg hne
    | some l => exact ⟨l, rfl⟩
  obtain ⟨e, x, _, hx⟩ := hok.allLegs l (List.mem_of_getLast? hl)
  rw [finalArrival_last egr legs l x hl hx]
  have hle : x.arr + egr.walk ≤ arrT := (hlast l x hl hx).2 (routerLookup_nodup _ _ hnd)
  constructor
  · intro hf; rw [← hA hf]; exact hle
  · intro hf; have := hB hf; omega

/-- **C02 (first-waiting cap).** For a departure-time query the route starts with the access walk
    followed by a boarding whose departure, counted from the moment the traveller can stand at that
    stop (requested departure + access walk), is within max_first_waiting_time - unless the cap is
    smaller than the minimum waiting time in force for that trip, which no boarding could satisfy
    (the code lets such a boarding through; DESIGN 0.5). -/
theorem C02_first_wait (ds : Dataset) (hwf : WFData ds) (p : Params) (hmw : 0 ≤ p.minWait) (hmt : 0 ≤ p.maxTransfer)
    {r : Route} (h : calculateSingle ds p = .ok r) (hf : p.forward = true) (hd : p.time ≠ -1) :
    ∃ w d t0 t1 t2 trip seq stop dep wait rest,
      r.steps = .walk 0 w d t0 t1 t2 :: .board trip seq stop dep wait :: rest ∧
      (p.maxFirstWait < ds.mwOfTrip p trip ∨ dep - p.time - w ≤ p.maxFirstWait) := by
  have hsub := connSetOf_rev_sub ds (ds.scenarioOf p)
  have hm : ArrMono (ds.connSetOf (ds.scenarioOf p)).rev :=
    fun x hx y hy => conns_arrMono hwf.toWFSchedule x (hsub x hx) y (hsub y hy)
  -- the forward branch, with the context it runs in
  have key : ∃ arrT bd j, r = emit (ds.restrict (ds.connSetOf (ds.scenarioOf p))) p.minWait bd j ∧
      JourneyOK (mkCtx (ds.restrict (ds.connSetOf (ds.scenarioOf p))) p (ds.connSetOf (ds.scenarioOf p))
        (routerLookup ds.access p.maxAccess) (routerLookup ds.egress p.maxEgress) p.time arrT) (ds.connSetOf (ds.scenarioOf p)).rev bd j := by
    obtain ⟨depT, arrT, bd, j, h1, hJ, _, _, _, _, _, hD⟩ := calculateSingleWith_emits _ _ p _ _ (connSetOf_sorted ds _) hm hmw
      (fun depT arrT => cleanupPreserves (timeWF_dataset hwf p hmw hmt _ _ _ depT arrT) (sliceOK_dataset hwf p _ _ _ depT arrT)) h
    have hD' := hD hf
    subst hD'
    exact ⟨arrT, bd, j, h1, hJ⟩
  obtain ⟨arrT, bd, j, rfl, hJ⟩ := key
  obtain ⟨acc, legs, egr, rfl, hacc, hegr, hne, hok, hfirst, _⟩ := hJ
  obtain ⟨hsteps, _⟩ := emit_steps (ds.restrict (ds.connSetOf (ds.scenarioOf p))) p.minWait bd acc egr legs hacc hegr hne hok.allLegs
  obtain ⟨l1, rest, rfl⟩ : ∃ l1 rest, legs = l1 :: rest := by
    cases legs with
    | nil => exact absurd rfl hne
    | cons a b => exact ⟨a, b, rfl⟩
  obtain ⟨e1, x1, he1, hx1⟩ := hok.allLegs l1 (List.mem_cons_self ..)
  have hhead := stepsOfLegs_head (ds.restrict (ds.connSetOf (ds.scenarioOf p))) p.minWait egr l1 rest (bd + acc.walk) e1 x1 he1 hx1
  obtain ⟨_, _, hfw⟩ := hfirst e1 (by simp [he1])
  have hcap := hfw hd
  have hmem : e1 ∈ (ds.connSetOf (ds.scenarioOf p)).rev := hok.mem_enter l1 (List.mem_cons_self ..) e1 he1
  have hmwe : e1.effWait p.minWait = ds.mwOfTrip p e1.trip := conns_effWait hwf.toWFSchedule p e1 (hsub e1 hmem)
  cases hS : stepsOfLegs (ds.restrict (ds.connSetOf (ds.scenarioOf p))) p.minWait (bd + acc.walk) (l1 :: rest) egr with
  | nil => rw [hS] at hhead; simp at hhead
  | cons b tl =>
    rw [hS] at hhead hsteps
    simp only [List.head?_cons, Option.some.injEq] at hhead
    subst hhead
    refine ⟨acc.walk, acc.dist, _, _, _, e1.trip, e1.seq, e1.depStop, e1.dep, _, tl, hsteps, ?_⟩
    rw [← hmwe]
    exact hcap

end Tr
