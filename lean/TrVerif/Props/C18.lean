/-
  Property C18 (partial) — the parts of "every request gets one well-formed, correctly classified
  response" that are logic: the hour-index look-ups never read outside the index for ANY time
  value and ANY connection list, parameter normalisation, and the finite tables (error codes,
  documented enums, /updateCache names) re-read from the source by the translator.
  Transport (exactly one response, Content-Length) is Simple-Web-Server's and is observed over raw
  sockets by the check, not modelled.
-/
import TrVerif.Model.Data
import TrVerif.Generated.Tables
namespace Tr

/-! ### index safety -/

theorem fwdIndexLoop_length : ∀ (l : List Conn) (hour pos : Nat) (acc : List Nat), acc.length = hour →
    (fwdIndexLoop l hour pos acc).2.length = (fwdIndexLoop l hour pos acc).1 := by
  intro l
  induction l with
  | nil => intro hour pos acc h; simpa [fwdIndexLoop] using h
  | cons c cs ih =>
    intro hour pos acc h
    simp only [fwdIndexLoop]
    split
    · apply ih; simp [h]
    · exact ih _ _ _ h

/-- the forward index always has at least 32 entries -/
theorem fwdIndex_length (l : List Conn) : 32 ≤ (fwdIndex l).length := by
  have := fwdIndexLoop_length l 0 0 [] rfl
  simp only [fwdIndex]
  generalize fwdIndexLoop l 0 0 [] = r at this
  obtain ⟨hour, acc⟩ := r
  simp only at this
  simp [HOUR_END, this]; omega

theorem revInner_inv (arr : Int) (pos : Nat) : ∀ (hour : Nat) (acc : List Nat),
    (revInner arr pos hour acc).2.length + (revInner arr pos hour acc).1 = acc.length + hour := by
  intro hour
  induction hour with
  | zero => intro acc; simp [revInner]
  | succ h ih =>
    intro acc
    simp only [revInner]
    split
    · rw [ih]; simp; omega
    · rfl

theorem revIndexLoop_inv : ∀ (l : List Conn) (hour pos : Nat) (acc : List Nat),
    (revIndexLoop l hour pos acc).2.length + (revIndexLoop l hour pos acc).1 = acc.length + hour := by
  intro l
  induction l with
  | nil => intro hour pos acc; simp [revIndexLoop]
  | cons c cs ih =>
    intro hour pos acc
    simp only [revIndexLoop]
    have h1 := revInner_inv c.arr pos hour acc
    generalize revInner c.arr pos hour acc = r at h1
    obtain ⟨h', acc'⟩ := r
    simp only at h1 ⊢
    rw [ih]; exact h1

/-- the reverse index has exactly 32 entries -/
theorem revIndex_length (l : List Conn) : (revIndex l).length = 32 := by
  have := revIndexLoop_inv l (HOUR_END - 1) 0 []
  simp only [revIndex]
  generalize revIndexLoop l (HOUR_END - 1) 0 [] = r at this
  obtain ⟨hour, acc⟩ := r
  simp [HOUR_END] at this ⊢
  omega

/-- **C18 (index safety).** For every connection list and EVERY integer hour - in particular
    `time_of_trip / 3600` for any `time_of_trip`, beyond 24:00, beyond 32:00, up to the extremes of
    the integer range - neither look-up reads outside its index. -/
theorem C18_index_safe (l : List Conn) (hour : Int) :
    fwdLookup l (fwdIndex l) hour ≠ .outOfBounds ∧ revLookup l (revIndex l) hour ≠ .outOfBounds := by
  constructor
  · unfold fwdLookup
    split
    · simp
    · rename_i h
      have hl := fwdIndex_length l
      have : hour.toNat < (fwdIndex l).length := by simp [HOUR_END] at h; omega
      simp [List.getElem?_eq_getElem this]
  · unfold revLookup
    split
    · simp
    · split
      · simp
      · rename_i h1 h2
        have hl := revIndex_length l
        have : hour.toNat < (revIndex l).length := by simp [HOUR_END] at h2; omega
        simp [List.getElem?_eq_getElem this]

/-- the guard of the forward look-up rejects exactly the hours that have no slot (the table has
    slots 0..31 when no vehicle departs after 32:00): read from the source on every run -/
theorem C18_forward_guard : Gen.fwdGuardRejectsFrom = Gen.hourEnd ∧ Gen.hourBegin = 0 ∧ Gen.hourEnd = HOUR_END := by decide

/-! ### tables -/

/-- every error code the handlers can put into a `query_error` or `data_error` answer is a
    documented one -/
theorem C18_codes_documented :
    (Gen.paramErrorCodes.all fun kv => Gen.documentedCodes.contains kv.2) = true ∧
    (Gen.dataStatusCodes.all fun kv => kv.2 == "" || Gen.documentedCodes.contains kv.2) = true := by decide

/-- every kind of parameter defect the parsers can raise is answered with its own specific
    documented code, never with the catch-all `PARAM_ERROR_UNKNOWN` -/
theorem C18_codes_specific :
    (Gen.paramErrorCodes.all fun kv => kv.2 != "PARAM_ERROR_UNKNOWN") = true ∧
    Gen.paramErrorCodes.lookup "MISSING_PLACE" = some "MISSING_PARAM_PLACE" ∧
    Gen.paramErrorCodes.lookup "INVALID_PLACE" = some "INVALID_PLACE" ∧
    Gen.paramErrorCodes.lookup "INVALID_NUMERICAL_DATA" = some "INVALID_NUMERICAL_DATA" ∧
    Gen.paramErrorCodes.lookup "MISSING_SCENARIO" = some "MISSING_PARAM_SCENARIO" := by decide

/-- documented defaults and the "non-positive means no limit" normalisation -/
theorem C18_defaults :
    Gen.DEFAULT_MIN_WAITING_TIME = 180 ∧ Gen.DEFAULT_MAX_ACCESS_TRAVEL_TIME = 1200 ∧
    Gen.DEFAULT_MAX_EGRESS_TRAVEL_TIME = 1200 ∧ Gen.DEFAULT_MAX_TRANSFER_TRAVEL_TIME = 1200 ∧
    Gen.DEFAULT_FIRST_WAITING_TIME = 1800 ∧
    Gen.normalisation = [("time_of_trip", "<", "-1"), ("min_waiting_time", "<", "0"),
      ("max_travel_time", "<=", "MAX_INT"), ("max_access_travel_time", "<=", "MAX_INT"),
      ("max_egress_travel_time", "<=", "MAX_INT"), ("max_transfer_travel_time", "<=", "MAX_INT"),
      ("max_first_waiting_time", "<=", "-1")] := by decide

/-- `/updateCache` knows exactly these cache names, refreshed in dependency order -/
theorem C18_update_names :
    Gen.updateCacheNames.map (·.1) = ["data_sources", "persons", "od_trips", "agencies", "services", "nodes",
      "lines", "paths", "scenarios", "schedules"] := by decide

end Tr
