/-
  Property C15 — after a completed /updateCache of all caches, or of the schedules (with or
  without the scenarios) alone, the server answers like one freshly started on the files now on
  disk.

  Stated as an equality of *server states*: whatever was in memory before (old data, cache
  entries of scenarios queried before the refresh, old data status), the state after the
  refresh is the state `Live.start` builds from the files. Every later answer, for every later
  history, then coincides (`C15_answers`).

  What the model assumes (DESIGN 0.1/0.2): the loaders are faithful (C16), a refresh runs while
  no request is in flight (the property's quantifier; C14 is about concurrency), and only files of
  the refreshed kinds changed on disk - for a schedules-only refresh the other kinds in memory
  are the ones on disk (hypothesis `SameElsewhere`; without it a fresh server would differ by
  definition).
-/
import TrVerif.Model.Refresh
namespace Tr

/-- the walking router is not part of the cache files: the same on both sides -/
def SameRouter (a b : Dataset) : Prop := a.access = b.access ∧ a.egress = b.egress

/-- kinds that a refresh of schedules (and scenarios when `withScen`) leaves alone are unchanged on disk -/
def SameElsewhere (mem disk : Dataset) (withScen : Bool) : Prop :=
  mem.nStops = disk.nStops ∧ mem.nAgencies = disk.nAgencies ∧ mem.nServices = disk.nServices ∧
  mem.foot = disk.foot ∧ mem.lines = disk.lines ∧ mem.paths = disk.paths ∧
  (withScen = false → mem.scenarios = disk.scenarios)

theorem server_clear_eq (s : Server) : s.clear = Server.init s.cacheAll := rfl

/-- **C15, names=all.** -/
theorem C15_all (disk : Dataset) (l : Live) (hr : SameRouter l.ds disk) :
    updateCache disk l ["all"] = Live.start disk l.srv.cacheAll := by
  obtain ⟨ds, srv, st⟩ := l
  obtain ⟨ha, he⟩ := hr
  simp only at ha he
  simp [updateCache, updateName, knownName, Gen.updateCacheNames, applyUpdate, List.foldl, Live.start, Server.clear, Server.init]
  cases ds; cases disk; simp_all

theorem updateName_schedules (disk : Dataset) (l : Live) :
    updateName disk l "schedules" = { l with ds := { l.ds with trips := disk.trips }, srv := l.srv.clear } := by
  simp [updateName, Gen.updateCacheNames, applyUpdate, List.foldl]

theorem updateName_scenarios (disk : Dataset) (l : Live) :
    updateName disk l "scenarios" = { l with ds := { l.ds with scenarios := disk.scenarios }, srv := l.srv.clear } := by
  simp [updateName, Gen.updateCacheNames, applyUpdate, List.foldl]

theorem clear_clear (s : Server) : s.clear.clear = s.clear := rfl

/-- state after applying a list of names drawn from {schedules, scenarios} -/
theorem fold_sched_scen (disk : Dataset) (names : List String)
    (hn : ∀ n ∈ names, n = "schedules" ∨ n = "scenarios") (l : Live) :
    names.foldl (updateName disk) l =
      { ds := { l.ds with trips := if "schedules" ∈ names then disk.trips else l.ds.trips,
                          scenarios := if "scenarios" ∈ names then disk.scenarios else l.ds.scenarios },
        srv := if names = [] then l.srv else l.srv.clear,
        status := l.status } := by
  induction names generalizing l with
  | nil => simp
  | cons n rest ih =>
    have hrest : ∀ m ∈ rest, m = "schedules" ∨ m = "scenarios" := fun m hm => hn m (List.mem_cons_of_mem _ hm)
    rw [List.foldl_cons, ih hrest]
    have d1 : ("scenarios" = "schedules") = False := by decide
    have d2 : ("schedules" = "scenarios") = False := by decide
    rcases hn n (List.mem_cons_self ..) with h | h
    · subst h
      rw [updateName_schedules]
      by_cases h3 : rest = []
      · subst h3; simp [d1]
      · simp [List.mem_cons, d1, h3, clear_clear]
    · subst h
      rw [updateName_scenarios]
      by_cases h3 : rest = []
      · subst h3; simp [d2]
      · simp [List.mem_cons, d2, h3, clear_clear]

/-- **C15, schedules with or without scenarios**, any order, any repetition. -/
theorem C15_schedules (disk : Dataset) (l : Live) (names : List String)
    (hn : ∀ n ∈ names, n = "schedules" ∨ n = "scenarios") (hs : "schedules" ∈ names)
    (hr : SameRouter l.ds disk) (he : SameElsewhere l.ds disk (decide ("scenarios" ∈ names))) :
    updateCache disk l names = Live.start disk l.srv.cacheAll := by
  have hne : names ≠ [] := by intro h; rw [h] at hs; cases hs
  have hk : names.any knownName = true := by
    rw [List.any_eq_true]; exact ⟨"schedules", hs, by decide⟩
  unfold updateCache
  simp only [hk, if_true]
  rw [fold_sched_scen disk names hn l]
  obtain ⟨ds, srv, st⟩ := l
  obtain ⟨ha, hb⟩ := hr
  obtain ⟨e1, e2, e3, e4, e5, e6, e7⟩ := he
  simp only at ha hb e1 e2 e3 e4 e5 e6 e7
  simp only [hs, if_true, hne, if_false, Live.start, Server.clear, Server.init]
  have hds : ({ ds with trips := disk.trips,
                         scenarios := if "scenarios" ∈ names then disk.scenarios else ds.scenarios } : Dataset) = disk := by
    by_cases hsc : "scenarios" ∈ names
    · cases ds; cases disk; simp_all
    · have := e7 (by simp [hsc])
      cases ds; cases disk; simp_all
  rw [hds]

/-- the refreshes the property is about -/
def Covered (names : List String) : Prop :=
  names = ["all"] ∨ ((∀ n ∈ names, n = "schedules" ∨ n = "scenarios") ∧ "schedules" ∈ names)

/-- **C15.** After a covered refresh, every later request - after any later history, including
    requests for scenarios that were cached before the refresh - gets the answer of a server newly
    started on the files now on disk, and leaves the same state behind. -/
theorem C15_answers (disk : Dataset) (l : Live) (names : List String) (hc : Covered names)
    (hr : SameRouter l.ds disk)
    (he : names ≠ ["all"] → SameElsewhere l.ds disk (decide ("scenarios" ∈ names)))
    (hist : List Request) (req : Request) :
    ((updateCache disk l names).run hist).handle req = ((Live.start disk l.srv.cacheAll).run hist).handle req := by
  have hst : updateCache disk l names = Live.start disk l.srv.cacheAll := by
    rcases hc with h | ⟨hn, hs⟩
    · subst h; exact C15_all disk l hr
    · have hna : names ≠ ["all"] := by
        intro h; subst h
        rcases hn "all" (by simp) with h | h <;> exact absurd h (by decide)
      exact C15_schedules disk l names hn hs hr (he hna)
  rw [hst]

/-- in particular nothing of the old state survives: two servers with different pasts agree -/
theorem C15_old_state_irrelevant (disk : Dataset) (l1 l2 : Live) (hca : l1.srv.cacheAll = l2.srv.cacheAll)
    (h1 : SameRouter l1.ds disk) (h2 : SameRouter l2.ds disk) :
    updateCache disk l1 ["all"] = updateCache disk l2 ["all"] := by
  rw [C15_all disk l1 h1, C15_all disk l2 h2, hca]

/-- the data status the endpoints test follows the refreshed data (fix ef3085f) -/
theorem C15_status (disk : Dataset) (l : Live) (names : List String) (hk : names.any knownName = true) :
    (updateCache disk l names).status = dataStatusOf (updateCache disk l names).ds := by
  unfold updateCache; simp [hk]

/-- structural facts the model rests on, read off the current source by the translator: both
    update functions clear the scenario cache before re-reading, `clear` really empties both cache
    kinds, the handler recomputes the data status, schedules regenerate the connection arrays -/
theorem C15_structure :
    (["updateSchedules_clears_cache_first", "updateScenarios_clears_cache_first", "cache_one_clear_resets_entry",
      "cache_all_clear_empties_map", "updateCache_recomputes_data_status", "updateSchedules_regenerates_connections",
      "cache_touched_only_via_get_set"].all
        fun k => Gen.facts.lookup k == some true) = true := by decide

/-- the handler's call order refreshes every kind before the kinds that refer to it -/
theorem C15_order :
    (Gen.updateCacheNames.map (·.2)).filter (fun f => f ∈ ["updateAgencies", "updateServices", "updateNodes", "updateLines", "updatePaths", "updateScenarios", "updateSchedules"])
      = ["updateAgencies", "updateServices", "updateNodes", "updateLines", "updatePaths", "updateScenarios", "updateSchedules"] := by decide

/-- non-vacuity: a server with a stale cache entry and other trips in memory satisfies the hypotheses -/
example : ∃ l : Live, l.srv.cache ≠ [] ∧ SameRouter l.ds Dataset.empty ∧ SameElsewhere l.ds Dataset.empty false ∧ l.ds.trips ≠ Dataset.empty.trips :=
  ⟨{ ds := { Dataset.empty with trips := [default] }, srv := (Server.init false).set 0 (mkConnSet [] [] []), status := "READY" },
   by simp [Server.set, Server.init], ⟨rfl, rfl⟩, ⟨rfl, rfl, rfl, rfl, rfl, rfl, fun _ => rfl⟩, by simp [Dataset.empty]⟩

end Tr
