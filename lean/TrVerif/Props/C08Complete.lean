/-
  Property C08, the completeness half: every stop that can be reached within max_travel_time is
  listed, with a time no later than any way of reaching it. With `C08_sound` (every listed time IS
  a way of reaching the stop): the listed stops are exactly the reachable ones and nodeTime is the
  earliest alighting time.

  Domain (hypotheses, all named): well-formed data, every hop takes positive time (`PosHops`: the
  property's own domain, DESIGN 6 C03/C08 - with zero-duration hops and no minimum waiting the scan
  order can miss a same-instant change), the first-waiting cap disabled (the property says so),
  non-negative access walks, the router lists each stop once, every stop has its zero self
  footpath and the transfer maximum is not negative, request inside the clock range [0, 32 h).
-/
import TrVerif.Proofs.ForwardComplete
import TrVerif.Props.C07Data
namespace Tr

theorem fwdScanList_FC {cx : Ctx} {L : List Conn} (w : FW cx L) :
    ∀ (post pre : List Conn) (s : FState), (∀ a ∈ pre ++ post, a ∈ L) → SortedFwd (pre ++ post) →
      FC cx pre s → FC cx (pre ++ post) (post.foldl (fwdStep cx false) s) := by
  intro post
  induction post with
  | nil => intro pre s _ _ h; simpa using h
  | cons c rest ih =>
    intro pre s hC hs h
    have hstep := fwdStep_FC (c := c) w (fun a ha => hC a (by
        rcases List.mem_append.mp ha with h1 | h1
        · exact List.mem_append_left _ h1
        · simp at h1; subst h1; simp))
      (fun a ha => (List.pairwise_append.mp hs).2.2 a ha c (List.mem_cons_self ..)) h
    have := ih (pre ++ [c]) _ (by simpa using hC) (by simpa [SortedFwd] using hs) hstep
    simpa using this

/-- a journey only uses connections that leave no earlier than the requested time -/
theorem Reach.restrict {cx : Ctx} {L P : List Conn} (w : FW cx L) (hPL : ∀ a ∈ P, a ∈ L)
    (hP : ∀ a ∈ L, cx.depT ≤ a.dep → a ∈ P) {y : Nat} {t : Int} (h : Reach cx L y t) : Reach cx P y t := by
  induction h with
  | access a ha => exact Reach.access a ha
  | ride y t e x f hsub he hx h1 h2 h3 h4 h5 h6 h7 h8 h9 ih =>
    have hge := (ih).time_ge w hPL
    have hmin : 0 ≤ cx.minAccess := minTime_nonneg cx.accessFoot w.accNonneg
    have hw := effWait_nonneg e cx.p.minWait w.mw
    have hdm := w.depMono e he x hx h3 h4
    exact Reach.ride y t e x f ih (hP e he (by omega)) (hP x hx (by omega)) h1 h2 h3 h4 h5 h6 h7 h8 h9

/-- what the all-nodes step returns for a stop with a recorded alighting within the limit -/
theorem forwardNode_complete {cx : Ctx} {s : FState} {node : Nat} {b : Int} (he : EgrLe s node b)
    (hb : b - cx.depT ≤ cx.p.maxTotal) (hsound : ∀ y js, s.egr y = some js → ∃ e x, js.enter = some e ∧ js.exit = some x)
    {o : Option AccNode} (h : forwardNode cx s node = .ok o) : ∃ a, o = some a ∧ a.stop = node ∧ a.nodeTime ≤ b := by
  obtain ⟨js, x, hj, hx, hxb⟩ := he
  obtain ⟨e, x', he', hx'⟩ := hsound node js hj
  rw [hx] at hx'; cases hx'
  unfold forwardNode at h
  rw [hj] at h
  simp only at h
  cases hch : fwdChain cx.ds s.steps (cx.ds.nStops + 2) js (-1) with
  | none => rw [hch] at h; cases h
  | some nt =>
    rw [hch] at h
    simp only [he', hx] at h
    rw [if_pos (by omega)] at h
    simp only [Outcome.ok.injEq] at h
    exact ⟨_, h.symm, rfl, hxb⟩

theorem collectNodes_all (f : Nat → Outcome (Option AccNode)) :
    ∀ (ns : List Nat) (acc l : List AccNode), collectNodes f ns acc = .ok l →
      (∀ a ∈ acc, a ∈ l) ∧ ∀ n ∈ ns, ∃ o, f n = .ok o ∧ ∀ a, o = some a → a ∈ l := by
  intro ns
  induction ns with
  | nil => intro acc l h; simp [collectNodes] at h; subst h; exact ⟨fun a ha => ha, fun n hn => by cases hn⟩
  | cons n rest ih =>
    intro acc l h
    unfold collectNodes at h
    cases hf : f n with
    | ok o =>
      cases o with
      | none =>
        simp only [hf] at h
        obtain ⟨h1, h2⟩ := ih acc l h
        refine ⟨h1, ?_⟩
        intro m hm
        rcases List.mem_cons.mp hm with rfl | hm'
        · exact ⟨none, hf, fun a ha => by cases ha⟩
        · exact h2 m hm'
      | some b =>
        simp only [hf] at h
        obtain ⟨h1, h2⟩ := ih (acc ++ [b]) l h
        refine ⟨fun a ha => h1 a (List.mem_append_left _ ha), ?_⟩
        intro m hm
        rcases List.mem_cons.mp hm with rfl | hm'
        · exact ⟨some b, hf, fun a ha => by cases ha; exact h1 b (by simp)⟩
        · exact h2 m hm'
    | noRouting r => simp [hf] at h
    | exception w => simp [hf] at h

/-! ### the dataset meets `FW` -/

def mkConnOf (tr : TripRec) (stops : List Nat) (mw : Int) (k : Nat) : Conn :=
  { depStop := stops.getD k 0, arrStop := stops.getD (k+1) 0, dep := tr.dep.getD k 0, arr := tr.arr.getD (k+1) 0,
    trip := tr.id, seq := k+1, canBoard := tr.cb.getD k true, canUnboard := tr.cu.getD (k+1) true, minWait := mw }

theorem tripConnsAux_eq (tr : TripRec) (stops : List Nat) (mw : Int) : ∀ (n k : Nat),
    ∀ c ∈ tripConnsAux tr stops mw k n, c = mkConnOf tr stops mw (c.seq - 1) := by
  intro n
  induction n with
  | zero => intro k c hc; simp [tripConnsAux] at hc
  | succ n ih =>
    intro k c hc
    simp only [tripConnsAux, List.mem_cons] at hc
    rcases hc with rfl | hc
    · simp [mkConnOf]
    · exact ih (k+1) c hc

theorem conns_unique {ds : Dataset} (h : WFSchedule ds) : ∀ a ∈ ds.conns, ∀ b ∈ ds.conns, a.trip = b.trip → a.seq = b.seq → a = b := by
  intro a ha b hb ht hs
  obtain ⟨t1, h1, ha'⟩ := mem_conns ha
  obtain ⟨t2, h2, hb'⟩ := mem_conns hb
  have e1 := (tripConns_facts ds t1 a ha').1
  have e2 := (tripConns_facts ds t2 b hb').1
  have : t1 = t2 := trip_unique h.nodup h1 h2 (by rw [← e1, ← e2, ht])
  subst this
  have ea := tripConnsAux_eq t1 _ _ _ 0 a ha'
  have eb := tripConnsAux_eq t1 _ _ _ 0 b hb'
  rw [ea, eb, hs]

/-- every hop takes positive time -/
def PosHops (ds : Dataset) : Prop := ∀ c ∈ ds.conns, c.dep < c.arr

/-- every stop a vehicle arrives at has its zero self footpath -/
def SelfFootArr (ds : Dataset) : Prop := ∀ c ∈ ds.conns, ∃ d, (⟨c.arrStop, c.arrStop, 0, d⟩ : Foot) ∈ ds.foot

/-- stop numbers of the timetable are stops of the data -/
def StopsInRange (ds : Dataset) : Prop := ∀ c ∈ ds.conns, c.arrStop < ds.nStops

theorem footOf_mem {ds : Dataset} {z : Nat} {n : NTD} (h : n ∈ ds.footOf z) :
    (⟨z, n.stop, n.time, n.dist⟩ : Foot) ∈ ds.foot := by
  simp only [Dataset.footOf, List.mem_filterMap] at h
  obtain ⟨f, hf, hn⟩ := h
  by_cases hb : f.a = z
  · simp [hb] at hn
    subst hn; subst hb
    cases f; exact hf
  · simp [hb] at hn

theorem FW_dataset {ds : Dataset} (hwf : WFData ds) (p : Params) (hmw : 0 ≤ p.minWait) (hmt : 0 ≤ p.maxTransfer)
    (hpos : PosHops ds) (hself : SelfFootArr ds) (hcap : p.maxFirstWait ≤ 0) (hacc : ∀ a ∈ ds.access, 0 ≤ a.time)
    (hand : (ds.access.map (·.stop)).Nodup) :
    FW (mkCtx (ds.restrict (ds.connSetOf (ds.scenarioOf p))) p (ds.connSetOf (ds.scenarioOf p))
        (routerLookup ds.access p.maxAccess) [] p.time (-1)) (ds.connSetOf (ds.scenarioOf p)).fwd := by
  have hsub := connSetOf_rev_sub ds (ds.scenarioOf p)
  have hfr := connSetOf_fwd_mem_rev ds (ds.scenarioOf p)
  have hw := timeWF_dataset hwf p hmw hmt (ds.scenarioOf p) (routerLookup ds.access p.maxAccess) [] p.time (-1)
  refine ⟨?_, ?_, ?_, ?_, ?_, ?_, hmw, ?_, ?_, hcap⟩
  · intro c hc; exact hpos c (hsub c (hfr c hc))
  · intro a ha b hb; exact hw.depMono a (hfr a ha) b (hfr b hb)
  · intro a ha b hb; exact hw.arrMono a (hfr a ha) b (hfr b hb)
  · intro a ha b hb; exact conns_unique hwf.toWFSchedule a (hsub a (hfr a ha)) b (hsub b (hfr b hb))
  · intro z f hf
    have := footOf_mem (ds := ds.restrict (ds.connSetOf (ds.scenarioOf p))) hf
    exact hwf.footNonneg _ this
  · intro c hc
    obtain ⟨d, hd⟩ := hself c (hsub c (hfr c hc))
    refine ⟨⟨c.arrStop, 0, d⟩, ?_, rfl, hmt⟩
    show (⟨c.arrStop, 0, d⟩ : NTD) ∈ (ds.restrict (ds.connSetOf (ds.scenarioOf p))).footOf c.arrStop
    simp only [Dataset.footOf, Dataset.restrict, List.mem_filterMap]
    exact ⟨_, hd, by simp⟩
  · intro a ha; exact hacc a (List.mem_filter.mp ha).1
  · exact routerLookup_nodup _ _ hand

/-- **C08 (completeness half).** -/
theorem C08_complete (ds : Dataset) (hwf : WFData ds) (p : Params) (hp : p.forward = true) (hmw : 0 ≤ p.minWait)
    (hmt : 0 ≤ p.maxTransfer) (hb : TimesBounded ds) (hpos : PosHops ds) (hself : SelfFootArr ds) (hrange : StopsInRange ds)
    (hcap : p.maxFirstWait ≤ 0) (hacc : ∀ a ∈ ds.access, 0 ≤ a.time) (hand : (ds.access.map (·.stop)).Nodup)
    (h0 : 0 ≤ p.time) (ht : p.time < (HOUR_END : Int) * 3600)
    {l : List AccNode} {n : Nat} (h : calculateAllNodes ds p = .ok (l, n)) :
    ∀ e ∈ (ds.connSetOf (ds.scenarioOf p)).fwd, ∀ x ∈ (ds.connSetOf (ds.scenarioOf p)).fwd,
      BoardP (mkCtx (ds.restrict (ds.connSetOf (ds.scenarioOf p))) p (ds.connSetOf (ds.scenarioOf p))
        (routerLookup ds.access p.maxAccess) [] p.time (-1)) (ds.connSetOf (ds.scenarioOf p)).fwd e →
      e.trip = x.trip → e.seq ≤ x.seq → x.canUnboard = true → x.arr - p.time ≤ p.maxTotal →
      ∃ a ∈ l, a.stop = x.arrStop ∧ a.nodeTime ≤ x.arr := by
  intro e he x hx hboard htrip hseq hcu hxa
  have hsub := connSetOf_rev_sub ds (ds.scenarioOf p)
  have hfr := connSetOf_fwd_mem_rev ds (ds.scenarioOf p)
  have hw := timeWF_dataset hwf p hmw hmt (ds.scenarioOf p) (routerLookup ds.access p.maxAccess) [] p.time (-1)
  have w := FW_dataset hwf p hmw hmt hpos hself hcap hacc hand
  unfold calculateAllNodes calculateAllNodesCS at h
  simp only [hp, if_true] at h
  split at h
  · cases h
  · generalize hcx : mkCtx (ds.restrict (ds.connSetOf (ds.scenarioOf p))) p (ds.connSetOf (ds.scenarioOf p))
        (routerLookup (ds.restrict (ds.connSetOf (ds.scenarioOf p))).access p.maxAccess) [] p.time (-1) = cx at h
    have hcx' : mkCtx (ds.restrict (ds.connSetOf (ds.scenarioOf p))) p (ds.connSetOf (ds.scenarioOf p))
        (routerLookup ds.access p.maxAccess) [] p.time (-1) = cx := hcx
    rw [hcx'] at w hboard
    have hcs : cx.cs = ds.connSetOf (ds.scenarioOf p) := by rw [← hcx]; rfl
    have hdepT : cx.depT = p.time := by rw [← hcx]; rfl
    have hmaxT : cx.p.maxTotal = p.maxTotal := by rw [← hcx]; rfl
    have hnst : cx.ds.nStops = ds.nStops := by rw [← hcx]; rfl
    split at h
    · cases h
    · rename_i start hstart
      split at h
      · cases h
      · split at h
        · rename_i l' hcoll
          simp only [Outcome.ok.injEq, Prod.mk.injEq] at h
          obtain ⟨rfl, rfl⟩ := h
          rw [← hcs] at w hboard he hx
          have hsubd : ∀ a ∈ cx.cs.fwd.drop start, a ∈ cx.cs.fwd := fun a ha => List.mem_of_mem_drop ha
          have hsorted : SortedFwd ([] ++ cx.cs.fwd.drop start) := by
            show List.Pairwise _ ([] ++ cx.cs.fwd.drop start)
            rw [List.nil_append, hcs]
            exact List.Pairwise.sublist (List.drop_sublist _ _) (connSetOf_sortedFwd ds _)
          -- completeness invariant at the end of the scan
          have hC := fwdScanList_FC w (cx.cs.fwd.drop start) [] (FState.init cx) (by simpa using hsubd) hsorted
            (init_FC cx w.accNodup)
          simp only [List.nil_append] at hC
          -- soundness invariant (recorded alightings carry both connections)
          have hdm : ∀ a ∈ cx.cs.fwd, ∀ b ∈ cx.cs.fwd, a.trip = b.trip → a.seq ≤ b.seq → a.dep ≤ b.dep := w.depMono
          have hbb : ∀ c ∈ cx.cs.fwd, c.dep < MAX_INT := by
            rw [hcs]; intro c hc; exact hb c (hsub c (hfr c hc))
          have hS := fwdScanList_inv (cx := cx) false cx.cs.fwd hdm w.mw hbb
            (cx.cs.fwd.drop start) [] (FState.init cx) (by simpa using hsubd) hsorted (init_FInv cx _)
          simp only [List.nil_append] at hS
          -- everything that leaves no earlier than the request is in the scanned range
          have hin : ∀ a ∈ cx.cs.fwd, cx.depT ≤ a.dep → a ∈ cx.cs.fwd.drop start := by
            intro a ha hd
            rw [← List.take_append_drop start cx.cs.fwd] at ha
            rcases List.mem_append.mp ha with h1 | h1
            · have hst' : lookupPos (fwdLookup cx.cs.fwd cx.cs.fwdIdx (hourOf p.time)) = some start := hstart
              have := before_start_early cx.cs (by rw [hcs]; rfl) p.time h0 start hst' ht a h1
              omega
            · exact h1
          obtain ⟨hcb, hdis, t, hr, hrt⟩ := hboard
          have hrP := hr.restrict w hsubd hin
          have hge := hrP.time_ge w hsubd
          have hmin : 0 ≤ cx.minAccess := minTime_nonneg cx.accessFoot w.accNonneg
          have hwe := effWait_nonneg e cx.p.minWait w.mw
          have hdmx := w.depMono e he x hx htrip hseq
          have heP : e ∈ cx.cs.fwd.drop start := hin e he (by omega)
          have hxP : x ∈ cx.cs.fwd.drop start := hin x hx (by omega)
          have hegr := hC.egr e heP x hxP ⟨hcb, hdis, t, hrP, hrt⟩ htrip hseq hcu (by omega)
          -- the stop is in the range the answer is collected over
          have hxr : x.arrStop ∈ List.range (ds.restrict (ds.connSetOf (ds.scenarioOf p))).nStops := by
            show x.arrStop ∈ List.range ds.nStops
            have : x ∈ (ds.connSetOf (ds.scenarioOf p)).fwd := by rw [← hcs]; exact hx
            exact List.mem_range.mpr (hrange x (hsub x (hfr x this)))
          obtain ⟨o, hfo, hol⟩ := (collectNodes_all _ _ _ _ hcoll).2 x.arrStop hxr
          obtain ⟨a, hoa, has, hat⟩ := forwardNode_complete hegr (by omega)
            (fun y js hj => by obtain ⟨e', x', h1, h2, _⟩ := hS.egr y js hj; exact ⟨e', x', h1, h2⟩) hfo
          exact ⟨a, hol a hoa, has, hat⟩
        · cases h
        · cases h

/-- two entries of a list with strictly increasing stops that name the same stop are the same entry -/
theorem same_stop_eq {l : List AccNode} (hs : (l.map (·.stop)).Pairwise (· < ·)) {a b : AccNode} (ha : a ∈ l) (hb : b ∈ l)
    (h : a.stop = b.stop) : a = b := by
  induction l with
  | nil => cases ha
  | cons c rest ih =>
    simp only [List.map_cons, List.pairwise_cons] at hs
    rcases List.mem_cons.mp ha with rfl | ha'
    · rcases List.mem_cons.mp hb with rfl | hb'
      · rfl
      · have := hs.1 b.stop (List.mem_map_of_mem hb'); omega
    · rcases List.mem_cons.mp hb with rfl | hb'
      · have := hs.1 a.stop (List.mem_map_of_mem ha'); omega
      · exact ih hs.2 ha' hb'

/-- **C08.** A stop is listed exactly when it can be reached within max_travel_time, and its
    nodeTime is the earliest alighting time there: (1) every listed entry is a real alighting of a
    boardable ride (`C08_sound`); (2) every such alighting within the limit has its stop listed
    (`C08_complete`); (3) the listed time is no later than ANY such alighting at that stop. -/
theorem C08_earliest (ds : Dataset) (hwf : WFData ds) (p : Params) (hp : p.forward = true) (hmw : 0 ≤ p.minWait)
    (hmt : 0 ≤ p.maxTransfer) (hb : TimesBounded ds) (hpos : PosHops ds) (hself : SelfFootArr ds) (hrange : StopsInRange ds)
    (hcap : p.maxFirstWait ≤ 0) (hacc : ∀ a ∈ ds.access, 0 ≤ a.time) (hand : (ds.access.map (·.stop)).Nodup)
    (h0 : 0 ≤ p.time) (ht : p.time < (HOUR_END : Int) * 3600)
    {l : List AccNode} {n : Nat} (h : calculateAllNodes ds p = .ok (l, n)) :
    ∀ a ∈ l, ∀ e ∈ (ds.connSetOf (ds.scenarioOf p)).fwd, ∀ x ∈ (ds.connSetOf (ds.scenarioOf p)).fwd,
      BoardP (mkCtx (ds.restrict (ds.connSetOf (ds.scenarioOf p))) p (ds.connSetOf (ds.scenarioOf p))
        (routerLookup ds.access p.maxAccess) [] p.time (-1)) (ds.connSetOf (ds.scenarioOf p)).fwd e →
      e.trip = x.trip → e.seq ≤ x.seq → x.canUnboard = true → x.arr - p.time ≤ p.maxTotal → x.arrStop = a.stop →
      a.nodeTime ≤ x.arr := by
  intro a ha e he x hx hboard htrip hseq hcu hxa hstop
  obtain ⟨a', ha', hs', ht'⟩ := C08_complete ds hwf p hp hmw hmt hb hpos hself hrange hcap hacc hand h0 ht h e he x hx hboard htrip hseq hcu hxa
  have hsorted := (C08_sound ds hwf p hp hmw hmt hb h).2.1
  have : a' = a := same_stop_eq hsorted ha' ha (by rw [hs', hstop])
  rw [← this]; exact ht'

end Tr
