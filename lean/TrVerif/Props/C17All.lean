import TrVerif.Props.C17
import TrVerif.Props.C17Load
