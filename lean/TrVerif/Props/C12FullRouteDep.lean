/-
  Props/C12FullRouteDep — translation invariance of the calculation itself for DEPARTURE-TIME route queries:
  the single-query forward scan (with its early-termination bookkeeping), the best egress stop, and the
  second (reverse) pass from the best arrival time with the trips the forward pass marked usable and a real
  requested departure time.
-/
import TrVerif.Props.C12FullRoute
namespace Tr

/-! ### the single-query forward scan -/

/-- every alighting kept for an egress stop is a connection of the scanned list -/
def EgrFrom (l : List Conn) (s : FState) : Prop := ∀ n js, s.egr n = some js → ∃ x ∈ l, js.exit = some x
/-- the remembered first arrival at an egress stop is unset or a real clock value -/
def EgrArrOk (B : Int) (s : FState) : Prop := s.tentEgrArr = MAX_INT ∨ s.tentEgrArr ≤ B

structure FwdInv1 (B : Int) (l : List Conn) (s : FState) : Prop where
  tent : TentLe B s
  arr : EgrArrOk B s
  egr : EgrFrom l s

theorem fwdFoot_keeps (cx : Ctx) (c : Conn) (s : FState) (f : NTD) :
    (fwdFoot cx c s f).reached = s.reached ∧ (fwdFoot cx c s f).tentEgrArr = s.tentEgrArr := by
  unfold fwdFoot
  simp only
  repeat' split
  all_goals exact ⟨rfl, rfl⟩

theorem fwdFoot_egrFrom {l : List Conn} (cx : Ctx) (c : Conn) (hc : c ∈ l) (s : FState) (f : NTD) (h : EgrFrom l s) :
    EgrFrom l (fwdFoot cx c s f) := by
  unfold fwdFoot
  simp only
  repeat' split
  all_goals first
    | exact h
    | exact fun n js hjs => h n js hjs
    | (intro n js hjs
       simp only [upd] at hjs
       split at hjs
       · simp only [Option.some.injEq] at hjs; subst hjs; exact ⟨c, hc, rfl⟩
       · exact h n js hjs)

theorem fwdFootFold_props {l : List Conn} (cx : Ctx) (c : Conn) (hc : c ∈ l) : ∀ (fs : List NTD) (s : FState), EgrFrom l s →
    (fs.foldl (fwdFoot cx c) s).reached = s.reached ∧ (fs.foldl (fwdFoot cx c) s).tentEgrArr = s.tentEgrArr ∧
    EgrFrom l (fs.foldl (fwdFoot cx c) s) := by
  intro fs
  induction fs with
  | nil => intro s h; exact ⟨rfl, rfl, h⟩
  | cons f fs ih =>
    intro s h
    simp only [List.foldl_cons]
    obtain ⟨a, b, c'⟩ := ih (fwdFoot cx c s f) (fwdFoot_egrFrom cx c hc s f h)
    obtain ⟨r1, r2⟩ := fwdFoot_keeps cx c s f
    exact ⟨by rw [a, r1], by rw [b, r2], c'⟩

theorem fwdAlightS_shift1 {k B W : Int} {cx cx' : Ctx} {l : List Conn} (h : CtxSh k cx cx') (hB : B + k < MAX_INT) (hB0 : B < MAX_INT)
    (hfoot : ∀ z, ∀ f ∈ cx.ds.footOf z, f.time ≤ W) (c : Conn) (hcl : c ∈ l) (s : FState) (hs : FwdInv1 B l s) (hc : c.arr ≤ B) (hcw : c.arr + W ≤ B) :
    fwdAlightS cx' true (shF k s) (shiftConn k c) = shF k (fwdAlightS cx true s c) ∧ FwdInv1 B l (fwdAlightS cx true s c) := by
  unfold fwdAlightS
  have e : ((shF k s).enterC (shiftConn k c).trip).isSome = (s.enterC c.trip).isSome := by rw [shF_enterC]; simp; rfl
  have hcu : (shiftConn k c).canUnboard = c.canUnboard := rfl
  have has : (shiftConn k c).arrStop = c.arrStop := rfl
  have hr : (shF k s).reached = s.reached := rfl
  simp only [e, hcu, has, hr, true_and, nodesEgress_same h.same, ← h.same.foot]
  by_cases g : c.canUnboard = true ∧ (s.enterC c.trip).isSome = true
  · simp only [if_pos g]
    by_cases g2 : ¬ s.reached = true ∧ ((cx.nodesEgress c.arrStop).any fun e => decide (e.time ≠ -1)) = true
    · simp only [if_pos g2]
      have hs1 : ({ shF k s with reached := true, tentEgrArr := (shiftConn k c).arr } : FState) = shF k { s with reached := true, tentEgrArr := c.arr } := by
        simp only [shF]; congr 1; rw [shT_fin k _ B hc hB0]; rfl
      rw [hs1]
      obtain ⟨a1, a2⟩ := fwdFootFold_shift h hB hB0 c hc hcw (cx.ds.footOf c.arrStop) { s with reached := true, tentEgrArr := c.arr } (hfoot c.arrStop) (fun n => hs.tent n)
      obtain ⟨p1, p2, p3⟩ := fwdFootFold_props cx c hcl (cx.ds.footOf c.arrStop) { s with reached := true, tentEgrArr := c.arr } (fun n js hjs => hs.egr n js hjs)
      exact ⟨a1, a2, by unfold EgrArrOk; rw [p2]; exact Or.inr hc, p3⟩
    · simp only [if_neg g2]
      obtain ⟨a1, a2⟩ := fwdFootFold_shift h hB hB0 c hc hcw (cx.ds.footOf c.arrStop) s (hfoot c.arrStop) hs.tent
      obtain ⟨p1, p2, p3⟩ := fwdFootFold_props cx c hcl (cx.ds.footOf c.arrStop) s hs.egr
      exact ⟨a1, a2, by unfold EgrArrOk; rw [p2]; exact hs.arr, p3⟩
  · simp only [if_neg g]; exact ⟨trivial, hs⟩

theorem fwdBoardS_keeps (s : FState) (c : Conn) :
    (fwdBoardS s c).tent = s.tent ∧ (fwdBoardS s c).tentEgrArr = s.tentEgrArr ∧ (fwdBoardS s c).egr = s.egr := by
  unfold fwdBoardS; split <;> exact ⟨rfl, rfl, rfl⟩

/-- one connection of the single-query forward scan commutes with the shift -/
theorem fwdStep_shift1 {k B W : Int} {cx cx' : Ctx} {l : List Conn} (h : CtxSh k cx cx') (hB : B + k < MAX_INT) (hB0 : B < MAX_INT)
    (hfoot : ∀ z, ∀ f ∈ cx.ds.footOf z, f.time ≤ W) (hmw : 0 ≤ cx.p.minWait)
    (c : Conn) (hcl : c ∈ l) (s : FState) (hs : FwdInv1 B l s) (hc : c.arr ≤ B) (hcw : c.arr + W ≤ B) (hcd : c.dep ≤ B) (hcmw : 0 ≤ c.minWait ∨ c.minWait = -1) :
    fwdStep cx' true (shF k s) (shiftConn k c) = shF k (fwdStep cx true s c) ∧ FwdInv1 B l (fwdStep cx true s c) := by
  have hmwc : 0 ≤ c.effWait cx.p.minWait := by unfold Conn.effWait; split <;> omega
  have E0 : (shiftConn k c).effWait cx'.p.minWait = c.effWait cx.p.minWait := by rw [← h.same.mw]; rfl
  have E1 : ((shiftConn k c).dep ≥ cx'.depT + cx'.minAccess) = (c.dep ≥ cx.depT + cx.minAccess) := by
    rw [h.depT, minAccess_same h.same]; show (c.dep + k ≥ _) = _; apply propext; constructor <;> intro g <;> omega
  have E2 : cx'.disabled (shiftConn k c).trip = cx.disabled c.trip := (h.same.dis c.trip).symm
  have E3 : ((shiftConn k c).dep - cx'.depT > cx'.p.maxTotal) = (c.dep - cx.depT > cx.p.maxTotal) := by
    rw [h.depT, h.maxTotal]; show (c.dep + k - _ > _) = _; apply propext; constructor <;> intro g <;> omega
  have E4 : ((shF k s).tent (shiftConn k c).depStop ≤ (shiftConn k c).dep - (shiftConn k c).effWait cx'.p.minWait) =
      (s.tent c.depStop ≤ c.dep - c.effWait cx.p.minWait) := by
    rw [E0]; show (shT k (s.tent c.depStop) ≤ c.dep + k - _) = _
    rw [show c.dep + k - c.effWait cx.p.minWait = (c.dep - c.effWait cx.p.minWait) + k by omega]
    exact shT_le k B _ _ hB hB0 (hs.tent c.depStop) (by omega)
  have E5 : (cx.p.maxFirstWait > 0) → ((shiftConn k c).dep - (shF k s).tent (shiftConn k c).depStop ≤ cx'.p.maxFirstWait) =
      (c.dep - s.tent c.depStop ≤ cx.p.maxFirstWait) := by
    intro hfo
    rw [h.maxFirstWait]; show (c.dep + k - shT k (s.tent c.depStop) ≤ _) = _
    rcases hs.tent c.depStop with e | e
    · rw [e]; simp only [shT, if_true]; apply propext; constructor <;> intro g <;> omega
    · rw [shT_fin k _ B e hB0]; apply propext; constructor <;> intro g <;> omega
  have E6 : (decide (cx'.p.maxFirstWait > 0) && ((cx'.nodesAccess (shiftConn k c).depStop).any fun a => decide (a.time ≥ 0)) &&
        ((shF k s).steps (shiftConn k c).depStop).enter.isNone) =
      (decide (cx.p.maxFirstWait > 0) && ((cx.nodesAccess c.depStop).any fun a => decide (a.time ≥ 0)) && (s.steps c.depStop).enter.isNone) := by
    rw [h.maxFirstWait, nodesAccess_same h.same, shF_steps_enter]; rfl
  have E7 : ((shF k s).enterC (shiftConn k c).trip).isSome = (s.enterC c.trip).isSome := by
    rw [shF_enterC]; simp; rfl
  have EG : (((shF k s).enterC (shiftConn k c).trip).isSome = true ∨
        (shF k s).tent (shiftConn k c).depStop ≤ (shiftConn k c).dep - (shiftConn k c).effWait cx'.p.minWait) ∧
      (¬ (decide (cx'.p.maxFirstWait > 0) && ((cx'.nodesAccess (shiftConn k c).depStop).any fun a => decide (a.time ≥ 0)) &&
          ((shF k s).steps (shiftConn k c).depStop).enter.isNone) = true ∨
        (shiftConn k c).dep - (shF k s).tent (shiftConn k c).depStop ≤ cx'.p.maxFirstWait) ↔
      ((s.enterC c.trip).isSome = true ∨ s.tent c.depStop ≤ c.dep - c.effWait cx.p.minWait) ∧
      (¬ (decide (cx.p.maxFirstWait > 0) && ((cx.nodesAccess c.depStop).any fun a => decide (a.time ≥ 0)) && (s.steps c.depStop).enter.isNone) = true ∨
        c.dep - s.tent c.depStop ≤ cx.p.maxFirstWait) := by
    rw [E7, E4, E6]
    by_cases hfo : cx.p.maxFirstWait > 0
    · rw [E5 hfo]
    · have : (decide (cx.p.maxFirstWait > 0) && ((cx.nodesAccess c.depStop).any fun a => decide (a.time ≥ 0)) && (s.steps c.depStop).enter.isNone) = false := by
        simp [hfo]
      simp [this]
  have EG' : fwdGuardP cx' (shF k s) (shiftConn k c) ↔ fwdGuardP cx s c := by unfold fwdGuardP; exact EG
  have EB : fwdBreakP cx' true (shF k s) (shiftConn k c) ↔ fwdBreakP cx true s c := by
    unfold fwdBreakP
    rw [E3, maxEgress_same h.same]
    have hr : (shF k s).reached = s.reached := rfl
    have ht : (shF k s).tentEgrArr = shT k s.tentEgrArr := rfl
    rw [hr, ht]
    rcases hs.arr with e | e
    · rw [e]; simp only [shT, if_true, Int.lt_irrefl, false_and, and_false]
    · rw [shT_fin k _ B e hB0]
      show (_ ∧ _ ∧ _ ∧ _ ∧ c.dep + k > _) ∨ _ ↔ _
      constructor <;> (intro g; rcases g with ⟨g0, g1, g2, g3, g4⟩ | g) <;>
        first | exact Or.inr g | exact Or.inl ⟨g0, g1, g2, by omega, by omega⟩
  have hstop : (shF k s).stop = s.stop := rfl
  obtain ⟨k1, k2, k3⟩ := fwdBoardS_keeps s c
  have hsb : FwdInv1 B l (fwdBoardS s c) :=
    ⟨by intro n; rw [k1]; exact hs.tent n, by unfold EgrArrOk; rw [k2]; exact hs.arr, by intro n js hjs; rw [k3] at hjs; exact hs.egr n js hjs⟩
  obtain ⟨ha1, ha2⟩ := fwdAlightS_shift1 h hB hB0 hfoot c hcl (fwdBoardS s c) hsb hc hcw
  rw [fwdStep_eq, fwdStep_eq]
  simp only [hstop, E1, E2, EG', EB, fwdBoardS_shift, ha1]
  by_cases g0 : s.stop = true
  · simp only [g0, if_true]; exact ⟨trivial, hs⟩
  · simp only [g0, Bool.false_eq_true, if_false]
    by_cases g1 : c.dep ≥ cx.depT + cx.minAccess
    · simp only [g1, not_true_eq_false, if_false]
      by_cases g2 : cx.disabled c.trip = true
      · simp only [g2, if_true]; exact ⟨trivial, hs⟩
      · simp only [g2, Bool.false_eq_true, if_false]
        by_cases g3 : fwdBreakP cx true s c
        · simp only [g3, if_true]; exact ⟨rfl, ⟨fun n => hs.tent n, hs.arr, fun n js hjs => hs.egr n js hjs⟩⟩
        · simp only [g3, if_false]
          by_cases g4 : fwdGuardP cx s c
          · simp only [g4, not_true_eq_false, if_false]
            exact ⟨rfl, ⟨fun n => ha2.tent n, ha2.arr, fun n js hjs => ha2.egr n js hjs⟩⟩
          · simp only [g4, not_false_eq_true, if_true]; exact ⟨trivial, hs⟩
    · simp only [g1, not_false_eq_true, if_true]; exact ⟨trivial, hs⟩

theorem fwdFold_shift1 {k B W : Int} {cx cx' : Ctx} (h : CtxSh k cx cx') (hB : B + k < MAX_INT) (hB0 : B < MAX_INT)
    (hfoot : ∀ z, ∀ f ∈ cx.ds.footOf z, f.time ≤ W) (hmw : 0 ≤ cx.p.minWait) (full : List Conn) :
    ∀ (l : List Conn) (s : FState), (∀ c ∈ l, c ∈ full) → ConnsLe B W l → FwdInv1 B full s →
      (l.map (shiftConn k)).foldl (fwdStep cx' true) (shF k s) = shF k (l.foldl (fwdStep cx true) s) ∧
      FwdInv1 B full (l.foldl (fwdStep cx true) s) := by
  intro l
  induction l with
  | nil => intro s _ _ hs; exact ⟨rfl, hs⟩
  | cons c l ih =>
    intro s hsub hl hs
    obtain ⟨a1, a2, a3, a4⟩ := hl c (by simp)
    obtain ⟨e1, e2⟩ := fwdStep_shift1 h hB hB0 hfoot hmw c (hsub c (by simp)) s hs a1 a2 a3 a4
    simp only [List.map_cons, List.foldl_cons]
    rw [e1]
    exact ih _ (fun x hx => hsub x (List.mem_cons_of_mem _ hx)) (fun x hx => hl x (List.mem_cons_of_mem _ hx)) e2

/-! ### best egress stop -/

def EgrBounds (L B : Int) (cx : Ctx) (l : List Conn) : Prop :=
  ∀ x ∈ l, ∀ g ∈ cx.egressFoot, L ≤ x.arr + g.time ∧ x.arr + g.time ≤ B

def beStep (cx : Ctx) (s : FState) (acc : Int × Option Nat) (e : NTD) : Int × Option Nat :=
  match s.egr e.stop with
  | some js => match js.exit, cx.nodesEgress e.stop with
    | some x, some eg =>
      let t := x.arr + eg.time
      if t ≥ 0 ∧ t - cx.depT ≤ cx.p.maxTotal ∧ t < acc.1 ∧ t < MAX_INT then (t, some eg.stop) else acc
    | _, _ => acc
  | none => acc

theorem bestEgress_eq (cx : Ctx) (s : FState) :
    bestEgress cx s = (fun r : Int × Option Nat => r.2.map fun st => (r.1, st)) (cx.egressFoot.foldl (beStep cx s) (MAX_INT, none)) := rfl

/-- the accumulator is untouched or holds the arrival (alighting + walk) of a scanned connection at an egress stop -/
def BeAcc (cx : Ctx) (l : List Conn) (acc : Int × Option Nat) : Prop :=
  (acc.2 = none ∧ acc.1 = MAX_INT) ∨ ∃ x ∈ l, ∃ g ∈ cx.egressFoot, acc.1 = x.arr + g.time

theorem beStep_shift {k L B : Int} {cx cx' : Ctx} {l : List Conn} (h : CtxSh k cx cx') (hL : 0 ≤ L) (hLk : 0 ≤ L + k)
    (hB : B + k < MAX_INT) (hB0 : B < MAX_INT) (s : FState) (hegr : EgrFrom l s) (hb : EgrBounds L B cx l)
    (acc : Int × Option Nat) (ha : BeAcc cx l acc) (e : NTD) :
    beStep cx' (shF k s) (shT k acc.1, acc.2) e = (shT k (beStep cx s acc e).1, (beStep cx s acc e).2) ∧ BeAcc cx l (beStep cx s acc e) := by
  have ha' : acc.1 = MAX_INT ∨ acc.1 ≤ B := by
    rcases ha with ⟨_, r⟩ | ⟨x, hx, g, hg, r⟩
    · exact Or.inl r
    · exact Or.inr (by rw [r]; exact (hb x hx g hg).2)
  unfold beStep
  rw [shF_egr_app, nodesEgress_same h.same]
  cases hjs : s.egr e.stop with
  | none => exact ⟨rfl, ha⟩
  | some js =>
    obtain ⟨x0, hx0, hjx⟩ := hegr e.stop js hjs
    simp only [Option.map_some, shJ, hjx]
    cases hne : cx.nodesEgress e.stop with
    | none => exact ⟨rfl, ha⟩
    | some eg =>
      simp only
      have heg : eg ∈ cx.egressFoot := find_mem' hne
      obtain ⟨b1, b2⟩ := hb x0 hx0 eg heg
      have et : (shiftConn k x0).arr + eg.time = (x0.arr + eg.time) + k := by show x0.arr + k + eg.time = _; omega
      rw [et, h.depT, h.maxTotal]
      have hcand : ∃ x ∈ l, ∃ g ∈ cx.egressFoot, x0.arr + eg.time = x.arr + g.time := ⟨x0, hx0, eg, heg, rfl⟩
      generalize x0.arr + eg.time = t at *
      have c1 : (t + k ≥ 0) = (t ≥ 0) := by apply propext; constructor <;> intro g <;> omega
      have c2 : (t + k - (cx.depT + k) ≤ cx.p.maxTotal) = (t - cx.depT ≤ cx.p.maxTotal) := by apply propext; constructor <;> intro g <;> omega
      have c3 : (t + k < shT k acc.1) = (t < acc.1) := lt_shT k B _ _ hB hB0 ha' b2
      have c4 : (t + k < MAX_INT) = (t < MAX_INT) := by apply propext; constructor <;> intro g <;> omega
      simp only [c1, c2, c3, c4]
      by_cases g : t ≥ 0 ∧ t - cx.depT ≤ cx.p.maxTotal ∧ t < acc.1 ∧ t < MAX_INT
      · simp only [if_pos g]; exact ⟨by rw [shT_fin k t B b2 hB0], Or.inr hcand⟩
      · simp only [if_neg g]; exact ⟨trivial, ha⟩

theorem beFold_shift {k L B : Int} {cx cx' : Ctx} {l : List Conn} (h : CtxSh k cx cx') (hL : 0 ≤ L) (hLk : 0 ≤ L + k)
    (hB : B + k < MAX_INT) (hB0 : B < MAX_INT) (s : FState) (hegr : EgrFrom l s) (hb : EgrBounds L B cx l) :
    ∀ (es : List NTD) (acc : Int × Option Nat), BeAcc cx l acc →
      es.foldl (beStep cx' (shF k s)) (shT k acc.1, acc.2) = (shT k (es.foldl (beStep cx s) acc).1, (es.foldl (beStep cx s) acc).2) ∧
      BeAcc cx l (es.foldl (beStep cx s) acc) := by
  intro es
  induction es with
  | nil => intro acc ha; exact ⟨rfl, ha⟩
  | cons a es ih =>
    intro acc ha
    obtain ⟨h1, h2⟩ := beStep_shift h hL hLk hB hB0 s hegr hb acc ha a
    simp only [List.foldl_cons]
    rw [h1]
    exact ih _ h2

/-- the best egress stop of the shifted problem is the same stop, its arrival time moved by `k`; and that arrival time is the
    arrival (alighting + walk) of a scanned connection -/
theorem bestEgress_shift {k L B : Int} {cx cx' : Ctx} {l : List Conn} (h : CtxSh k cx cx') (hL : 0 ≤ L) (hLk : 0 ≤ L + k)
    (hB : B + k < MAX_INT) (hB0 : B < MAX_INT) (s : FState) (hegr : EgrFrom l s) (hb : EgrBounds L B cx l) :
    bestEgress cx' (shF k s) = (bestEgress cx s).map (fun r => (r.1 + k, r.2)) ∧
    ∀ t st, bestEgress cx s = some (t, st) → ∃ x ∈ l, ∃ g ∈ cx.egressFoot, t = x.arr + g.time := by
  rw [bestEgress_eq, bestEgress_eq, ← h.same.egr]
  obtain ⟨h1, h2⟩ := beFold_shift h hL hLk hB hB0 s hegr hb cx.egressFoot (MAX_INT, none) (Or.inl ⟨rfl, rfl⟩)
  have e0 : shT k MAX_INT = MAX_INT := rfl
  simp only [e0] at h1
  rw [h1]
  generalize cx.egressFoot.foldl (beStep cx s) (MAX_INT, none) = r at *
  obtain ⟨t, o⟩ := r
  cases o with
  | none => exact ⟨rfl, fun _ _ hh => by simp at hh⟩
  | some st =>
    simp only [Option.map_some]
    rcases h2 with ⟨h2, _⟩ | ⟨x, hx, g, hg, h2⟩
    · simp at h2
    · simp only at h2
      refine ⟨by rw [shT_fin k t B (by rw [h2]; exact (hb x hx g hg).2) hB0], ?_⟩
      intro t' st' hh
      simp only [Option.some.injEq, Prod.mk.injEq] at hh
      exact ⟨x, hx, g, hg, by rw [← hh.1]; exact h2⟩

/-! ### the reverse pass of a route query, for any requested departure time and any set of usable trips -/

/-- the reverse pass (scan from arrival time `aT`, best access stop, reconstruction, clean-up, emission) of the shifted problem gives
    the shifted route: generalises the body of `C12_full_route_arrival` to a real requested departure time `dT` (second pass of a
    departure-time query) and to the trips `u` a forward pass marked usable -/
theorem reversePass_shift (ds : Dataset) (hwf : WFData ds) (p : Params) (k L B W : Int) (hal : TripsAligned ds)
    (hmw : 0 ≤ p.minWait) (hmt : 0 ≤ p.maxTransfer) (dT dT' aT : Int) (u : Nat → Bool)
    (hd : (dT = -1 ∧ dT' = -1) ∨ (dT ≠ -1 ∧ dT' ≠ -1 ∧ dT' = dT + k))
    (R : RouteRevRange ds { p with time := aT } k L B W) :
    singleReverse0 (mkCtx ((shiftDs k ds).restrict ((shiftDs k ds).connSetOf (ds.scenarioOf p))) (shiftP k p) ((shiftDs k ds).connSetOf (ds.scenarioOf p))
        (routerLookup ds.access p.maxAccess) (routerLookup ds.egress p.maxEgress) dT' (aT + k)) u =
      shRouteOut k (singleReverse0 (mkCtx (ds.restrict (ds.connSetOf (ds.scenarioOf p))) p (ds.connSetOf (ds.scenarioOf p))
        (routerLookup ds.access p.maxAccess) (routerLookup ds.egress p.maxEgress) dT aT) u) := by
  have hsc : (shiftDs k ds).scenarioOf (shiftP k p) = ds.scenarioOf p := rfl
  have hsame := ctxSame_shift' k ds p (routerLookup ds.access p.maxAccess) (routerLookup ds.egress p.maxEgress) dT aT dT' (aT + k)
  rw [hsc] at hsame
  have hrs : (shiftDs k ds).restrict ((shiftDs k ds).connSetOf (ds.scenarioOf p)) = shiftDs k (ds.restrict (ds.connSetOf (ds.scenarioOf p))) :=
    restrict_shift k ds (ds.scenarioOf p)
  have hsh : CtxShR k
      (mkCtx (ds.restrict (ds.connSetOf (ds.scenarioOf p))) p (ds.connSetOf (ds.scenarioOf p))
        (routerLookup ds.access p.maxAccess) (routerLookup ds.egress p.maxEgress) dT aT)
      (mkCtx ((shiftDs k ds).restrict ((shiftDs k ds).connSetOf (ds.scenarioOf p))) (shiftP k p) ((shiftDs k ds).connSetOf (ds.scenarioOf p))
        (routerLookup ds.access p.maxAccess) (routerLookup ds.egress p.maxEgress) dT' (aT + k)) := by
    refine ⟨hsame, rfl, rfl, rfl, hd, ?_, ?_⟩
    · intro t; show ((shiftDs k ds).restrict _).transferable t = _; rw [hrs, transferable_shift]; rfl
    · show ((shiftDs k ds).restrict _).nStops = _; rw [hrs]; rfl
  have htl : TripLists k (ds.restrict (ds.connSetOf (ds.scenarioOf p))) ((shiftDs k ds).restrict ((shiftDs k ds).connSetOf (ds.scenarioOf p))) := by
    rw [hrs]; exact tripLists_shift k _ (aligned_restrict ds _ hal)
  have hes : EmitSame (ds.restrict (ds.connSetOf (ds.scenarioOf p))) ((shiftDs k ds).restrict ((shiftDs k ds).connSetOf (ds.scenarioOf p))) := by
    rw [hrs]; exact emitSame_shift k _
  have hsub := connSetOf_rev_sub ds (ds.scenarioOf p)
  have hm : ArrMono (ds.connSetOf (ds.scenarioOf p)).rev :=
    fun x hx y hy => conns_arrMono hwf.toWFSchedule x (hsub x hx) y (hsub y hy)
  have hclean := cleanupPreserves (timeWF_dataset hwf p hmw hmt (ds.scenarioOf p) (routerLookup ds.access p.maxAccess) (routerLookup ds.egress p.maxEgress) dT aT)
    (sliceOK_dataset hwf p (ds.scenarioOf p) (routerLookup ds.access p.maxAccess) (routerLookup ds.egress p.maxEgress) dT aT)
  generalize hcx : mkCtx (ds.restrict (ds.connSetOf (ds.scenarioOf p))) p (ds.connSetOf (ds.scenarioOf p))
        (routerLookup ds.access p.maxAccess) (routerLookup ds.egress p.maxEgress) dT aT = cx at *
  generalize hcx' : mkCtx ((shiftDs k ds).restrict ((shiftDs k ds).connSetOf (ds.scenarioOf p))) (shiftP k p) ((shiftDs k ds).connSetOf (ds.scenarioOf p))
        (routerLookup ds.access p.maxAccess) (routerLookup ds.egress p.maxEgress) dT' (aT + k) = cx' at *
  have hrevl : cx.cs.rev = (ds.connSetOf (ds.scenarioOf p)).rev := by rw [← hcx]; rfl
  have hrev : cx'.cs.rev = cx.cs.rev.map (shiftConn k) := by rw [← hcx, ← hcx']; exact rev_list_shift k ds hal _
  have hR : RevRange1 cx k L B W := by
    refine ⟨R.hL, R.hLk, R.hB, R.hB0, R.hW, ?_, ?_, ?_, ?_, ?_⟩
    · rw [← hcx]; exact R.rfoot
    · rw [← hcx]; exact hmw
    · rw [← hcx]; exact R.conns
    · rw [← hcx]; intro e he'
      simp only [mkCtx, routerLookup, List.mem_filter] at he'
      exact R.egress e he'.1
    · rw [← hcx]; intro e he' a ha'
      simp only [mkCtx, routerLookup, List.mem_filter] at ha'
      exact R.access e he' a ha'.1
  have hmwc : 0 ≤ cx.p.minWait := by rw [← hcx]; exact hmw
  have hinv : RInv cx cx.cs.rev (revScan cx u true 0) := by
    have hsorted : SortedRev ([] ++ cx.cs.rev) := by rw [List.nil_append, hrevl]; exact connSetOf_sorted ds _
    have := revScanList_inv (cx := cx) u true cx.cs.rev (by rw [hrevl]; exact hm) hmwc cx.cs.rev [] (RState.init cx)
      (by simp) hsorted (init_RInv cx)
    simp only [List.nil_append] at this
    unfold revScan; rw [List.drop_zero]; exact this
  have hclean' : CleanupPreserves cx cx.cs.rev := by rw [hrevl]; exact hclean
  have htl' : TripLists k cx.ds cx'.ds := by rw [← hcx, ← hcx']; exact htl
  have hes' : EmitSame cx.ds cx'.ds := by rw [← hcx, ← hcx']; exact hes
  exact singleReverse0_shift hsh htl' hes' hrev hR u (emitsShaped_of_inv hinv hclean')

/-! ### departure-time route queries in full -/

/-- range conditions of the departure-time route theorem (all about clock values staying clear of the sentinels -1 and MAX_INT):
    `L` a lower and `B` an upper bound for every clock value either pass compares, `W` the longest footpath -/
structure RouteFwdRange (ds : Dataset) (p : Params) (k L B W : Int) : Prop where
  hL : 0 ≤ L
  hLk : 0 ≤ L + k
  hB : B + k < MAX_INT
  hB0 : B < MAX_INT
  hW : 0 ≤ W
  time0 : 0 ≤ p.time
  timek : 0 ≤ p.time + k
  foot : ∀ z, ∀ f ∈ ds.footOf z, f.time ≤ W
  rfoot : ∀ z, ∀ f ∈ ds.rfootOf z, f.time ≤ W
  connsF : ConnsLe B W (ds.connSetOf (ds.scenarioOf p)).fwd
  connsR : ConnsGe L W p.minWait (ds.connSetOf (ds.scenarioOf p)).rev
  access0 : ∀ e ∈ ds.access, p.time + e.time ≤ B
  egrB : ∀ x ∈ (ds.connSetOf (ds.scenarioOf p)).fwd, ∀ g ∈ ds.egress, L ≤ x.arr + g.time ∧ x.arr + g.time ≤ B
  egress : ∀ x ∈ (ds.connSetOf (ds.scenarioOf p)).fwd, ∀ g ∈ ds.egress, ∀ e ∈ ds.egress, L ≤ x.arr + g.time - e.time
  access : ∀ e ∈ (ds.connSetOf (ds.scenarioOf p)).rev, ∀ a ∈ ds.access,
    L ≤ e.dep - a.time - e.effWait p.minWait ∧ e.dep - a.time - e.effWait p.minWait ≤ B

/-- **C12 in full for departure-time route queries**: for every well-formed dataset, every query and every offset (range conditions
    only), the answer of the shifted problem is the shifted answer of the original one. Both passes are related step by step: the
    single-query forward scan with its early termination (`fwdStep_shift1`), the best egress stop (`bestEgress_shift`), then the
    reverse pass from the best arrival time over the trips the forward pass marked usable (`reversePass_shift`). -/
theorem C12_full_route_departure (ds : Dataset) (hwf : WFData ds) (p : Params) (k L B W : Int) (hal : TripsAligned ds) (hf : p.forward = true)
    (hmw : 0 ≤ p.minWait) (hmt : 0 ≤ p.maxTransfer) (R : RouteFwdRange ds p k L B W) :
    calculateSingle0 (shiftDs k ds) (shiftP k p) = shRouteOut k (calculateSingle0 ds p) := by
  have hsc : (shiftDs k ds).scenarioOf (shiftP k p) = ds.scenarioOf p := rfl
  have hfw : (shiftP k p).forward = true := hf
  unfold calculateSingle0 calculateSingleWith0
  simp only [hfw, hf, if_true, hsc]
  have ha : routerLookup (shiftDs k ds).access (shiftP k p).maxAccess = routerLookup ds.access p.maxAccess := rfl
  have he : routerLookup (shiftDs k ds).egress (shiftP k p).maxEgress = routerLookup ds.egress p.maxEgress := rfl
  rw [ha, he]
  by_cases g1 : (routerLookup ds.access p.maxAccess).isEmpty = true ∧ (routerLookup ds.egress p.maxEgress).isEmpty = true
  · simp only [g1, and_self, if_true]; rfl
  · simp only [g1, if_false]
    by_cases g2 : (routerLookup ds.access p.maxAccess).isEmpty = true
    · simp only [g2, if_true]; rfl
    · simp only [g2, Bool.false_eq_true, if_false]
      by_cases g3 : (routerLookup ds.egress p.maxEgress).isEmpty = true
      · simp only [g3, if_true]; rfl
      · simp only [g3, Bool.false_eq_true, if_false]
        have hsame := ctxSame_shift' k ds p (routerLookup ds.access p.maxAccess) (routerLookup ds.egress p.maxEgress) p.time (-1) (shiftP k p).time (-1)
        rw [hsc] at hsame
        have hrs : (shiftDs k ds).restrict ((shiftDs k ds).connSetOf (ds.scenarioOf p)) = shiftDs k (ds.restrict (ds.connSetOf (ds.scenarioOf p))) :=
          restrict_shift k ds (ds.scenarioOf p)
        have hsh : CtxSh k
            (mkCtx (ds.restrict (ds.connSetOf (ds.scenarioOf p))) p (ds.connSetOf (ds.scenarioOf p))
              (routerLookup ds.access p.maxAccess) (routerLookup ds.egress p.maxEgress) p.time (-1))
            (mkCtx ((shiftDs k ds).restrict ((shiftDs k ds).connSetOf (ds.scenarioOf p))) (shiftP k p) ((shiftDs k ds).connSetOf (ds.scenarioOf p))
              (routerLookup ds.access p.maxAccess) (routerLookup ds.egress p.maxEgress) (shiftP k p).time (-1)) := by
          refine ⟨hsame, rfl, rfl, rfl, ?_, ?_⟩
          · intro t; show ((shiftDs k ds).restrict _).transferable t = _; rw [hrs, transferable_shift]; rfl
          · show ((shiftDs k ds).restrict _).nStops = _; rw [hrs]; rfl
        -- the second pass, for every arrival time the first pass may hand over and every set of usable trips
        have hsecond : ∀ (b : Int) (u : Nat → Bool), (∀ e ∈ ds.egress, L ≤ b - e.time) →
            singleReverse0 { mkCtx ((shiftDs k ds).restrict ((shiftDs k ds).connSetOf (ds.scenarioOf p))) (shiftP k p) ((shiftDs k ds).connSetOf (ds.scenarioOf p))
                (routerLookup ds.access p.maxAccess) (routerLookup ds.egress p.maxEgress) (shiftP k p).time (-1) with arrT := b + k } u =
              shRouteOut k (singleReverse0 { mkCtx (ds.restrict (ds.connSetOf (ds.scenarioOf p))) p (ds.connSetOf (ds.scenarioOf p))
                (routerLookup ds.access p.maxAccess) (routerLookup ds.egress p.maxEgress) p.time (-1) with arrT := b } u) := by
          intro b u hb
          have hd : (p.time = -1 ∧ (shiftP k p).time = -1) ∨ (p.time ≠ -1 ∧ (shiftP k p).time ≠ -1 ∧ (shiftP k p).time = p.time + k) := by
            have h1 := R.time0; have h2 := R.timek
            refine Or.inr ⟨by omega, ?_, rfl⟩
            show p.time + k ≠ -1; omega
          exact reversePass_shift ds hwf p k L B W hal hmw hmt p.time (shiftP k p).time b u hd
            ⟨R.hL, R.hLk, R.hB, R.hB0, R.hW, R.rfoot, R.connsR, hb, R.access⟩
        generalize hcx : mkCtx (ds.restrict (ds.connSetOf (ds.scenarioOf p))) p (ds.connSetOf (ds.scenarioOf p))
              (routerLookup ds.access p.maxAccess) (routerLookup ds.egress p.maxEgress) p.time (-1) = cx at *
        generalize hcx' : mkCtx ((shiftDs k ds).restrict ((shiftDs k ds).connSetOf (ds.scenarioOf p))) (shiftP k p) ((shiftDs k ds).connSetOf (ds.scenarioOf p))
              (routerLookup ds.access p.maxAccess) (routerLookup ds.egress p.maxEgress) (shiftP k p).time (-1) = cx' at *
        have hfwd : cx'.cs.fwd = cx.cs.fwd.map (shiftConn k) := by rw [← hcx, ← hcx']; exact fwd_list_shift k ds hal _
        have hfwdl : cx.cs.fwd = (ds.connSetOf (ds.scenarioOf p)).fwd := by rw [← hcx]; rfl
        have hfootc : ∀ z, ∀ f ∈ cx.ds.footOf z, f.time ≤ W := by rw [← hcx]; exact R.foot
        have hmwc : 0 ≤ cx.p.minWait := by rw [← hcx]; exact hmw
        have hconns : ConnsLe B W cx.cs.fwd := by rw [← hcx]; exact R.connsF
        have haccB : ∀ e ∈ cx.accessFoot, cx.depT + e.time ≤ B := by
          rw [← hcx]; intro e he'
          simp only [mkCtx, routerLookup, List.mem_filter] at he'
          exact R.access0 e he'.1
        have hegrMem : ∀ g ∈ cx.egressFoot, g ∈ ds.egress := by
          rw [← hcx]; intro g hg
          simp only [mkCtx, routerLookup, List.mem_filter] at hg
          exact hg.1
        have hegrB : EgrBounds L B cx cx.cs.fwd := by
          intro x hx g hg; rw [hfwdl] at hx; exact R.egrB x hx g (hegrMem g hg)
        obtain ⟨hi1, hi2⟩ := FState_init_shift hsh R.hB0 haccB
        have hinv0 : FwdInv1 B cx.cs.fwd (FState.init cx) :=
          ⟨hi2, Or.inl rfl, by intro n js hjs; simp [FState.init] at hjs⟩
        obtain ⟨hfold, hinv⟩ := fwdFold_shift1 hsh R.hB R.hB0 hfootc hmwc cx.cs.fwd cx.cs.fwd (FState.init cx) (fun c hc => hc) hconns hinv0
        have hscan : fwdScan cx' true 0 = shF k (fwdScan cx true 0) := by
          unfold fwdScan; rw [List.drop_zero, List.drop_zero, hfwd, hi1]; exact hfold
        have hinv' : FwdInv1 B cx.cs.fwd (fwdScan cx true 0) := by unfold fwdScan; rw [List.drop_zero]; exact hinv
        rw [hscan]
        have hcount : (shF k (fwdScan cx true 0)).count = (fwdScan cx true 0).count := rfl
        have husable : (shF k (fwdScan cx true 0)).usable = (fwdScan cx true 0).usable := rfl
        rw [hcount, husable]
        by_cases hz : (fwdScan cx true 0).count = 0
        · simp only [hz, if_true]; rfl
        · simp only [hz, if_false]
          obtain ⟨hbe, hspec⟩ := bestEgress_shift hsh R.hL R.hLk R.hB R.hB0 _ hinv'.egr hegrB
          rw [hbe]
          cases hbest : bestEgress cx (fwdScan cx true 0) with
          | none => rfl
          | some r =>
            obtain ⟨bestArr, st⟩ := r
            simp only [Option.map_some]
            obtain ⟨x, hx, g, hg, ht⟩ := hspec bestArr st hbest
            apply hsecond
            intro e he'
            rw [ht]; rw [hfwdl] at hx
            exact R.egress x hx g (hegrMem g hg) e he'

/-- the same for the calculation WITH the hour index, inside [0, 32 h) on both sides -/
theorem C12_full_route_departure_indexed (ds : Dataset) (hwf : WFData ds) (p : Params) (k L B W : Int) (hal : TripsAligned ds) (hf : p.forward = true)
    (hmw : 0 ≤ p.minWait) (hmt : 0 ≤ p.maxTransfer) (R : RouteFwdRange ds p k L B W)
    (ht : p.time < (HOUR_END : Int) * 3600) (ht' : p.time + k < (HOUR_END : Int) * 3600)
    (hacc : ∀ a ∈ ds.access, 0 ≤ a.time) (hegr : ∀ g ∈ ds.egress, 0 ≤ g.time) :
    calculateSingle (shiftDs k ds) (shiftP k p) = shRouteOut k (calculateSingle ds p) := by
  rw [C12_index_transparent_route ds p R.time0 ht hacc hegr, C12_index_transparent_route (shiftDs k ds) (shiftP k p) R.timek ht' hacc hegr]
  exact C12_full_route_departure ds hwf p k L B W hal hf hmw hmt R

/-- **C12 for route queries, both time types**: one statement -/
theorem C12_full_route (ds : Dataset) (hwf : WFData ds) (p : Params) (k L B W : Int) (hal : TripsAligned ds)
    (hmw : 0 ≤ p.minWait) (hmt : 0 ≤ p.maxTransfer)
    (R : (p.forward = true ∧ RouteFwdRange ds p k L B W) ∨ (p.forward = false ∧ RouteRevRange ds p k L B W)) :
    calculateSingle0 (shiftDs k ds) (shiftP k p) = shRouteOut k (calculateSingle0 ds p) := by
  rcases R with ⟨hf, R⟩ | ⟨hf, R⟩
  · exact C12_full_route_departure ds hwf p k L B W hal hf hmw hmt R
  · exact C12_full_route_arrival ds hwf p k L B W hal hf hmw hmt R

/-- non-vacuity: the hypotheses of `C12_full_route_departure` hold of the example dataset for an offset that moves the request across
    an hour mark, a route is found, and the two routes are shifted copies of each other (every field) -/
theorem nv_full_route_departure :
    RouteFwdRange nvDs' nvFwd' 1700 600 100000 60 ∧
    (match calculateSingle nvDs' nvFwd', calculateSingle (shiftDs 1700 nvDs') (shiftP 1700 nvFwd') with
      | .ok r, .ok r' => decide (shRoute 1700 r = r') && decide (r.steps.length = 4)
      | _, _ => false) = true := by
  refine ⟨⟨by decide, by decide, by decide, by decide, by decide, by decide, by decide, ?_, ?_, ?_, ?_, by decide, by decide, by decide, by decide⟩, by decide⟩
  · intro z f hf
    obtain ⟨x, hx, e⟩ := footOf_time_mem _ z f hf
    have : ∀ x ∈ nvDs'.foot, x.time ≤ 60 := by decide
    rw [e]; exact this x hx
  · intro z f hf
    obtain ⟨x, hx, e⟩ := rfootOf_time_mem _ z f hf
    have : ∀ x ∈ nvDs'.foot, x.time ≤ 60 := by decide
    rw [e]; exact this x hx
  · unfold ConnsLe; decide
  · unfold ConnsGe; decide

end Tr
