/-
  Props/C12FullRoute — translation invariance of the calculation itself for ROUTE queries: emission,
  best-stop selection, the single-query variants of both scans, `reverseJourney`, `calculateSingle0`.
-/
import TrVerif.Props.C12FullRev
import TrVerif.Proofs.Assembly
import TrVerif.Props.C01
namespace Tr

/-! ### emission -/

def shStep (k : Int) : Step → Step
  | .walk kind tt dist dep arr ready => .walk kind tt dist (dep + k) (arr + k) (if kind = 2 then ready else ready + k)
  | .board trip seq stop dep wait => .board trip seq stop (dep + k) wait
  | .unboard trip seq stop arr ivt ivd => .unboard trip seq stop (arr + k) ivt ivd

def shRoute (k : Int) (r : Route) : Route :=
  { r with departureTime := r.departureTime + k, arrivalTime := r.arrivalTime + k, steps := r.steps.map (shStep k) }

/-- the accumulator of the emission pass before the first ride: only the "ready at" clock is set -/
def shE0 (k : Int) (a : EAcc) : EAcc := { a with transferArr := a.transferArr + k, steps := a.steps.map (shStep k) }
/-- … and once a ride has been emitted -/
def shE (k : Int) (a : EAcc) : EAcc := { a with transferArr := a.transferArr + k, arrival := a.arrival + k, steps := a.steps.map (shStep k) }

structure EmitSame (ds ds' : Dataset) : Prop where
  dist : ∀ t, (ds'.pathOfTrip t).dist = (ds.pathOfTrip t).dist
  transferable : ∀ t, ds'.transferable t = ds.transferable t

theorem nextWaitOf_shift (k mw : Int) (next : Option JStep) : nextWaitOf mw (next.map (shJ k)) = nextWaitOf mw next := by
  unfold nextWaitOf
  cases next with
  | none => rfl
  | some nx =>
    simp only [Option.map_some, shJ]
    cases nx.enter <;> rfl

theorem emitLeg_shift {k : Int} {ds ds' : Dataset} (h : EmitSame ds ds') (mw : Int) (n : Nat) (a : EAcc) (i : Nat) (js : JStep) (e x : Conn) (next : Option JStep)
    (a' : EAcc) (ha : a' = shE0 k a ∨ a' = shE k a) :
    emitLeg ds' mw n a' i (shJ k js) (shiftConn k e) (shiftConn k x) (next.map (shJ k)) = shE k (emitLeg ds mw n a i js e x next) := by
  have e1 : legHasDist ds' (shiftConn k e) (shiftConn k x) = legHasDist ds e x := by
    unfold legHasDist; rw [show (shiftConn k e).trip = e.trip from rfl, show (shiftConn k x).seq = x.seq from rfl, h.dist]
  have e2 : legIvd ds' (shiftConn k e) (shiftConn k x) = legIvd ds e x := by
    unfold legIvd; simp only [show (shiftConn k e).trip = e.trip from rfl, show (shiftConn k x).seq = x.seq from rfl,
      show (shiftConn k e).seq = e.seq from rfl, h.dist]
  have e3 : ds'.transferable (shiftConn k e).trip = ds.transferable e.trip := by rw [show (shiftConn k e).trip = e.trip from rfl, h.transferable]
  have e4 : (shiftConn k x).arr - (shiftConn k e).dep = x.arr - e.dep := by show x.arr + k - (e.dep + k) = _; omega
  rcases ha with rfl | rfl
  all_goals
    unfold emitLeg
    simp only [e1, e2, e3, e4, nextWaitOf_shift, shE0, shE, shJ]
    have w : (shiftConn k e).dep - (a.transferArr + k) = e.dep - a.transferArr := by show e.dep + k - _ = _; omega
    simp only [w]
    congr 1
    · show x.arr + k + js.walk = x.arr + js.walk + k; omega
    · simp only [List.map_append, List.map_cons, List.map_nil, shStep]
      congr 1
      split
      · simp only [List.map_cons, List.map_nil, shStep]
        congr 2
        · show x.arr + k + js.walk = x.arr + js.walk + k; omega
        · simp only [show ¬ ((1 : Nat) = 2) by decide, if_false]
          show x.arr + k + js.walk + _ = x.arr + js.walk + _ + k; omega
      · rfl

theorem emitAccess_shift (k mw bd : Int) (js : JStep) (next : Option JStep) :
    emitAccess mw (bd + k) {} (shJ k js) (next.map (shJ k)) = shE0 k (emitAccess mw bd {} js next) := by
  unfold emitAccess
  simp only [nextWaitOf_shift, shE0, shJ, List.nil_append, List.map_cons, List.map_nil, shStep]
  congr 1
  · omega
  · simp only [show ¬ ((0 : Nat) = 2) by decide, if_false]
    congr 2
    · omega
    · omega

theorem emitEgress_shift (k : Int) (a : EAcc) (js : JStep) : emitEgress (shE k a) (shJ k js) = shE k (emitEgress a js) := by
  have e : a.arrival + k + js.walk = a.arrival + js.walk + k := by omega
  unfold emitEgress
  simp only [shE, shJ, List.map_append, List.map_cons, List.map_nil, shStep, if_true, e]
  first | rfl | congr

theorem emitLoop_legs_shift {k : Int} {ds ds' : Dataset} (h : EmitSame ds ds') (mw bd : Int) (n : Nat) (egr : JStep) (hegr : egr.enter = none) :
    ∀ (legs : List JStep), (∀ l ∈ legs, ∃ e x, l.enter = some e ∧ l.exit = some x) → ∀ (i : Nat), 0 < i → ∀ (a a' : EAcc),
      (a' = shE k a ∨ (a' = shE0 k a ∧ legs ≠ [])) →
      emitLoop ds' mw (bd + k) n ((legs ++ [egr]).map (shJ k)) i a' = shE k (emitLoop ds mw bd n (legs ++ [egr]) i a) := by
  intro legs
  induction legs with
  | nil =>
    intro _ i hi a a' ha
    rcases ha with rfl | ⟨_, hne⟩
    · simp only [List.nil_append, List.map_cons, List.map_nil, emitLoop, emitStep, shJ, hegr, Option.map_none]
      have : ¬ i = 0 := by omega
      simp only [this, if_false]
      exact emitEgress_shift k a egr
    · exact absurd rfl hne
  | cons l legs ih =>
    intro hall i hi a a' ha
    obtain ⟨e, x, he, hx⟩ := hall l (by simp)
    simp only [List.cons_append, List.map_cons, emitLoop]
    have hstep : emitStep ds' mw (bd + k) n a' i (shJ k l) ((legs ++ [egr]).map (shJ k)).head? =
        shE k (emitStep ds mw bd n a i l (legs ++ [egr]).head?) := by
      unfold emitStep
      simp only [shJ, he, hx, Option.map_some, List.head?_map]
      have := emitLeg_shift h mw n a i l e x (legs ++ [egr]).head? a' (by rcases ha with r | ⟨r, _⟩; exact Or.inr r; exact Or.inl r)
      simp only [shJ] at this
      exact this
    rw [hstep]
    exact ih (fun y hy => hall y (List.mem_cons_of_mem _ hy)) (i+1) (by omega) _ _ (Or.inl rfl)

/-- a journey of the shape `reverseJourney` emits: access step, at least one ride, egress step -/
def EmitShape (j : List JStep) : Prop :=
  ∃ acc legs egr, j = [acc] ++ legs ++ [egr] ∧ acc.enter = none ∧ egr.enter = none ∧ legs ≠ [] ∧
    ∀ l ∈ legs, ∃ e x, l.enter = some e ∧ l.exit = some x

/-- **emission is equivariant** on journeys of that shape: every clock time of the route moves by `k`, every duration, distance and
    count stays -/
theorem emit_shift {k : Int} {ds ds' : Dataset} (h : EmitSame ds ds') (mw bd : Int) (j : List JStep) (hj : EmitShape j) :
    emit ds' mw (bd + k) (j.map (shJ k)) = shRoute k (emit ds mw bd j) := by
  obtain ⟨acc, legs, egr, rfl, hacc, hegr, hne, hall⟩ := hj
  unfold emit
  simp only [List.length_map]
  have hloop : emitLoop ds' mw (bd + k) ([acc] ++ legs ++ [egr]).length (([acc] ++ legs ++ [egr]).map (shJ k)) 0 {} =
      shE k (emitLoop ds mw bd ([acc] ++ legs ++ [egr]).length ([acc] ++ legs ++ [egr]) 0 {}) := by
    simp only [List.singleton_append, List.cons_append, List.nil_append, Nat.zero_add, List.map_cons, emitLoop]
    have hs : emitStep ds' mw (bd + k) (acc :: (legs ++ [egr])).length {} 0 (shJ k acc) ((legs ++ [egr]).map (shJ k)).head? =
        shE0 k (emitStep ds mw bd (acc :: (legs ++ [egr])).length {} 0 acc (legs ++ [egr]).head?) := by
      unfold emitStep
      simp only [shJ, hacc, Option.map_none, if_true, List.head?_map]
      have := emitAccess_shift k mw bd acc (legs ++ [egr]).head?
      simp only [shJ, hacc, Option.map_none] at this
      exact this
    rw [hs]
    exact emitLoop_legs_shift h mw bd _ egr hegr legs hall 1 (by omega) _ _ (Or.inr ⟨rfl, hne⟩)
  rw [hloop]
  simp only [shE, shRoute]
  congr 1
  omega

/-! ### the single-query reverse scan -/

/-- once an access stop was reached, the remembered boarding time is a real clock value -/
def AccDepOk (L : Int) (s : RState) : Prop := s.reached = true → L ≤ s.tentAccDep
/-- every boarding kept for an access stop is a connection of the scanned list -/
def AccFrom (l : List Conn) (s : RState) : Prop := ∀ n js, s.acc n = some js → ∃ e ∈ l, js.enter = some e

theorem revFoot_reached (cx : Ctx) (c : Conn) (mw : Int) (s : RState) (f : NTD) :
    (revFoot cx c mw s f).reached = s.reached ∧ (revFoot cx c mw s f).tentAccDep = s.tentAccDep := by
  unfold revFoot revFootAcc revFootLabel
  repeat' split
  all_goals exact ⟨rfl, rfl⟩

theorem revFoot_accFrom {l : List Conn} (cx : Ctx) (c : Conn) (hc : c ∈ l) (mw : Int) (s : RState) (f : NTD) (h : AccFrom l s) :
    AccFrom l (revFoot cx c mw s f) := by
  unfold revFoot revFootAcc revFootLabel
  repeat' split
  all_goals first
    | exact h
    | (intro n js hjs
       simp only [upd] at hjs
       split at hjs
       · simp only [Option.some.injEq] at hjs; subst hjs; exact ⟨c, hc, rfl⟩
       · exact h n js hjs)

theorem revFootFold_props {l : List Conn} (cx : Ctx) (c : Conn) (hc : c ∈ l) (mw : Int) : ∀ (fs : List NTD) (s : RState), AccFrom l s →
    (fs.foldl (revFoot cx c mw) s).reached = s.reached ∧ (fs.foldl (revFoot cx c mw) s).tentAccDep = s.tentAccDep ∧
    AccFrom l (fs.foldl (revFoot cx c mw) s) := by
  intro fs
  induction fs with
  | nil => intro s h; exact ⟨rfl, rfl, h⟩
  | cons f fs ih =>
    intro s h
    simp only [List.foldl_cons]
    obtain ⟨a, b, c'⟩ := ih (revFoot cx c mw s f) (revFoot_accFrom cx c hc mw s f h)
    obtain ⟨r1, r2⟩ := revFoot_reached cx c mw s f
    exact ⟨by rw [a, r1], by rw [b, r2], c'⟩

theorem revBoard_shift1 {k L W : Int} {cx cx' : Ctx} {l : List Conn} (h : CtxShR k cx cx') (hL : 0 ≤ L) (hLk : 0 ≤ L + k)
    (hrfoot : ∀ z, ∀ f ∈ cx.ds.rfootOf z, f.time ≤ W) (hW : 0 ≤ W) (s : RState) (c : Conn) (hc : c ∈ l) (hs : LabGe L s)
    (hdep : L ≤ c.dep - W - c.effWait cx.p.minWait) (hmwc : 0 ≤ c.effWait cx.p.minWait) (hd : AccDepOk L s) (hf : AccFrom l s) :
    revBoard cx' true (shR k s) (shiftConn k c) = shR k (revBoard cx true s c) ∧ LabGe L (revBoard cx true s c) ∧
      AccDepOk L (revBoard cx true s c) ∧ AccFrom l (revBoard cx true s c) := by
  unfold revBoard
  have e1 : (shiftConn k c).canBoard = c.canBoard := rfl
  have e2 : ((shR k s).exitC (shiftConn k c).trip).isSome = (s.exitC c.trip).isSome := by rw [shR_exitC]; simp; rfl
  have e3 : (shiftConn k c).effWait cx'.p.minWait = c.effWait cx.p.minWait := by rw [← h.same.mw]; rfl
  have e4 : (shiftConn k c).depStop = c.depStop := rfl
  have e5 : (shR k s).reached = s.reached := rfl
  simp only [e1, e2, e3, e4, e5, true_and, nodesAccess_same h.same, ← h.same.rfoot]
  by_cases g : c.canBoard = true ∧ (s.exitC c.trip).isSome = true
  · simp only [if_pos g]
    have hcd : L ≤ c.dep := by omega
    by_cases g2 : ¬ s.reached = true ∧ ((cx.nodesAccess c.depStop).any fun a => decide (a.time ≠ -1)) = true
    · simp only [if_pos g2]
      have hs1 : ({ shR k s with reached := true, tentAccDep := (shiftConn k c).dep } : RState) = shR k { s with reached := true, tentAccDep := c.dep } := by
        simp only [shR]; congr 1; rw [shL_fin k _ L hcd hL]; rfl
      rw [hs1]
      obtain ⟨a1, a2⟩ := revFootFold_shift h hL hLk c _ hdep hW (cx.ds.rfootOf c.depStop) { s with reached := true, tentAccDep := c.dep } (hrfoot c.depStop) (fun n => hs n)
      obtain ⟨p1, p2, p3⟩ := revFootFold_props cx c hc (c.effWait cx.p.minWait) (cx.ds.rfootOf c.depStop) { s with reached := true, tentAccDep := c.dep } (fun n js hjs => hf n js hjs)
      exact ⟨a1, a2, by intro _; rw [p2]; exact hcd, p3⟩
    · simp only [if_neg g2]
      obtain ⟨a1, a2⟩ := revFootFold_shift h hL hLk c _ hdep hW (cx.ds.rfootOf c.depStop) s (hrfoot c.depStop) hs
      obtain ⟨p1, p2, p3⟩ := revFootFold_props cx c hc (c.effWait cx.p.minWait) (cx.ds.rfootOf c.depStop) s hf
      exact ⟨a1, a2, by intro hr; rw [p1] at hr; rw [p2]; exact hd hr, p3⟩
  · simp only [if_neg g]; exact ⟨trivial, hs, hd, hf⟩

theorem revUnboard_keeps (cx : Ctx) (s : RState) (c : Conn) :
    (revUnboard cx s c).reached = s.reached ∧ (revUnboard cx s c).tentAccDep = s.tentAccDep ∧ (revUnboard cx s c).acc = s.acc := by
  unfold revUnboard; split <;> exact ⟨rfl, rfl, rfl⟩

structure RevInv1 (L : Int) (l : List Conn) (s : RState) : Prop where
  lab : LabGe L s
  dep : AccDepOk L s
  acc : AccFrom l s

theorem revStep_shift1 {k L W : Int} {cx cx' : Ctx} {l : List Conn} (h : CtxShR k cx cx') (hL : 0 ≤ L) (hLk : 0 ≤ L + k)
    (hrfoot : ∀ z, ∀ f ∈ cx.ds.rfootOf z, f.time ≤ W) (hW : 0 ≤ W) (hmw : 0 ≤ cx.p.minWait) (u : Nat → Bool)
    (s : RState) (c : Conn) (hc : c ∈ l) (hs : RevInv1 L l s)
    (hca : L ≤ c.arr) (hdep : L ≤ c.dep - W - c.effWait cx.p.minWait) :
    revStep cx' u true (shR k s) (shiftConn k c) = shR k (revStep cx u true s c) ∧ RevInv1 L l (revStep cx u true s c) := by
  have hmwc : 0 ≤ c.effWait cx.p.minWait := by unfold Conn.effWait; split <;> omega
  have hstop : (shR k s).stop = s.stop := rfl
  have E1 : ((shiftConn k c).arr ≤ cx'.arrT - cx'.minEgress) = (c.arr ≤ cx.arrT - cx.minEgress) := by
    have : cx'.minEgress = cx.minEgress := by unfold Ctx.minEgress; rw [h.same.egr]
    simp only [h.arrT, this]; show (c.arr + k ≤ _) = _; apply propext; constructor <;> intro g <;> omega
  have E2 : cx'.disabled (shiftConn k c).trip = cx.disabled c.trip := (h.same.dis c.trip).symm
  have E2' : u (shiftConn k c).trip = u c.trip := rfl
  have E3 : revBreak cx' true (shR k s) (shiftConn k c) = revBreak cx true s c := by
    unfold revBreak
    have hma : cx'.maxAccess = cx.maxAccess := by unfold Ctx.maxAccess; rw [h.same.acc]
    have hr : (shR k s).reached = s.reached := rfl
    simp only [true_and, h.arrT, h.maxTotal, hma, hr, ← h.same.mw]
    apply Bool.eq_iff_iff.2; simp only [decide_eq_true_eq]
    have e2 : (cx.arrT + k - (shiftConn k c).arr > cx.p.maxTotal) ↔ (cx.arrT - c.arr > cx.p.maxTotal) := by
      show (cx.arrT + k - (c.arr + k) > _) ↔ _; constructor <;> intro g <;> omega
    rw [e2]
    by_cases hre : s.reached = true
    · have := hs.dep hre
      have e3 : (shR k s).tentAccDep = s.tentAccDep + k := shL_fin k _ L this hL
      rw [e3]
      show (_ ∧ _ ∧ c.arr + k < _) ∨ _ ↔ _
      constructor <;> (intro g; rcases g with ⟨g1, g2, g3⟩ | g) <;> first | exact Or.inr g | exact Or.inl ⟨g1, g2, by omega⟩
    · simp [hre]
  have E4 : (((shR k s).exitC (shiftConn k c).trip).isSome = true ∨ (shR k s).lab (shiftConn k c).arrStop ≥ (shiftConn k c).arr) ↔
      ((s.exitC c.trip).isSome = true ∨ s.lab c.arrStop ≥ c.arr) := by
    have a : ((shR k s).exitC (shiftConn k c).trip).isSome = (s.exitC c.trip).isSome := by rw [shR_exitC]; simp; rfl
    have b : ((shR k s).lab (shiftConn k c).arrStop ≥ (shiftConn k c).arr) = (s.lab c.arrStop ≥ c.arr) :=
      shL_ge k L _ _ hL hLk (hs.lab c.arrStop) hca
    rw [a, b]
  obtain ⟨k1, k2, k3⟩ := revUnboard_keeps cx s c
  obtain ⟨b1, b2, b3, b4⟩ := revBoard_shift1 h hL hLk hrfoot hW (revUnboard cx s c) c hc (by intro n; rw [revUnboard_lab]; exact hs.lab n) hdep hmwc
    (by intro hr; rw [k1] at hr; rw [k2]; exact hs.dep hr) (by intro n js hjs; rw [k3] at hjs; exact hs.acc n js hjs)
  have hu := revUnboard_shift h hL hLk s c hs.lab hca hmw
  refine ⟨?_, ?_⟩
  · unfold revStep
    simp only [hstop, if_true, E1, E2, E2', E3, E4, hu, b1, apply_ite (shR k)]
    rfl
  · unfold revStep
    simp only
    repeat' split
    all_goals first
      | exact hs
      | exact ⟨fun n => hs.lab n, fun hr => hs.dep hr, fun n js hjs => hs.acc n js hjs⟩
      | exact ⟨fun n => b2 n, fun hr => b3 hr, fun n js hjs => b4 n js hjs⟩

theorem revFold_shift1 {k L W : Int} {cx cx' : Ctx} (h : CtxShR k cx cx') (hL : 0 ≤ L) (hLk : 0 ≤ L + k)
    (hrfoot : ∀ z, ∀ f ∈ cx.ds.rfootOf z, f.time ≤ W) (hW : 0 ≤ W) (hmw : 0 ≤ cx.p.minWait) (u : Nat → Bool) (full : List Conn) :
    ∀ (l : List Conn) (s : RState), (∀ c ∈ l, c ∈ full) → ConnsGe L W cx.p.minWait l → RevInv1 L full s →
      (l.map (shiftConn k)).foldl (revStep cx' u true) (shR k s) = shR k (l.foldl (revStep cx u true) s) ∧
      RevInv1 L full (l.foldl (revStep cx u true) s) := by
  intro l
  induction l with
  | nil => intro s _ _ hs; exact ⟨rfl, hs⟩
  | cons c l ih =>
    intro s hsub hl hs
    obtain ⟨a1, a2⟩ := hl c (by simp)
    obtain ⟨e1, e2⟩ := revStep_shift1 h hL hLk hrfoot hW hmw u s c (hsub c (by simp)) hs a1 a2
    simp only [List.map_cons, List.foldl_cons]
    rw [e1]
    exact ih _ (fun x hx => hsub x (List.mem_cons_of_mem _ hx)) (fun x hx => hl x (List.mem_cons_of_mem _ hx)) e2

/-! ### best access stop -/

def AccBounds (L B : Int) (cx : Ctx) (l : List Conn) : Prop :=
  ∀ e ∈ l, ∀ a ∈ cx.accessFoot, L ≤ e.dep - a.time - e.effWait cx.p.minWait ∧ e.dep - a.time - e.effWait cx.p.minWait ≤ B

theorem find_mem' {l : List NTD} {z : Nat} {a : NTD} (h : l.find? (fun x => decide (x.stop = z)) = some a) : a ∈ l :=
  List.mem_of_find?_eq_some h

def baStep (cx : Ctx) (s : RState) (acc : Int × Option Nat) (a : NTD) : Int × Option Nat :=
  match s.acc a.stop with
  | some js => match js.enter, cx.nodesAccess a.stop with
    | some e, some ac =>
      let t := e.dep - ac.time - e.effWait cx.p.minWait
      if t ≥ 0 ∧ cx.arrT - t ≤ cx.p.maxTotal ∧ t > acc.1 ∧ t < MAX_INT then (t, some ac.stop) else acc
    | _, _ => acc
  | none => acc

theorem bestAccess_eq (cx : Ctx) (s : RState) :
    bestAccess cx s = (fun r : Int × Option Nat => r.2.map fun st => (r.1, st)) (cx.accessFoot.foldl (baStep cx s) (-1, none)) := rfl

theorem baStep_shift {k L B : Int} {cx cx' : Ctx} {l : List Conn} (h : CtxShR k cx cx') (hL : 0 ≤ L) (hLk : 0 ≤ L + k)
    (hB : B + k < MAX_INT) (hB0 : B < MAX_INT) (s : RState) (hacc : AccFrom l s) (hb : AccBounds L B cx l)
    (acc : Int × Option Nat) (ha : (acc.2 = none ∧ acc.1 = -1) ∨ L ≤ acc.1) (a : NTD) :
    baStep cx' (shR k s) (shL k acc.1, acc.2) a = (shL k (baStep cx s acc a).1, (baStep cx s acc a).2) ∧
      (((baStep cx s acc a).2 = none ∧ (baStep cx s acc a).1 = -1) ∨ L ≤ (baStep cx s acc a).1) := by
  have ha' : acc.1 = -1 ∨ L ≤ acc.1 := by rcases ha with ⟨_, r⟩ | r; exact Or.inl r; exact Or.inr r
  unfold baStep
  rw [shR_acc, nodesAccess_same h.same]
  cases hjs : s.acc a.stop with
  | none => exact ⟨rfl, ha⟩
  | some js =>
    obtain ⟨e0, he0, hje⟩ := hacc a.stop js hjs
    simp only [Option.map_some, shJ, hje]
    cases hna : cx.nodesAccess a.stop with
    | none => exact ⟨rfl, ha⟩
    | some ac =>
      simp only
      have hac : ac ∈ cx.accessFoot := find_mem' hna
      obtain ⟨b1, b2⟩ := hb e0 he0 ac hac
      have et : (shiftConn k e0).dep - ac.time - (shiftConn k e0).effWait cx'.p.minWait = (e0.dep - ac.time - e0.effWait cx.p.minWait) + k := by
        rw [← h.same.mw]; show e0.dep + k - ac.time - e0.effWait cx.p.minWait = _; omega
      rw [et, h.arrT, h.maxTotal]
      generalize e0.dep - ac.time - e0.effWait cx.p.minWait = t at *
      have c1 : (t + k ≥ 0) = (t ≥ 0) := by apply propext; constructor <;> intro g <;> omega
      have c2 : (cx.arrT + k - (t + k) ≤ cx.p.maxTotal) = (cx.arrT - t ≤ cx.p.maxTotal) := by apply propext; constructor <;> intro g <;> omega
      have c3 : (t + k > shL k acc.1) = (t > acc.1) := gt_shL k L _ _ hL hLk ha' b1
      have c4 : (t + k < MAX_INT) = (t < MAX_INT) := by apply propext; constructor <;> intro g <;> omega
      simp only [c1, c2, c3, c4]
      by_cases g : t ≥ 0 ∧ cx.arrT - t ≤ cx.p.maxTotal ∧ t > acc.1 ∧ t < MAX_INT
      · simp only [if_pos g]; exact ⟨by rw [shL_fin k t L b1 hL], Or.inr b1⟩
      · simp only [if_neg g]; exact ⟨trivial, ha⟩

theorem baFold_shift {k L B : Int} {cx cx' : Ctx} {l : List Conn} (h : CtxShR k cx cx') (hL : 0 ≤ L) (hLk : 0 ≤ L + k)
    (hB : B + k < MAX_INT) (hB0 : B < MAX_INT) (s : RState) (hacc : AccFrom l s) (hb : AccBounds L B cx l) :
    ∀ (as : List NTD) (acc : Int × Option Nat), ((acc.2 = none ∧ acc.1 = -1) ∨ L ≤ acc.1) →
      as.foldl (baStep cx' (shR k s)) (shL k acc.1, acc.2) = (shL k (as.foldl (baStep cx s) acc).1, (as.foldl (baStep cx s) acc).2) ∧
      (((as.foldl (baStep cx s) acc).2 = none ∧ (as.foldl (baStep cx s) acc).1 = -1) ∨ L ≤ (as.foldl (baStep cx s) acc).1) := by
  intro as
  induction as with
  | nil => intro acc ha; exact ⟨rfl, ha⟩
  | cons a as ih =>
    intro acc ha
    obtain ⟨h1, h2⟩ := baStep_shift h hL hLk hB hB0 s hacc hb acc ha a
    simp only [List.foldl_cons]
    rw [h1]
    exact ih _ h2

/-- the best access stop of the shifted problem is the same stop, its departure time moved by `k` -/
theorem bestAccess_shift {k L B : Int} {cx cx' : Ctx} {l : List Conn} (h : CtxShR k cx cx') (hL : 0 ≤ L) (hLk : 0 ≤ L + k)
    (hB : B + k < MAX_INT) (hB0 : B < MAX_INT) (s : RState) (hacc : AccFrom l s) (hb : AccBounds L B cx l) :
    bestAccess cx' (shR k s) = (bestAccess cx s).map fun r => (r.1 + k, r.2) := by
  rw [bestAccess_eq, bestAccess_eq, ← h.same.acc]
  obtain ⟨h1, h2⟩ := baFold_shift h hL hLk hB hB0 s hacc hb cx.accessFoot (-1, none) (Or.inl ⟨rfl, rfl⟩)
  have e0 : shL k (-1) = -1 := rfl
  simp only [e0] at h1
  rw [h1]
  generalize cx.accessFoot.foldl (baStep cx s) (-1, none) = r at *
  obtain ⟨t, o⟩ := r
  cases o with
  | none => rfl
  | some st =>
    simp only [Option.map_some]
    rcases h2 with ⟨h2, _⟩ | h2
    · simp at h2
    · simp only at h2; rw [shL_fin k t L h2 hL]

/-! ### reconstruction + clean-up + emission -/

def shRouteOut (k : Int) : Outcome Route → Outcome Route
  | .ok r => .ok (shRoute k r)
  | .noRouting r => .noRouting r
  | .exception w => .exception w

/-- the journeys the original calculation emits have the access / rides / egress shape -/
def EmitsShaped (cx : Ctx) (s : RState) (best : Option (Int × Nat)) : Prop :=
  ∀ bd node first legs lastStop ac eg o, best = some (bd, node) → s.acc node = some first →
    reconLoop s.steps (cx.ds.nStops + 2) first [] none = some (legs, lastStop) → cx.nodesAccess node = some ac →
    lastStop.bind cx.nodesEgress = some eg →
    optimizeJourney cx.ds ([({ walk := ac.time, dist := ac.dist } : JStep)] ++ legs ++ [({ walk := eg.time, dist := eg.dist } : JStep)]) = some o →
    EmitShape o.journey

theorem reverseJourney_shift {k : Int} {cx cx' : Ctx} (h : CtxShR k cx cx') (ht : TripLists k cx.ds cx'.ds) (he : EmitSame cx.ds cx'.ds)
    (s : RState) (best : Option (Int × Nat)) (hshape : EmitsShaped cx s best) :
    reverseJourney cx' (shR k s) (best.map fun r => (r.1 + k, r.2)) = shRouteOut k (reverseJourney cx s best) := by
  unfold reverseJourney
  cases hb : best with
  | none => rfl
  | some b =>
    obtain ⟨bd, node⟩ := b
    simp only [Option.map_some]
    rw [shR_acc]
    cases hs : s.acc node with
    | none => rfl
    | some first =>
      simp only [Option.map_some]
      have hrec := reconLoop_shift k s.steps (cx.ds.nStops + 2) first [] none
      simp only [List.map_nil] at hrec
      rw [ht.nStops]
      show (match reconLoop (fun n => shJ k (s.steps n)) (cx.ds.nStops + 2) (shJ k first) [] none with
        | none => _ | some (legs, lastStop) => _) = _
      rw [hrec]
      cases hr : reconLoop s.steps (cx.ds.nStops + 2) first [] none with
      | none => rfl
      | some r =>
        obtain ⟨legs, lastStop⟩ := r
        simp only [Option.map_some]
        have hne : ∀ z, cx'.nodesEgress z = cx.nodesEgress z := nodesEgress_same h.same
        have hbn : lastStop.bind cx'.nodesEgress = lastStop.bind cx.nodesEgress := by cases lastStop <;> simp [hne]
        rw [hbn, nodesAccess_same h.same]
        cases hna : cx.nodesAccess node with
        | none => rfl
        | some ac =>
          cases heg : lastStop.bind cx.nodesEgress with
          | none => rfl
          | some eg =>
            simp only
            have hj : [({ walk := ac.time, dist := ac.dist } : JStep)] ++ legs.map (shJ k) ++ [({ walk := eg.time, dist := eg.dist } : JStep)] =
                ([({ walk := ac.time, dist := ac.dist } : JStep)] ++ legs ++ [({ walk := eg.time, dist := eg.dist } : JStep)]).map (shJ k) := by
              simp [shJ]
            rw [hj, optimizeJourney_shift ht]
            cases ho : optimizeJourney cx.ds ([({ walk := ac.time, dist := ac.dist } : JStep)] ++ legs ++ [({ walk := eg.time, dist := eg.dist } : JStep)]) with
            | none => rfl
            | some o =>
              simp only [Option.map_some, shO, shRouteOut, ← h.same.mw]
              congr 1
              exact emit_shift he cx.p.minWait bd o.journey (hshape bd node first legs lastStop ac eg o hb hs hr hna heg ho)

/-! ### the reverse pass of a route query -/

structure RevRange1 (cx : Ctx) (k L B W : Int) : Prop where
  hL : 0 ≤ L
  hLk : 0 ≤ L + k
  hB : B + k < MAX_INT
  hB0 : B < MAX_INT
  hW : 0 ≤ W
  rfoot : ∀ z, ∀ f ∈ cx.ds.rfootOf z, f.time ≤ W
  mw : 0 ≤ cx.p.minWait
  conns : ConnsGe L W cx.p.minWait cx.cs.rev
  egress : LabsInit L cx
  access : AccBounds L B cx cx.cs.rev

theorem singleReverse0_shift {k L B W : Int} {cx cx' : Ctx} (h : CtxShR k cx cx') (ht : TripLists k cx.ds cx'.ds) (he : EmitSame cx.ds cx'.ds)
    (hrev : cx'.cs.rev = cx.cs.rev.map (shiftConn k)) (R : RevRange1 cx k L B W) (u : Nat → Bool)
    (hshape : EmitsShaped cx (revScan cx u true 0) (bestAccess cx (revScan cx u true 0))) :
    singleReverse0 cx' u = shRouteOut k (singleReverse0 cx u) := by
  obtain ⟨hi1, hi2⟩ := RState_init_shift h R.hL R.egress
  have hinv0 : RevInv1 L cx.cs.rev (RState.init cx) :=
    ⟨hi2, by intro hr; simp [RState.init] at hr, by intro n js hjs; simp [RState.init] at hjs⟩
  obtain ⟨hscan, hinv⟩ := revFold_shift1 h R.hL R.hLk R.rfoot R.hW R.mw u cx.cs.rev cx.cs.rev (RState.init cx) (fun c hc => hc) R.conns hinv0
  have hs : revScan cx' u true 0 = shR k (revScan cx u true 0) := by
    unfold revScan; rw [List.drop_zero, List.drop_zero, hrev, hi1]; exact hscan
  have hinv' : RevInv1 L cx.cs.rev (revScan cx u true 0) := by unfold revScan; rw [List.drop_zero]; exact hinv
  unfold singleReverse0
  simp only
  rw [hs]
  have hcount : (shR k (revScan cx u true 0)).count = (revScan cx u true 0).count := rfl
  rw [hcount]
  by_cases hz : (revScan cx u true 0).count = 0
  · simp only [hz, if_true]; rfl
  · simp only [hz, if_false]
    rw [bestAccess_shift h R.hL R.hLk R.hB R.hB0 _ hinv'.acc R.access]
    exact reverseJourney_shift h ht he _ _ hshape

/-! ### the shape hypothesis holds on well-formed data (the chain of C01) -/

theorem journeyOK_emitShape {cx : Ctx} {C : List Conn} {bd : Int} {j : List JStep} (h : JourneyOK cx C bd j) : EmitShape j := by
  obtain ⟨acc, legs, egr, hj, ha, he, hne, hok, _⟩ := h
  exact ⟨acc, legs, egr, hj, ha, he, hne, LegsOK.allLegs hok⟩

/-- with the reverse-scan invariant and a validity-preserving clean-up (both proved for well-formed data: `revScanList_inv`,
    `cleanupPreserves`), every journey the calculation emits has the access / rides / egress shape -/
theorem emitsShaped_of_inv {cx : Ctx} {pre : List Conn} {s : RState} (hI : RInv cx pre s) (hclean : CleanupPreserves cx pre) :
    EmitsShaped cx s (bestAccess cx s) := by
  intro bd node js legs lastStop ac eg o hb hacc hrec hna heg hopt
  obtain ⟨js', e1, ac', hacc', hje, hna', hbd, hbd0, hbdT⟩ := bestAccess_spec hb
  rw [hacc] at hacc'; cases hacc'
  rw [hna] at hna'; cases hna'
  obtain ⟨e1', x1, a1, a2, a3, a4, a5⟩ := hI.acc node js hacc
  rw [hje] at a1; cases a1
  have hconn : js.hasConns = true := (hasConns_iff js).mpr ⟨e1, x1, hje, a2⟩
  have hinit : RecInv cx pre s [] js none := by
    refine ⟨trivial, rfl, ?_, fun h => absurd rfl h⟩
    intro e he; rw [hje] at he; cases he; exact ⟨x1, a2, a3⟩
  have hres := reconLoop_valid hI _ _ _ _ _ _ hinit (fun _ => hconn) hrec
  have hhead := reconLoop_head s.steps _ _ _ _ _ _ (fun _ => hconn) hrec
  simp only [List.nil_append, List.head?_cons, Option.bind_some] at hhead
  obtain ⟨ll, el, xl, hl1, hl2, hl3, hl4, hl5, _, _⟩ := hres.fin
  have hJ : JourneyOK cx pre bd ([{ walk := ac.time, dist := ac.dist }] ++ legs ++ [{ walk := eg.time, dist := eg.dist }]) := by
    refine ⟨_, legs, _, rfl, rfl, rfl, hres.ne, hres.ok, ?_, ?_⟩
    · intro e he
      rw [hhead, hje] at he; cases he
      have hm := nodes_mem hna
      refine ⟨?_, by simp; omega, fun hd => by
        obtain ⟨ac', hna', _, hcap⟩ := a5 hd
        rw [hna] at hna'; cases hna'
        exact hcap⟩
      have : (⟨e1.depStop, ac.time, ac.dist⟩ : NTD) = ac := by
        cases ac; simp at hm ⊢; rw [a4]; exact hm.2.symm
      simp only []
      rw [this]; exact hm.1
    · intro l x hl hx
      rw [hl1] at hl; cases hl
      rw [hl3] at hx; cases hx
      rw [hl4] at heg
      simp only [Option.bind_some] at heg
      have hm := nodes_mem heg
      have : (⟨xl.arrStop, eg.time, eg.dist⟩ : NTD) = eg := by
        cases eg; simp at hm ⊢; exact hm.2.symm
      simp only []
      rw [this]
      refine ⟨hm.1, ?_⟩
      intro hnd
      have hlab := init_lab_egress hnd hm.1
      rw [hm.2] at hlab
      rw [hlab] at hl5
      omega
  exact journeyOK_emitShape (hclean bd _ o hJ hopt)

/-! ### arrival-time route queries in full -/

theorem pathOfTrip_dist_shift (k : Int) (ds : Dataset) (t : Nat) : ((shiftDs k ds).pathOfTrip t).dist = (ds.pathOfTrip t).dist := by
  unfold Dataset.pathOfTrip
  rw [tripRec_shift]
  cases ds.tripRec? t <;> rfl

theorem emitSame_shift (k : Int) (ds : Dataset) : EmitSame ds (shiftDs k ds) :=
  ⟨pathOfTrip_dist_shift k ds, transferable_shift k ds⟩

/-- range conditions of the arrival-time route theorem (all about clock values staying clear of the sentinels -1 and MAX_INT) -/
structure RouteRevRange (ds : Dataset) (p : Params) (k L B W : Int) : Prop where
  hL : 0 ≤ L
  hLk : 0 ≤ L + k
  hB : B + k < MAX_INT
  hB0 : B < MAX_INT
  hW : 0 ≤ W
  rfoot : ∀ z, ∀ f ∈ ds.rfootOf z, f.time ≤ W
  conns : ConnsGe L W p.minWait (ds.connSetOf (ds.scenarioOf p)).rev
  egress : ∀ e ∈ ds.egress, L ≤ p.time - e.time
  access : ∀ e ∈ (ds.connSetOf (ds.scenarioOf p)).rev, ∀ a ∈ ds.access,
    L ≤ e.dep - a.time - e.effWait p.minWait ∧ e.dep - a.time - e.effWait p.minWait ≤ B

/-- **C12 in full for arrival-time route queries**: for every well-formed dataset, every query and every offset (range conditions
    only), the answer of the shifted problem is the shifted answer of the original one - status, reason, and for a route every clock
    time moved by `k`, every duration, distance, count, stop, line and trip unchanged (`shRoute`). The whole pipeline is related step
    by step: reverse scan, best access stop, reconstruction, clean-up, emission. -/
theorem C12_full_route_arrival (ds : Dataset) (hwf : WFData ds) (p : Params) (k L B W : Int) (hal : TripsAligned ds) (hf : p.forward = false)
    (hmw : 0 ≤ p.minWait) (hmt : 0 ≤ p.maxTransfer) (R : RouteRevRange ds p k L B W) :
    calculateSingle0 (shiftDs k ds) (shiftP k p) = shRouteOut k (calculateSingle0 ds p) := by
  have hsc : (shiftDs k ds).scenarioOf (shiftP k p) = ds.scenarioOf p := rfl
  have hfw : (shiftP k p).forward = false := hf
  unfold calculateSingle0 calculateSingleWith0
  simp only [hfw, hf, Bool.false_eq_true, if_false, hsc]
  have ha : routerLookup (shiftDs k ds).access (shiftP k p).maxAccess = routerLookup ds.access p.maxAccess := rfl
  have he : routerLookup (shiftDs k ds).egress (shiftP k p).maxEgress = routerLookup ds.egress p.maxEgress := rfl
  rw [ha, he]
  by_cases g1 : (routerLookup ds.access p.maxAccess).isEmpty = true ∧ (routerLookup ds.egress p.maxEgress).isEmpty = true
  · simp only [g1, and_self, if_true]; rfl
  · simp only [g1, if_false]
    by_cases g2 : (routerLookup ds.access p.maxAccess).isEmpty = true
    · simp only [g2, if_true]; rfl
    · simp only [g2, Bool.false_eq_true, if_false]
      by_cases g3 : (routerLookup ds.egress p.maxEgress).isEmpty = true
      · simp only [g3, if_true]; rfl
      · simp only [g3, Bool.false_eq_true, if_false]
        have hsame := ctxSame_shift' k ds p (routerLookup ds.access p.maxAccess) (routerLookup ds.egress p.maxEgress) (-1) p.time (-1) (shiftP k p).time
        rw [hsc] at hsame
        have hrs : (shiftDs k ds).restrict ((shiftDs k ds).connSetOf (ds.scenarioOf p)) = shiftDs k (ds.restrict (ds.connSetOf (ds.scenarioOf p))) :=
          restrict_shift k ds (ds.scenarioOf p)
        have hsh : CtxShR k
            (mkCtx (ds.restrict (ds.connSetOf (ds.scenarioOf p))) p (ds.connSetOf (ds.scenarioOf p))
              (routerLookup ds.access p.maxAccess) (routerLookup ds.egress p.maxEgress) (-1) p.time)
            (mkCtx ((shiftDs k ds).restrict ((shiftDs k ds).connSetOf (ds.scenarioOf p))) (shiftP k p) ((shiftDs k ds).connSetOf (ds.scenarioOf p))
              (routerLookup ds.access p.maxAccess) (routerLookup ds.egress p.maxEgress) (-1) (shiftP k p).time) := by
          refine ⟨hsame, rfl, rfl, rfl, Or.inl ⟨rfl, rfl⟩, ?_, ?_⟩
          · intro t; show ((shiftDs k ds).restrict _).transferable t = _; rw [hrs, transferable_shift]; rfl
          · show ((shiftDs k ds).restrict _).nStops = _; rw [hrs]; rfl
        have htl : TripLists k (ds.restrict (ds.connSetOf (ds.scenarioOf p))) ((shiftDs k ds).restrict ((shiftDs k ds).connSetOf (ds.scenarioOf p))) := by
          rw [hrs]; exact tripLists_shift k _ (aligned_restrict ds _ hal)
        have hes : EmitSame (ds.restrict (ds.connSetOf (ds.scenarioOf p))) ((shiftDs k ds).restrict ((shiftDs k ds).connSetOf (ds.scenarioOf p))) := by
          rw [hrs]; exact emitSame_shift k _
        -- the invariants of the original run (the chain of C01)
        have hsub := connSetOf_rev_sub ds (ds.scenarioOf p)
        have hm : ArrMono (ds.connSetOf (ds.scenarioOf p)).rev :=
          fun x hx y hy => conns_arrMono hwf.toWFSchedule x (hsub x hx) y (hsub y hy)
        have hclean := cleanupPreserves (timeWF_dataset hwf p hmw hmt (ds.scenarioOf p) (routerLookup ds.access p.maxAccess) (routerLookup ds.egress p.maxEgress) (-1) p.time)
          (sliceOK_dataset hwf p (ds.scenarioOf p) (routerLookup ds.access p.maxAccess) (routerLookup ds.egress p.maxEgress) (-1) p.time)
        generalize hcx : mkCtx (ds.restrict (ds.connSetOf (ds.scenarioOf p))) p (ds.connSetOf (ds.scenarioOf p))
              (routerLookup ds.access p.maxAccess) (routerLookup ds.egress p.maxEgress) (-1) p.time = cx at *
        generalize hcx' : mkCtx ((shiftDs k ds).restrict ((shiftDs k ds).connSetOf (ds.scenarioOf p))) (shiftP k p) ((shiftDs k ds).connSetOf (ds.scenarioOf p))
              (routerLookup ds.access p.maxAccess) (routerLookup ds.egress p.maxEgress) (-1) (shiftP k p).time = cx' at *
        have hrevl : cx.cs.rev = (ds.connSetOf (ds.scenarioOf p)).rev := by rw [← hcx]; rfl
        have hrev : cx'.cs.rev = cx.cs.rev.map (shiftConn k) := by rw [← hcx, ← hcx']; exact rev_list_shift k ds hal _
        have hR : RevRange1 cx k L B W := by
          refine ⟨R.hL, R.hLk, R.hB, R.hB0, R.hW, ?_, ?_, ?_, ?_, ?_⟩
          · rw [← hcx]; exact R.rfoot
          · rw [← hcx]; exact hmw
          · rw [← hcx]; exact R.conns
          · rw [← hcx]; intro e he'
            simp only [mkCtx, routerLookup, List.mem_filter] at he'
            exact R.egress e he'.1
          · rw [← hcx]; intro e he' a ha'
            simp only [mkCtx, routerLookup, List.mem_filter] at ha'
            exact R.access e he' a ha'.1
        have hmwc : 0 ≤ cx.p.minWait := by rw [← hcx]; exact hmw
        have hinv : RInv cx cx.cs.rev (revScan cx (fun _ => true) true 0) := by
          have hsorted : SortedRev ([] ++ cx.cs.rev) := by rw [List.nil_append, hrevl]; exact connSetOf_sorted ds _
          have := revScanList_inv (cx := cx) (fun _ => true) true cx.cs.rev (by rw [hrevl]; exact hm) hmwc cx.cs.rev [] (RState.init cx)
            (by simp) hsorted (init_RInv cx)
          simp only [List.nil_append] at this
          unfold revScan; rw [List.drop_zero]; exact this
        have hclean' : CleanupPreserves cx cx.cs.rev := by rw [hrevl]; exact hclean
        have htl' : TripLists k cx.ds cx'.ds := by rw [← hcx, ← hcx']; exact htl
        have hes' : EmitSame cx.ds cx'.ds := by rw [← hcx, ← hcx']; exact hes
        exact singleReverse0_shift hsh htl' hes' hrev hR (fun _ => true) (emitsShaped_of_inv hinv hclean')

/-- non-vacuity: the hypotheses of `C12_full_route_arrival` hold of the example dataset for an offset that moves the request across an
    hour mark, and the two routes are shifted copies of each other (every field) -/
theorem nv_full_route_arrival :
    RouteRevRange nvDs' nvRev' 1700 600 100000 60 ∧
    (match calculateSingle nvDs' nvRev', calculateSingle (shiftDs 1700 nvDs') (shiftP 1700 nvRev') with
      | .ok r, .ok r' => decide (shRoute 1700 r = r') && decide (r.steps.length = 4)
      | _, _ => false) = true := by
  refine ⟨⟨by decide, by decide, by decide, by decide, by decide, ?_, ?_, by decide, ?_⟩, by decide⟩
  · intro z f hf
    obtain ⟨x, hx, e⟩ := rfootOf_time_mem _ z f hf
    have : ∀ x ∈ nvDs'.foot, x.time ≤ 60 := by decide
    rw [e]; exact this x hx
  · unfold ConnsGe; decide
  · decide

/-- the same for the calculation WITH the hour index, inside [0, 32 h) on both sides -/
theorem C12_full_route_arrival_indexed (ds : Dataset) (hwf : WFData ds) (p : Params) (k L B W : Int) (hal : TripsAligned ds) (hf : p.forward = false)
    (hmw : 0 ≤ p.minWait) (hmt : 0 ≤ p.maxTransfer) (R : RouteRevRange ds p k L B W)
    (h0 : 0 ≤ p.time) (ht : p.time < (HOUR_END : Int) * 3600) (h0' : 0 ≤ p.time + k) (ht' : p.time + k < (HOUR_END : Int) * 3600)
    (hacc : ∀ a ∈ ds.access, 0 ≤ a.time) (hegr : ∀ g ∈ ds.egress, 0 ≤ g.time) :
    calculateSingle (shiftDs k ds) (shiftP k p) = shRouteOut k (calculateSingle ds p) := by
  rw [C12_index_transparent_route ds p h0 ht hacc hegr, C12_index_transparent_route (shiftDs k ds) (shiftP k p) h0' ht' hacc hegr]
  exact C12_full_route_arrival ds hwf p k L B W hal hf hmw hmt R

end Tr
