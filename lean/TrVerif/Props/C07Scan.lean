/-
  Property C07, the scan part — NO_SERVICE_FROM_ORIGIN characterised by the data.

  The forward pass counts a connection when it passes every test *on the tables as they are when
  it is met*. While nothing has been counted the tables are the initial ones (only counted
  connections change them), so "nothing was counted" is a statement about the connections and the
  access stops alone: `CaughtF`.
-/
import TrVerif.Proofs.Forward
import TrVerif.Model.Calc
namespace Tr

/-- connection `c` would be counted by the forward pass on the initial tables: it leaves no earlier
    than the requested time plus the shortest access walk, its trip is not excluded by the query,
    it leaves within max_travel_time, and a traveller walking from the place stands at its
    boarding stop no later than its departure minus the minimum waiting time (and, when a
    first-waiting cap is in force and the stop is an access stop, waits no longer than the cap) -/
def CaughtF (cx : Ctx) (c : Conn) : Prop :=
  c.dep ≥ cx.depT + cx.minAccess ∧ cx.disabled c.trip = false ∧ c.dep - cx.depT ≤ cx.p.maxTotal ∧
  (FState.init cx).tent c.depStop ≤ c.dep - c.effWait cx.p.minWait ∧
  (¬ (decide (cx.p.maxFirstWait > 0) && ((cx.nodesAccess c.depStop).any fun a => decide (a.time ≥ 0))) = true ∨
    c.dep - (FState.init cx).tent c.depStop ≤ cx.p.maxFirstWait)

theorem fwdFoot_count (cx : Ctx) (c : Conn) (s : FState) (f : NTD) : (fwdFoot cx c s f).count = s.count := by
  unfold fwdFoot
  simp only
  split
  · rfl
  · split
    · split <;> split <;> rfl
    · rfl

theorem fwdFoot_fold_count (cx : Ctx) (c : Conn) : ∀ (l : List NTD) (s : FState), (l.foldl (fwdFoot cx c) s).count = s.count := by
  intro l
  induction l with
  | nil => intro s; rfl
  | cons f rest ih => intro s; rw [List.foldl_cons, ih, fwdFoot_count]

theorem fwdEnter_count (s : FState) (c : Conn) : (fwdEnter s c).count = s.count := by
  unfold fwdEnter; split <;> rfl

theorem fwdAlight_count (cx : Ctx) (single : Bool) (s : FState) (c : Conn) : (fwdAlight cx single s c).count = s.count := by
  unfold fwdAlight
  split
  · simp only
    rw [fwdFoot_fold_count]
    split <;> rfl
  · rfl

theorem fwdStep_count_mono (cx : Ctx) (single : Bool) (s : FState) (c : Conn) : s.count ≤ (fwdStep cx single s c).count := by
  rcases fwdStep_cases cx single s c with h | h | ⟨_, _, h⟩
  · rw [h]; exact Nat.le_refl _
  · rw [h]; exact Nat.le_refl _
  · rw [h]; simp only; rw [fwdAlight_count, fwdEnter_count]; omega

theorem fold_count_mono (cx : Ctx) (single : Bool) : ∀ (l : List Conn) (s : FState), s.count ≤ (l.foldl (fwdStep cx single) s).count := by
  intro l
  induction l with
  | nil => intro s; exact Nat.le_refl _
  | cons c rest ih => intro s; rw [List.foldl_cons]; exact Nat.le_trans (fwdStep_count_mono cx single s c) (ih _)

/-- one step from the initial tables (possibly with the stop flag set) -/
theorem fwdStep_init (cx : Ctx) (single : Bool) (b : Bool) (c : Conn) :
    let s : FState := { FState.init cx with stop := b }
    (b = false ∧ CaughtF cx c → 1 ≤ (fwdStep cx single s c).count) ∧
    (¬ (b = false ∧ CaughtF cx c) →
      fwdStep cx single s c = { FState.init cx with stop := b || decide (cx.disabled c.trip = false ∧ c.dep ≥ cx.depT + cx.minAccess ∧ c.dep - cx.depT > cx.p.maxTotal) }) := by
  intro s
  have hinitE : ∀ T, (FState.init cx).enterC T = none := fun _ => rfl
  have hinitR : (FState.init cx).reached = false := rfl
  have hinitS : ∀ y, ((FState.init cx).steps y).enter = none := by
    intro y
    unfold FState.init
    simp only
    have key : ∀ (l : List NTD) (f : Nat → JStep), (f y).enter = none →
        ((l.foldl (fun f e => upd f e.stop ({ walk := e.time, dist := e.dist } : JStep)) f) y).enter = none := by
      intro l
      induction l with
      | nil => intro f h; exact h
      | cons a rest ih =>
        intro f h
        rw [List.foldl_cons]
        apply ih
        by_cases hy : y = a.stop
        · subst hy; simp
        · rw [upd_other _ _ _ _ hy]; exact h
    exact key _ _ rfl
  constructor
  · rintro ⟨hb, h1, h2, h3, h4, h5⟩
    subst hb
    unfold fwdStep
    have e0 : s.stop = false := rfl
    rw [if_neg (by rw [e0]; simp)]
    rw [if_neg (by simpa using h1)]
    rw [if_neg (by rw [h2]; simp)]
    simp only
    rw [if_neg (by
      intro hh
      rcases hh with ⟨_, hr, _⟩ | hh
      · have : s.reached = false := hinitR
        rw [this] at hr; cases hr
      · omega)]
    have hcond : ((s.enterC c.trip).isSome = true ∨ s.tent c.depStop ≤ c.dep - c.effWait cx.p.minWait) ∧
        (¬ (decide (cx.p.maxFirstWait > 0) && ((cx.nodesAccess c.depStop).any fun a => decide (a.time ≥ 0)) &&
            (s.steps c.depStop).enter.isNone) = true ∨ c.dep - s.tent c.depStop ≤ cx.p.maxFirstWait) := by
      refine ⟨Or.inr h4, ?_⟩
      rcases h5 with h5 | h5
      · left
        intro hh
        apply h5
        simp only [Bool.and_eq_true] at hh ⊢
        exact hh.1
      · exact Or.inr h5
    rw [if_neg (by intro hh; exact hh hcond)]
    simp only
    omega
  · intro hn
    unfold fwdStep
    by_cases hb : b = true
    · have e0 : s.stop = true := hb
      rw [if_pos e0]
      subst hb; simp [s]
    · have hbf : b = false := by simpa using hb
      subst hbf
      have e0 : s.stop = false := rfl
      rw [if_neg (by rw [e0]; simp)]
      by_cases h1 : c.dep ≥ cx.depT + cx.minAccess
      · rw [if_neg (by simpa using h1)]
        by_cases h2 : cx.disabled c.trip = true
        · rw [if_pos h2]; simp [s, h2]
        · rw [if_neg h2]
          have h2' : cx.disabled c.trip = false := by simpa using h2
          simp only
          by_cases h3 : c.dep - cx.depT > cx.p.maxTotal
          · rw [if_pos (Or.inr h3)]
            simp [s, h2', h1, h3]
          · rw [if_neg (by
              intro hh
              rcases hh with ⟨_, hr, _⟩ | hh
              · have : s.reached = false := hinitR
                rw [this] at hr; cases hr
              · exact h3 hh)]
            -- the boarding test must fail, otherwise `c` is caught
            rw [if_pos]
            · simp [s, h2', h1, h3]
            · intro hcond
              apply hn
              refine ⟨rfl, h1, h2', by omega, ?_, ?_⟩
              · rcases hcond.1 with hh | hh
                · have : (s.enterC c.trip) = none := hinitE _
                  rw [this] at hh; cases hh
                · exact hh
              · rcases hcond.2 with hh | hh
                · left
                  intro h6
                  apply hh
                  have : (s.steps c.depStop).enter.isNone = true := by
                    have := hinitS c.depStop
                    show ((FState.init cx).steps c.depStop).enter.isNone = true
                    rw [this]; rfl
                  simp only [Bool.and_eq_true] at h6 ⊢
                  exact ⟨h6, this⟩
                · exact Or.inr hh
      · rw [if_pos (by simpa using h1)]
        simp [s, h1]

/-- **the forward pass counts nothing exactly when no scanned connection can be caught** -/
theorem fwdScan_count_zero (cx : Ctx) (single : Bool) (hs : SortedFwd cx.cs.fwd) (start : Nat) :
    (fwdScan cx single start).count = 0 ↔ ∀ c ∈ cx.cs.fwd.drop start, ¬ CaughtF cx c := by
  unfold fwdScan
  have hsd : SortedFwd (cx.cs.fwd.drop start) := List.Pairwise.sublist (List.drop_sublist _ _) hs
  generalize cx.cs.fwd.drop start = l at hsd
  -- invariant: state = initial tables with stop flag b; if b, every remaining connection leaves too late or is not scanned
  have key : ∀ (l : List Conn) (b : Bool), SortedFwd l →
      (b = true → ∀ c ∈ l, ¬ CaughtF cx c) →
      ((l.foldl (fwdStep cx single) { FState.init cx with stop := b }).count = 0 ↔ ∀ c ∈ l, ¬ CaughtF cx c) := by
    intro l
    induction l with
    | nil => intro b _ _; simp [FState.init]
    | cons c rest ih =>
      intro b hsorted hb
      rw [List.foldl_cons]
      obtain ⟨h1, h2⟩ := fwdStep_init cx single b c
      by_cases hc : b = false ∧ CaughtF cx c
      · have := h1 hc
        have hm := fold_count_mono cx single rest (fwdStep cx single { FState.init cx with stop := b } c)
        constructor
        · intro h0; omega
        · intro hall; exact absurd hc.2 (hall c (List.mem_cons_self ..))
      · rw [h2 hc]
        have hsr : SortedFwd rest := (List.pairwise_cons.mp hsorted).2
        have hb' : (b || decide (cx.disabled c.trip = false ∧ c.dep ≥ cx.depT + cx.minAccess ∧ c.dep - cx.depT > cx.p.maxTotal)) = true →
            ∀ d ∈ rest, ¬ CaughtF cx d := by
          intro hbb d hd
          rcases Bool.or_eq_true _ _ |>.mp hbb with hb1 | hb1
          · exact hb hb1 d (List.mem_cons_of_mem _ hd)
          · have hlate : c.dep - cx.depT > cx.p.maxTotal := (of_decide_eq_true hb1).2.2
            have hord := (List.pairwise_cons.mp hsorted).1 d hd
            simp only [fwdLt, Bool.or_eq_false_iff, decide_eq_false_iff_not] at hord
            intro hcd
            have := hcd.2.2.1
            omega
        rw [ih _ hsr hb']
        constructor
        · intro hall d hd
          rcases List.mem_cons.mp hd with rfl | hd'
          · intro hcd
            by_cases hbb : b = true
            · exact hb hbb d (List.mem_cons_self ..) hcd
            · exact hc ⟨by simpa using hbb, hcd⟩
          · exact hall d hd'
        · intro hall d hd; exact hall d (List.mem_cons_of_mem _ hd)
  have := key l false hsd (by intro h; cases h)
  simpa [FState.init] using this

/-- the second pass never reports "no service from the origin" -/
theorem reverseJourney_ne (cx : Ctx) (s : RState) (b : Option (Int × Nat)) :
    reverseJourney cx s b ≠ .noRouting .noServiceFromOrigin := by
  unfold reverseJourney
  intro h
  split at h
  · cases h
  · split at h
    · cases h
    · split at h
      · cases h
      · split at h
        · simp only at h
          split at h <;> cases h
        · cases h

theorem singleReverse_ne (cx : Ctx) (u : Nat → Bool) : singleReverse cx u ≠ .noRouting .noServiceFromOrigin := by
  unfold singleReverse
  intro h
  split at h
  · cases h
  · simp only at h
    split at h
    · cases h
    · exact reverseJourney_ne _ _ _ h

/-- **C07 (NO_SERVICE_FROM_ORIGIN, route endpoint).** For a departure-time query whose both walking
    look-ups offer a stop: the answer is NO_SERVICE_FROM_ORIGIN exactly when no connection of the
    scanned range (from the position the hour index gives; `C07_index_transparent` below: the
    connections before it leave before the requested hour) can be caught from an access stop. -/
theorem C07_no_service_from_origin (ds : Dataset) (cs : ConnSet) (p : Params) (acc egr : List NTD)
    (hp : p.forward = true) (hs : SortedFwd cs.fwd) (ha : acc ≠ []) (he : egr ≠ []) (start : Nat)
    (hst : lookupPos (fwdLookup cs.fwd cs.fwdIdx (hourOf p.time)) = some start) :
    calculateSingleWith ds cs p acc egr = .noRouting .noServiceFromOrigin ↔
      ∀ c ∈ cs.fwd.drop start, ¬ CaughtF (mkCtx ds p cs acc egr p.time (-1)) c := by
  have ha' : acc.isEmpty = false := by cases acc with | nil => exact absurd rfl ha | cons _ _ => rfl
  have he' : egr.isEmpty = false := by cases egr with | nil => exact absurd rfl he | cons _ _ => rfl
  have hcount := fwdScan_count_zero (mkCtx ds p cs acc egr p.time (-1)) true hs start
  unfold calculateSingleWith
  simp only [ha', he', Bool.false_eq_true, false_and, and_false, if_false, hp, if_true]
  have hst' : lookupPos (fwdLookup (mkCtx ds p cs acc egr p.time (-1)).cs.fwd (mkCtx ds p cs acc egr p.time (-1)).cs.fwdIdx (hourOf p.time)) = some start := hst
  rw [hst']
  simp only
  by_cases h0 : (fwdScan (mkCtx ds p cs acc egr p.time (-1)) true start).count = 0
  · rw [if_pos h0]
    exact ⟨fun _ => hcount.mp h0, fun _ => rfl⟩
  · rw [if_neg h0]
    constructor
    · intro h
      exfalso
      split at h
      · cases h
      · exact singleReverse_ne _ _ h
    · intro hall; exact absurd (hcount.mpr hall) h0

theorem collectNodes_noRouting (f : Nat → Outcome (Option AccNode)) :
    ∀ (ns : List Nat) (acc : List AccNode) (r : Reason), collectNodes f ns acc = .noRouting r → ∃ n ∈ ns, f n = .noRouting r := by
  intro ns
  induction ns with
  | nil => intro acc r h; simp [collectNodes] at h
  | cons n rest ih =>
    intro acc r h
    unfold collectNodes at h
    cases hf : f n with
    | ok o =>
      cases o with
      | none =>
        simp only [hf] at h
        obtain ⟨m, hm, hfm⟩ := ih acc r h
        exact ⟨m, List.mem_cons_of_mem _ hm, hfm⟩
      | some b =>
        simp only [hf] at h
        obtain ⟨m, hm, hfm⟩ := ih _ r h
        exact ⟨m, List.mem_cons_of_mem _ hm, hfm⟩
    | noRouting r' =>
      simp only [hf, Outcome.noRouting.injEq] at h
      subst h
      exact ⟨n, List.mem_cons_self .., hf⟩
    | exception w => simp [hf] at h

theorem forwardNode_ne (cx : Ctx) (s : FState) (n : Nat) (r : Reason) : forwardNode cx s n ≠ .noRouting r := by
  unfold forwardNode
  intro h
  split at h
  · cases h
  · split at h
    · cases h
    · split at h
      · split at h <;> cases h
      · cases h

/-- the same for the accessibility endpoint (rendered NO_SERVICE_AT_PLACE) -/
theorem C07_no_service_at_place_forward (ds : Dataset) (cs : ConnSet) (p : Params)
    (hp : p.forward = true) (hs : SortedFwd cs.fwd) (ha : routerLookup ds.access p.maxAccess ≠ []) (start : Nat)
    (hst : lookupPos (fwdLookup cs.fwd cs.fwdIdx (hourOf p.time)) = some start) :
    calculateAllNodesCS ds cs p = .noRouting .noServiceFromOrigin ↔
      ∀ c ∈ cs.fwd.drop start, ¬ CaughtF (mkCtx (ds.restrict cs) p cs (routerLookup ds.access p.maxAccess) [] p.time (-1)) c := by
  have ha' : (routerLookup (ds.restrict cs).access p.maxAccess).isEmpty = false := by
    show (routerLookup ds.access p.maxAccess).isEmpty = false
    cases h : routerLookup ds.access p.maxAccess with | nil => exact absurd h ha | cons _ _ => rfl
  have hcount := fwdScan_count_zero (mkCtx (ds.restrict cs) p cs (routerLookup ds.access p.maxAccess) [] p.time (-1)) false hs start
  unfold calculateAllNodesCS
  simp only [hp, if_true, ha', Bool.false_eq_true, if_false]
  have hst' : lookupPos (fwdLookup (mkCtx (ds.restrict cs) p cs (routerLookup (ds.restrict cs).access p.maxAccess) [] p.time (-1)).cs.fwd
      (mkCtx (ds.restrict cs) p cs (routerLookup (ds.restrict cs).access p.maxAccess) [] p.time (-1)).cs.fwdIdx (hourOf p.time)) = some start := hst
  rw [hst']
  simp only
  by_cases h0 : (fwdScan (mkCtx (ds.restrict cs) p cs (routerLookup (ds.restrict cs).access p.maxAccess) [] p.time (-1)) false start).count = 0
  · rw [if_pos h0]
    exact ⟨fun _ => hcount.mp h0, fun _ => rfl⟩
  · rw [if_neg h0]
    constructor
    · intro h
      exfalso
      split at h
      · cases h
      · rename_i r hcoll
        obtain ⟨n, _, hn⟩ := collectNodes_noRouting _ _ _ _ hcoll
        exact forwardNode_ne _ _ _ _ hn
      · cases h
    · intro hall; exact absurd (hcount.mpr hall) h0

/-! ### the hour index is transparent: what lies before the start position leaves before the requested hour -/

/-- every position stored for hour `k` has only earlier-than-`k` departures before it -/
@[reducible] def IdxOK (all : List Conn) (acc : List Nat) : Prop :=
  ∀ (k q : Nat), acc[k]? = some q → ∀ c ∈ all.take q, c.dep < ((k : Nat) : Int) * 3600

theorem getElem?_append_replicate {acc : List Nat} {n v k q : Nat} (h : (acc ++ List.replicate n v)[k]? = some q) :
    acc[k]? = some q ∨ (acc.length ≤ k ∧ q = v) := by
  by_cases hk : k < acc.length
  · left; rwa [List.getElem?_append_left hk] at h
  · right
    rw [List.getElem?_append_right (by omega)] at h
    refine ⟨by omega, ?_⟩
    rw [List.getElem?_replicate] at h
    split at h
    · simpa using h.symm
    · cases h

theorem fwdIndexLoop_spec (all : List Conn) : ∀ (cs done : List Conn) (hour : Nat) (acc : List Nat),
    all = done ++ cs → acc.length = hour → (∀ c ∈ done, c.dep < (hour : Int) * 3600) → IdxOK all acc →
    (fwdIndexLoop cs hour done.length acc).2.length = (fwdIndexLoop cs hour done.length acc).1 ∧
    (∀ c ∈ all, c.dep < ((fwdIndexLoop cs hour done.length acc).1 : Int) * 3600) ∧
    IdxOK all (fwdIndexLoop cs hour done.length acc).2 := by
  intro cs
  induction cs with
  | nil =>
    intro done hour acc hall hlen hdone hidx
    simp only [fwdIndexLoop]
    refine ⟨hlen, ?_, hidx⟩
    rw [hall]; simpa using hdone
  | cons c rest ih =>
    intro done hour acc hall hlen hdone hidx
    have hall' : all = (done ++ [c]) ++ rest := by rw [hall]; simp
    have hpos : (done ++ [c]).length = done.length + 1 := by simp
    unfold fwdIndexLoop
    by_cases hc : c.dep ≥ (hour : Int) * 3600
    · rw [if_pos hc]
      simp only
      have hn : ((c.dep / 3600 - hour + 1).toNat : Int) = c.dep / 3600 - hour + 1 := by
        have : 0 ≤ c.dep / 3600 - hour + 1 := by omega
        omega
      rw [← hpos]
      apply ih (done ++ [c]) _ _ hall'
      · simp [hlen]
      · intro d hd
        have hcast : ((hour + (c.dep / 3600 - ↑hour + 1).toNat : Nat) : Int) = c.dep / 3600 + 1 := by
          push_cast; omega
        rw [hcast]
        rcases List.mem_append.mp hd with h1 | h1
        · have := hdone d h1; omega
        · simp at h1; subst h1; omega
      · intro k q hq d hd
        rcases getElem?_append_replicate hq with h1 | ⟨h1, h2⟩
        · exact hidx k q h1 d hd
        · subst h2
          have htake : all.take done.length = done := by rw [hall]; simp
          rw [htake] at hd
          have := hdone d hd
          have : (hour : Int) ≤ k := by omega
          omega
    · rw [if_neg hc]
      rw [← hpos]
      apply ih (done ++ [c]) _ _ hall' hlen
      · intro d hd
        rcases List.mem_append.mp hd with h1 | h1
        · exact hdone d h1
        · simp at h1; subst h1; omega
      · exact hidx

theorem fwdIndex_spec (l : List Conn) : IdxOK l (fwdIndex l) := by
  unfold fwdIndex
  have h := fwdIndexLoop_spec l l [] 0 [] (by simp) rfl (by simp) (by intro k q h; simp at h)
  simp only [List.length_nil] at h
  generalize fwdIndexLoop l 0 0 [] = r at h
  obtain ⟨hour, acc⟩ := r
  simp only at h ⊢
  obtain ⟨h1, h2, h3⟩ := h
  intro k q hq d hd
  rcases getElem?_append_replicate hq with h4 | ⟨h4, h5⟩
  · exact h3 k q h4 d hd
  · have := h2 d (List.mem_of_mem_take hd)
    have : (hour : Int) ≤ k := by omega
    omega

/-- connections before the start position of a departure-time scan leave before the requested time -/
theorem before_start_early (cs : ConnSet) (hidx : cs.fwdIdx = fwdIndex cs.fwd) (t : Int) (h0 : 0 ≤ t) (start : Nat)
    (hst : lookupPos (fwdLookup cs.fwd cs.fwdIdx (hourOf t)) = some start) (ht : t < (HOUR_END : Int) * 3600) :
    ∀ c ∈ cs.fwd.take start, c.dep < t := by
  unfold fwdLookup hourOf at hst
  have hh : ¬ (t / 3600 ≥ (HOUR_END : Int) ∨ t / 3600 < 0) := by
    simp only [HOUR_END] at ht ⊢; omega
  rw [if_neg hh] at hst
  cases hi : cs.fwdIdx[(t / 3600).toNat]? with
  | none => rw [hi] at hst; simp [lookupPos] at hst
  | some q =>
    rw [hi] at hst
    simp only [lookupPos, Option.some.injEq] at hst
    subst hst
    rw [hidx] at hi
    intro c hc
    have := fwdIndex_spec cs.fwd _ _ hi c hc
    have hcast : (((t / 3600).toNat : Nat) : Int) = t / 3600 := by
      have : 0 ≤ t / 3600 := by omega
      omega
    rw [hcast] at this
    omega

theorem minTime_nonneg (l : List NTD) (h : ∀ a ∈ l, 0 ≤ a.time) : 0 ≤ minTime l := by
  unfold minTime
  have key : ∀ (l : List NTD) (m : Int), 0 ≤ m → (∀ a ∈ l, 0 ≤ a.time) →
      0 ≤ l.foldl (fun m e => if e.time < m then e.time else m) m := by
    intro l
    induction l with
    | nil => intro m hm _; exact hm
    | cons a rest ih =>
      intro m hm hl
      rw [List.foldl_cons]
      apply ih _ _ (fun b hb => hl b (List.mem_cons_of_mem _ hb))
      split
      · exact hl a (List.mem_cons_self ..)
      · exact hm
  exact key l MAX_INT (by simp [MAX_INT]) h

/-- **C07 (NO_SERVICE_FROM_ORIGIN by the data).** For a departure-time query inside the clock range
    [0, 32 h), with non-negative access walks and both look-ups offering a stop: the answer is
    NO_SERVICE_FROM_ORIGIN exactly when NO connection of the scenario's connection set can be
    caught from an access stop within the limits (`CaughtF`). -/
theorem C07_no_service_from_origin_data (ds : Dataset) (cs : ConnSet) (p : Params) (acc egr : List NTD)
    (hp : p.forward = true) (hs : SortedFwd cs.fwd) (hidx : cs.fwdIdx = fwdIndex cs.fwd)
    (ha : acc ≠ []) (he : egr ≠ []) (hacc : ∀ a ∈ acc, 0 ≤ a.time)
    (h0 : 0 ≤ p.time) (ht : p.time < (HOUR_END : Int) * 3600) (start : Nat)
    (hst : lookupPos (fwdLookup cs.fwd cs.fwdIdx (hourOf p.time)) = some start) :
    calculateSingleWith ds cs p acc egr = .noRouting .noServiceFromOrigin ↔
      ∀ c ∈ cs.fwd, ¬ CaughtF (mkCtx ds p cs acc egr p.time (-1)) c := by
  rw [C07_no_service_from_origin ds cs p acc egr hp hs ha he start hst]
  constructor
  · intro h c hc
    rw [← List.take_append_drop start cs.fwd] at hc
    rcases List.mem_append.mp hc with h1 | h1
    · intro hcd
      have hearly := before_start_early cs hidx p.time h0 start hst ht c h1
      have hmin : 0 ≤ (mkCtx ds p cs acc egr p.time (-1)).minAccess := minTime_nonneg acc hacc
      have := hcd.1
      have hd : (mkCtx ds p cs acc egr p.time (-1)).depT = p.time := rfl
      rw [hd] at this
      omega
    · exact h c h1
  · intro h c hc; exact h c (List.mem_of_mem_drop hc)

end Tr
