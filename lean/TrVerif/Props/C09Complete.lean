/-
  Property C09, the completeness half: every stop from which the place can still be reached by the
  requested time (within max_travel_time) is listed, with a nodeTime at least as late as any
  usable boarding there minus its minimum waiting time. With `C09_sound`: the listed stops are
  exactly the usable ones and nodeTime is the latest time to stand there.

  Domain (hypotheses, all named): well-formed data, every hop takes positive time, non-negative
  egress walks, the router lists each stop once, transfer maximum not negative, request inside the
  clock range [0, 32 h).
-/
import TrVerif.Proofs.ReverseComplete
import TrVerif.Props.C08Complete
namespace Tr

/-! ### the reverse hour index is transparent -/

/-- every position stored for hour `k >= 1` has only later-than-`k` arrivals before it -/
@[reducible] def RIdxOK (all : List Conn) (idx : List Nat) : Prop :=
  ∀ (k q : Nat), 1 ≤ k → idx[k]? = some q → ∀ c ∈ all.take q, c.arr > ((k : Nat) : Int) * 3600

/-- invariant of the index loops: `acc` holds the positions of hours `hour+1 ..`, -/
structure RJ (all done : List Conn) (hour : Nat) (acc : List Nat) : Prop where
  len : acc.length + hour = HOUR_END - 1
  ent : ∀ (j q : Nat), acc[j]? = some q → ∀ c ∈ all.take q, c.arr > ((hour + 1 + j : Nat) : Int) * 3600
  late : hour = 0 ∨ ∀ c ∈ done, c.arr > ((hour : Nat) : Int) * 3600

theorem revInner_spec (all done : List Conn) (c : Conn) (rest : List Conn) (hall : all = done ++ c :: rest) :
    ∀ (hour : Nat) (acc : List Nat), RJ all done hour acc →
      RJ all (done ++ [c]) (revInner c.arr done.length hour acc).1 (revInner c.arr done.length hour acc).2 := by
  intro hour
  induction hour with
  | zero =>
    intro acc h
    simp only [revInner]
    exact ⟨h.len, h.ent, Or.inl rfl⟩
  | succ hh ih =>
    intro acc h
    unfold revInner
    by_cases hc : c.arr ≤ ((hh + 1 : Nat) : Int) * 3600
    · rw [if_pos hc]
      apply ih
      have hlate : ∀ d ∈ done, d.arr > ((hh + 1 : Nat) : Int) * 3600 := by
        rcases h.late with h0 | h0
        · omega
        · exact h0
      refine ⟨by have := h.len; simp; omega, ?_, ?_⟩
      · intro j q hq d hd
        cases j with
        | zero =>
          simp only [List.getElem?_cons_zero, Option.some.injEq] at hq
          subst hq
          have htake : all.take done.length = done := by rw [hall]; simp
          rw [htake] at hd
          have := hlate d hd
          push_cast at this ⊢
          omega
        | succ j' =>
          simp only [List.getElem?_cons_succ] at hq
          have := h.ent j' q hq d hd
          push_cast at this ⊢
          omega
      · right
        intro d hd
        have := hlate d hd
        push_cast at this ⊢
        omega
    · rw [if_neg hc]
      refine ⟨h.len, h.ent, Or.inr ?_⟩
      intro d hd
      rcases List.mem_append.mp hd with h1 | h1
      · rcases h.late with h0 | h0
        · omega
        · exact h0 d h1
      · simp at h1; subst h1; omega

theorem revIndexLoop_spec (all : List Conn) : ∀ (cs done : List Conn) (hour : Nat) (acc : List Nat),
    all = done ++ cs → RJ all done hour acc →
    RJ all all (revIndexLoop cs hour done.length acc).1 (revIndexLoop cs hour done.length acc).2 := by
  intro cs
  induction cs with
  | nil =>
    intro done hour acc hall h
    simp only [revIndexLoop]
    have : all = done := by rw [hall]; simp
    rw [this] at h ⊢; exact h
  | cons c rest ih =>
    intro done hour acc hall h
    unfold revIndexLoop
    have hstep := revInner_spec all done c rest hall hour acc h
    generalize revInner c.arr done.length hour acc = r at hstep
    obtain ⟨h', acc'⟩ := r
    simp only at hstep ⊢
    have hpos : (done ++ [c]).length = done.length + 1 := by simp
    rw [← hpos]
    exact ih (done ++ [c]) h' acc' (by rw [hall]; simp) hstep

theorem revIndex_spec (l : List Conn) : RIdxOK l (revIndex l) := by
  unfold revIndex
  have h := revIndexLoop_spec l l [] (HOUR_END - 1) [] (by simp)
    ⟨by simp, by intro j q hq; simp at hq, Or.inr (by intro c hc; cases hc)⟩
  simp only [List.length_nil] at h
  generalize revIndexLoop l (HOUR_END - 1) 0 [] = r at h
  obtain ⟨hour, acc⟩ := r
  simp only at h ⊢
  intro k q hk hq d hd
  by_cases hkh : k < hour + 1
  · rw [List.getElem?_append_left (by simpa using hkh)] at hq
    rw [List.getElem?_replicate] at hq
    have hdl : d ∈ l := List.mem_of_mem_take hd
    rcases h.late with h0 | h0
    · omega
    · have := h0 d hdl
      have : (k : Int) ≤ hour := by omega
      omega
  · rw [List.getElem?_append_right (by simp; omega)] at hq
    simp only [List.length_replicate] at hq
    have := h.ent (k - (hour + 1)) q hq d hd
    have hcast : ((hour + 1 + (k - (hour + 1)) : Nat) : Int) = k := by omega
    rw [hcast] at this
    exact this

/-- connections before the start position of an arrival-time scan arrive after the requested time -/
theorem before_start_late (cs : ConnSet) (hidx : cs.revIdx = revIndex cs.rev) (t : Int) (h0 : 0 ≤ t) (start : Nat)
    (hst : lookupPos (revLookup cs.rev cs.revIdx (hourOf t + 1)) = some start) :
    ∀ c ∈ cs.rev.take start, c.arr > t := by
  unfold revLookup hourOf at hst
  rw [if_neg (by omega)] at hst
  by_cases hbig : t / 3600 + 1 > (HOUR_END : Int) - 1
  · rw [if_pos hbig] at hst
    simp only [lookupPos, Option.some.injEq] at hst
    subst hst
    intro c hc; simp at hc
  · rw [if_neg hbig] at hst
    cases hi : cs.revIdx[(t / 3600 + 1).toNat]? with
    | none => rw [hi] at hst; simp [lookupPos] at hst
    | some q =>
      rw [hi] at hst
      simp only [lookupPos, Option.some.injEq] at hst
      subst hst
      rw [hidx] at hi
      intro c hc
      have hk : 1 ≤ (t / 3600 + 1).toNat := by omega
      have := revIndex_spec cs.rev _ _ hk hi c hc
      have hcast : (((t / 3600 + 1).toNat : Nat) : Int) = t / 3600 + 1 := by omega
      rw [hcast] at this
      omega

theorem rev_start_exists (l : List Conn) (hour : Int) : ∃ start, lookupPos (revLookup l (revIndex l) hour) = some start := by
  have := (C18_index_safe l hour).2
  cases h : revLookup l (revIndex l) hour with
  | pos p => exact ⟨p, rfl⟩
  | outOfBounds => exact absurd h this

/-! ### assembly -/

/-- a journey only uses connections that arrive no later than the requested time -/
theorem RReach.restrict {cx : Ctx} {L P : List Conn} (w : RW cx L) (hPL : ∀ a ∈ P, a ∈ L)
    (hP : ∀ a ∈ L, a.arr ≤ cx.arrT → a ∈ P) {y : Nat} {t : Int} (h : RReach cx L y t) : RReach cx P y t := by
  induction h with
  | egress g hg => exact RReach.egress g hg
  | ride z t e x f hsub he hx h1 h2 h3 h4 h5 h6 h7 h8 h9 ih =>
    have hle := (ih).time_le w hPL
    have ham := w.arrMono e he x hx h3 h4
    exact RReach.ride z t e x f ih (hP e he (by omega)) (hP x hx (by omega)) h1 h2 h3 h4 h5 h6 h7 h8 h9

/-- what the all-nodes step returns for a stop with a kept boarding within the limit -/
theorem reverseNode_complete {cx : Ctx} {s : RState} {node : Nat} {b : Int} (ha : AccGe cx s node b)
    (hb : cx.arrT - b ≤ cx.p.maxTotal) {o : Option AccNode} (h : reverseNode cx s node = .ok o) :
    ∃ a, o = some a ∧ a.stop = node ∧ b ≤ a.nodeTime := by
  obtain ⟨js, e, hj, he, hbe⟩ := ha
  unfold reverseNode at h
  rw [hj] at h
  simp only at h
  cases hrec : reconLoop s.steps (cx.ds.nStops + 2) js [] none with
  | none => rw [hrec] at h; cases h
  | some res =>
    obtain ⟨legs, lastStop⟩ := res
    rw [hrec] at h
    simp only at h
    cases heg : lastStop.bind cx.nodesEgress with
    | none => rw [heg] at h; cases h
    | some eg =>
      rw [heg] at h
      simp only at h
      cases hopt : optimizeJourney cx.ds (legs ++ [{ walk := eg.time, dist := eg.dist : JStep }]) with
      | none => rw [hopt] at h; cases h
      | some o' =>
        rw [hopt] at h
        simp only [he] at h
        rw [if_pos (by omega)] at h
        simp only [Outcome.ok.injEq] at h
        refine ⟨_, h.symm, rfl, ?_⟩
        simp only
        omega

theorem RW_dataset {ds : Dataset} (hwf : WFData ds) (p : Params) (hmw : 0 ≤ p.minWait) (hmt : 0 ≤ p.maxTransfer)
    (hpos : PosHops ds) (hegr : ∀ g ∈ ds.egress, 0 ≤ g.time) (hend : (ds.egress.map (·.stop)).Nodup) :
    RW (mkCtx (ds.restrict (ds.connSetOf (ds.scenarioOf p))) p (ds.connSetOf (ds.scenarioOf p))
        [] (routerLookup ds.egress p.maxEgress) (-1) p.time) (ds.connSetOf (ds.scenarioOf p)).rev := by
  have hsub := connSetOf_rev_sub ds (ds.scenarioOf p)
  have hw := timeWF_dataset hwf p hmw hmt (ds.scenarioOf p) [] (routerLookup ds.egress p.maxEgress) (-1) p.time
  refine ⟨?_, hw.depMono, hw.arrMono, ?_, hw.footNonneg, ?_, hmw, ?_, ?_⟩
  · intro c hc; exact hpos c (hsub c hc)
  · intro a ha b hb; exact conns_unique hwf.toWFSchedule a (hsub a ha) b (hsub b hb)
  · intro c hc
    obtain ⟨d, hd⟩ := hw.selfFoot c hc
    exact ⟨⟨c.depStop, 0, d⟩, hd, rfl, hmt⟩
  · intro g hg; exact hegr g (List.mem_filter.mp hg).1
  · exact routerLookup_nodup _ _ hend

/-- boarding stops of the timetable are stops of the data -/
def DepStopsInRange (ds : Dataset) : Prop := ∀ c ∈ ds.conns, c.depStop < ds.nStops

/-- **C09 (completeness half).** -/
theorem C09_complete (ds : Dataset) (hwf : WFData ds) (p : Params) (hp : p.forward = false) (hmw : 0 ≤ p.minWait)
    (hmt : 0 ≤ p.maxTransfer) (hpos : PosHops ds) (hrange : DepStopsInRange ds)
    (hegr : ∀ g ∈ ds.egress, 0 ≤ g.time) (hend : (ds.egress.map (·.stop)).Nodup) (h0 : 0 ≤ p.time)
    {l : List AccNode} {n : Nat} (h : calculateAllNodes ds p = .ok (l, n)) :
    ∀ e ∈ (ds.connSetOf (ds.scenarioOf p)).rev, ∀ x ∈ (ds.connSetOf (ds.scenarioOf p)).rev,
      UnboardP (mkCtx (ds.restrict (ds.connSetOf (ds.scenarioOf p))) p (ds.connSetOf (ds.scenarioOf p))
        [] (routerLookup ds.egress p.maxEgress) (-1) p.time) (ds.connSetOf (ds.scenarioOf p)).rev x →
      e.trip = x.trip → e.seq ≤ x.seq → e.canBoard = true →
      p.time - (e.dep - e.effWait p.minWait) ≤ p.maxTotal →
      ∃ a ∈ l, a.stop = e.depStop ∧ e.dep - e.effWait p.minWait ≤ a.nodeTime := by
  intro e he x hx hunb htrip hseq hcb hlim
  have hsub := connSetOf_rev_sub ds (ds.scenarioOf p)
  have w := RW_dataset hwf p hmw hmt hpos hegr hend
  unfold calculateAllNodes calculateAllNodesCS at h
  simp only [hp, Bool.false_eq_true, if_false] at h
  split at h
  · cases h
  · generalize hcx : mkCtx (ds.restrict (ds.connSetOf (ds.scenarioOf p))) p (ds.connSetOf (ds.scenarioOf p)) []
        (routerLookup (ds.restrict (ds.connSetOf (ds.scenarioOf p))).egress p.maxEgress) (-1) p.time = cx at h
    have hcx' : mkCtx (ds.restrict (ds.connSetOf (ds.scenarioOf p))) p (ds.connSetOf (ds.scenarioOf p)) []
        (routerLookup ds.egress p.maxEgress) (-1) p.time = cx := hcx
    rw [hcx'] at w hunb
    have hcs : cx.cs = ds.connSetOf (ds.scenarioOf p) := by rw [← hcx]; rfl
    have harrT : cx.arrT = p.time := by rw [← hcx]; rfl
    have hmaxT : cx.p.maxTotal = p.maxTotal := by rw [← hcx]; rfl
    have hminW : cx.p.minWait = p.minWait := by rw [← hcx]; rfl
    split at h
    · cases h
    · rename_i start hstart
      split at h
      · cases h
      · split at h
        · rename_i l' hcoll
          simp only [Outcome.ok.injEq, Prod.mk.injEq] at h
          obtain ⟨rfl, rfl⟩ := h
          rw [← hcs] at w hunb he hx
          have hsubd : ∀ a ∈ cx.cs.rev.drop start, a ∈ cx.cs.rev := fun a ha => List.mem_of_mem_drop ha
          have hsorted : SortedRev ([] ++ cx.cs.rev.drop start) := by
            show List.Pairwise _ ([] ++ cx.cs.rev.drop start)
            rw [List.nil_append, hcs]
            exact List.Pairwise.sublist (List.drop_sublist _ _) (connSetOf_sorted ds _)
          have hC := revScanList_RC w (cx.cs.rev.drop start) [] (RState.init cx) (by simpa using hsubd) hsorted
            (init_RC cx w.egrNodup)
          simp only [List.nil_append] at hC
          have hin : ∀ a ∈ cx.cs.rev, a.arr ≤ cx.arrT → a ∈ cx.cs.rev.drop start := by
            intro a ha hd
            rw [← List.take_append_drop start cx.cs.rev] at ha
            rcases List.mem_append.mp ha with h1 | h1
            · have hst' : lookupPos (revLookup cx.cs.rev cx.cs.revIdx (hourOf p.time + 1)) = some start := hstart
              have := before_start_late cx.cs (by rw [hcs]; rfl) p.time h0 start hst' a h1
              omega
            · exact h1
          obtain ⟨hcu, hdis, t, hr, hrt⟩ := hunb
          have hrP := hr.restrict w hsubd hin
          have hle := hrP.time_le w hsubd
          have ham := w.arrMono e he x hx htrip hseq
          have hphe := w.posHop e he
          have hwe := effWait_nonneg e cx.p.minWait w.mw
          have heP : e ∈ cx.cs.rev.drop start := hin e he (by omega)
          have hxP : x ∈ cx.cs.rev.drop start := hin x hx (by omega)
          rw [← hminW] at hlim ⊢
          have hacc := hC.acc e heP x hxP ⟨hcu, hdis, t, hrP, hrt⟩ htrip hseq hcb (Or.inl (by rw [← hcx]; rfl)) (by omega)
          have hxr : e.depStop ∈ List.range (ds.restrict (ds.connSetOf (ds.scenarioOf p))).nStops := by
            show e.depStop ∈ List.range ds.nStops
            have : e ∈ (ds.connSetOf (ds.scenarioOf p)).rev := by rw [← hcs]; exact he
            exact List.mem_range.mpr (hrange e (hsub e this))
          obtain ⟨o, hfo, hol⟩ := (collectNodes_all _ _ _ _ hcoll).2 e.depStop hxr
          obtain ⟨a, hoa, has, hat⟩ := reverseNode_complete hacc (by omega) hfo
          exact ⟨a, hol a hoa, has, hat⟩
        · cases h
        · cases h

/-- **C09.** nodeTime is the latest: no usable boarding at a listed stop leaves (after its minimum
    waiting time) later than the listed time. -/
theorem C09_latest (ds : Dataset) (hwf : WFData ds) (p : Params) (hp : p.forward = false) (hmw : 0 ≤ p.minWait)
    (hmt : 0 ≤ p.maxTransfer) (hpos : PosHops ds) (hrange : DepStopsInRange ds)
    (hegr : ∀ g ∈ ds.egress, 0 ≤ g.time) (hend : (ds.egress.map (·.stop)).Nodup) (h0 : 0 ≤ p.time)
    {l : List AccNode} {n : Nat} (h : calculateAllNodes ds p = .ok (l, n)) :
    ∀ a ∈ l, ∀ e ∈ (ds.connSetOf (ds.scenarioOf p)).rev, ∀ x ∈ (ds.connSetOf (ds.scenarioOf p)).rev,
      UnboardP (mkCtx (ds.restrict (ds.connSetOf (ds.scenarioOf p))) p (ds.connSetOf (ds.scenarioOf p))
        [] (routerLookup ds.egress p.maxEgress) (-1) p.time) (ds.connSetOf (ds.scenarioOf p)).rev x →
      e.trip = x.trip → e.seq ≤ x.seq → e.canBoard = true →
      p.time - (e.dep - e.effWait p.minWait) ≤ p.maxTotal → e.depStop = a.stop →
      e.dep - e.effWait p.minWait ≤ a.nodeTime := by
  intro a ha e he x hx hu ht hs hcb hlim hstop
  obtain ⟨a', ha', hs', ht'⟩ := C09_complete ds hwf p hp hmw hmt hpos hrange hegr hend h0 h e he x hx hu ht hs hcb hlim
  have hsorted := (C09_sound ds hwf p hp hmw h).2.1
  have : a' = a := same_stop_eq hsorted ha' ha (by rw [hs', hstop])
  rw [← this]; exact ht'

end Tr
