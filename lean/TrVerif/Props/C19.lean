/-
  Property C19 — summary answers aggregate exactly the routes of the same query.

  Model: `summaryAnswer` runs `routeAnswer` (the structural fact that the summary handler mirrors
  the route handler is read off the source by the translator: `Gen.facts`, theorem
  `C19_handlers_mirror`) and aggregates with `summaryIncr`, the model of the `std::map`
  accumulation in `result_to_v2_summary.cpp:62-91`.
-/
import TrVerif.Model.Render
namespace Tr

/-- keys strictly increasing -/
def KeysSorted : List (Nat × Nat) → Prop
  | [] => True
  | [_] => True
  | (k1, _) :: (k2, c2) :: rest => k1 < k2 ∧ KeysSorted ((k2, c2) :: rest)

def lookupKey (l : Nat) : List (Nat × Nat) → Option Nat
  | [] => none
  | (k, c) :: rest => if k = l then some c else lookupKey l rest

theorem keysSorted_tail {k c : Nat} {rest : List (Nat × Nat)} (h : KeysSorted ((k, c) :: rest)) : KeysSorted rest := by
  cases rest with
  | nil => trivial
  | cons hd tl => obtain ⟨k2, c2⟩ := hd; exact h.2

theorem lookup_lt_none {l k c : Nat} {rest : List (Nat × Nat)} (h : KeysSorted ((k, c) :: rest)) (hl : l < k) :
    lookupKey l ((k, c) :: rest) = none := by
  induction rest generalizing k c with
  | nil => simp [lookupKey]; omega
  | cons hd tl ih =>
    obtain ⟨k2, c2⟩ := hd
    have h2 := ih h.2 (by have := h.1; omega)
    simp only [lookupKey] at h2 ⊢
    have : ¬ k = l := by omega
    simp [this, h2]

theorem summaryIncr_sorted (l : Nat) : ∀ m, KeysSorted m → KeysSorted (summaryIncr l m) := by
  intro m
  induction m with
  | nil => intro _; trivial
  | cons hd tl ih =>
    intro h
    obtain ⟨k, c⟩ := hd
    simp only [summaryIncr]
    split
    · exact ⟨by assumption, h⟩
    · split
      · cases tl with
        | nil => trivial
        | cons hd2 tl2 => obtain ⟨k2, c2⟩ := hd2; exact ⟨h.1, h.2⟩
      · have ht := ih (keysSorted_tail h)
        cases tl with
        | nil => simp [summaryIncr, KeysSorted]; omega
        | cons hd2 tl2 =>
          obtain ⟨k2, c2⟩ := hd2
          simp only [summaryIncr] at ht ⊢
          split
          · exact ⟨by omega, by assumption, h.2⟩
          · split
            · subst_vars; exact ⟨h.1, by simpa [summaryIncr] using ht⟩
            · refine ⟨h.1, ?_⟩; simpa [summaryIncr, *] using ht

theorem lookup_summaryIncr (l x : Nat) : ∀ m, KeysSorted m →
    lookupKey x (summaryIncr l m) = if x = l then some ((lookupKey l m).getD 0 + 1) else lookupKey x m := by
  intro m
  induction m with
  | nil =>
    intro _
    by_cases h : x = l
    · subst h; simp [summaryIncr, lookupKey]
    · have : ¬ l = x := fun e => h e.symm
      simp [summaryIncr, lookupKey, h, this]
  | cons hd tl ih =>
    intro hs
    obtain ⟨k, c⟩ := hd
    simp only [summaryIncr]
    split
    · rename_i hlt
      have hn := lookup_lt_none hs hlt
      by_cases h : x = l
      · subst h
        simp only [lookupKey] at hn
        simp [lookupKey, hn]
      · have : ¬ l = x := fun e => h e.symm
        simp [lookupKey, h, this]
    · split
      · rename_i _ heq
        subst heq
        by_cases h : x = l
        · subst h; simp [lookupKey]
        · have : ¬ l = x := fun e => h e.symm
          simp [lookupKey, h, this]
      · rename_i h1 h2
        have := ih (keysSorted_tail hs)
        by_cases h : x = l
        · subst h
          have hk : ¬ k = x := fun e => h2 e.symm
          simp [lookupKey, hk] at this ⊢
          exact this
        · by_cases hk : k = x
          · simp [lookupKey, hk, h]
          · simp [lookupKey, hk, h] at this ⊢
            exact this

theorem summaryCounts_spec (lines : List Nat) :
    KeysSorted (summaryCounts lines) ∧
    ∀ x, lookupKey x (summaryCounts lines) = if lines.count x = 0 then none else some (lines.count x) := by
  suffices h : ∀ (m : List (Nat × Nat)), KeysSorted m → ∀ (cnt : Nat → Nat),
      (∀ x, lookupKey x m = if cnt x = 0 then none else some (cnt x)) →
      KeysSorted (lines.foldl (fun m l => summaryIncr l m) m) ∧
      ∀ x, lookupKey x (lines.foldl (fun m l => summaryIncr l m) m)
        = if cnt x + lines.count x = 0 then none else some (cnt x + lines.count x) by
    have := h [] trivial (fun _ => 0) (by intro x; simp [lookupKey])
    simpa [summaryCounts] using this
  induction lines with
  | nil => intro m hs cnt hc; exact ⟨hs, by intro x; simp only [List.foldl_nil, List.count_nil, Nat.add_zero]; exact hc x⟩
  | cons l rest ih =>
    intro m hs cnt hc
    have hs' := summaryIncr_sorted l m hs
    have hc' : ∀ x, lookupKey x (summaryIncr l m)
        = if (fun y => cnt y + if y = l then 1 else 0) x = 0 then none else some ((fun y => cnt y + if y = l then 1 else 0) x) := by
      intro x
      rw [lookup_summaryIncr l x m hs]
      by_cases h : x = l
      · subst h
        rw [hc x]
        by_cases h0 : cnt x = 0 <;> simp [h0]
      · simp [h, hc x]
    obtain ⟨r1, r2⟩ := ih (summaryIncr l m) hs' _ hc'
    refine ⟨by simpa [List.foldl] using r1, ?_⟩
    intro x
    have := r2 x
    simp only [List.foldl] at this ⊢
    rw [this]
    by_cases h : x = l
    · subst h; simp [List.count_cons]; omega
    · have hne : ¬ l = x := fun e => h e.symm
      have hb : (l == x) = false := by simp [hne]
      simp [h, List.count_cons, hb]

/-- number of boardings of line `x` in a list of routes -/
def boardingsOfLine (ds : Dataset) (rs : List Route) (x : Nat) : Nat := (rs.flatMap (routeLines ds)).count x

/-- **C19.** Whatever the dataset and the request: if `/v2/route` answers with routes `rs`
    (or with no routing: `rs = []`), `/v2/summary` answers success with `nbRoutes = |rs|`, lists
    each line at most once (keys strictly increasing), and a line is listed exactly when it is
    boarded in `rs`, with the number of its boardings over all those routes as count. -/
theorem C19_summary (ds : Dataset) (p : Params) :
    match routeAnswer ds p with
    | .exception _ => ∃ w, summaryAnswer ds p = .exception w
    | .ok (rs, _) => ∃ ls, summaryAnswer ds p = .ok (rs.length, ls) ∧ KeysSorted ls ∧
        ∀ x, lookupKey x ls = if boardingsOfLine ds rs x = 0 then none else some (boardingsOfLine ds rs x)
    | .noRouting _ => summaryAnswer ds p = .ok (0, []) := by
  unfold summaryAnswer summaryAnswerCS routeAnswer
  cases h : routeAnswerCS ds (ds.connSetOf (ds.scenarioOf p)) p with
  | exception w => exact ⟨w, rfl⟩
  | noRouting r => simp [summaryOf, summaryCounts]
  | ok a =>
    obtain ⟨rs, n⟩ := a
    have := summaryCounts_spec (rs.flatMap (routeLines ds))
    exact ⟨_, rfl, this.1, this.2⟩

/-- the summary handler is the route handler with another renderer (read off the source) -/
theorem C19_handlers_mirror : Gen.facts.lookup "summary_mirrors_route" = some true := by decide

/-- identifying fields come from the line's record: the model renders agency `(ds.lineRec l).agency` -/
example : summaryCounts [3, 1, 3, 2, 3] = [(1, 1), (2, 1), (3, 3)] := by decide

end Tr
