import TrVerif.Props.C16
import TrVerif.Props.C16Load
