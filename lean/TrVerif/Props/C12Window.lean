/-
  Props/C12Window — the range conditions of the `C12_full_*` theorems, derived from a plain description of the data: every scheduled
  time of the data lies in a window `[lo, hi]`, footpaths take at most `W`, router walks between 0 and `A`, minimum waiting times at
  most `M`, and the window starts at least `W + M + A` after 0:00 on both sides of the shift (so that no value a scan compares drops
  below 0) and ends far below the `MAX_INT` sentinel.
-/
import TrVerif.Props.C12FullAlt
namespace Tr

theorem connSetOf_fwd_sub (ds : Dataset) (sc : Scenario) : ∀ c ∈ (ds.connSetOf sc).fwd, c ∈ ds.conns := by
  intro c hc
  simp only [Dataset.connSetOf, mkConnSet, Dataset.fwdAll, List.mem_filter] at hc
  exact (mem_isort fwdLt c _).mp hc.1

/-- a plain description of data and request for which the shift by `k` keeps every compared clock value clear of both sentinels -/
structure Window (ds : Dataset) (p : Params) (k lo hi W A M : Int) : Prop where
  conns : ∀ c ∈ ds.conns, lo ≤ c.dep ∧ c.dep ≤ hi ∧ lo ≤ c.arr ∧ c.arr ≤ hi ∧ (c.minWait = -1 ∨ (0 ≤ c.minWait ∧ c.minWait ≤ M))
  foot : ∀ f ∈ ds.foot, f.time ≤ W
  hW : 0 ≤ W
  access : ∀ a ∈ ds.access, 0 ≤ a.time ∧ a.time ≤ A
  egress : ∀ g ∈ ds.egress, 0 ≤ g.time ∧ g.time ≤ A
  hA : 0 ≤ A
  mw : 0 ≤ p.minWait ∧ p.minWait ≤ M
  early : W + M + A ≤ lo ∧ W + M + A ≤ lo + k
  late : hi + W + A < MAX_INT ∧ hi + W + A + k < MAX_INT
  time : A ≤ p.time ∧ A ≤ p.time + k
  timeF : p.forward = true → p.time ≤ hi + W

theorem effWait_bounds {ds : Dataset} {p : Params} {k lo hi W A M : Int} (w : Window ds p k lo hi W A M) (c : Conn) (hc : c ∈ ds.conns) :
    0 ≤ c.effWait p.minWait ∧ c.effWait p.minWait ≤ M := by
  obtain ⟨_, _, _, _, h⟩ := w.conns c hc
  unfold Conn.effWait
  have := w.mw
  split <;> rcases h with h | h <;> omega

theorem window_rev {ds : Dataset} {p : Params} {k lo hi W A M : Int} (w : Window ds p k lo hi W A M) :
    RouteRevRange ds p k (if 0 ≤ k then 0 else -k) (hi + W + A) W := by
  have he := w.early; have hl := w.late; have ht := w.time; have hW := w.hW; have hA := w.hA
  have hM : 0 ≤ M := by have := w.mw; omega
  refine ⟨by split <;> omega, by split <;> omega, hl.2, hl.1, hW, ?_, ?_, ?_, ?_⟩
  · intro z f hf
    obtain ⟨x, hx, e⟩ := rfootOf_time_mem _ z f hf
    rw [e]; exact w.foot x hx
  · intro c hc
    have hc' := connSetOf_rev_sub ds _ c hc
    obtain ⟨c1, c2, c3, c4, _⟩ := w.conns c hc'
    obtain ⟨e1, e2⟩ := effWait_bounds w c hc'
    constructor <;> split <;> omega
  · intro e he'
    have := w.egress e he'
    split <;> omega
  · intro e he' a ha'
    have hc' := connSetOf_rev_sub ds _ e he'
    obtain ⟨c1, c2, c3, c4, _⟩ := w.conns e hc'
    obtain ⟨e1, e2⟩ := effWait_bounds w e hc'
    have := w.access a ha'
    constructor
    · split <;> omega
    · omega

theorem window_fwd {ds : Dataset} {p : Params} {k lo hi W A M : Int} (w : Window ds p k lo hi W A M) (hf : p.forward = true) :
    RouteFwdRange ds p k (if 0 ≤ k then 0 else -k) (hi + W + A) W := by
  have he := w.early; have hl := w.late; have ht := w.time; have hW := w.hW; have hA := w.hA
  have hM : 0 ≤ M := by have := w.mw; omega
  have R := window_rev w
  have htf := w.timeF hf
  refine ⟨R.hL, R.hLk, R.hB, R.hB0, hW, by omega, by omega, ?_, R.rfoot, ?_, R.conns, ?_, ?_, ?_, R.access⟩
  · intro z f hf
    obtain ⟨x, hx, e⟩ := footOf_time_mem _ z f hf
    rw [e]; exact w.foot x hx
  · intro c hc
    have hc' := connSetOf_fwd_sub ds _ c hc
    obtain ⟨c1, c2, c3, c4, c5⟩ := w.conns c hc'
    refine ⟨by omega, by omega, by omega, ?_⟩
    rcases c5 with h | h
    · exact Or.inr h
    · exact Or.inl h.1
  · intro e he'
    have := w.access e he'
    omega
  · intro x hx g hg
    have hc' := connSetOf_fwd_sub ds _ x hx
    obtain ⟨c1, c2, c3, c4, _⟩ := w.conns x hc'
    have := w.egress g hg
    constructor
    · split <;> omega
    · omega
  · intro x hx g hg e he'
    have hc' := connSetOf_fwd_sub ds _ x hx
    obtain ⟨c1, c2, c3, c4, _⟩ := w.conns x hc'
    have := w.egress g hg
    have := w.egress e he'
    split <;> omega

/-- **C12 for data in a window**: well-formed data whose scheduled times all lie in `[lo, hi]`, with `lo` at least the longest footpath
    plus the longest waiting time plus the longest router walk after 0:00 on both sides of the shift: every route query of either time
    type gives, on the shifted problem, the shifted answer (status, reason, every clock time moved by `k`, everything else equal). -/
theorem C12_window_route (ds : Dataset) (hwf : WFData ds) (p : Params) (k lo hi W A M : Int) (hal : TripsAligned ds)
    (hmt : 0 ≤ p.maxTransfer) (w : Window ds p k lo hi W A M) :
    calculateSingle0 (shiftDs k ds) (shiftP k p) = shRouteOut k (calculateSingle0 ds p) := by
  cases hf : p.forward with
  | true => exact C12_full_route_departure ds hwf p k _ _ W hal hf w.mw.1 hmt (window_fwd w hf)
  | false => exact C12_full_route_arrival ds hwf p k _ _ W hal hf w.mw.1 hmt (window_rev w)

/-- … and every alternatives query (the entry point with the hour index, request inside [0, 32 h) on both sides) -/
theorem C12_window_alternatives (ds : Dataset) (hwf : WFData ds) (p : Params) (k lo hi W A M : Int) (hal : TripsAligned ds)
    (hmt : 0 ≤ p.maxTransfer) (w : Window ds p k lo hi W A M)
    (ht : p.time < (HOUR_END : Int) * 3600) (ht' : p.time + k < (HOUR_END : Int) * 3600) :
    alternativesRouting (shiftDs k ds) (shiftP k p) = shAltOut k (alternativesRouting ds p) := by
  have h1 := w.time; have h2 := w.hA
  have R : (p.forward = true ∧ RouteFwdRange ds p k (if 0 ≤ k then 0 else -k) (hi + W + A) W) ∨
      (p.forward = false ∧ RouteRevRange ds p k (if 0 ≤ k then 0 else -k) (hi + W + A) W) := by
    cases hf : p.forward with
    | true => exact Or.inl ⟨rfl, window_fwd w hf⟩
    | false => exact Or.inr ⟨rfl, window_rev w⟩
  exact C12_full_alternatives ds hwf p k _ _ W hal w.mw.1 hmt R (by omega) ht (by omega) ht'
    (fun a ha => (w.access a ha).1) (fun g hg => (w.egress g hg).1)


/-- … and both accessibility calculations (here for ANY dataset: no well-formedness is needed) -/
theorem C12_window_accessibility (ds : Dataset) (p : Params) (k lo hi W A M : Int) (hal : TripsAligned ds)
    (w : Window ds p k lo hi W A M) :
    calculateAllNodes0 (shiftDs k ds) (shiftP k p) = shAccOutcome k (calculateAllNodes0 ds p) := by
  have R := window_rev w
  cases hf : p.forward with
  | true =>
    have F := window_fwd w hf
    exact C12_full_accessibility_departure ds p k _ W hal hf ⟨F.hB, F.hB0, F.foot, w.mw.1, F.connsF, F.access0⟩
  | false =>
    exact C12_full_accessibility_arrival ds p k _ W hal hf ⟨R.hL, R.hLk, R.hW, R.rfoot, w.mw.1, R.conns, R.egress⟩

/-- non-vacuity: the example dataset lies in the window [1000, 1300] with footpaths ≤ 60 s, router walks ≤ 200 s, waiting ≤ 60 s -/
theorem nv_window : Window nvDs' nvFwd' 1700 1000 1300 60 200 60 ∧ Window nvDs' nvRev' (-600) 1000 1300 60 200 60 := by
  have hc : ∀ c ∈ nvDs'.conns, (1000 : Int) ≤ c.dep ∧ c.dep ≤ 1300 ∧ 1000 ≤ c.arr ∧ c.arr ≤ 1300 ∧ (c.minWait = -1 ∨ (0 ≤ c.minWait ∧ c.minWait ≤ 60)) := by decide
  exact ⟨⟨hc, by decide, by decide, by decide, by decide, by decide, by decide, by decide, by decide, by decide, by decide⟩,
    ⟨hc, by decide, by decide, by decide, by decide, by decide, by decide, by decide, by decide, by decide, by decide⟩⟩

/-! a second example with TWO lines, so that the alternatives search really iterates (two routes, four calculations) -/

def nvDs2 : Dataset :=
  { nStops := 3, nServices := 1,
    foot := [⟨0, 0, 0, 0⟩, ⟨1, 1, 0, 0⟩, ⟨2, 2, 0, 0⟩, ⟨1, 2, 60, 50⟩],
    lines := [⟨0, 0⟩, ⟨0, 0⟩], paths := [⟨0, [0, 1], [10]⟩, ⟨1, [0, 2, 1], [10, 10]⟩],
    trips := [⟨5, 0, 0, [1000, 1300], [1000, 1300], [true, true], [true, true]⟩,
              ⟨6, 1, 0, [1100, 1400, 1700], [1100, 1400, 1700], [true, true, true], [true, true, true]⟩],
    scenarios := [{ services := [0], onlyLines := [], exceptLines := [], onlyAgencies := [], exceptAgencies := [], onlyModes := [], exceptModes := [] }],
    access := [⟨0, 100, 80⟩], egress := [⟨1, 200, 150⟩] }

theorem nv2_mono (l : List Int) (hl : l = [1000, 1300] ∨ l = [1100, 1400, 1700]) (i j : Nat) (hij : i ≤ j) (hj : j < l.length) :
    l.getD i 0 ≤ l.getD j 0 := by
  rcases hl with rfl | rfl
  · simp at hj
    have : i = 0 ∨ i = 1 := by omega
    have : j = 0 ∨ j = 1 := by omega
    rcases ‹i = 0 ∨ i = 1› with rfl | rfl <;> rcases ‹j = 0 ∨ j = 1› with rfl | rfl <;> simp_all
  · simp at hj
    have : i = 0 ∨ i = 1 ∨ i = 2 := by omega
    have : j = 0 ∨ j = 1 ∨ j = 2 := by omega
    rcases ‹i = 0 ∨ i = 1 ∨ i = 2› with rfl | rfl | rfl <;> rcases ‹j = 0 ∨ j = 1 ∨ j = 2› with rfl | rfl | rfl <;> simp_all

theorem nv2_trips (tr : TripRec) (h : tr ∈ nvDs2.trips) :
    (tr.arr = [1000, 1300] ∧ tr.dep = [1000, 1300]) ∨ (tr.arr = [1100, 1400, 1700] ∧ tr.dep = [1100, 1400, 1700]) := by
  simp only [nvDs2, List.mem_cons, List.mem_nil_iff, or_false] at h
  rcases h with rfl | rfl
  · exact Or.inl ⟨rfl, rfl⟩
  · exact Or.inr ⟨rfl, rfl⟩

theorem nv2_wf : WFData nvDs2 ∧ TripsAligned nvDs2 := by
  refine ⟨⟨⟨by decide, ?_⟩, ?_, ?_, by decide, ?_⟩, ?_⟩
  · intro tr htr i j hij hj
    rcases nv2_trips tr htr with ⟨a, _⟩ | ⟨a, _⟩ <;> exact nv2_mono tr.arr (by simp [a]) i j hij hj
  · intro tr htr i j hij hj
    rcases nv2_trips tr htr with ⟨a, d⟩ | ⟨a, d⟩
    · exact nv2_mono tr.dep (by simp [d]) i j hij (by rw [d]; rw [a] at hj; exact hj)
    · exact nv2_mono tr.dep (by simp [d]) i j hij (by rw [d]; rw [a] at hj; exact hj)
  · intro tr htr i hi
    rcases nv2_trips tr htr with ⟨a, d⟩ | ⟨a, d⟩
    · rw [a] at hi ⊢; rw [d]; simp at hi
      have : i = 0 := by omega
      subst this; simp
    · rw [a] at hi ⊢; rw [d]; simp at hi
      have : i = 0 ∨ i = 1 := by omega
      rcases this with rfl | rfl <;> simp
  · have h1 : ∀ c ∈ nvDs2.conns, ∃ d, (⟨c.depStop, c.depStop, 0, d⟩ : Foot) ∈ nvDs2.foot := by
      have : nvDs2.conns.all (fun c => nvDs2.foot.any fun f => f.a == c.depStop && f.b == c.depStop && f.time == 0) = true := by decide
      intro c hc
      have h2 := List.all_eq_true.mp this c hc
      obtain ⟨f, hf, hf2⟩ := List.any_eq_true.mp h2
      simp only [Bool.and_eq_true, beq_iff_eq] at hf2
      refine ⟨f.dist, ?_⟩
      have : (⟨c.depStop, c.depStop, 0, f.dist⟩ : Foot) = f := by cases f; simp_all
      rw [this]; exact hf
    exact h1
  · unfold TripsAligned; decide

/-- non-vacuity on a dataset where the alternatives search iterates (two lines: `trmodel` returns two alternatives after four
    calculations, and the shifted lists are shifted copies - evaluated by the compiled driver in the C12 metamorphic run, not by the
    kernel: sixteen calculations are too much for `decide`): the hypotheses of `C12_window_alternatives` hold, both time types, offsets
    across an hour mark in both directions -/
theorem nv_window_alternatives2 :
    WFData nvDs2 ∧ TripsAligned nvDs2 ∧ Window nvDs2 nvFwd' 1700 1000 1700 60 200 60 ∧ Window nvDs2 nvRev' (-600) 1000 1700 60 200 60 := by
  have hc : ∀ c ∈ nvDs2.conns, (1000 : Int) ≤ c.dep ∧ c.dep ≤ 1700 ∧ 1000 ≤ c.arr ∧ c.arr ≤ 1700 ∧ (c.minWait = -1 ∨ (0 ≤ c.minWait ∧ c.minWait ≤ 60)) := by decide
  exact ⟨nv2_wf.1, nv2_wf.2,
    ⟨hc, by decide, by decide, by decide, by decide, by decide, by decide, by decide, by decide, by decide, by decide⟩,
    ⟨hc, by decide, by decide, by decide, by decide, by decide, by decide, by decide, by decide, by decide, by decide⟩⟩

end Tr
