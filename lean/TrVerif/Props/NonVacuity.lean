/-
  Non-vacuity of the hypotheses of C01 / C02 / C06 / C08 / C09: a concrete dataset that is
  `WFData`, `TimesBounded`, has duplicate-free router tables, and on which the arrival-time and the
  departure-time calculation both succeed with a route, and both accessibility calculations list a
  stop. (These are tests of the model on one input - labelled as such - whose only role is to show
  that the theorems are not vacuous.)
-/
import TrVerif.Props.C09Complete
import TrVerif.Props.C04
import TrVerif.Props.C03
import TrVerif.Props.Attained
import TrVerif.Props.NoExc
import TrVerif.Props.C10e
import TrVerif.Props.C07Fwd2
import TrVerif.Props.C12Shift
import TrVerif.Props.C12MapStatus
import TrVerif.Props.C12
import TrVerif.Props.C12Full
import TrVerif.Props.C12FullRev
import TrVerif.Props.C12FullRoute
import TrVerif.Props.C12FullRouteDep
import TrVerif.Props.C12FullAlt
import TrVerif.Props.C12Window
namespace Tr

def nvDs : Dataset :=
  { nStops := 3, nServices := 1,
    foot := [⟨0, 0, 0, 0⟩, ⟨1, 1, 0, 0⟩, ⟨2, 2, 0, 0⟩, ⟨1, 2, 60, 50⟩],
    lines := [⟨0, 0⟩], paths := [⟨0, [0, 1], [10]⟩],
    trips := [⟨5, 0, 0, [1000, 1300], [1000, 1300], [true, true], [true, true]⟩],
    scenarios := [{ services := [0], onlyLines := [], exceptLines := [], onlyAgencies := [], exceptAgencies := [], onlyModes := [], exceptModes := [] }],
    access := [⟨0, 100, 80⟩], egress := [⟨1, 200, 150⟩] }

def nvRev : Params := { forward := false, time := 2000, scenario := 0, minWait := 60 }
def nvFwd : Params := { forward := true, time := 500, scenario := 0, minWait := 60, maxFirstWait := 0 }

/-- both single calculations return a route, both accessibility calculations list a stop -/
theorem nv_results :
    (match calculateSingle nvDs nvRev with | .ok r => (r.departureTime, r.arrivalTime) | _ => (0, 0)) = (840, 1500) ∧
    (match calculateSingle nvDs nvFwd with | .ok r => (r.departureTime, r.arrivalTime) | _ => (0, 0)) = (840, 1500) ∧
    (match calculateAllNodes nvDs nvRev with | .ok (l, n) => (l.map (fun (a : AccNode) => (a.stop, a.nodeTime)), n) | _ => ([], 0)) = ([(0, 940)], 3) ∧
    (match calculateAllNodes nvDs nvFwd with | .ok (l, n) => (l.map (fun (a : AccNode) => (a.stop, a.nodeTime)), n) | _ => ([], 0)) = ([(1, 1300)], 3) := by
  refine ⟨by decide, by decide, by decide, by decide⟩


theorem nv_trips (tr : TripRec) (h : tr ∈ nvDs.trips) : tr = ⟨5, 0, 0, [1000, 1300], [1000, 1300], [true, true], [true, true]⟩ := by
  simpa [nvDs] using h

/-- the hypotheses of C01 / C02 / C06 / C08 / C09 hold of `nvDs` -/
theorem nv_hypotheses : WFData nvDs ∧ TimesBounded nvDs ∧ (nvDs.egress.map (·.stop)).Nodup := by
  refine ⟨⟨⟨by decide, ?_⟩, ?_, ?_, by decide, ?_⟩, by unfold TimesBounded; decide, by decide⟩
  · intro tr htr i j hij hj
    rw [nv_trips tr htr] at hj ⊢
    simp at hj
    have : i = 0 ∨ i = 1 := by omega
    have : j = 0 ∨ j = 1 := by omega
    rcases ‹i = 0 ∨ i = 1› with rfl | rfl <;> rcases ‹j = 0 ∨ j = 1› with rfl | rfl <;> simp_all
  · intro tr htr i j hij hj
    rw [nv_trips tr htr] at hj ⊢
    simp at hj
    have : i = 0 ∨ i = 1 := by omega
    have : j = 0 ∨ j = 1 := by omega
    rcases ‹i = 0 ∨ i = 1› with rfl | rfl <;> rcases ‹j = 0 ∨ j = 1› with rfl | rfl <;> simp_all
  · intro tr htr i hi
    rw [nv_trips tr htr] at hi ⊢
    simp at hi
    have : i = 0 := by omega
    subst this; simp
  · intro c hc
    have h1 : nvDs.conns = [⟨0, 1, 1000, 1300, 5, 1, true, true, -1⟩] := by decide
    rw [h1] at hc
    simp at hc
    subst hc
    exact ⟨0, by decide⟩

/-- ... and the additional hypotheses of `C08_complete` / `C08_earliest` / `C07_route_no_service_from_origin` -/
theorem nv_hypotheses_complete : PosHops nvDs ∧ SelfFootArr nvDs ∧ StopsInRange nvDs ∧ nvFwd.maxFirstWait ≤ 0 ∧
    (∀ a ∈ nvDs.access, 0 ≤ a.time) ∧ (nvDs.access.map (·.stop)).Nodup ∧ 0 ≤ nvFwd.time ∧ nvFwd.time < (HOUR_END : Int) * 3600 := by
  have h1 : nvDs.conns = [⟨0, 1, 1000, 1300, 5, 1, true, true, -1⟩] := by decide
  refine ⟨?_, ?_, ?_, by decide, by decide, by decide, by decide, by decide⟩
  · intro c hc; rw [h1] at hc; simp at hc; subst hc; decide
  · intro c hc; rw [h1] at hc; simp at hc; subst hc; exact ⟨0, by decide⟩
  · intro c hc; rw [h1] at hc; simp at hc; subst hc; decide

/-- ... and those of `C09_complete` / `C09_latest` -/
theorem nv_hypotheses_reverse : DepStopsInRange nvDs ∧ (∀ g ∈ nvDs.egress, 0 ≤ g.time) ∧ (nvDs.egress.map (·.stop)).Nodup ∧
    0 ≤ nvRev.time ∧ 0 ≤ nvRev.maxTransfer := by
  have h1 : nvDs.conns = [⟨0, 1, 1000, 1300, 5, 1, true, true, -1⟩] := by decide
  refine ⟨?_, by decide, by decide, by decide, by decide⟩
  intro c hc; rw [h1] at hc; simp at hc; subst hc; decide

/-- ... and of `C04_optimal`: an admissible journey (walk 100 s to stop 0,
    ride trip 5 from 1000 to 1300, walk 200 s from stop 1) that meets every premise -/
theorem nv_admissible :
    (∀ a ∈ nvDs.access, 0 ≤ a.time) ∧
    AdmRev (mkCtx (nvDs.restrict (nvDs.connSetOf (nvDs.scenarioOf nvRev))) nvRev (nvDs.connSetOf (nvDs.scenarioOf nvRev))
        (routerLookup nvDs.access nvRev.maxAccess) (routerLookup nvDs.egress nvRev.maxEgress) (-1) nvRev.time)
      (nvDs.connSetOf (nvDs.scenarioOf nvRev)).rev ⟨0, 100, 80⟩ ⟨0, 1, 1000, 1300, 5, 1, true, true, -1⟩ ⟨0, 1, 1000, 1300, 5, 1, true, true, -1⟩ := by
  have h1 : nvDs.conns = [⟨0, 1, 1000, 1300, 5, 1, true, true, -1⟩] := by decide
  have h2 : (nvDs.connSetOf (nvDs.scenarioOf nvRev)).rev = [⟨0, 1, 1000, 1300, 5, 1, true, true, -1⟩] := by decide
  refine ⟨by decide, ?_⟩
  · refine ⟨by decide, rfl, by rw [h2]; simp, by rw [h2]; simp, rfl, Nat.le_refl _, rfl, rfl, by decide, 1800, ?_, by decide⟩
    exact RReach.egress ⟨1, 200, 150⟩ (by decide)

def nvFwd2 : Params := { forward := true, time := 500, scenario := 0, minWait := 60, maxFirstWait := -1 }

/-- ... and of `C03_optimal`: the remaining data hypotheses and an admissible journey -/
theorem nv_admissible_forward :
    ArrBounded nvDs ∧ nvFwd2.maxFirstWait < 0 ∧
    AdmFwd (mkCtx (nvDs.restrict (nvDs.connSetOf (nvDs.scenarioOf nvFwd2))) nvFwd2 (nvDs.connSetOf (nvDs.scenarioOf nvFwd2))
        (routerLookup nvDs.access nvFwd2.maxAccess) (routerLookup nvDs.egress nvFwd2.maxEgress) nvFwd2.time (-1))
      (nvDs.connSetOf (nvDs.scenarioOf nvFwd2)).fwd ⟨0, 1, 1000, 1300, 5, 1, true, true, -1⟩ ⟨0, 1, 1000, 1300, 5, 1, true, true, -1⟩ ⟨1, 200, 150⟩ ∧
    (match calculateSingle nvDs nvFwd2 with | .ok r => (r.departureTime, r.arrivalTime) | _ => (0, 0)) = (840, 1500) := by
  have h1 : nvDs.conns = [⟨0, 1, 1000, 1300, 5, 1, true, true, -1⟩] := by decide
  have h2 : (nvDs.connSetOf (nvDs.scenarioOf nvFwd2)).fwd = [⟨0, 1, 1000, 1300, 5, 1, true, true, -1⟩] := by decide
  refine ⟨?_, by decide, ?_, by decide⟩
  · intro c hc g hg; rw [h1] at hc; simp at hc; subst hc
    have : nvDs.egress = [⟨1, 200, 150⟩] := rfl
    rw [this] at hg; simp at hg; subst hg; decide
  · refine ⟨⟨rfl, rfl, 600, ?_, by decide⟩, by rw [h2]; simp, by rw [h2]; simp, rfl, Nat.le_refl _, rfl, by decide, rfl⟩
    exact Reach.access ⟨0, 100, 80⟩ (by decide)

/-- ... and of `calculateAllNodes_no_exception` -/
theorem nv_nonneg : NonnegArr nvDs := by
  have h1 : nvDs.conns = [⟨0, 1, 1000, 1300, 5, 1, true, true, -1⟩] := by decide
  intro c hc; rw [h1] at hc; simp at hc; subst hc; decide

/-- ... and of the C12 theorems: both domains hold of `nvDs`, its trips are aligned, and an offset
    of one hour keeps every clock value in range -/
theorem nv_shift :
    C03Dom nvDs nvFwd2 ∧ C04Dom nvDs nvRev ∧ TripsAligned nvDs ∧ ShiftInRange nvDs nvFwd2 3600 ∧ ShiftInRange nvDs nvRev 3600 := by
  obtain ⟨hwf, htb, hend⟩ := nv_hypotheses
  obtain ⟨hpos, hself, hr1, _, hacc, hand, _, _⟩ := nv_hypotheses_complete
  obtain ⟨hr2, hegr, _, _, _⟩ := nv_hypotheses_reverse
  obtain ⟨hab, _, _, _⟩ := nv_admissible_forward
  have hal : TripsAligned nvDs := by
    intro tr htr; rw [nv_trips tr htr]
  have h1 : nvDs.conns = [⟨0, 1, 1000, 1300, 5, 1, true, true, -1⟩] := by decide
  have htb' : TimesBounded (shiftDs 3600 nvDs) := by
    intro c hc
    obtain ⟨c0, h0, rfl⟩ := mem_conns_shift hal hc
    rw [h1] at h0; simp at h0; subst h0; decide
  have hab' : ArrBounded (shiftDs 3600 nvDs) := by
    intro c hc g hg
    obtain ⟨c0, h0, rfl⟩ := mem_conns_shift hal hc
    rw [h1] at h0; simp at h0; subst h0
    have : (shiftDs 3600 nvDs).egress = [⟨1, 200, 150⟩] := rfl
    rw [this] at hg; simp at hg; subst hg; decide
  exact ⟨⟨hwf, rfl, by decide, by decide, hpos, hself, htb, hab, hr1, hr2, by decide, hacc, hand, hegr, hend, by decide, by decide⟩,
    ⟨hwf, rfl, by decide, by decide, hpos, htb, hr1, hr2, hegr, hend, hacc, hand, by decide⟩,
    hal, ⟨htb', hab', by decide, by decide⟩, ⟨htb', hab', by decide, by decide⟩⟩

/-- ... and the domains of the two accessibility theorems of C12 -/
theorem nv_shift_maps : C08Dom nvDs nvFwd2 ∧ C09Dom nvDs nvRev := by
  obtain ⟨hwf, htb, hend⟩ := nv_hypotheses
  obtain ⟨hpos, hself, hr1, _, hacc, hand, _, _⟩ := nv_hypotheses_complete
  obtain ⟨hr2, hegr, _, _, _⟩ := nv_hypotheses_reverse
  exact ⟨⟨hwf, rfl, by decide, by decide, htb, hpos, hself, hr1, by decide, hacc, hand, by decide, by decide⟩,
    ⟨hwf, rfl, by decide, by decide, hpos, hr2, hegr, hend, by decide, rfl⟩⟩

/-- ... and the arrival times of the shifted dataset are clock times too -/
theorem nv_shift_nonneg : NonnegArr (shiftDs 3600 nvDs) := by
  have hal : TripsAligned nvDs := nv_shift.2.2.1
  have h1 : nvDs.conns = [⟨0, 1, 1000, 1300, 5, 1, true, true, -1⟩] := by decide
  intro c hc
  obtain ⟨c0, h0, rfl⟩ := mem_conns_shift hal hc
  rw [h1] at h0; simp at h0; subst h0; decide

end Tr
