/-
  Property C06 — reported totals are exactly the sums over the itinerary's steps.

  `C06_totals` is about `emit`, the model of the single pass of `reverse_journey.cpp:78-262`
  that renders a journey and accumulates the totals.  It holds for EVERY journey value of the
  form  access step, at least one leg, egress step - not only for journeys the scans can
  produce - so clean-up rewrites, alternatives, any dataset and any query are covered at once.
-/
import TrVerif.Proofs.Emit
import TrVerif.Props.C01
namespace Tr

/-- **C06.** For every access step `acc`, every non-empty list of legs (each with an enter and
    an exit connection) and every egress step `egr`, whatever the connections' times, the walks
    and the dataset: the route rendered by `emit` satisfies all identities of `Totals`.
    `mwOf` is the minimum waiting time in force per trip (the hypothesis says the legs'
    connections carry exactly that value - true of every connection built from a dataset). -/
theorem C06_totals (ds : Dataset) (mw bestDep : Int) (mwOf : Nat → Int)
    (acc egr : JStep) (legs : List JStep)
    (hacc : acc.enter = none) (hegr : egr.enter = none)
    (hne : legs ≠ []) (hall : AllLegs legs)
    (hmw : ∀ l ∈ legs, ∀ e, l.enter = some e → e.effWait mw = mwOf e.trip) :
    Totals mwOf (NoXfer ds legs) (emit ds mw bestDep ([acc] ++ legs ++ [egr])) := by
  obtain ⟨l1, rest, rfl⟩ : ∃ l1 rest, legs = l1 :: rest := by
    cases legs with
    | nil => exact absurd rfl hne
    | cons a b => exact ⟨a, b, rfl⟩
  obtain ⟨e1, x1, he1, hx1⟩ := hall l1 (List.mem_cons_self ..)
  -- the access step
  let a1 : EAcc := emitAccess mw bestDep {} acc (some l1)
  have hn : ([acc] ++ (l1 :: rest) ++ [egr]).length = (l1 :: rest).length + 2 := by simp
  have hloop : emitLoop ds mw bestDep ([acc] ++ (l1 :: rest) ++ [egr]).length ([acc] ++ (l1 :: rest) ++ [egr]) 0 {}
      = emitLoop ds mw bestDep ([acc] ++ (l1 :: rest) ++ [egr]).length ((l1 :: rest) ++ [egr]) 1 a1 := by
    simp [emitLoop, emitStep, hacc, a1]
  obtain ⟨rel, harr, hegw, haw, htw⟩ :=
    emitLoop_from1 ds mw bestDep _ egr hegr (l1 :: rest) a1 hne hall hn
  have ht : a1.transferArr = bestDep + acc.walk := rfl
  have hsteps1 : a1.steps = [.walk 0 acc.walk acc.dist bestDep (bestDep + acc.walk)
      (bestDep + acc.walk + nextWaitOf mw (some l1))] := by simp [a1, emitAccess]
  rw [ht] at rel haw htw
  have hS := stepsOfLegs_sum ds mw egr (l1 :: rest) (bestDep + acc.walk) hne hall
  have hcount := stepsOfLegs_count ds mw egr (l1 :: rest) (bestDep + acc.walk) hall
  have hfw := stepsOfLegs_firstWait ds mw egr (l1 :: rest) (bestDep + acc.walk) hne hall
  have hhead := stepsOfLegs_head ds mw egr l1 rest (bestDep + acc.walk) e1 x1 he1 hx1
  obtain ⟨la, lb, hlast⟩ := stepsOfLegs_getLast ds mw egr (l1 :: rest) (bestDep + acc.walk) hne hall
  have hm1 : e1.effWait mw = mwOf e1.trip := hmw l1 (List.mem_cons_self ..) e1 he1
  -- abbreviations
  generalize hS' : stepsOfLegs ds mw (bestDep + acc.walk) (l1 :: rest) egr = S at *
  have hstepsAll : (emitLoop ds mw bestDep ([acc] ++ (l1 :: rest) ++ [egr]).length ((l1 :: rest) ++ [egr]) 1 a1).steps
      = .walk 0 acc.walk acc.dist bestDep (bestDep + acc.walk) (bestDep + acc.walk + nextWaitOf mw (some l1)) :: S := by
    rw [rel.steps, hsteps1]; rfl
  have hShape := stepsOfLegs_shape ds mw egr (l1 :: rest) (bestDep + acc.walk) hne hall
  have hChain := stepsOfLegs_chain ds mw mwOf egr (l1 :: rest) (bestDep + acc.walk) hne hall hmw
  rw [hS'] at hShape hChain
  have hSne : S ≠ [] := by intro h; rw [h] at hhead; simp at hhead
  constructor
  · -- shape
    simp only [emit, hloop, hstepsAll, routeShape]; exact hShape
  · -- chain
    simp only [emit, hloop, hstepsAll, chainFrom, harr]
    refine ⟨trivial, trivial, ?_, hChain⟩
    intro _ trip seq stop bd w hh
    rw [hhead] at hh
    simp [boardOf] at hh
    simp [nextWaitOf, he1, hm1, hh.1]
  · -- travel
    simp [emit]
  · -- travelSum
    simp only [emit, hloop, hstepsAll, harr]
    have e1' : sumWalk (.walk 0 acc.walk acc.dist bestDep (bestDep + acc.walk) (bestDep + acc.walk + nextWaitOf mw (some l1)) :: S)
        = acc.walk + sumWalk S := by simp [sumWalk, Step.walkTime]
    have e2' : sumRide (.walk 0 acc.walk acc.dist bestDep (bestDep + acc.walk) (bestDep + acc.walk + nextWaitOf mw (some l1)) :: S)
        = sumRide S := by simp [sumRide, Step.rideTime]
    have e3' : sumWait (.walk 0 acc.walk acc.dist bestDep (bestDep + acc.walk) (bestDep + acc.walk + nextWaitOf mw (some l1)) :: S)
        = sumWait S := by simp [sumWait, Step.waitTime]
    rw [e1', e2', e3']; omega
  · -- waiting
    simp only [emit, hloop]
    rw [haw, htw, rel.wait]; simp [a1, emitAccess]; omega
  · -- waitSum
    simp only [emit, hloop, hstepsAll]
    rw [rel.wait]; simp [a1, emitAccess, sumWait, Step.waitTime]
  · -- firstW
    simp only [emit, hloop, hstepsAll]
    rw [haw, ← hfw]; simp [firstWait, List.filter, Step.isBoard]
  · -- inVehicle
    simp only [emit, hloop, hstepsAll]
    rw [rel.ivt]; simp [a1, emitAccess, sumRide, Step.rideTime]
  · -- access
    simp only [emit, hloop, hstepsAll]
    rw [rel.accessWalk]; simp [a1, emitAccess, Step.walkTime]
  · -- egress
    simp only [emit, hloop, hstepsAll]
    rw [List.getLast?_cons_of_ne_nil hSne, hlast, hegw]; simp [Step.walkTime]
  · -- boardings
    intro hx
    simp only [emit, hloop, hstepsAll]
    rw [rel.nt hx]; simp [a1, emitAccess]; omega
  · -- transfers
    intro hx
    simp only [emit, hloop, hstepsAll]
    rw [rel.nt hx]
    have : (1 : Int) ≤ countBoard S := by rw [hcount]; simp; omega
    simp [a1, emitAccess]
    split <;> omega
  · -- walking
    intro hx
    simp only [emit, hloop, hstepsAll]
    rw [rel.walk hx]; simp [a1, emitAccess, sumWalk, Step.walkTime]
  · -- transferWalking
    intro hx
    simp only [emit, hloop, hstepsAll]
    rw [rel.twalk hx]; simp [a1, emitAccess, sumTransferWalk, Step.transferWalkTime]

/-! Non-vacuity: a concrete two-leg journey meets every hypothesis, and the rendered route is the
    one a reader expects. -/
def exE1 : Conn := { depStop := 0, arrStop := 1, dep := 1000, arr := 1100, trip := 7, seq := 1, canBoard := true, canUnboard := true, minWait := -1 }
def exE2 : Conn := { depStop := 2, arrStop := 3, dep := 1500, arr := 1700, trip := 9, seq := 2, canBoard := true, canUnboard := true, minWait := -1 }
def exLegs : List JStep := [{ enter := some exE1, exit := some exE1, walk := 120, dist := 90 }, { enter := some exE2, exit := some exE2, walk := 0, dist := 0 }]

example : exLegs ≠ [] ∧ AllLegs exLegs ∧ (∀ l ∈ exLegs, ∀ e, l.enter = some e → e.effWait 180 = (fun _ => (180 : Int)) e.trip) := by
  refine ⟨by decide, ?_, ?_⟩
  · intro l hl; simp [exLegs] at hl; rcases hl with rfl | rfl <;> exact ⟨_, _, rfl, rfl⟩
  · intro l hl e he; simp [exLegs] at hl; rcases hl with rfl | rfl <;> (simp at he; subst he; decide)

example : (emit Dataset.empty 180 700 ([{ walk := 60, dist := 50 }] ++ exLegs ++ [{ walk := 30, dist := 20 }])).totalTravelTime = 1030 := by decide

/-- **C06 for every returned route.**  Every route the single calculation returns on a
    well-formed dataset satisfies all identities of `Totals`, with the minimum waiting time in
    force per trip (`mwOfTrip`: 0 for `transferable` lines, the query's value otherwise); the
    counts and walking totals hold when the journey rides no `transferable` line. -/
theorem C06_route (ds : Dataset) (hwf : WFData ds) (p : Params) (hmw : 0 ≤ p.minWait) (hmt : 0 ≤ p.maxTransfer)
    {r : Route} (h : calculateSingle ds p = .ok r) :
    ∃ legs : List JStep, Totals (ds.mwOfTrip p) (NoXfer (ds.restrict (ds.connSetOf (ds.scenarioOf p))) legs) r := by
  have hsub := connSetOf_rev_sub ds (ds.scenarioOf p)
  have hm : ArrMono (ds.connSetOf (ds.scenarioOf p)).rev :=
    fun x hx y hy => conns_arrMono hwf.toWFSchedule x (hsub x hx) y (hsub y hy)
  obtain ⟨depT, arrT, bd, j, rfl, hJ, _⟩ := calculateSingleWith_emits _ _ p _ _ (connSetOf_sorted ds _) hm hmw
    (fun depT arrT => cleanupPreserves (timeWF_dataset hwf p hmw hmt _ _ _ depT arrT) (sliceOK_dataset hwf p _ _ _ depT arrT)) h
  obtain ⟨acc, legs, egr, rfl, hacc, hegr, hne, hok, _, _⟩ := hJ
  refine ⟨legs, ?_⟩
  exact C06_totals _ p.minWait bd (ds.mwOfTrip p) acc egr legs hacc hegr hne hok.allLegs
    (fun l hl e he => conns_effWait hwf.toWFSchedule p e (hsub e (hok.mem_enter l hl e he)))

end Tr
