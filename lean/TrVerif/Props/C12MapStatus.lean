/-
  Property C12, fourth part: the STATUS of an accessibility request is translation invariant on
  the domains of C08 / C09: a map is returned on one side exactly when one is returned on the
  other (and then `C12_map_departure` / `C12_map_arrival` say the maps agree).  An accessibility
  calculation returns a map exactly when the router offers a stop and some connection is caught
  (C07 + the termination theorems), and both conditions are translation invariant.
-/
import TrVerif.Props.C12Reason
namespace Tr

/-- the context of a departure accessibility calculation -/
abbrev ctxAF (ds : Dataset) (p : Params) : Ctx :=
  mkCtx (ds.restrict (ds.connSetOf (ds.scenarioOf p))) p (ds.connSetOf (ds.scenarioOf p))
    (routerLookup ds.access p.maxAccess) [] p.time (-1)

/-- the context of an arrival accessibility calculation -/
abbrev ctxAR (ds : Dataset) (p : Params) : Ctx :=
  mkCtx (ds.restrict (ds.connSetOf (ds.scenarioOf p))) p (ds.connSetOf (ds.scenarioOf p))
    [] (routerLookup ds.egress p.maxEgress) (-1) p.time

/-- a departure accessibility calculation returns a map exactly when the router offers a stop and
    some connection can be caught -/
theorem allNodes_ok_iff_forward (ds : Dataset) (p : Params) (hp : p.forward = true) (hwf : WFData ds) (hpos : PosHops ds)
    (hr1 : StopsInRange ds) (hr2 : DepStopsInRange ds) (hnn : NonnegArr ds) (hmw : 0 ≤ p.minWait) (hmt : 0 ≤ p.maxTransfer)
    (hacc : ∀ a ∈ ds.access, 0 ≤ a.time) (h0 : 0 ≤ p.time) (ht : p.time < (HOUR_END : Int) * 3600) :
    (∃ l n, calculateAllNodes ds p = .ok (l, n)) ↔
      (routerLookup ds.access p.maxAccess ≠ [] ∧ ∃ c ∈ (ds.connSetOf (ds.scenarioOf p)).fwd, CaughtF (ctxAF ds p) c) := by
  have hNA := (C07_no_access_at_place ds p).1 hp
  obtain ⟨start, hst⟩ := fwd_start_exists (ds.connSetOf (ds.scenarioOf p)).fwd (hourOf p.time)
  have hNE := calculateAllNodes_no_exception ds hwf hpos hr1 hr2 hnn p hmw hmt
  have hma : 0 ≤ minTime (routerLookup ds.access p.maxAccess) :=
    minTime_nonneg _ (fun a ha => hacc a (List.mem_filter.mp ha).1)
  -- nothing before the start position is caught
  have hearly : ∀ c ∈ (ds.connSetOf (ds.scenarioOf p)).fwd.take start, ¬ CaughtF (ctxAF ds p) c := by
    intro c hc hcd
    have := before_start_early (ds.connSetOf (ds.scenarioOf p)) rfl p.time h0 start hst ht c hc
    have h1 : c.dep ≥ p.time + minTime (routerLookup ds.access p.maxAccess) := hcd.1
    omega
  by_cases ha : routerLookup ds.access p.maxAccess = []
  · have := hNA.mpr ha
    constructor
    · rintro ⟨l, n, h⟩; rw [this] at h; cases h
    · rintro ⟨h, _⟩; exact absurd ha h
  · have hNS := C07_no_service_at_place_forward ds (ds.connSetOf (ds.scenarioOf p)) p hp (connSetOf_sortedFwd ds _) ha start hst
    have hNS' : calculateAllNodes ds p = .noRouting .noServiceFromOrigin ↔
        ∀ c ∈ (ds.connSetOf (ds.scenarioOf p)).fwd, ¬ CaughtF (ctxAF ds p) c := by
      show calculateAllNodesCS ds (ds.connSetOf (ds.scenarioOf p)) p = _ ↔ _
      rw [hNS]
      constructor
      · intro hall c hc
        rw [← List.take_append_drop start (ds.connSetOf (ds.scenarioOf p)).fwd] at hc
        rcases List.mem_append.mp hc with h1 | h1
        · exact hearly c h1
        · exact hall c h1
      · intro hall c hc; exact hall c (List.mem_of_mem_drop hc)
    constructor
    · rintro ⟨l, n, h⟩
      refine ⟨ha, ?_⟩
      apply Classical.byContradiction
      intro hno
      have := hNS'.mpr (fun c hc hcd => hno ⟨c, hc, hcd⟩)
      rw [this] at h; cases h
    · rintro ⟨_, c, hc, hcd⟩
      cases hres : calculateAllNodes ds p with
      | ok v => exact ⟨v.1, v.2, rfl⟩
      | exception w => exact absurd hres (hNE w)
      | noRouting r =>
        exfalso
        -- the only reasons of a departure accessibility calculation
        have hr : r = .noAccessAtOrigin ∨ r = .noServiceFromOrigin := by
          unfold calculateAllNodes calculateAllNodesCS at hres
          simp only [hp, if_true] at hres
          split at hres
          · simp only [Outcome.noRouting.injEq] at hres; exact Or.inl hres.symm
          · split at hres
            · cases hres
            · split at hres
              · simp only [Outcome.noRouting.injEq] at hres; exact Or.inr hres.symm
              · split at hres
                · cases hres
                · rename_i r' hcoll
                  obtain ⟨n, _, hn⟩ := collectNodes_noRouting _ _ _ _ hcoll
                  exact absurd hn (forwardNode_ne _ _ _ _)
                · cases hres
        rcases hr with rfl | rfl
        · exact ha (hNA.mp hres)
        · exact hNS'.mp hres c hc hcd

theorem caughtAF_shift (ds : Dataset) (p : Params) (k : Int) (hmw : 0 ≤ p.minWait) (htb : TimesBounded ds)
    (hnd : (ds.access.map (·.stop)).Nodup) {c : Conn} (hc : c ∈ (ds.connSetOf (ds.scenarioOf p)).fwd)
    (h : CaughtF (ctxAF ds p) c) : CaughtF (ctxAF (shiftDs k ds) (shiftP k p)) (shiftConn k c) :=
  h.shift k (ctxSame_shift' k ds p _ _ p.time (-1) (p.time + k) (-1)) rfl rfl rfl (routerLookup_nodup _ _ hnd)
    (htb c (connSetOf_rev_sub ds _ c (connSetOf_fwd_mem_rev ds _ c hc))) hmw

/-- **C12, status of departure accessibility requests on the domain of C08.** -/
theorem C12_map_status_departure (ds : Dataset) (p : Params) (k : Int) (D : C08Dom ds p) (hr2 : DepStopsInRange ds)
    (hnn : NonnegArr ds) (hnn' : NonnegArr (shiftDs k ds)) (hal : TripsAligned ds) (R : ShiftInRange ds p k) :
    (∃ l n, calculateAllNodes ds p = .ok (l, n)) ↔
      (∃ l' n', calculateAllNodes (shiftDs k ds) (shiftP k p) = .ok (l', n')) := by
  have D' := D.shift hal R
  rw [allNodes_ok_iff_forward ds p D.fwd D.wf D.pos D.r1 hr2 hnn D.mw D.mt D.acc D.t0 D.t32,
    allNodes_ok_iff_forward (shiftDs k ds) (shiftP k p) D'.fwd D'.wf D'.pos D'.r1 (depStopsInRange_shift k hr2 hal) hnn'
      D'.mw D'.mt D'.acc D'.t0 D'.t32]
  have hacc : routerLookup (shiftDs k ds).access (shiftP k p).maxAccess = routerLookup ds.access p.maxAccess := rfl
  rw [hacc]
  constructor
  · rintro ⟨ha, c, hc, hcd⟩
    exact ⟨ha, shiftConn k c, mem_fwd_shift k ds hal _ c hc, caughtAF_shift ds p k D.mw D.tb D.accNd hc hcd⟩
  · rintro ⟨ha, c', hc', hcd⟩
    obtain ⟨c, hcm, rfl⟩ := mem_fwd_unshift k ds hal _ c' hc'
    refine ⟨ha, c, hcm, ?_⟩
    have := caughtAF_shift (shiftDs k ds) (shiftP k p) (-k) D'.mw D'.tb D'.accNd hc' hcd
    rw [shiftDs_neg, shiftP_neg] at this
    rw [show shiftConn (-k) (shiftConn k c) = c by
      cases c; simp only [shiftConn, Conn.mk.injEq, true_and, and_true]; constructor <;> omega] at this
    exact this


/-- an arrival accessibility calculation returns a map exactly when the router offers a stop and
    some connection arrives in time -/
theorem allNodes_ok_iff_reverse (ds : Dataset) (p : Params) (hp : p.forward = false) (hwf : WFData ds) (hpos : PosHops ds)
    (hr1 : StopsInRange ds) (hr2 : DepStopsInRange ds) (hnn : NonnegArr ds) (hmw : 0 ≤ p.minWait) (hmt : 0 ≤ p.maxTransfer)
    (h0 : 0 ≤ p.time) :
    (∃ l n, calculateAllNodes ds p = .ok (l, n)) ↔
      (routerLookup ds.egress p.maxEgress ≠ [] ∧ ∃ c ∈ (ds.connSetOf (ds.scenarioOf p)).rev, CaughtR (ctxAR ds p) false c) := by
  have hNA := (C07_no_access_at_place ds p).2 hp
  have hNE := calculateAllNodes_no_exception ds hwf hpos hr1 hr2 hnn p hmw hmt
  by_cases he : routerLookup ds.egress p.maxEgress = []
  · have := hNA.mpr he
    constructor
    · rintro ⟨l, n, h⟩; rw [this] at h; cases h
    · rintro ⟨h, _⟩; exact absurd he h
  · have hNS := C07_no_service_at_place_reverse ds p hp h0 he
    constructor
    · rintro ⟨l, n, h⟩
      refine ⟨he, ?_⟩
      apply Classical.byContradiction
      intro hno
      have := hNS.mpr (fun c hc hcd => hno ⟨c, hc, hcd⟩)
      rw [this] at h; cases h
    · rintro ⟨_, c, hc, hcd⟩
      cases hres : calculateAllNodes ds p with
      | ok v => exact ⟨v.1, v.2, rfl⟩
      | exception w => exact absurd hres (hNE w)
      | noRouting r =>
        exfalso
        have hr : r = .noAccessAtDestination ∨ r = .noServiceToDestination := by
          unfold calculateAllNodes calculateAllNodesCS at hres
          simp only [hp, Bool.false_eq_true, if_false] at hres
          split at hres
          · simp only [Outcome.noRouting.injEq] at hres; exact Or.inl hres.symm
          · split at hres
            · cases hres
            · split at hres
              · simp only [Outcome.noRouting.injEq] at hres; exact Or.inr hres.symm
              · split at hres
                · cases hres
                · rename_i r' hcoll
                  obtain ⟨n, _, hn⟩ := collectNodes_noRouting _ _ _ _ hcoll
                  exact absurd hn (reverseNode_ne _ _ _ _)
                · cases hres
        rcases hr with rfl | rfl
        · exact he (hNA.mp hres)
        · exact hNS.mp hres c hc hcd

theorem caughtAR_shift (ds : Dataset) (p : Params) (k : Int) (hnn : NonnegArr ds)
    (hnd : (ds.egress.map (·.stop)).Nodup) {c : Conn} (hc : c ∈ (ds.connSetOf (ds.scenarioOf p)).rev)
    (h : CaughtR (ctxAR ds p) false c) : CaughtR (ctxAR (shiftDs k ds) (shiftP k p)) false (shiftConn k c) :=
  h.shift k (ctxSame_shift' k ds p _ _ (-1) p.time (-1) (p.time + k)) rfl rfl (routerLookup_nodup _ _ hnd) false
    (hnn c (connSetOf_rev_sub ds _ c hc))

/-- **C12, status of arrival accessibility requests on the domain of C09.** -/
theorem C12_map_status_arrival (ds : Dataset) (p : Params) (k : Int) (D : C09Dom ds p) (hr1 : StopsInRange ds)
    (hnn : NonnegArr ds) (hnn' : NonnegArr (shiftDs k ds)) (hal : TripsAligned ds) (h0 : 0 ≤ p.time + k) :
    (∃ l n, calculateAllNodes ds p = .ok (l, n)) ↔
      (∃ l' n', calculateAllNodes (shiftDs k ds) (shiftP k p) = .ok (l', n')) := by
  have D' := D.shift hal h0
  rw [allNodes_ok_iff_reverse ds p D.rev D.wf D.pos hr1 D.r2 hnn D.mw D.mt D.t0,
    allNodes_ok_iff_reverse (shiftDs k ds) (shiftP k p) D'.rev D'.wf D'.pos (stopsInRange_shift k hr1 hal) D'.r2 hnn'
      D'.mw D'.mt D'.t0]
  have hegr : routerLookup (shiftDs k ds).egress (shiftP k p).maxEgress = routerLookup ds.egress p.maxEgress := rfl
  rw [hegr]
  constructor
  · rintro ⟨he, c, hc, hcd⟩
    exact ⟨he, shiftConn k c, mem_rev_shift k ds hal _ c hc, caughtAR_shift ds p k hnn D.egrNd hc hcd⟩
  · rintro ⟨he, c', hc', hcd⟩
    obtain ⟨c, hcm, rfl⟩ := mem_rev_unshift k ds hal _ c' hc'
    refine ⟨he, c, hcm, ?_⟩
    have := caughtAR_shift (shiftDs k ds) (shiftP k p) (-k) hnn' D'.egrNd hc' hcd
    rw [shiftDs_neg, shiftP_neg] at this
    rw [show shiftConn (-k) (shiftConn k c) = c by
      cases c; simp only [shiftConn, Conn.mk.injEq, true_and, and_true]; constructor <;> omega] at this
    exact this

end Tr
