/-
  Props/C15Load — property C15 at RECORD level: `/updateCache` re-runs the update calls of the handler
  (in handler order, return values ignored) on the files now on disk. With the loader model of
  `Model/Load.lean`:

  * `C15_refresh_all_record_level`        after `names=all` the tables in memory are EXACTLY those of a server
                                          freshly started on the new files — whatever was in memory before;
  * `C15_refresh_schedules_record_level`  after `names=schedules` alone (other kinds unchanged on disk) likewise.

  (The connection-set cache is cleared by the same calls: `Model/Refresh.lean`, `C15_all`, `C15_schedules`.)
-/
import TrVerif.Props.C16Load
namespace Tr.Load

/-- **C15 (record level)**: a refresh of all caches gives the tables of a fresh start on the same files,
    for ANY previous content of the memory. -/
theorem C15_refresh_all_record_level (ds : Dataset) (h : Enc ds) (old : TD) (hub : old.ub = false) :
    updateNames (encode ds) ["all"] old = loadAll (encode ds) := by
  rw [C16_roundtrip ds h]
  have hN : getNodes (encode ds) = (0, expNodes ds) := getNodes_enc ds h.foot
  have hA : getIds (encode ds).agencies = (0, expIds 2 ds.nAgencies) := getIds_enc 2 ds.nAgencies
  have hS : getIds (encode ds).services = (0, expIds 3 ds.nServices) := getIds_enc 3 ds.nServices
  simp [updateNames, Gen.updateCacheNames, applyCall, hN, hA, hS, getLines_enc ds h, getPaths_enc ds h, getScenarios_enc ds h,
    schedules_enc ds h, finalSch_ub, hub]

/-- **C15 (record level)**: a refresh of the schedules alone — the other files unchanged — gives the tables of
    a fresh start on the new files. -/
theorem C15_refresh_schedules_record_level (ds0 ds : Dataset) (h0 : Enc ds0) (h : Enc ds)
    (same : ds0.nStops = ds.nStops ∧ ds0.nAgencies = ds.nAgencies ∧ ds0.nServices = ds.nServices ∧ ds0.foot = ds.foot ∧
            ds0.lines = ds.lines ∧ ds0.paths = ds.paths ∧ ds0.scenarios = ds.scenarios) :
    updateNames (encode ds) ["schedules"] (loadAll (encode ds0)) = loadAll (encode ds) := by
  obtain ⟨e1, e2, e3, e4, e5, e6, e7⟩ := same
  rw [C16_roundtrip ds h, C16_roundtrip ds0 h0]
  have eN : expNodes ds0 = expNodes ds := by unfold expNodes nodeAt rfootUpTo rcontrib Dataset.footOf; rw [e1, e4]
  have eL : expLines ds0 = expLines ds := by unfold expLines; rw [e5]
  have eP : expPaths ds0 = expPaths ds := by unfold expPaths; rw [e6]
  have eS : expScen ds0 = expScen ds := by unfold expScen; rw [e7]
  simp [updateNames, Gen.updateCacheNames, applyCall, e2, e3, eN, eL, eP, eS, schedules_enc ds h, finalSch_ub]

end Tr.Load
