/-
  Property C07, the parts that were open:

  * a DEPARTURE-time route query never answers NO_SERVICE_TO_DESTINATION: when the first pass
    has chosen an arrival time, the alighting that realises it is caught by the second pass
    (its trip is flagged usable, its stop carries exactly that label), so the second pass counts
    at least one connection.  With `C07_access` and `C07_route_no_service_from_origin` the reason
    of a failed departure-time query is therefore classified completely: access trichotomy,
    NO_SERVICE_FROM_ORIGIN iff nothing can be caught, otherwise NO_ROUTING_FOUND.
  * arrival-time accessibility answers NO_SERVICE_AT_PLACE (`noServiceToDestination`) exactly
    when no connection of an admitted trip arrives at an offered stop in time.
-/
import TrVerif.Props.C07All
import TrVerif.Props.C03
namespace Tr

/-! ### usable flags of the forward pass -/

structure FU (s : FState) : Prop where
  enter : ∀ T, (s.enterC T).isSome = true → s.usable T = true
  egr : ∀ y js x, s.egr y = some js → js.exit = some x → s.usable x.trip = true

theorem init_FU (cx : Ctx) : FU (FState.init cx) :=
  ⟨fun T h => by simp [FState.init] at h, fun y js x h => by simp [FState.init] at h⟩

theorem fwdFoot_egr_cases (cx : Ctx) (c : Conn) (s : FState) (f : NTD) :
    (fwdFoot cx c s f).egr = s.egr ∨
    ∃ js', js'.exit = some c ∧ (fwdFoot cx c s f).egr = upd s.egr f.stop (some js') := by
  unfold fwdFoot
  simp only
  by_cases h1 : f.stop ≠ c.arrStop ∧ s.tent f.stop < c.arr
  · rw [if_pos h1]; exact Or.inl rfl
  · rw [if_neg h1]
    by_cases h2 : f.time ≤ cx.p.maxTransfer
    · rw [if_pos h2]
      by_cases h3 : f.time + c.arr < s.tent f.stop
      · rw [if_pos h3]
        simp only
        split
        · exact Or.inr ⟨_, rfl, rfl⟩
        · exact Or.inl rfl
      · rw [if_neg h3]
        split
        · exact Or.inr ⟨_, rfl, rfl⟩
        · exact Or.inl rfl
    · rw [if_neg h2]; exact Or.inl rfl

theorem fwdFoot_FU (cx : Ctx) (c : Conn) (s : FState) (f : NTD) (hc : s.usable c.trip = true) (h : FU s) :
    FU (fwdFoot cx c s f) := by
  have hu := (fwdFoot_misc cx c s f).2.2
  have he := fwdFoot_enterC cx c s f
  refine ⟨fun T hT => by rw [hu]; rw [he] at hT; exact h.enter T hT, ?_⟩
  intro y js x hy hx
  rw [hu]
  rcases fwdFoot_egr_cases cx c s f with hcase | ⟨js', hjs', hcase⟩
  · rw [hcase] at hy; exact h.egr y js x hy hx
  · rw [hcase] at hy
    by_cases hyf : y = f.stop
    · subst hyf
      simp only [upd_same, Option.some.injEq] at hy
      subst hy
      rw [hjs'] at hx
      cases hx
      exact hc
    · rw [upd_other _ _ _ _ hyf] at hy
      exact h.egr y js x hy hx

theorem fwdFoot_fold_FU (cx : Ctx) (c : Conn) : ∀ (l : List NTD) (s : FState), s.usable c.trip = true → FU s →
    FU (l.foldl (fwdFoot cx c) s) := by
  intro l
  induction l with
  | nil => intro s _ h; exact h
  | cons f rest ih =>
    intro s hc h
    rw [List.foldl_cons]
    exact ih _ (by rw [(fwdFoot_misc cx c s f).2.2]; exact hc) (fwdFoot_FU cx c s f hc h)

theorem fwdStep_FU (cx : Ctx) (single : Bool) (s : FState) (c : Conn) (h : FU s) : FU (fwdStep cx single s c) := by
  rcases fwdStep_cases cx single s c with h1 | h1 | ⟨_, _, h1⟩
  · rw [h1]; exact h
  · rw [h1]; exact ⟨h.enter, h.egr⟩
  · rw [h1]
    have hE : FU (fwdEnter s c) := by
      unfold fwdEnter
      split
      · refine ⟨?_, ?_⟩
        · intro T hT
          simp only at hT ⊢
          by_cases hTc : T = c.trip
          · subst hTc; simp
          · rw [upd_other _ _ _ _ hTc] at hT ⊢; exact h.enter T hT
        · intro y js x hy hx
          simp only at hy ⊢
          have := h.egr y js x hy hx
          by_cases hTc : x.trip = c.trip
          · rw [hTc]; simp
          · rw [upd_other _ _ _ _ hTc]; exact this
      · exact h
    have hA : FU (fwdAlight cx single (fwdEnter s c) c) := by
      unfold fwdAlight
      by_cases hcu : c.canUnboard = true ∧ ((fwdEnter s c).enterC c.trip).isSome = true
      · rw [if_pos hcu]
        simp only
        apply fwdFoot_fold_FU
        · split
          · exact hE.enter _ hcu.2
          · exact hE.enter _ hcu.2
        · split
          · exact ⟨hE.enter, hE.egr⟩
          · exact hE
      · rw [if_neg hcu]; exact hE
    exact ⟨hA.enter, hA.egr⟩

theorem fwdFold_FU (cx : Ctx) (single : Bool) : ∀ (l : List Conn) (s : FState), FU s → FU (l.foldl (fwdStep cx single) s) := by
  intro l
  induction l with
  | nil => intro s h; exact h
  | cons c rest ih => intro s h; rw [List.foldl_cons]; exact ih _ (fwdStep_FU cx single s c h)

/-! ### a traveller is nowhere before leaving -/

theorem Reach.ge_depT {cx : Ctx} {C : List Conn} (hacc : ∀ a ∈ cx.accessFoot, 0 ≤ a.time)
    (hfoot : ∀ z, ∀ f ∈ cx.ds.footOf z, 0 ≤ f.time) (hmw : 0 ≤ cx.p.minWait)
    (hda : ∀ e ∈ C, ∀ x ∈ C, e.trip = x.trip → e.seq ≤ x.seq → e.dep ≤ x.arr)
    {y : Nat} {t : Int} (h : Reach cx C y t) : cx.depT ≤ t := by
  induction h with
  | access a ha => have := hacc a ha; omega
  | ride y t e x f _ he hx _ h2 h3 h4 _ _ _ h8 _ ih =>
    have h1 := hda e he x hx h3 h4
    have hw := effWait_nonneg e cx.p.minWait hmw
    have hf := hfoot _ f h8
    omega

/-- the generic form of `revScan_count_zero`: any sorted list, scanned from the initial tables -/
theorem revFold_count_zero (cx : Ctx) (single : Bool) (l : List Conn) (hsorted : SortedRev l) :
    (l.foldl (revStep cx (fun _ => true) single) (RState.init cx)).count = 0 ↔ ∀ c ∈ l, ¬ CaughtR cx single c := by
  have key : ∀ (l : List Conn) (b : Bool), SortedRev l →
      (b = true → ∀ c ∈ l, ¬ CaughtR cx single c) →
      ((l.foldl (revStep cx (fun _ => true) single) { RState.init cx with stop := b }).count = 0 ↔ ∀ c ∈ l, ¬ CaughtR cx single c) := by
    intro l
    induction l with
    | nil => intro b _ _; simp [RState.init]
    | cons c rest ih =>
      intro b hsorted hb
      rw [List.foldl_cons]
      obtain ⟨h1, h2⟩ := revStep_init cx single b c
      by_cases hc : b = false ∧ CaughtR cx single c
      · have := h1 hc
        have hm := revFold_count_mono cx (fun _ => true) single rest (revStep cx (fun _ => true) single { RState.init cx with stop := b } c)
        constructor
        · intro h0; omega
        · intro hall; exact absurd hc.2 (hall c (List.mem_cons_self ..))
      · rw [h2 hc]
        have hsr : SortedRev rest := (List.pairwise_cons.mp hsorted).2
        have hb' : (b || decide (c.arr ≤ cx.arrT - (if single = true then cx.minEgress else 0) ∧ cx.disabled c.trip = false ∧ cx.arrT - c.arr > cx.p.maxTotal)) = true →
            ∀ d ∈ rest, ¬ CaughtR cx single d := by
          intro hbb d hd
          rcases Bool.or_eq_true _ _ |>.mp hbb with hb1 | hb1
          · exact hb hb1 d (List.mem_cons_of_mem _ hd)
          · have hlate : cx.arrT - c.arr > cx.p.maxTotal := (of_decide_eq_true hb1).2.2
            have hord := (List.pairwise_cons.mp hsorted).1 d hd
            simp only [revLt, Bool.or_eq_false_iff, decide_eq_false_iff_not] at hord
            intro hcd
            have := hcd.2.2.1
            omega
        rw [ih _ hsr hb']
        constructor
        · intro hall d hd
          rcases List.mem_cons.mp hd with rfl | hd'
          · intro hcd
            by_cases hbb : b = true
            · exact hb hbb d (List.mem_cons_self ..) hcd
            · exact hc ⟨by simpa using hbb, hcd⟩
          · exact hall d hd'
        · intro hall d hd; exact hall d (List.mem_cons_of_mem _ hd)
  have := key l false hsorted (by intro h; cases h)
  simpa [RState.init] using this


theorem Reason_ne1 : Reason.noAccessAtOriginAndDestination ≠ Reason.noServiceToDestination := by intro h; cases h
theorem Reason_ne2 : Reason.noAccessAtOrigin ≠ Reason.noServiceToDestination := by intro h; cases h
theorem Reason_ne3 : Reason.noAccessAtDestination ≠ Reason.noServiceToDestination := by intro h; cases h
theorem Reason_ne4 : Reason.noServiceFromOrigin ≠ Reason.noServiceToDestination := by intro h; cases h
theorem Reason_ne5 : Reason.noRoutingFound ≠ Reason.noServiceToDestination := by intro h; cases h

/-- the second pass of a departure-time query counts at least one connection -/
theorem secondPass_counts {cx : Ctx} {start : Nat} {ba : Int} {node : Nat}
    (hsF : SortedFwd cx.cs.fwd) (hsR : SortedRev cx.cs.rev) (hidx : cx.cs.revIdx = revIndex cx.cs.rev)
    (hfr : ∀ c ∈ cx.cs.fwd, c ∈ cx.cs.rev)
    (hdm : ∀ a ∈ cx.cs.fwd, ∀ b ∈ cx.cs.fwd, a.trip = b.trip → a.seq ≤ b.seq → a.dep ≤ b.dep)
    (hda : ∀ e ∈ cx.cs.fwd, ∀ x ∈ cx.cs.fwd, e.trip = x.trip → e.seq ≤ x.seq → e.dep ≤ x.arr)
    (hmw : 0 ≤ cx.p.minWait) (hb : ∀ c ∈ cx.cs.fwd, c.dep < MAX_INT)
    (hacc : ∀ a ∈ cx.accessFoot, 0 ≤ a.time) (hfoot : ∀ z, ∀ f ∈ cx.ds.footOf z, 0 ≤ f.time)
    (hegr : ∀ g ∈ cx.egressFoot, 0 ≤ g.time) (hnd : cx.EgrNodup)
    (hbest : bestEgress cx (fwdScan cx true start) = some (ba, node)) (start2 : Nat)
    (hst2 : lookupPos (revLookup cx.cs.rev cx.cs.revIdx (hourOf ba + 1)) = some start2) :
    (revScan { cx with arrT := ba } (fwdScan cx true start).usable true start2).count ≠ 0 := by
  generalize hfs : fwdScan cx true start = fs at hbest ⊢
  have hfold : fs = (cx.cs.fwd.drop start).foldl (fwdStep cx true) (FState.init cx) := by rw [← hfs]; rfl
  -- soundness of the forward pass and its usable flags
  have hsubd : ∀ a ∈ cx.cs.fwd.drop start, a ∈ cx.cs.fwd := fun a ha => List.mem_of_mem_drop ha
  have hinv : FInv cx cx.cs.fwd (cx.cs.fwd.drop start) fs := by
    have := fwdScanList_inv (cx := cx) true cx.cs.fwd hdm hmw hb (cx.cs.fwd.drop start) [] (FState.init cx)
      (by simpa using hsubd)
      (by show List.Pairwise _ ([] ++ cx.cs.fwd.drop start); rw [List.nil_append]
          exact List.Pairwise.sublist (List.drop_sublist _ _) hsF)
      (init_FInv cx _)
    simp only [List.nil_append] at this
    rw [hfold]; exact this
  have hfu : FU fs := by rw [hfold]; exact fwdFold_FU cx true _ _ (init_FU cx)
  obtain ⟨gs, hgs, js, xs, egs, hjs, hxs, hngs, hbaeq, hbaT, hba0⟩ := bestEgress_sound hbest
  obtain ⟨e, x, hje, hjx, hxstop, hxC, htrip, hseq, hcu, hboard⟩ := hinv.egr gs.stop js hjs
  rw [hxs] at hjx; cases hjx
  have husable := hfu.egr gs.stop js xs hjs hxs
  obtain ⟨heC, _, hdis, t, hreach, ht⟩ := hboard
  have hge := hreach.ge_depT hacc hfoot hmw hda
  have hw := effWait_nonneg e cx.p.minWait hmw
  have hdep := hda e heC xs hxC htrip hseq
  have hm := nodes_mem hngs
  have hegt := hegr egs hm.1
  -- the alighting is caught by the second pass
  have hcaught : CaughtR { cx with arrT := ba } true xs := by
    refine ⟨?_, by rw [← htrip]; exact hdis, ?_, ?_⟩
    · simp only [if_true]
      have := minTime_le cx.egressFoot egs hm.1
      show xs.arr ≤ ba - minTime cx.egressFoot
      omega
    · show ba - xs.arr ≤ cx.p.maxTotal
      omega
    · have hlab := init_lab_egress (cx := { cx with arrT := ba }) hnd hm.1
      rw [hm.2, ← hxstop] at hlab
      rw [hlab]
      show xs.arr ≤ ba - egs.time
      omega
  -- it lies in the scanned part of the list
  have hxR := hfr xs hxC
  have hxdrop : xs ∈ cx.cs.rev.drop start2 := by
    rw [← List.take_append_drop start2 cx.cs.rev] at hxR
    rcases List.mem_append.mp hxR with h1 | h1
    · have := before_start_late cx.cs hidx ba hba0 start2 hst2 xs h1
      omega
    · exact h1
  intro hz
  unfold revScan at hz
  have hz' : ((cx.cs.rev.drop start2).foldl (revStep { cx with arrT := ba } fs.usable true) (RState.init { cx with arrT := ba })).count = 0 := hz
  rw [revFold_usable] at hz'
  have hsorted : SortedRev ((cx.cs.rev.drop start2).filter fun c => fs.usable c.trip) :=
    List.Pairwise.sublist (List.Sublist.trans List.filter_sublist (List.drop_sublist _ _)) hsR
  have := (revFold_count_zero { cx with arrT := ba } true _ hsorted).mp hz' xs
    (List.mem_filter.mpr ⟨hxdrop, husable⟩)
  exact this hcaught


/-- **C07, departure-time route queries never answer NO_SERVICE_TO_DESTINATION.** With
    `C07_access` (the three NO_ACCESS_* reasons, exactly when the router offers nothing) and
    `C07_route_no_service_from_origin` (exactly when nothing can be caught) every other failed
    departure-time query answers NO_ROUTING_FOUND. -/
theorem C07_departure_never_to_destination (ds : Dataset) (hwf : WFData ds) (p : Params) (hp : p.forward = true)
    (hmw : 0 ≤ p.minWait) (hmt : 0 ≤ p.maxTransfer) (hb : TimesBounded ds)
    (hacc : ∀ a ∈ ds.access, 0 ≤ a.time) (hegr : ∀ g ∈ ds.egress, 0 ≤ g.time) (hend : (ds.egress.map (·.stop)).Nodup) :
    calculateSingle ds p ≠ .noRouting .noServiceToDestination := by
  have hsub := connSetOf_rev_sub ds (ds.scenarioOf p)
  have hfr := connSetOf_fwd_mem_rev ds (ds.scenarioOf p)
  have hw := timeWF_dataset hwf p hmw hmt (ds.scenarioOf p) (routerLookup ds.access p.maxAccess)
    (routerLookup ds.egress p.maxEgress) p.time (-1)
  unfold calculateSingle calculateSingleCS calculateSingleWith
  split
  · intro h; cases h
  · split
    · intro h; cases h
    · split
      · intro h; cases h
      · simp only
        cases hl : lookupPos (fwdLookup (mkCtx (ds.restrict (ds.connSetOf (ds.scenarioOf p))) p (ds.connSetOf (ds.scenarioOf p))
            (routerLookup ds.access p.maxAccess) (routerLookup ds.egress p.maxEgress) p.time (-1)).cs.fwd
            (mkCtx (ds.restrict (ds.connSetOf (ds.scenarioOf p))) p (ds.connSetOf (ds.scenarioOf p))
            (routerLookup ds.access p.maxAccess) (routerLookup ds.egress p.maxEgress) p.time (-1)).cs.fwdIdx (hourOf p.time)) with
        | none => simp
        | some start =>
          simp only
          split
          · intro h; cases h
          · split
            · intro h; cases h
            · rename_i ba node hbest
              unfold singleReverse
              cases hl2 : lookupPos (revLookup
                  ({ mkCtx (ds.restrict (ds.connSetOf (ds.scenarioOf p))) p (ds.connSetOf (ds.scenarioOf p))
                    (routerLookup ds.access p.maxAccess) (routerLookup ds.egress p.maxEgress) p.time (-1) with arrT := ba } : Ctx).cs.rev
                  ({ mkCtx (ds.restrict (ds.connSetOf (ds.scenarioOf p))) p (ds.connSetOf (ds.scenarioOf p))
                    (routerLookup ds.access p.maxAccess) (routerLookup ds.egress p.maxEgress) p.time (-1) with arrT := ba } : Ctx).cs.revIdx
                  (hourOf ({ mkCtx (ds.restrict (ds.connSetOf (ds.scenarioOf p))) p (ds.connSetOf (ds.scenarioOf p))
                    (routerLookup ds.access p.maxAccess) (routerLookup ds.egress p.maxEgress) p.time (-1) with arrT := ba } : Ctx).arrT + 1)) with
              | none => simp
              | some start2 =>
                simp only
                have hcnt := secondPass_counts
                  (cx := mkCtx (ds.restrict (ds.connSetOf (ds.scenarioOf p))) p (ds.connSetOf (ds.scenarioOf p))
                    (routerLookup ds.access p.maxAccess) (routerLookup ds.egress p.maxEgress) p.time (-1))
                  (connSetOf_sortedFwd ds _) (connSetOf_sorted ds _) rfl hfr
                  (fun a ha b hb' => hw.depMono a (hfr a ha) b (hfr b hb'))
                  (fun a ha b hb' => hw.depArr a (hfr a ha) b (hfr b hb'))
                  hmw (fun c hc => hb c (hsub c (hfr c hc)))
                  (fun a ha => hacc a (List.mem_filter.mp ha).1)
                  (fun z f hf => hwf.footNonneg _ (footOf_mem (ds := ds.restrict (ds.connSetOf (ds.scenarioOf p))) hf))
                  (fun g hg => hegr g (List.mem_filter.mp hg).1)
                  (routerLookup_nodup _ _ hend) hbest start2 hl2
                rw [if_neg hcnt]
                exact reverseJourney_ne_service _ _ _

/-- **C07 (NO_SERVICE_AT_PLACE, arrival-time accessibility).** The arrival-time accessibility
    calculation answers `noServiceToDestination` (rendered NO_SERVICE_AT_PLACE) exactly when no
    connection of an admitted trip arrives at a stop the router offers early enough to walk to the
    place by the requested time, within max_travel_time. -/
theorem C07_no_service_at_place_reverse (ds : Dataset) (p : Params) (hp : p.forward = false) (h0 : 0 ≤ p.time)
    (he : routerLookup ds.egress p.maxEgress ≠ []) :
    calculateAllNodes ds p = .noRouting .noServiceToDestination ↔
      ∀ c ∈ (ds.connSetOf (ds.scenarioOf p)).rev,
        ¬ CaughtR (mkCtx (ds.restrict (ds.connSetOf (ds.scenarioOf p))) p (ds.connSetOf (ds.scenarioOf p))
            [] (routerLookup ds.egress p.maxEgress) (-1) p.time) false c := by
  have he' : (routerLookup (ds.restrict (ds.connSetOf (ds.scenarioOf p))).egress p.maxEgress).isEmpty = false := by
    show (routerLookup ds.egress p.maxEgress).isEmpty = false
    cases h : routerLookup ds.egress p.maxEgress with | nil => exact absurd h he | cons _ _ => rfl
  obtain ⟨start, hst⟩ := rev_start_exists (ds.connSetOf (ds.scenarioOf p)).rev (hourOf p.time + 1)
  generalize hcx : mkCtx (ds.restrict (ds.connSetOf (ds.scenarioOf p))) p (ds.connSetOf (ds.scenarioOf p))
      [] (routerLookup ds.egress p.maxEgress) (-1) p.time = cx
  have hcs : cx.cs = ds.connSetOf (ds.scenarioOf p) := by rw [← hcx]; rfl
  have harrT : cx.arrT = p.time := by rw [← hcx]; rfl
  have hcount := revScan_count_zero cx false (by rw [hcs]; exact connSetOf_sorted ds _) start
  have hst' : lookupPos (revLookup cx.cs.rev cx.cs.revIdx (hourOf cx.arrT + 1)) = some start := by
    rw [hcs, harrT]; exact hst
  have hearly : ∀ c ∈ cx.cs.rev.take start, ¬ CaughtR cx false c := by
    intro c hc hcd
    have := before_start_late cx.cs (by rw [hcs]; rfl) cx.arrT (by rw [harrT]; exact h0) start hst' c hc
    have h1 := hcd.1
    simp at h1
    omega
  have hres : calculateAllNodes ds p =
      (if (revScan cx (fun _ => true) false start).count = 0 then Outcome.noRouting Reason.noServiceToDestination
       else match collectNodes (reverseNode cx (revScan cx (fun _ => true) false start)) (List.range ds.nStops) [] with
        | .ok l => .ok (l, ds.nStops)
        | .noRouting r => .noRouting r
        | .exception w => .exception w) := by
    unfold calculateAllNodes calculateAllNodesCS
    simp only [hp, Bool.false_eq_true, if_false, he']
    have hst'' : lookupPos (revLookup (mkCtx (ds.restrict (ds.connSetOf (ds.scenarioOf p))) p (ds.connSetOf (ds.scenarioOf p))
        [] (routerLookup (ds.restrict (ds.connSetOf (ds.scenarioOf p))).egress p.maxEgress) (-1) p.time).cs.rev
        (mkCtx (ds.restrict (ds.connSetOf (ds.scenarioOf p))) p (ds.connSetOf (ds.scenarioOf p))
        [] (routerLookup (ds.restrict (ds.connSetOf (ds.scenarioOf p))).egress p.maxEgress) (-1) p.time).cs.revIdx
        (hourOf p.time + 1)) = some start := hst
    rw [hst'']
    simp only
    rw [← hcx]
    rfl
  rw [hres, ← hcs]
  by_cases hz : (revScan cx (fun _ => true) false start).count = 0
  · rw [if_pos hz]
    refine ⟨fun _ => ?_, fun _ => rfl⟩
    intro c hc
    rw [← List.take_append_drop start cx.cs.rev] at hc
    rcases List.mem_append.mp hc with h1 | h1
    · exact hearly c h1
    · exact hcount.mp hz c h1
  · rw [if_neg hz]
    constructor
    · intro h
      exfalso
      split at h
      · cases h
      · rename_i r hcoll
        obtain ⟨n, _, hn⟩ := collectNodes_noRouting _ _ _ _ hcoll
        unfold reverseNode at hn
        split at hn
        · cases hn
        · split at hn
          · cases hn
          · split at hn
            · cases hn
            · split at hn
              · cases hn
              · split at hn
                · cases hn
                · simp only at hn
                  split at hn <;> cases hn
      · cases h
    · intro hall
      exact absurd (hcount.mpr (fun c hc => hall c (List.mem_of_mem_drop hc))) hz


theorem reverseJourney_reason (cx : Ctx) (s : RState) (b : Option (Int × Nat)) (r : Reason)
    (h : reverseJourney cx s b = .noRouting r) : r = .noRoutingFound := by
  unfold reverseJourney at h
  split at h
  · cases h; rfl
  · split at h
    · cases h
    · split at h
      · cases h
      · split at h
        · simp only at h
          split at h <;> cases h
        · cases h

/-- **C07, arrival-time route queries never answer NO_SERVICE_FROM_ORIGIN** (for every dataset and
    query): their reason is one of the three NO_ACCESS_*, NO_SERVICE_TO_DESTINATION (exactly when
    nothing arrives in time: `C07_route_no_service_to_destination`) or NO_ROUTING_FOUND. -/
theorem C07_arrival_never_from_origin (ds : Dataset) (p : Params) (hp : p.forward = false) :
    calculateSingle ds p ≠ .noRouting .noServiceFromOrigin := by
  unfold calculateSingle calculateSingleCS calculateSingleWith
  split
  · intro h; cases h
  · split
    · intro h; cases h
    · split
      · intro h; cases h
      · rw [if_neg (by rw [hp]; simp)]
        unfold singleReverse
        simp only
        split
        · simp
        · split
          · intro h; cases h
          · intro h
            have := reverseJourney_reason _ _ _ _ h
            cases this


theorem reverseNode_ne (cx : Ctx) (s : RState) (n : Nat) (r : Reason) : reverseNode cx s n ≠ .noRouting r := by
  intro hn
  unfold reverseNode at hn
  split at hn
  · cases hn
  · split at hn
    · cases hn
    · split at hn
      · cases hn
      · split at hn
        · cases hn
        · split at hn
          · cases hn
          · simp only at hn
            split at hn <;> cases hn

/-- **C07 (NO_ACCESS_AT_PLACE).** The accessibility calculation answers `noAccessAtOrigin`
    (departure maps) / `noAccessAtDestination` (arrival maps) - both rendered NO_ACCESS_AT_PLACE -
    exactly when the walking router offers no stop within the maximum around the place. -/
theorem C07_no_access_at_place (ds : Dataset) (p : Params) :
    (p.forward = true → (calculateAllNodes ds p = .noRouting .noAccessAtOrigin ↔ routerLookup ds.access p.maxAccess = [])) ∧
    (p.forward = false → (calculateAllNodes ds p = .noRouting .noAccessAtDestination ↔ routerLookup ds.egress p.maxEgress = [])) := by
  constructor
  · intro hp
    unfold calculateAllNodes calculateAllNodesCS
    simp only [hp, if_true]
    have hacc : (ds.restrict (ds.connSetOf (ds.scenarioOf p))).access = ds.access := rfl
    rw [hacc]
    by_cases he : routerLookup ds.access p.maxAccess = []
    · simp [he]
    · have he' : (routerLookup ds.access p.maxAccess).isEmpty = false := by
        cases h : routerLookup ds.access p.maxAccess with | nil => exact absurd h he | cons _ _ => rfl
      simp only [he', Bool.false_eq_true, if_false]
      refine ⟨fun h => ?_, fun h => absurd h he⟩
      exfalso
      split at h
      · cases h
      · split at h
        · cases h
        · split at h
          · cases h
          · rename_i r hcoll
            obtain ⟨n, _, hn⟩ := collectNodes_noRouting _ _ _ _ hcoll
            exact forwardNode_ne _ _ _ _ hn
          · cases h
  · intro hp
    unfold calculateAllNodes calculateAllNodesCS
    simp only [hp, Bool.false_eq_true, if_false]
    have hegr : (ds.restrict (ds.connSetOf (ds.scenarioOf p))).egress = ds.egress := rfl
    rw [hegr]
    by_cases he : routerLookup ds.egress p.maxEgress = []
    · simp [he]
    · have he' : (routerLookup ds.egress p.maxEgress).isEmpty = false := by
        cases h : routerLookup ds.egress p.maxEgress with | nil => exact absurd h he | cons _ _ => rfl
      simp only [he', Bool.false_eq_true, if_false]
      refine ⟨fun h => ?_, fun h => absurd h he⟩
      exfalso
      split at h
      · cases h
      · split at h
        · cases h
        · split at h
          · cases h
          · rename_i r hcoll
            obtain ⟨n, _, hn⟩ := collectNodes_noRouting _ _ _ _ hcoll
            exact reverseNode_ne _ _ _ _ hn
          · cases h

end Tr
