/-
  Props/C12Full — translation invariance of the CALCULATION ITSELF (not only of what a specification
  characterises): the scan states of the shifted problem are the shifted scan states of the original
  problem, connection by connection, for every well-formed or ill-formed dataset, with or without the
  first-waiting cap, with or without zero-duration hops. The only hypotheses are range conditions: clock
  values stay far from the two sentinels of the tables (`MAX_INT` = unreached in the forward tables).

  Milestone 1 (this file): departure-time accessibility in full — `C12_full_accessibility_departure`.
-/
import TrVerif.Props.C12Shift
import TrVerif.Props.C12
namespace Tr

/-! ### shifting values that may be the sentinel `MAX_INT` -/

def shT (k : Int) (t : Int) : Int := if t = MAX_INT then MAX_INT else t + k

def shJ (k : Int) (j : JStep) : JStep := { j with enter := j.enter.map (shiftConn k), exit := j.exit.map (shiftConn k) }

def shF (k : Int) (s : FState) : FState :=
  { tent := fun n => shT k (s.tent n), steps := fun n => shJ k (s.steps n), enterC := fun t => (s.enterC t).map (shiftConn k),
    usable := s.usable, egr := fun n => (s.egr n).map (shJ k), count := s.count, reached := s.reached,
    tentEgrArr := shT k s.tentEgrArr, stop := s.stop }

theorem upd_map {α β : Type} (g : α → β) (f : Nat → α) (a : Nat) (v : α) : (fun n => g (upd f a v n)) = upd (fun n => g (f n)) a (g v) := by
  funext n; simp only [upd]; split <;> rfl

/-- everything the forward scan reads from the context, related across the shift -/
structure CtxSh (k : Int) (cx cx' : Ctx) : Prop where
  same : CtxSame cx cx'
  maxTotal : cx'.p.maxTotal = cx.p.maxTotal
  maxFirstWait : cx'.p.maxFirstWait = cx.p.maxFirstWait
  depT : cx'.depT = cx.depT + k
  transferable : ∀ t, cx'.ds.transferable t = cx.ds.transferable t
  nStops : cx'.ds.nStops = cx.ds.nStops

/-- the tentative times of a state are unreached or at most `B` -/
def TentLe (B : Int) (s : FState) : Prop := ∀ n, s.tent n = MAX_INT ∨ s.tent n ≤ B

theorem shT_lt (k B t a : Int) (hB : B + k < MAX_INT) (hB0 : B < MAX_INT) (ht : t = MAX_INT ∨ t ≤ B) (ha : a ≤ B) :
    (shT k t < a + k) = (t < a) := by
  unfold shT
  rcases ht with rfl | ht
  · simp only [if_true]; apply propext; constructor <;> intro h <;> omega
  · have : t ≠ MAX_INT := by omega
    simp only [this, if_false]; apply propext; constructor <;> intro h <;> omega

theorem lt_shT (k B t a : Int) (hB : B + k < MAX_INT) (hB0 : B < MAX_INT) (ht : t = MAX_INT ∨ t ≤ B) (ha : a ≤ B) :
    (a + k < shT k t) = (a < t) := by
  unfold shT
  rcases ht with rfl | ht
  · simp only [if_true]; apply propext; constructor <;> intro h <;> omega
  · have : t ≠ MAX_INT := by omega
    simp only [this, if_false]; apply propext; constructor <;> intro h <;> omega

theorem shT_le (k B t a : Int) (hB : B + k < MAX_INT) (hB0 : B < MAX_INT) (ht : t = MAX_INT ∨ t ≤ B) (ha : a ≤ B) :
    (shT k t ≤ a + k) = (t ≤ a) := by
  unfold shT
  rcases ht with rfl | ht
  · simp only [if_true]; apply propext; constructor <;> intro h <;> omega
  · have : t ≠ MAX_INT := by omega
    simp only [this, if_false]; apply propext; constructor <;> intro h <;> omega

theorem shT_fin (k t B : Int) (h : t ≤ B) (hB0 : B < MAX_INT) : shT k t = t + k := by
  unfold shT; rw [if_neg (by omega)]

theorem egrAll_shift (k : Int) (o : Option JStep) (a : Int) :
    ((o.map (shJ k)).all fun e => e.exit.any fun x => decide (x.arr > a + k)) = (o.all fun e => e.exit.any fun x => decide (x.arr > a)) := by
  cases o with
  | none => rfl
  | some e =>
    simp only [Option.map_some, Option.all_some, shJ]
    cases e.exit with
    | none => rfl
    | some x =>
      simp only [Option.map_some, Option.any_some, shiftConn]
      apply Bool.eq_iff_iff.2; simp only [decide_eq_true_eq]; constructor <;> intro h <;> omega

theorem shF_tent_steps (k : Int) (s : FState) (a : Nat) (v : Int) (js : JStep) :
    shF k { s with tent := upd s.tent a v, steps := upd s.steps a js } =
      { shF k s with tent := upd (shF k s).tent a (shT k v), steps := upd (shF k s).steps a (shJ k js) } := by
  simp only [shF, upd_map (shT k), upd_map (shJ k)]

theorem shF_egr (k : Int) (s : FState) (a : Nat) (js : JStep) :
    shF k { s with egr := upd s.egr a (some js) } = { shF k s with egr := upd (shF k s).egr a (some (shJ k js)) } := by
  simp only [shF, upd_map (Option.map (shJ k)), Option.map_some]

theorem shF_egr_app (k : Int) (s : FState) (n : Nat) : (shF k s).egr n = (s.egr n).map (shJ k) := rfl

theorem tentLe_upd {B : Int} {s : FState} (hs : TentLe B s) (a : Nat) (v : Int) (hv : v ≤ B) (st : Nat → JStep) :
    TentLe B ({ s with tent := upd s.tent a v, steps := st } : FState) := by
  intro n; simp only [upd]; split
  · exact Or.inr hv
  · exact hs n

theorem fwdFoot_tentLe {B : Int} (cx : Ctx) (c : Conn) (s : FState) (f : NTD) (hs : TentLe B s) (hcf : f.time + c.arr ≤ B) :
    TentLe B (fwdFoot cx c s f) := by
  unfold fwdFoot
  simp only
  split
  · exact hs
  · split
    · split
      · split
        · intro n; simp only [upd]; split
          · exact Or.inr hcf
          · exact hs n
        · intro n; simp only [upd]; split
          · exact Or.inr hcf
          · exact hs n
      · split
        · exact fun n => hs n
        · exact hs
    · exact hs

/-- one footpath of the forward scan commutes with the shift -/
theorem fwdFoot_shift {k B : Int} {cx cx' : Ctx} (h : CtxSh k cx cx') (hB : B + k < MAX_INT) (hB0 : B < MAX_INT)
    (c : Conn) (s : FState) (f : NTD) (hs : TentLe B s) (hc : c.arr ≤ B) (hcf : f.time + c.arr ≤ B) :
    fwdFoot cx' (shiftConn k c) (shF k s) f = shF k (fwdFoot cx c s f) := by
  have hcur := hs f.stop
  have E1 : ((shF k s).tent f.stop < (shiftConn k c).arr) = (s.tent f.stop < c.arr) := shT_lt k B _ _ hB hB0 hcur hc
  have E2 : (f.time + (shiftConn k c).arr < (shF k s).tent f.stop) = (f.time + c.arr < s.tent f.stop) := by
    show (f.time + (c.arr + k) < shT k (s.tent f.stop)) = _
    rw [show f.time + (c.arr + k) = (f.time + c.arr) + k by omega]; exact lt_shT k B _ _ hB hB0 hcur hcf
  have E3 : (shiftConn k c).arrStop = c.arrStop := rfl
  have E4 : (shiftConn k c).trip = c.trip := rfl
  have E5 : (shiftConn k c).arr = c.arr + k := rfl
  have js' : ({ enter := (shF k s).enterC c.trip, exit := some (shiftConn k c), walk := f.time, dist := f.dist } : JStep) =
      shJ k { enter := s.enterC c.trip, exit := some c, walk := f.time, dist := f.dist } := rfl
  have hv : f.time + (shiftConn k c).arr = shT k (f.time + c.arr) := by
    rw [shT_fin k _ B hcf hB0]; show f.time + (c.arr + k) = _; omega
  unfold fwdFoot
  simp only [E1, E2, E3, E4, ← h.same.mt]
  by_cases g1 : f.stop ≠ c.arrStop ∧ s.tent f.stop < c.arr
  · simp only [if_pos g1]
  · simp only [if_neg g1]
    by_cases g2 : f.time ≤ cx.p.maxTransfer
    · simp only [if_pos g2]
      by_cases g3 : f.time + c.arr < s.tent f.stop
      · simp only [if_pos g3, js', hv]
        have ee : ∀ (X : FState), (X.egr f.stop = s.egr f.stop) →
            (((shF k X).egr f.stop).all (fun e => e.exit.any fun x => decide (x.arr > (shiftConn k c).arr))) =
            ((s.egr f.stop).all fun e => e.exit.any fun x => decide (x.arr > c.arr)) := by
          intro X hX; rw [shF_egr_app, hX, E5, egrAll_shift]
        rw [← shF_tent_steps, ee _ rfl]
        split
        · simp only [shF, upd_map (shT k), upd_map (shJ k), upd_map (Option.map (shJ k)), Option.map_some]
        · rfl
      · simp only [if_neg g3, js']
        simp only [shF_egr_app, E5, egrAll_shift]
        split
        · simp only [shF, upd_map (shT k), upd_map (shJ k), upd_map (Option.map (shJ k)), Option.map_some]
        · rfl
    · simp only [if_neg g2]

theorem fwdFootFold_shift {k B W : Int} {cx cx' : Ctx} (h : CtxSh k cx cx') (hB : B + k < MAX_INT) (hB0 : B < MAX_INT)
    (c : Conn) (hc : c.arr ≤ B) (hcw : c.arr + W ≤ B) : ∀ (l : List NTD) (s : FState), (∀ f ∈ l, f.time ≤ W) → TentLe B s →
    l.foldl (fwdFoot cx' (shiftConn k c)) (shF k s) = shF k (l.foldl (fwdFoot cx c) s) ∧ TentLe B (l.foldl (fwdFoot cx c) s) := by
  intro l
  induction l with
  | nil => intro s _ hs; exact ⟨rfl, hs⟩
  | cons f l ih =>
    intro s hl hs
    have hf : f.time + c.arr ≤ B := by have := hl f (by simp); omega
    simp only [List.foldl_cons]
    rw [fwdFoot_shift h hB hB0 c s f hs hc hf]
    exact ih _ (fun g hg => hl g (List.mem_cons_of_mem _ hg)) (fwdFoot_tentLe cx c s f hs hf)

theorem nodesAccess_same {cx cx' : Ctx} (h : CtxSame cx cx') (z : Nat) : cx'.nodesAccess z = cx.nodesAccess z := by
  unfold Ctx.nodesAccess; rw [h.acc]
theorem nodesEgress_same {cx cx' : Ctx} (h : CtxSame cx cx') (z : Nat) : cx'.nodesEgress z = cx.nodesEgress z := by
  unfold Ctx.nodesEgress; rw [h.egr]
theorem minAccess_same {cx cx' : Ctx} (h : CtxSame cx cx') : cx'.minAccess = cx.minAccess := by
  unfold Ctx.minAccess; rw [h.acc]
theorem maxEgress_same {cx cx' : Ctx} (h : CtxSame cx cx') : cx'.maxEgress = cx.maxEgress := by
  unfold Ctx.maxEgress; rw [h.egr]

theorem shF_enterC (k : Int) (s : FState) (t : Nat) : (shF k s).enterC t = (s.enterC t).map (shiftConn k) := rfl
theorem shF_tent (k : Int) (s : FState) (n : Nat) : (shF k s).tent n = shT k (s.tent n) := rfl
theorem shF_steps_enter (k : Int) (s : FState) (n : Nat) : ((shF k s).steps n).enter.isNone = (s.steps n).enter.isNone := by
  show ((shJ k (s.steps n)).enter).isNone = _
  simp [shJ]

/-! the body of `fwdStep`, cut into named pieces (the definition itself is untouched: `fwdStep_eq` is `rfl`) -/

def fwdBoardS (s : FState) (c : Conn) : FState :=
  if c.canBoard ∧ (s.enterC c.trip).isNone then
    { s with usable := upd s.usable c.trip true, enterC := upd s.enterC c.trip (some c) }
  else s

def fwdAlightS (cx : Ctx) (single : Bool) (s1 : FState) (c : Conn) : FState :=
  if c.canUnboard ∧ (s1.enterC c.trip).isSome then
    let s1' : FState := if single ∧ ¬ s1.reached ∧
        ((cx.nodesEgress c.arrStop).any fun (e : NTD) => decide (e.time ≠ -1)) then
        { s1 with reached := true, tentEgrArr := c.arr }
      else s1
    (cx.ds.footOf c.arrStop).foldl (fwdFoot cx c) s1'
  else s1

def fwdGuardP (cx : Ctx) (s : FState) (c : Conn) : Prop :=
  ((s.enterC c.trip).isSome ∨ s.tent c.depStop ≤ c.dep - c.effWait cx.p.minWait) ∧
  (¬ (decide (cx.p.maxFirstWait > 0) && ((cx.nodesAccess c.depStop).any fun a => decide (a.time ≥ 0)) && (s.steps c.depStop).enter.isNone) = true ∨
    c.dep - s.tent c.depStop ≤ cx.p.maxFirstWait)

instance (cx : Ctx) (s : FState) (c : Conn) : Decidable (fwdGuardP cx s c) := by unfold fwdGuardP; exact inferInstance

def fwdBreakP (cx : Ctx) (single : Bool) (s : FState) (c : Conn) : Prop :=
  (single ∧ s.reached ∧ cx.maxEgress ≥ 0 ∧ s.tentEgrArr < MAX_INT ∧ c.dep > s.tentEgrArr + cx.maxEgress) ∨ c.dep - cx.depT > cx.p.maxTotal

instance (cx : Ctx) (single : Bool) (s : FState) (c : Conn) : Decidable (fwdBreakP cx single s c) := by unfold fwdBreakP; exact inferInstance

theorem fwdStep_eq (cx : Ctx) (single : Bool) (s : FState) (c : Conn) :
    fwdStep cx single s c =
      if s.stop then s else
      if ¬ (c.dep ≥ cx.depT + cx.minAccess) then s else
      if cx.disabled c.trip then s else
      if fwdBreakP cx single s c then { s with stop := true } else
      if ¬ fwdGuardP cx s c then s else
      { fwdAlightS cx single (fwdBoardS s c) c with count := (fwdAlightS cx single (fwdBoardS s c) c).count + 1 } := by
  unfold fwdStep fwdBreakP fwdGuardP fwdAlightS fwdBoardS
  rfl

theorem fwdBoardS_shift (k : Int) (s : FState) (c : Conn) : fwdBoardS (shF k s) (shiftConn k c) = shF k (fwdBoardS s c) := by
  have e : ((shF k s).enterC c.trip).isNone = (s.enterC c.trip).isNone := by rw [shF_enterC]; simp
  unfold fwdBoardS
  show (if c.canBoard = true ∧ ((shF k s).enterC c.trip).isNone = true then
      ({ shF k s with usable := upd (shF k s).usable c.trip true, enterC := upd (shF k s).enterC c.trip (some (shiftConn k c)) } : FState)
    else shF k s) = _
  rw [e]
  by_cases g : c.canBoard = true ∧ (s.enterC c.trip).isNone = true
  · rw [if_pos g, if_pos g]
    simp only [shF, upd_map (Option.map (shiftConn k)), Option.map_some]
  · rw [if_neg g, if_neg g]

theorem fwdBoardS_tent (s : FState) (c : Conn) : (fwdBoardS s c).tent = s.tent := by
  unfold fwdBoardS; split <;> rfl

theorem fwdAlightS_shift {k B W : Int} {cx cx' : Ctx} (h : CtxSh k cx cx') (hB : B + k < MAX_INT) (hB0 : B < MAX_INT)
    (hfoot : ∀ z, ∀ f ∈ cx.ds.footOf z, f.time ≤ W) (c : Conn) (s : FState) (hs : TentLe B s) (hc : c.arr ≤ B) (hcw : c.arr + W ≤ B) :
    fwdAlightS cx' false (shF k s) (shiftConn k c) = shF k (fwdAlightS cx false s c) ∧ TentLe B (fwdAlightS cx false s c) := by
  unfold fwdAlightS
  have e : ((shF k s).enterC (shiftConn k c).trip).isSome = (s.enterC c.trip).isSome := by rw [shF_enterC]; simp; rfl
  have hcu : (shiftConn k c).canUnboard = c.canUnboard := rfl
  have has : (shiftConn k c).arrStop = c.arrStop := rfl
  simp only [e, hcu, has, Bool.false_eq_true, false_and, if_false, ← h.same.foot]
  split
  · exact fwdFootFold_shift h hB hB0 c hc hcw _ s (hfoot c.arrStop) hs
  · exact ⟨rfl, hs⟩

/-- one connection of the all-nodes forward scan commutes with the shift -/
theorem fwdStep_shift {k B W : Int} {cx cx' : Ctx} (h : CtxSh k cx cx') (hB : B + k < MAX_INT) (hB0 : B < MAX_INT)
    (hfoot : ∀ z, ∀ f ∈ cx.ds.footOf z, f.time ≤ W) (hmw : 0 ≤ cx.p.minWait)
    (c : Conn) (s : FState) (hs : TentLe B s) (hc : c.arr ≤ B) (hcw : c.arr + W ≤ B) (hcd : c.dep ≤ B) (hcmw : 0 ≤ c.minWait ∨ c.minWait = -1) :
    fwdStep cx' false (shF k s) (shiftConn k c) = shF k (fwdStep cx false s c) ∧ TentLe B (fwdStep cx false s c) := by
  have hmwc : 0 ≤ c.effWait cx.p.minWait := by unfold Conn.effWait; split <;> omega
  have E0 : (shiftConn k c).effWait cx'.p.minWait = c.effWait cx.p.minWait := by rw [← h.same.mw]; rfl
  have E1 : ((shiftConn k c).dep ≥ cx'.depT + cx'.minAccess) = (c.dep ≥ cx.depT + cx.minAccess) := by
    rw [h.depT, minAccess_same h.same]; show (c.dep + k ≥ _) = _; apply propext; constructor <;> intro g <;> omega
  have E2 : cx'.disabled (shiftConn k c).trip = cx.disabled c.trip := (h.same.dis c.trip).symm
  have E3 : ((shiftConn k c).dep - cx'.depT > cx'.p.maxTotal) = (c.dep - cx.depT > cx.p.maxTotal) := by
    rw [h.depT, h.maxTotal]; show (c.dep + k - _ > _) = _; apply propext; constructor <;> intro g <;> omega
  have E4 : ((shF k s).tent (shiftConn k c).depStop ≤ (shiftConn k c).dep - (shiftConn k c).effWait cx'.p.minWait) =
      (s.tent c.depStop ≤ c.dep - c.effWait cx.p.minWait) := by
    rw [E0]; show (shT k (s.tent c.depStop) ≤ c.dep + k - _) = _
    rw [show c.dep + k - c.effWait cx.p.minWait = (c.dep - c.effWait cx.p.minWait) + k by omega]
    exact shT_le k B _ _ hB hB0 (hs c.depStop) (by omega)
  have E5 : (cx.p.maxFirstWait > 0) → ((shiftConn k c).dep - (shF k s).tent (shiftConn k c).depStop ≤ cx'.p.maxFirstWait) =
      (c.dep - s.tent c.depStop ≤ cx.p.maxFirstWait) := by
    intro hfo
    rw [h.maxFirstWait]; show (c.dep + k - shT k (s.tent c.depStop) ≤ _) = _
    rcases hs c.depStop with e | e
    · rw [e]; simp only [shT, if_true]; apply propext; constructor <;> intro g <;> omega
    · rw [shT_fin k _ B e hB0]; apply propext; constructor <;> intro g <;> omega
  have E6 : (decide (cx'.p.maxFirstWait > 0) && ((cx'.nodesAccess (shiftConn k c).depStop).any fun a => decide (a.time ≥ 0)) &&
        ((shF k s).steps (shiftConn k c).depStop).enter.isNone) =
      (decide (cx.p.maxFirstWait > 0) && ((cx.nodesAccess c.depStop).any fun a => decide (a.time ≥ 0)) && (s.steps c.depStop).enter.isNone) := by
    rw [h.maxFirstWait, nodesAccess_same h.same, shF_steps_enter]; rfl
  have E7 : ((shF k s).enterC (shiftConn k c).trip).isSome = (s.enterC c.trip).isSome := by
    rw [shF_enterC]; simp; rfl
  have E7' : ((shF k s).enterC (shiftConn k c).trip).isNone = (s.enterC c.trip).isNone := by
    rw [shF_enterC]; simp; rfl
  -- the reachability guard
  have EG : (((shF k s).enterC (shiftConn k c).trip).isSome = true ∨
        (shF k s).tent (shiftConn k c).depStop ≤ (shiftConn k c).dep - (shiftConn k c).effWait cx'.p.minWait) ∧
      (¬ (decide (cx'.p.maxFirstWait > 0) && ((cx'.nodesAccess (shiftConn k c).depStop).any fun a => decide (a.time ≥ 0)) &&
          ((shF k s).steps (shiftConn k c).depStop).enter.isNone) = true ∨
        (shiftConn k c).dep - (shF k s).tent (shiftConn k c).depStop ≤ cx'.p.maxFirstWait) ↔
      ((s.enterC c.trip).isSome = true ∨ s.tent c.depStop ≤ c.dep - c.effWait cx.p.minWait) ∧
      (¬ (decide (cx.p.maxFirstWait > 0) && ((cx.nodesAccess c.depStop).any fun a => decide (a.time ≥ 0)) && (s.steps c.depStop).enter.isNone) = true ∨
        c.dep - s.tent c.depStop ≤ cx.p.maxFirstWait) := by
    rw [E7, E4, E6]
    by_cases hfo : cx.p.maxFirstWait > 0
    · rw [E5 hfo]
    · have : (decide (cx.p.maxFirstWait > 0) && ((cx.nodesAccess c.depStop).any fun a => decide (a.time ≥ 0)) && (s.steps c.depStop).enter.isNone) = false := by
        simp [hfo]
      simp [this]
  have EG' : fwdGuardP cx' (shF k s) (shiftConn k c) ↔ fwdGuardP cx s c := by unfold fwdGuardP; exact EG
  have EB : fwdBreakP cx' false (shF k s) (shiftConn k c) ↔ fwdBreakP cx false s c := by
    unfold fwdBreakP; simp only [Bool.false_eq_true, false_and, false_or]; rw [E3]
  have hstop : (shF k s).stop = s.stop := rfl
  obtain ⟨ha1, ha2⟩ := fwdAlightS_shift h hB hB0 hfoot c (fwdBoardS s c) (by intro n; rw [fwdBoardS_tent]; exact hs n) hc hcw
  rw [fwdStep_eq, fwdStep_eq]
  simp only [hstop, E1, E2, EG', EB, fwdBoardS_shift, ha1]
  by_cases g0 : s.stop = true
  · simp only [g0, if_true]; exact ⟨trivial, hs⟩
  · simp only [g0, Bool.false_eq_true, if_false]
    by_cases g1 : c.dep ≥ cx.depT + cx.minAccess
    · simp only [g1, not_true_eq_false, if_false]
      by_cases g2 : cx.disabled c.trip = true
      · simp only [g2, if_true]; exact ⟨trivial, hs⟩
      · simp only [g2, Bool.false_eq_true, if_false]
        by_cases g3 : fwdBreakP cx false s c
        · simp only [g3, if_true]; exact ⟨rfl, fun n => hs n⟩
        · simp only [g3, if_false]
          by_cases g4 : fwdGuardP cx s c
          · simp only [g4, not_true_eq_false, if_false]
            exact ⟨rfl, fun n => ha2 n⟩
          · simp only [g4, not_false_eq_true, if_true]; exact ⟨trivial, hs⟩
    · simp only [g1, not_false_eq_true, if_true]; exact ⟨trivial, hs⟩

/-! ### the whole forward scan -/

/-- the clock values of a connection list stay below `B` (with room for the longest footpath `W`) -/
def ConnsLe (B W : Int) (l : List Conn) : Prop := ∀ c ∈ l, c.arr ≤ B ∧ c.arr + W ≤ B ∧ c.dep ≤ B ∧ (0 ≤ c.minWait ∨ c.minWait = -1)

theorem fwdFold_shift {k B W : Int} {cx cx' : Ctx} (h : CtxSh k cx cx') (hB : B + k < MAX_INT) (hB0 : B < MAX_INT)
    (hfoot : ∀ z, ∀ f ∈ cx.ds.footOf z, f.time ≤ W) (hmw : 0 ≤ cx.p.minWait) :
    ∀ (l : List Conn) (s : FState), ConnsLe B W l → TentLe B s →
      (l.map (shiftConn k)).foldl (fwdStep cx' false) (shF k s) = shF k (l.foldl (fwdStep cx false) s) := by
  intro l
  induction l with
  | nil => intro s _ _; rfl
  | cons c l ih =>
    intro s hl hs
    obtain ⟨a1, a2, a3, a4⟩ := hl c (by simp)
    obtain ⟨e1, e2⟩ := fwdStep_shift h hB hB0 hfoot hmw c s hs a1 a2 a3 a4
    simp only [List.map_cons, List.foldl_cons]
    rw [e1]
    exact ih _ (fun x hx => hl x (List.mem_cons_of_mem _ hx)) e2

theorem init_fold_shift (k B d : Int) (hB0 : B < MAX_INT) : ∀ (l : List NTD) (f : Nat → Int), (∀ e ∈ l, d + e.time ≤ B) →
    (fun n => shT k ((l.foldl (fun f e => upd f e.stop (d + e.time)) f) n)) =
      l.foldl (fun f e => upd f e.stop (d + k + e.time)) (fun n => shT k (f n)) := by
  intro l
  induction l with
  | nil => intro f _; rfl
  | cons e l ih =>
    intro f hl
    simp only [List.foldl_cons]
    rw [ih _ (fun x hx => hl x (List.mem_cons_of_mem _ hx)), upd_map (shT k), shT_fin k _ B (hl e (by simp)) hB0]
    congr 2; omega

theorem init_fold_tentLe (B d : Int) : ∀ (l : List NTD) (f : Nat → Int), (∀ e ∈ l, d + e.time ≤ B) → (∀ n, f n = MAX_INT ∨ f n ≤ B) →
    ∀ n, (l.foldl (fun f e => upd f e.stop (d + e.time)) f) n = MAX_INT ∨ (l.foldl (fun f e => upd f e.stop (d + e.time)) f) n ≤ B := by
  intro l
  induction l with
  | nil => intro f _ hf; exact hf
  | cons e l ih =>
    intro f hl hf
    simp only [List.foldl_cons]
    apply ih _ (fun x hx => hl x (List.mem_cons_of_mem _ hx))
    intro n; simp only [upd]; split
    · exact Or.inr (hl e (by simp))
    · exact hf n

theorem init_steps_shift (k : Int) : ∀ (l : List NTD) (f : Nat → JStep),
    (fun n => shJ k ((l.foldl (fun f e => upd f e.stop ({ walk := e.time, dist := e.dist } : JStep)) f) n)) =
      l.foldl (fun f e => upd f e.stop ({ walk := e.time, dist := e.dist } : JStep)) (fun n => shJ k (f n)) := by
  intro l
  induction l with
  | nil => intro f; rfl
  | cons e l ih => intro f; simp only [List.foldl_cons]; rw [ih, upd_map (shJ k)]; rfl

theorem FState_init_shift {k B : Int} {cx cx' : Ctx} (h : CtxSh k cx cx') (hB0 : B < MAX_INT) (ha : ∀ e ∈ cx.accessFoot, cx.depT + e.time ≤ B) :
    FState.init cx' = shF k (FState.init cx) ∧ TentLe B (FState.init cx) := by
  refine ⟨?_, ?_⟩
  · unfold FState.init shF
    rw [← h.same.acc, h.depT]
    simp only
    rw [init_fold_shift k B cx.depT hB0 cx.accessFoot _ ha, init_steps_shift k]
    simp only [shT, if_true, shJ, Option.map_none]
  · exact init_fold_tentLe B cx.depT cx.accessFoot _ ha (fun _ => Or.inl rfl)

/-! ### the accessibility answer -/

theorem fwdChain_shift (k : Int) (ds ds' : Dataset) (htr : ∀ t, ds'.transferable t = ds.transferable t) (steps : Nat → JStep) :
    ∀ (fuel : Nat) (cur : JStep) (n : Int), fwdChain ds' (fun z => shJ k (steps z)) fuel (shJ k cur) n = fwdChain ds steps fuel cur n := by
  intro fuel
  induction fuel with
  | zero => intro cur n; simp only [fwdChain, JStep.hasConns, shJ, Option.isSome_map]; rfl
  | succ fuel ih =>
    intro cur n
    simp only [fwdChain, shJ]
    cases cur.enter with
    | none => rfl
    | some e =>
      cases cur.exit with
      | none => rfl
      | some x =>
        simp only [Option.map_some]
        have := ih (steps e.depStop) (if ds.transferable e.trip = true then n else n + 1)
        simp only [shJ] at this
        rw [show (shiftConn k e).depStop = e.depStop from rfl, show (shiftConn k e).trip = e.trip from rfl, htr, this]

def shNode (k : Int) (a : AccNode) : AccNode := { a with nodeTime := a.nodeTime + k }

def shNodeOut (k : Int) : Outcome (Option AccNode) → Outcome (Option AccNode)
  | .ok o => .ok (o.map (shNode k))
  | .noRouting r => .noRouting r
  | .exception w => .exception w

theorem forwardNode_shift {k : Int} {cx cx' : Ctx} (h : CtxSh k cx cx') (s : FState) (node : Nat) :
    forwardNode cx' (shF k s) node = shNodeOut k (forwardNode cx s node) := by
  unfold forwardNode
  rw [shF_egr_app]
  cases hs : s.egr node with
  | none => rfl
  | some first =>
    simp only [Option.map_some]
    have hc := fwdChain_shift k cx.ds cx'.ds h.transferable s.steps (cx.ds.nStops + 2) first (-1)
    rw [h.nStops]
    show (match fwdChain cx'.ds (fun z => shJ k (s.steps z)) (cx.ds.nStops + 2) (shJ k first) (-1) with
      | none => _ | some nt => _) = _
    rw [hc]
    cases fwdChain cx.ds s.steps (cx.ds.nStops + 2) first (-1) with
    | none => rfl
    | some nt =>
      simp only [shJ]
      cases first.enter with
      | none => rfl
      | some e =>
        cases first.exit with
        | none => rfl
        | some x =>
          simp only [Option.map_some, shiftConn, h.depT, h.maxTotal]
          have : (x.arr + k - (cx.depT + k) ≤ cx.p.maxTotal) = (x.arr - cx.depT ≤ cx.p.maxTotal) := by
            apply propext; constructor <;> intro g <;> omega
          simp only [this]
          split
          · simp only [shNodeOut, Option.map_some, shNode]; congr 3; omega
          · rfl

def shAccOut (k : Int) : Outcome (List AccNode × Nat) → Outcome (List AccNode × Nat)
  | .ok (l, n) => .ok (l.map (shNode k), n)
  | .noRouting r => .noRouting r
  | .exception w => .exception w

theorem collectNodes_shift (k : Int) (f f' : Nat → Outcome (Option AccNode)) (hf : ∀ n, f' n = shNodeOut k (f n)) :
    ∀ (l : List Nat) (acc : List AccNode),
      collectNodes f' l (acc.map (shNode k)) = (match collectNodes f l acc with
        | .ok r => .ok (r.map (shNode k)) | .noRouting r => .noRouting r | .exception w => .exception w) := by
  intro l
  induction l with
  | nil => intro acc; rfl
  | cons n ns ih =>
    intro acc
    simp only [collectNodes, hf]
    cases f n with
    | ok o =>
      cases o with
      | none => simp only [shNodeOut, Option.map_none]; exact ih acc
      | some a =>
        simp only [shNodeOut, Option.map_some]
        have := ih (acc ++ [a])
        simp only [List.map_append, List.map_cons, List.map_nil] at this
        exact this
    | noRouting r => rfl
    | exception w => rfl

/-! ### the shifted dataset has the shifted connection lists -/

theorem insertBy_map' {α β : Type} (lt : α → α → Bool) (lt' : β → β → Bool) (g : α → β) (hg : ∀ a b, lt' (g a) (g b) = lt a b) (x : α) :
    ∀ (l : List α), insertBy lt' (g x) (l.map g) = (insertBy lt x l).map g := by
  intro l
  induction l with
  | nil => rfl
  | cons y ys ih =>
    simp only [List.map_cons, insertBy, hg]
    split
    · simp [ih]
    · rfl

theorem isort_map' {α β : Type} (lt : α → α → Bool) (lt' : β → β → Bool) (g : α → β) (hg : ∀ a b, lt' (g a) (g b) = lt a b) :
    ∀ (l : List α), isort lt' (l.map g) = (isort lt l).map g := by
  intro l
  induction l with
  | nil => rfl
  | cons a l ih =>
    show insertBy lt' (g a) (isort lt' (l.map g)) = (insertBy lt a (isort lt l)).map g
    rw [ih, insertBy_map' lt lt' g hg]

theorem fwdLt_shift (k : Int) (a b : Conn) : fwdLt (shiftConn k a) (shiftConn k b) = fwdLt a b := by
  apply Bool.eq_iff_iff.2
  simp only [fwdLt, Bool.or_eq_true, Bool.and_eq_true, decide_eq_true_eq]
  simp only [shiftConn]
  constructor <;> intro h <;> omega

theorem fwd_list_shift (k : Int) (ds : Dataset) (hal : TripsAligned ds) (sc : Scenario) :
    ((shiftDs k ds).connSetOf sc).fwd = ((ds.connSetOf sc).fwd).map (shiftConn k) := by
  simp only [Dataset.connSetOf, mkConnSet, Dataset.fwdAll]
  rw [conns_shift k ds hal, isort_map' fwdLt fwdLt (shiftConn k) (fwdLt_shift k), List.filter_map]
  congr 1
  apply List.filter_congr
  intro c _
  simp only [Function.comp]
  rw [tripEnabled_shift]; rfl

theorem transferable_shift (k : Int) (ds : Dataset) (t : Nat) : (shiftDs k ds).transferable t = ds.transferable t := by
  unfold Dataset.transferable Dataset.modeOfTrip
  rw [lineOfTrip_shift]; rfl

/-- the shifted answer of a departure-time accessibility request -/
def shAccOutcome (k : Int) : Outcome (List AccNode × Nat) → Outcome (List AccNode × Nat)
  | .ok (l, n) => .ok (l.map (shNode k), n)
  | .noRouting r => .noRouting r
  | .exception w => .exception w

/-- range conditions of `C12_full_accessibility_departure`: with `B` a bound below `MAX_INT` on both sides of the shift and `W` the
    longest footpath, every clock value of the scanned connections (plus `W`) and the request time plus every access walk stay ≤ `B` -/
structure FwdRange (ds : Dataset) (p : Params) (k B W : Int) : Prop where
  hB : B + k < MAX_INT
  hB0 : B < MAX_INT
  foot : ∀ z, ∀ f ∈ ds.footOf z, f.time ≤ W
  mw : 0 ≤ p.minWait
  conns : ConnsLe B W (ds.connSetOf (ds.scenarioOf p)).fwd
  access : ∀ e ∈ ds.access, p.time + e.time ≤ B

/-- **C12 in full for departure-time accessibility**: moving every scheduled time and the requested time by `k` moves every
    reported node time by `k` and changes nothing else — same status, same reason, same stops, same travel times, same numbers of
    transfers — for EVERY dataset (zero-duration hops, any footpaths), EVERY query (first-waiting cap, limits, scenario) and every
    offset, provided the clock values stay clear of the `MAX_INT` sentinel. No optimality domain is involved: the scan states of the
    two runs are related connection by connection (`fwdStep_shift`). -/
theorem C12_full_accessibility_departure (ds : Dataset) (p : Params) (k B W : Int) (hal : TripsAligned ds) (hf : p.forward = true)
    (R : FwdRange ds p k B W) :
    calculateAllNodes0 (shiftDs k ds) (shiftP k p) = shAccOutcome k (calculateAllNodes0 ds p) := by
  have hsc : (shiftDs k ds).scenarioOf (shiftP k p) = ds.scenarioOf p := rfl
  have hfw : (shiftP k p).forward = true := hf
  unfold calculateAllNodes0
  simp only [hfw, hf, if_true, hsc]
  have hacc : routerLookup ((shiftDs k ds).restrict ((shiftDs k ds).connSetOf (ds.scenarioOf p))).access (shiftP k p).maxAccess =
      routerLookup (ds.restrict (ds.connSetOf (ds.scenarioOf p))).access p.maxAccess := rfl
  rw [hacc]
  by_cases he : (routerLookup (ds.restrict (ds.connSetOf (ds.scenarioOf p))).access p.maxAccess).isEmpty = true
  · simp only [he, if_true]; rfl
  · simp only [he, Bool.false_eq_true, if_false]
    -- the two contexts
    have hsame := ctxSame_shift' k ds p (routerLookup (ds.restrict (ds.connSetOf (ds.scenarioOf p))).access p.maxAccess) [] p.time (-1) (p.time + k) (-1)
    rw [hsc] at hsame
    have hrs : (shiftDs k ds).restrict ((shiftDs k ds).connSetOf (ds.scenarioOf p)) = shiftDs k (ds.restrict (ds.connSetOf (ds.scenarioOf p))) :=
      restrict_shift k ds (ds.scenarioOf p)
    have hsh : CtxSh k
        (mkCtx (ds.restrict (ds.connSetOf (ds.scenarioOf p))) p (ds.connSetOf (ds.scenarioOf p))
          (routerLookup (ds.restrict (ds.connSetOf (ds.scenarioOf p))).access p.maxAccess) [] p.time (-1))
        (mkCtx ((shiftDs k ds).restrict ((shiftDs k ds).connSetOf (ds.scenarioOf p))) (shiftP k p) ((shiftDs k ds).connSetOf (ds.scenarioOf p))
          (routerLookup (ds.restrict (ds.connSetOf (ds.scenarioOf p))).access p.maxAccess) [] (shiftP k p).time (-1)) := by
      refine ⟨hsame, rfl, rfl, rfl, ?_, ?_⟩
      · intro t; show ((shiftDs k ds).restrict _).transferable t = _; rw [hrs, transferable_shift]; rfl
      · show ((shiftDs k ds).restrict _).nStops = _; rw [hrs]; rfl
    generalize hcx : mkCtx (ds.restrict (ds.connSetOf (ds.scenarioOf p))) p (ds.connSetOf (ds.scenarioOf p))
          (routerLookup (ds.restrict (ds.connSetOf (ds.scenarioOf p))).access p.maxAccess) [] p.time (-1) = cx at *
    generalize hcx' : mkCtx ((shiftDs k ds).restrict ((shiftDs k ds).connSetOf (ds.scenarioOf p))) (shiftP k p) ((shiftDs k ds).connSetOf (ds.scenarioOf p))
          (routerLookup (ds.restrict (ds.connSetOf (ds.scenarioOf p))).access p.maxAccess) [] (shiftP k p).time (-1) = cx' at *
    have hfwd : cx'.cs.fwd = cx.cs.fwd.map (shiftConn k) := by rw [← hcx, ← hcx']; exact fwd_list_shift k ds hal _
    have hfootc : ∀ z, ∀ f ∈ cx.ds.footOf z, f.time ≤ W := by rw [← hcx]; exact R.foot
    have hmwc : 0 ≤ cx.p.minWait := by rw [← hcx]; exact R.mw
    have hconns : ConnsLe B W cx.cs.fwd := by rw [← hcx]; exact R.conns
    have haccB : ∀ e ∈ cx.accessFoot, cx.depT + e.time ≤ B := by
      rw [← hcx]; intro e he'
      simp only [mkCtx, routerLookup, List.mem_filter] at he'
      exact R.access e he'.1
    obtain ⟨hi1, hi2⟩ := FState_init_shift hsh R.hB0 haccB
    have hscan : fwdScan cx' false 0 = shF k (fwdScan cx false 0) := by
      unfold fwdScan
      rw [List.drop_zero, List.drop_zero, hfwd, hi1]
      exact fwdFold_shift hsh R.hB R.hB0 hfootc hmwc _ _ hconns hi2
    rw [hscan]
    have hcount : (shF k (fwdScan cx false 0)).count = (fwdScan cx false 0).count := rfl
    rw [hcount]
    by_cases hz : (fwdScan cx false 0).count = 0
    · simp only [hz, if_true]; rfl
    · simp only [hz, if_false]
      have hn : ((shiftDs k ds).restrict ((shiftDs k ds).connSetOf (ds.scenarioOf p))).nStops = (ds.restrict (ds.connSetOf (ds.scenarioOf p))).nStops := by
        rw [hrs]; rfl
      rw [hn]
      have hcn := collectNodes_shift k (forwardNode cx (fwdScan cx false 0)) (forwardNode cx' (shF k (fwdScan cx false 0)))
        (fun n => forwardNode_shift hsh _ n) (List.range (ds.restrict (ds.connSetOf (ds.scenarioOf p))).nStops) []
      simp only [List.map_nil] at hcn
      rw [hcn]
      cases collectNodes (forwardNode cx (fwdScan cx false 0)) (List.range (ds.restrict (ds.connSetOf (ds.scenarioOf p))).nStops) [] <;> rfl

def nvDs' : Dataset :=
  { nStops := 3, nServices := 1,
    foot := [⟨0, 0, 0, 0⟩, ⟨1, 1, 0, 0⟩, ⟨2, 2, 0, 0⟩, ⟨1, 2, 60, 50⟩],
    lines := [⟨0, 0⟩], paths := [⟨0, [0, 1], [10]⟩],
    trips := [⟨5, 0, 0, [1000, 1300], [1000, 1300], [true, true], [true, true]⟩],
    scenarios := [{ services := [0], onlyLines := [], exceptLines := [], onlyAgencies := [], exceptAgencies := [], onlyModes := [], exceptModes := [] }],
    access := [⟨0, 100, 80⟩], egress := [⟨1, 200, 150⟩] }
def nvFwd' : Params := { forward := true, time := 500, scenario := 0, minWait := 60, maxFirstWait := 900 }

/-- the same for the calculation WITH the hour index (what the server runs), inside [0, 32 h) on both sides -/
theorem C12_full_accessibility_departure_indexed (ds : Dataset) (p : Params) (k B W : Int) (hal : TripsAligned ds) (hf : p.forward = true)
    (R : FwdRange ds p k B W) (h0 : 0 ≤ p.time) (ht : p.time < (HOUR_END : Int) * 3600) (h0' : 0 ≤ p.time + k)
    (ht' : p.time + k < (HOUR_END : Int) * 3600) (hacc : ∀ a ∈ ds.access, 0 ≤ a.time) :
    calculateAllNodes (shiftDs k ds) (shiftP k p) = shAccOutcome k (calculateAllNodes ds p) := by
  rw [C12_index_transparent_accessibility ds p h0 ht hacc,
    C12_index_transparent_accessibility (shiftDs k ds) (shiftP k p) h0' ht' hacc]
  exact C12_full_accessibility_departure ds p k B W hal hf R

/-- non-vacuity: the range conditions hold of the dataset of `Props/NonVacuity.lean` shifted by one hour and a bit, and the two
    accessibility maps are indeed shifted copies -/
theorem footOf_time_mem (ds : Dataset) (z : Nat) (f : NTD) (h : f ∈ ds.footOf z) : ∃ x ∈ ds.foot, f.time = x.time := by
  simp only [Dataset.footOf, List.mem_filterMap] at h
  obtain ⟨x, hx, e⟩ := h
  split at e
  · simp only [Option.some.injEq] at e; exact ⟨x, hx, by rw [← e]⟩
  · simp at e

theorem nv_full_shift :
    FwdRange nvDs' nvFwd' 3700 100000 60 ∧ TripsAligned nvDs' ∧
    (match calculateAllNodes nvDs' nvFwd', calculateAllNodes (shiftDs 3700 nvDs') (shiftP 3700 nvFwd') with
      | .ok (l, _), .ok (l', _) => decide (l.map (fun (a : AccNode) => (a.stop, a.nodeTime + 3700, a.totalTravelTime, a.numberOfTransfers)) =
          l'.map (fun (a : AccNode) => (a.stop, a.nodeTime, a.totalTravelTime, a.numberOfTransfers))) && !l.isEmpty
      | _, _ => false) = true := by
  refine ⟨⟨by decide, by decide, ?_, by decide, ?_, by decide⟩, ?_, by decide⟩
  · intro z f hf
    obtain ⟨x, hx, e⟩ := footOf_time_mem _ z f hf
    have : ∀ x ∈ nvDs'.foot, x.time ≤ 60 := by decide
    rw [e]; exact this x hx
  · unfold ConnsLe; decide
  · unfold TripsAligned; decide

end Tr
