/-
  The outcome `exception` of the model - a reconstruction or clean-up loop that does not end, an
  out-of-range `map::at`, an hour index read out of bounds - is never the answer of a route
  calculation on well-formed data.  This closes the outcome the optimality theorems C03 / C04 /
  C05 leave open: with it, on their domains, the answer is a route (optimal, attained) or
  - when no admissible journey exists - no_routing_found.

  Hypotheses (all about the data, none about the query except non-negative waiting / transfer
  parameters): WFData, every hop takes time, stop numbers are stops of the data, the router's
  access walks are non-negative.
-/
import TrVerif.Proofs.DataTerm
import TrVerif.Proofs.FwdChain
import TrVerif.Props.C18
import TrVerif.Props.Attained
namespace Tr

theorem lookupPos_ne_none {l : Lookup} (h : l ≠ .outOfBounds) : lookupPos l ≠ none := by
  cases l with
  | pos p => simp [lookupPos]
  | outOfBounds => exact absurd rfl h

theorem singleReverse_no_exception {cx : Ctx} (usable : Nat → Bool)
    (hs : SortedRev cx.cs.rev) (hm : ArrMono cx.cs.rev) (hmw : 0 ≤ cx.p.minWait)
    (w : TimeWF cx cx.cs.rev) (hc : ChainWF cx cx.cs.rev) (hsl : SliceOK cx cx.cs.rev) (hb : BetweenOK cx cx.cs.rev)
    (hu : UniqueSeq cx.cs.rev) (hacc : ∀ a ∈ cx.accessFoot, 0 ≤ a.time)
    (hidx : cx.cs.revIdx = revIndex cx.cs.rev) (what : String) :
    singleReverse cx usable ≠ .exception what := by
  unfold singleReverse
  cases hl : lookupPos (revLookup cx.cs.rev cx.cs.revIdx (hourOf cx.arrT + 1)) with
  | none =>
    rw [hidx] at hl
    exact absurd hl (lookupPos_ne_none (C18_index_safe cx.cs.rev _).2)
  | some start =>
    simp only
    split
    · simp
    · have hsub : ∀ a ∈ cx.cs.rev.drop start, a ∈ cx.cs.rev := fun a ha => List.mem_of_mem_drop ha
      have hsorted : SortedRev ([] ++ cx.cs.rev.drop start) := by
        show List.Pairwise _ ([] ++ cx.cs.rev.drop start)
        rw [List.nil_append]
        exact List.Pairwise.sublist (List.drop_sublist _ _) hs
      have hinv := revScanList_inv usable true cx.cs.rev hm hmw (cx.cs.rev.drop start) [] (RState.init cx)
        (by simpa using hsub) hsorted (init_RInv cx)
      simp only [List.nil_append] at hinv
      exact reverseJourney_no_exception (hinv.mono_pre hsub) w hc hsl hb hu hacc what

theorem calculateSingleWith_no_exception (ds : Dataset) (cs : ConnSet) (p : Params) (accessFoot egressFoot : List NTD)
    (hs : SortedRev cs.rev) (hm : ArrMono cs.rev) (hmw : 0 ≤ p.minWait)
    (w : ∀ depT arrT, TimeWF (mkCtx ds p cs accessFoot egressFoot depT arrT) cs.rev)
    (hc : ∀ depT arrT, ChainWF (mkCtx ds p cs accessFoot egressFoot depT arrT) cs.rev)
    (hsl : ∀ depT arrT, SliceOK (mkCtx ds p cs accessFoot egressFoot depT arrT) cs.rev)
    (hb : ∀ depT arrT, BetweenOK (mkCtx ds p cs accessFoot egressFoot depT arrT) cs.rev)
    (hu : UniqueSeq cs.rev) (hacc : ∀ a ∈ accessFoot, 0 ≤ a.time)
    (hidxF : cs.fwdIdx = fwdIndex cs.fwd) (hidxR : cs.revIdx = revIndex cs.rev) (what : String) :
    calculateSingleWith ds cs p accessFoot egressFoot ≠ .exception what := by
  unfold calculateSingleWith
  split
  · simp
  · split
    · simp
    · split
      · simp
      · by_cases hfwd : p.forward = true
        · rw [if_pos hfwd]
          simp only
          cases hl : lookupPos (fwdLookup (mkCtx ds p cs accessFoot egressFoot p.time (-1)).cs.fwd
              (mkCtx ds p cs accessFoot egressFoot p.time (-1)).cs.fwdIdx (hourOf p.time)) with
          | none =>
            have : (mkCtx ds p cs accessFoot egressFoot p.time (-1)).cs.fwdIdx
                = fwdIndex (mkCtx ds p cs accessFoot egressFoot p.time (-1)).cs.fwd := hidxF
            rw [this] at hl
            exact absurd hl (lookupPos_ne_none (C18_index_safe _ _).1)
          | some start =>
            simp only
            split
            · simp
            · split
              · simp
              · rename_i bestArr bestNode hbe
                exact singleReverse_no_exception
                  (cx := { mkCtx ds p cs accessFoot egressFoot p.time (-1) with arrT := bestArr })
                  _ hs hm hmw (w p.time bestArr) (hc p.time bestArr) (hsl p.time bestArr) (hb p.time bestArr) hu hacc hidxR what
        · rw [if_neg hfwd]
          exact singleReverse_no_exception (cx := mkCtx ds p cs accessFoot egressFoot (-1) p.time)
            _ hs hm hmw (w _ _) (hc _ _) (hsl _ _) (hb _ _) hu hacc hidxR what

/-- **no exception.** For every well-formed dataset whose hops take time and whose stop numbers
    are stops of the data, every scenario and EVERY route query (any time of trip, any limits;
    waiting and transfer parameters non-negative), the calculation answers with a route or with
    no_routing_found - never with the model's `exception` outcome. -/
theorem calculateSingle_no_exception (ds : Dataset) (hwf : WFData ds) (hpos : PosHops ds) (hr1 : StopsInRange ds)
    (hr2 : DepStopsInRange ds) (hacc : ∀ a ∈ ds.access, 0 ≤ a.time) (p : Params) (hmw : 0 ≤ p.minWait)
    (hmt : 0 ≤ p.maxTransfer) (what : String) :
    calculateSingle ds p ≠ .exception what := by
  have hsub := connSetOf_rev_sub ds (ds.scenarioOf p)
  have hm : ArrMono (ds.connSetOf (ds.scenarioOf p)).rev :=
    fun x hx y hy => conns_arrMono hwf.toWFSchedule x (hsub x hx) y (hsub y hy)
  unfold calculateSingle calculateSingleCS
  exact calculateSingleWith_no_exception _ _ p _ _ (connSetOf_sorted ds _) hm hmw
    (fun depT arrT => timeWF_dataset hwf p hmw hmt _ _ _ depT arrT)
    (fun depT arrT => chainWF_dataset hwf hpos hr1 p _ _ _ depT arrT)
    (fun depT arrT => sliceOK_dataset hwf p _ _ _ depT arrT)
    (fun depT arrT => betweenOK_dataset hwf hr2 p _ _ _ depT arrT)
    (uniqueSeq_dataset hwf.toWFSchedule _)
    (fun a ha => hacc a (List.mem_filter.mp ha).1) rfl rfl what


/-- **C03 / C05, complete statement.** On the property's domain, when an admissible journey
    exists the calculation RETURNS a route (no other outcome), that route arrives no later than
    the admissible journey, and no journey that meets its arrival and leaves at or after the
    requested time leaves later than it does.  With `C03_attained` / `C05_attained` both bounds
    are attained by the route itself. -/
theorem C03_answer (ds : Dataset) (hwf : WFData ds) (p : Params) (hp : p.forward = true) (hmw : 0 ≤ p.minWait)
    (hmt : 0 ≤ p.maxTransfer) (hpos : PosHops ds) (hself : SelfFootArr ds) (hb : TimesBounded ds) (hba : ArrBounded ds)
    (hr1 : StopsInRange ds) (hr2 : DepStopsInRange ds) (hcap : p.maxFirstWait < 0)
    (hacc : ∀ a ∈ ds.access, 0 ≤ a.time) (hand : (ds.access.map (·.stop)).Nodup)
    (hegr : ∀ g ∈ ds.egress, 0 ≤ g.time) (hend : (ds.egress.map (·.stop)).Nodup)
    (h0 : 0 ≤ p.time) (ht : p.time < (HOUR_END : Int) * 3600)
    {e x : Conn} {g : NTD}
    (hJ : AdmFwd (mkCtx (ds.restrict (ds.connSetOf (ds.scenarioOf p))) p (ds.connSetOf (ds.scenarioOf p))
        (routerLookup ds.access p.maxAccess) (routerLookup ds.egress p.maxEgress) p.time (-1))
        (ds.connSetOf (ds.scenarioOf p)).fwd e x g)
    (hT : x.arr + g.time - p.time ≤ p.maxTotal) :
    ∃ r, calculateSingle ds p = .ok r ∧ r.arrivalTime ≤ x.arr + g.time ∧
      ∀ a0 e0 x0,
        AdmRev { mkCtx (ds.restrict (ds.connSetOf (ds.scenarioOf p))) p (ds.connSetOf (ds.scenarioOf p))
            (routerLookup ds.access p.maxAccess) (routerLookup ds.egress p.maxEgress) p.time (-1) with arrT := r.arrivalTime }
          (ds.connSetOf (ds.scenarioOf p)).rev a0 e0 x0 →
        p.time ≤ e0.dep - e0.effWait p.minWait - a0.time → e0.dep - e0.effWait p.minWait - a0.time ≤ r.departureTime := by
  obtain ⟨h1, h2, h3⟩ := C03_optimal ds hwf p hp hmw hmt hpos hself hb hba hcap hacc hand hegr hend h0 ht hJ hT
  cases hres : calculateSingle ds p with
  | ok r => exact ⟨r, rfl, h1 r hres, h3 r hres⟩
  | noRouting reason => exact absurd hres (h2 reason)
  | exception what => exact absurd hres (calculateSingle_no_exception ds hwf hpos hr1 hr2 hacc p hmw hmt what)

/-- **C04, complete statement.** On the property's domain, when an admissible journey exists the
    calculation RETURNS a route, and that route departs no earlier than the admissible journey.
    With `C04_attained` the bound is attained by the route itself. -/
theorem C04_answer (ds : Dataset) (hwf : WFData ds) (p : Params) (hp : p.forward = false) (hmw : 0 ≤ p.minWait)
    (hmt : 0 ≤ p.maxTransfer) (hpos : PosHops ds) (hb : TimesBounded ds) (hr1 : StopsInRange ds) (hr2 : DepStopsInRange ds)
    (hegr : ∀ g ∈ ds.egress, 0 ≤ g.time) (hend : (ds.egress.map (·.stop)).Nodup)
    (hacc : ∀ a ∈ ds.access, 0 ≤ a.time) (hand : (ds.access.map (·.stop)).Nodup) (h0 : 0 ≤ p.time)
    {a0 : NTD} {e0 x0 : Conn}
    (hJ : AdmRev (mkCtx (ds.restrict (ds.connSetOf (ds.scenarioOf p))) p (ds.connSetOf (ds.scenarioOf p))
        (routerLookup ds.access p.maxAccess) (routerLookup ds.egress p.maxEgress) (-1) p.time)
        (ds.connSetOf (ds.scenarioOf p)).rev a0 e0 x0)
    (hd0 : 0 ≤ e0.dep - e0.effWait p.minWait - a0.time)
    (hdT : p.time - (e0.dep - e0.effWait p.minWait - a0.time) ≤ p.maxTotal) :
    ∃ r, calculateSingle ds p = .ok r ∧ e0.dep - e0.effWait p.minWait - a0.time ≤ r.departureTime := by
  obtain ⟨h1, h2⟩ := C04_optimal ds hwf p hp hmw hmt hpos hb hegr hend hacc hand h0 hJ hd0 hdT
  cases hres : calculateSingle ds p with
  | ok r => exact ⟨r, rfl, h1 r hres⟩
  | noRouting reason => exact absurd hres (h2 reason)
  | exception what => exact absurd hres (calculateSingle_no_exception ds hwf hpos hr1 hr2 hacc p hmw hmt what)


/-! ### the two accessibility calculations -/

theorem fwdScan_FCh {cx : Ctx} {C : List Conn} (w : FChainWF cx C) (single : Bool) (post : List Conn)
    (hC : ∀ a ∈ post, a ∈ C) (hs : SortedFwd post) :
    ∃ d, FCh cx C d (post.foldl (fwdStep cx single) (FState.init cx)) := by
  cases post with
  | nil => exact ⟨0, init_FCh cx C 0⟩
  | cons c rest =>
    apply fwdScanList_FCh w single (c :: rest) _ c.dep hC hs _ (init_FCh cx C c.dep)
    intro a ha
    rcases List.mem_cons.mp ha with e | e
    · subst e; exact Int.le_refl _
    · have := (List.pairwise_cons.mp hs).1 a e
      simp only [fwdLt, Bool.or_eq_false_iff, Bool.and_eq_false_iff, decide_eq_false_iff_not] at this
      omega

/-- all arrival times of the timetable are clock times (≥ 0:00) -/
def NonnegArr (ds : Dataset) : Prop := ∀ c ∈ ds.conns, 0 ≤ c.arr

theorem allNodes_tail {count : Nat} (f : Nat → Outcome (Option AccNode)) (n : Nat) (r : Reason)
    (hf : ∀ node w, f node ≠ .exception w) (what : String) :
    (if count = 0 then (Outcome.noRouting r : Outcome (List AccNode × Nat))
      else match collectNodes f (List.range n) [] with
        | .ok l => .ok (l, n)
        | .noRouting r => .noRouting r
        | .exception w => .exception w) ≠ .exception what := by
  by_cases hc : count = 0
  · rw [if_pos hc]; simp
  · rw [if_neg hc]
    have := collectNodes_no_exception f hf (List.range n) []
    cases hcn : collectNodes f (List.range n) [] with
    | ok l => simp
    | noRouting r => simp
    | exception w => exact absurd hcn (this w)

/-- **no exception (accessibility).** For every well-formed dataset whose hops take time, whose
    stop numbers are stops of the data and whose arrival times are non-negative, every scenario
    and EVERY accessibility query, the calculation answers with a map or with no_routing_found -
    never with the model's `exception` outcome (a chain walk or clean-up loop without end, an
    out-of-range `map::at`, an hour index read out of bounds). -/
theorem calculateAllNodes_no_exception (ds : Dataset) (hwf : WFData ds) (hpos : PosHops ds) (hr1 : StopsInRange ds)
    (hr2 : DepStopsInRange ds) (hnn : NonnegArr ds) (p : Params) (hmw : 0 ≤ p.minWait)
    (hmt : 0 ≤ p.maxTransfer) (what : String) :
    calculateAllNodes ds p ≠ .exception what := by
  have hsub := connSetOf_rev_sub ds (ds.scenarioOf p)
  have hfr := connSetOf_fwd_mem_rev ds (ds.scenarioOf p)
  unfold calculateAllNodes calculateAllNodesCS
  simp only
  by_cases hfwd : p.forward = true
  · rw [if_pos hfwd]
    split
    · simp
    · cases hl : lookupPos (fwdLookup
          (mkCtx (ds.restrict (ds.connSetOf (ds.scenarioOf p))) p (ds.connSetOf (ds.scenarioOf p))
            (routerLookup (ds.restrict (ds.connSetOf (ds.scenarioOf p))).access p.maxAccess) [] p.time (-1)).cs.fwd
          (mkCtx (ds.restrict (ds.connSetOf (ds.scenarioOf p))) p (ds.connSetOf (ds.scenarioOf p))
            (routerLookup (ds.restrict (ds.connSetOf (ds.scenarioOf p))).access p.maxAccess) [] p.time (-1)).cs.fwdIdx
          (hourOf p.time)) with
      | none =>
        have : (mkCtx (ds.restrict (ds.connSetOf (ds.scenarioOf p))) p (ds.connSetOf (ds.scenarioOf p))
            (routerLookup (ds.restrict (ds.connSetOf (ds.scenarioOf p))).access p.maxAccess) [] p.time (-1)).cs.fwdIdx
            = fwdIndex (mkCtx (ds.restrict (ds.connSetOf (ds.scenarioOf p))) p (ds.connSetOf (ds.scenarioOf p))
            (routerLookup (ds.restrict (ds.connSetOf (ds.scenarioOf p))).access p.maxAccess) [] p.time (-1)).cs.fwd := rfl
        rw [this] at hl
        exact absurd hl (lookupPos_ne_none (C18_index_safe _ _).1)
      | some start =>
        simp only
        have w : FChainWF (mkCtx (ds.restrict (ds.connSetOf (ds.scenarioOf p))) p (ds.connSetOf (ds.scenarioOf p))
            (routerLookup (ds.restrict (ds.connSetOf (ds.scenarioOf p))).access p.maxAccess) [] p.time (-1))
            (ds.connSetOf (ds.scenarioOf p)).fwd := by
          refine ⟨fun c hc => hpos c (hsub c (hfr c hc)), ?_, hmw⟩
          intro z f hf
          have := footOf_mem (ds := ds.restrict (ds.connSetOf (ds.scenarioOf p))) hf
          exact hwf.footNonneg _ this
        obtain ⟨d, hch⟩ := fwdScan_FCh w false ((ds.connSetOf (ds.scenarioOf p)).fwd.drop start)
          (fun a ha => List.mem_of_mem_drop ha)
          (List.Pairwise.sublist (List.drop_sublist _ _) (connSetOf_sortedFwd ds _))
        exact allNodes_tail _ _ _
          (fun n wh => forwardNode_no_exception hch (fun c hc => hr2 c (hsub c (hfr c hc))) n wh) what
  · rw [if_neg hfwd]
    split
    · simp
    · cases hl : lookupPos (revLookup
          (mkCtx (ds.restrict (ds.connSetOf (ds.scenarioOf p))) p (ds.connSetOf (ds.scenarioOf p))
            [] (routerLookup (ds.restrict (ds.connSetOf (ds.scenarioOf p))).egress p.maxEgress) (-1) p.time).cs.rev
          (mkCtx (ds.restrict (ds.connSetOf (ds.scenarioOf p))) p (ds.connSetOf (ds.scenarioOf p))
            [] (routerLookup (ds.restrict (ds.connSetOf (ds.scenarioOf p))).egress p.maxEgress) (-1) p.time).cs.revIdx
          (hourOf p.time + 1)) with
      | none =>
        have : (mkCtx (ds.restrict (ds.connSetOf (ds.scenarioOf p))) p (ds.connSetOf (ds.scenarioOf p))
            [] (routerLookup (ds.restrict (ds.connSetOf (ds.scenarioOf p))).egress p.maxEgress) (-1) p.time).cs.revIdx
            = revIndex (mkCtx (ds.restrict (ds.connSetOf (ds.scenarioOf p))) p (ds.connSetOf (ds.scenarioOf p))
            [] (routerLookup (ds.restrict (ds.connSetOf (ds.scenarioOf p))).egress p.maxEgress) (-1) p.time).cs.rev := rfl
        rw [this] at hl
        exact absurd hl (lookupPos_ne_none (C18_index_safe _ _).2)
      | some start =>
        simp only
        have hm : ArrMono (ds.connSetOf (ds.scenarioOf p)).rev :=
          fun x hx y hy => conns_arrMono hwf.toWFSchedule x (hsub x hx) y (hsub y hy)
        have hsubd : ∀ a ∈ (ds.connSetOf (ds.scenarioOf p)).rev.drop start, a ∈ (ds.connSetOf (ds.scenarioOf p)).rev :=
          fun a ha => List.mem_of_mem_drop ha
        have hsorted : SortedRev ([] ++ (ds.connSetOf (ds.scenarioOf p)).rev.drop start) := by
          show List.Pairwise _ ([] ++ (ds.connSetOf (ds.scenarioOf p)).rev.drop start)
          rw [List.nil_append]
          exact List.Pairwise.sublist (List.drop_sublist _ _) (connSetOf_sorted ds _)
        have hinv := revScanList_inv (cx := mkCtx (ds.restrict (ds.connSetOf (ds.scenarioOf p))) p (ds.connSetOf (ds.scenarioOf p))
            [] (routerLookup (ds.restrict (ds.connSetOf (ds.scenarioOf p))).egress p.maxEgress) (-1) p.time) (fun _ => true) false
          (ds.connSetOf (ds.scenarioOf p)).rev hm hmw ((ds.connSetOf (ds.scenarioOf p)).rev.drop start) []
          (RState.init _) (by simpa using hsubd) hsorted (init_RInv _)
        simp only [List.nil_append] at hinv
        exact allNodes_tail _ _ _
          (fun n wh => reverseNode_no_exception (hinv.mono_pre hsubd)
            (timeWF_dataset hwf p hmw hmt _ _ _ _ _) (chainWF_dataset hwf hpos hr1 p _ _ _ _ _)
            (sliceOK_dataset hwf p _ _ _ _ _) (betweenOK_dataset hwf hr2 p _ _ _ _ _)
            (uniqueSeq_dataset hwf.toWFSchedule _) (fun c hc => hnn c (hsub c hc)) n wh) what

end Tr
