/-
  The bounds of C03 / C04 / C05 are attained: the route a calculation returns is itself an
  admissible journey in the sense of the optimality theorems (`Proofs/Achieve.lean`), so

    * C03: the reported arrival time IS the minimum arrival over admissible journeys,
    * C04: the reported departure time IS the maximum departure over admissible journeys,
    * C05: the reported departure is attained by a journey that meets the reported arrival.
-/
import TrVerif.Proofs.Achieve
namespace Tr

theorem TimeWF.mono {cx : Ctx} {C C' : List Conn} (w : TimeWF cx C) (h : ∀ a ∈ C', a ∈ C) : TimeWF cx C' :=
  ⟨fun e he x hx => w.depArr e (h e he) x (h x hx), fun a ha b hb => w.arrMono a (h a ha) b (h b hb),
   fun a ha b hb => w.depMono a (h a ha) b (h b hb), fun a ha b hb => w.waitTrip a (h a ha) b (h b hb),
   w.mw, w.footNonneg, fun c hc => w.selfFoot c (h c hc), w.maxTransfer⟩

theorem SliceOK.allowed {cx : Ctx} {C : List Conn} (h : SliceOK cx C) : SliceOK cx (C.filter cx.allowed) := by
  intro e he x hx ht hs c hc
  obtain ⟨he1, he2⟩ := List.mem_filter.mp he
  obtain ⟨hx1, _⟩ := List.mem_filter.mp hx
  obtain ⟨a, b, c1, d⟩ := h e he1 x hx1 ht hs c hc
  refine ⟨List.mem_filter.mpr ⟨a, ?_⟩, b, c1, d⟩
  unfold Ctx.allowed at he2 ⊢
  rw [b]; exact he2

theorem allowed_not_disabled {cx : Ctx} {C : List Conn} : ∀ c ∈ C.filter cx.allowed, cx.disabled c.trip = false := by
  intro c hc
  have := (List.mem_filter.mp hc).2
  unfold Ctx.allowed at this
  simpa using this

/-- every returned route is `emit` of a journey valid over the connections the query allows -/
theorem calculateSingleWith_emits_allowed (ds : Dataset) (cs : ConnSet) (p : Params) (accessFoot egressFoot : List NTD)
    (hs : SortedRev cs.rev) (hm : ArrMono cs.rev) (hmw : 0 ≤ p.minWait)
    (hclean : ∀ depT arrT, CleanupPreserves (mkCtx ds p cs accessFoot egressFoot depT arrT)
      (cs.rev.filter (mkCtx ds p cs accessFoot egressFoot depT arrT).allowed))
    {r : Route} (h : calculateSingleWith ds cs p accessFoot egressFoot = .ok r) :
    ∃ depT arrT bd j, r = emit ds p.minWait bd j ∧
      JourneyOK (mkCtx ds p cs accessFoot egressFoot depT arrT) (cs.rev.filter (mkCtx ds p cs accessFoot egressFoot depT arrT).allowed) bd j ∧
      (p.forward = true → depT = p.time ∧ p.time ≤ bd) ∧ (p.forward = false → depT = -1 ∧ arrT = p.time) ∧
      0 ≤ bd ∧ arrT - bd ≤ p.maxTotal ∧ (p.forward = true → arrT - p.time ≤ p.maxTotal) := by
  unfold calculateSingleWith at h
  split at h
  · cases h
  · split at h
    · cases h
    · split at h
      · cases h
      · by_cases hfwd : p.forward = true
        · rw [if_pos hfwd] at h
          simp only at h
          split at h
          · cases h
          · split at h
            · cases h
            · split at h
              · cases h
              · rename_i bestArr bestNode hbe
                obtain ⟨bd, j, h1, h2, h3, h4, h5⟩ := singleReverse_emits_allowed
                  (cx := { mkCtx ds p cs accessFoot egressFoot p.time (-1) with arrT := bestArr })
                  _ hs hm hmw (hclean p.time bestArr) h
                have hspan := bestEgress_spec hbe
                refine ⟨p.time, bestArr, bd, j, h1, h2, ?_, ?_, h3, h4, fun _ => hspan⟩
                · intro _
                  refine ⟨rfl, ?_⟩
                  by_cases hd : p.time = -1
                  · omega
                  · exact h5 hd
                · intro hf; rw [hf] at hfwd; cases hfwd
        · rw [if_neg hfwd] at h
          obtain ⟨bd, j, h1, h2, h3, h4, _⟩ := singleReverse_emits_allowed (cx := mkCtx ds p cs accessFoot egressFoot (-1) p.time)
            _ hs hm hmw (hclean (-1) p.time) h
          refine ⟨-1, p.time, bd, j, h1, h2, ?_, ?_, h3, h4, fun hf => absurd hf hfwd⟩
          · intro hf; exact absurd hf hfwd
          · intro _; exact ⟨rfl, rfl⟩

theorem hclean_allowed {ds : Dataset} (hwf : WFData ds) (p : Params) (hmw : 0 ≤ p.minWait) (hmt : 0 ≤ p.maxTransfer)
    (a e : List NTD) (depT arrT : Int) :
    CleanupPreserves (mkCtx (ds.restrict (ds.connSetOf (ds.scenarioOf p))) p (ds.connSetOf (ds.scenarioOf p)) a e depT arrT)
      ((ds.connSetOf (ds.scenarioOf p)).rev.filter
        (mkCtx (ds.restrict (ds.connSetOf (ds.scenarioOf p))) p (ds.connSetOf (ds.scenarioOf p)) a e depT arrT).allowed) :=
  cleanupPreserves ((timeWF_dataset hwf p hmw hmt _ a e depT arrT).mono (fun c hc => (List.mem_filter.mp hc).1))
    (sliceOK_dataset hwf p _ a e depT arrT).allowed

theorem LegsOK.arrT {cx : Ctx} {C : List Conn} (A : Int) : ∀ {legs : List JStep}, LegsOK cx C legs →
    LegsOK { cx with arrT := A } C legs := by
  intro legs
  induction legs with
  | nil => intro _; trivial
  | cons l rest ih =>
    intro h
    cases rest with
    | nil => exact h
    | cons l' r' => exact ⟨h.1, ih h.2⟩

/-- a valid journey is still valid when the arrival time of the context is set to the moment the
    journey itself arrives -/
theorem journeyOK_exact {cx : Ctx} {C : List Conn} {bd : Int} {j : List JStep} (h : JourneyOK cx C bd j) :
    JourneyOK { cx with arrT := (emit cx.ds cx.p.minWait bd j).arrivalTime } C bd j := by
  obtain ⟨acc, legs, egr, rfl, hacc, hegr, hne, hok, hfirst, hlast⟩ := h
  refine ⟨acc, legs, egr, rfl, hacc, hegr, hne, hok.arrT _, hfirst, ?_⟩
  intro l x hl hx
  refine ⟨(hlast l x hl hx).1, fun _ => ?_⟩
  show x.arr + egr.walk ≤ (emit cx.ds cx.p.minWait bd ([acc] ++ legs ++ [egr])).arrivalTime
  rw [emit_arrival _ _ _ acc egr legs hacc hegr hne hok.allLegs, finalArrival_last egr legs l x hl hx]
  exact Int.le_refl _

theorem AdmFwd.mono_set {cx : Ctx} {P P' : List Conn} (hp : ∀ a ∈ P, a ∈ P') {e x : Conn} {g : NTD}
    (h : AdmFwd cx P e x g) : AdmFwd cx P' e x g := by
  obtain ⟨⟨hcb, hdis, t, hr, ht⟩, h2, h3, h4, h5, h6, h7, h8⟩ := h
  exact ⟨⟨hcb, hdis, t, hr.mono_set hp, ht⟩, hp _ h2, hp _ h3, h4, h5, h6, h7, h8⟩

/-- **C04, attained.** The returned route is an admissible journey that leaves at the reported
    departure time or later - with `C04_optimal` (no admissible journey leaves later): exactly then. -/
theorem C04_attained (ds : Dataset) (hwf : WFData ds) (p : Params) (hp : p.forward = false) (hmw : 0 ≤ p.minWait)
    (hmt : 0 ≤ p.maxTransfer) (hend : (ds.egress.map (·.stop)).Nodup) {r : Route} (h : calculateSingle ds p = .ok r) :
    ∃ a0 e0 x0,
      AdmRev (mkCtx (ds.restrict (ds.connSetOf (ds.scenarioOf p))) p (ds.connSetOf (ds.scenarioOf p))
        (routerLookup ds.access p.maxAccess) (routerLookup ds.egress p.maxEgress) (-1) p.time)
        (ds.connSetOf (ds.scenarioOf p)).rev a0 e0 x0 ∧
      r.departureTime ≤ e0.dep - e0.effWait p.minWait - a0.time := by
  have hsub := connSetOf_rev_sub ds (ds.scenarioOf p)
  have hm : ArrMono (ds.connSetOf (ds.scenarioOf p)).rev :=
    fun x hx y hy => conns_arrMono hwf.toWFSchedule x (hsub x hx) y (hsub y hy)
  obtain ⟨depT, arrT, bd, j, rfl, hJ, _, hA, _⟩ := calculateSingleWith_emits_allowed _ _ p _ _ (connSetOf_sorted ds _) hm hmw
    (fun depT arrT => hclean_allowed hwf p hmw hmt _ _ depT arrT) h
  obtain ⟨rfl, rfl⟩ := hA hp
  obtain ⟨a0, e0, x0, hAdm, hbd⟩ := journeyOK_admRev allowed_not_disabled hJ (routerLookup_nodup _ _ hend)
  exact ⟨a0, e0, x0, hAdm.mono_set (fun c hc => (List.mem_filter.mp hc).1), hbd⟩

/-- **C03, attained.** The returned route is an admissible journey of the forward kind that reaches
    the place exactly at the reported arrival time - with `C03_optimal` (no admissible journey
    arrives earlier): the reported arrival time is the earliest possible one. -/
theorem C03_attained (ds : Dataset) (hwf : WFData ds) (p : Params) (hp : p.forward = true) (hmw : 0 ≤ p.minWait)
    (hmt : 0 ≤ p.maxTransfer) {r : Route} (h : calculateSingle ds p = .ok r) :
    ∃ e x g,
      AdmFwd (mkCtx (ds.restrict (ds.connSetOf (ds.scenarioOf p))) p (ds.connSetOf (ds.scenarioOf p))
        (routerLookup ds.access p.maxAccess) (routerLookup ds.egress p.maxEgress) p.time (-1))
        (ds.connSetOf (ds.scenarioOf p)).fwd e x g ∧
      x.arr + g.time = r.arrivalTime := by
  have hsub := connSetOf_rev_sub ds (ds.scenarioOf p)
  have hm : ArrMono (ds.connSetOf (ds.scenarioOf p)).rev :=
    fun x hx y hy => conns_arrMono hwf.toWFSchedule x (hsub x hx) y (hsub y hy)
  obtain ⟨depT, arrT, bd, j, rfl, hJ, hF, _, _⟩ := calculateSingleWith_emits_allowed _ _ p _ _ (connSetOf_sorted ds _) hm hmw
    (fun depT arrT => hclean_allowed hwf p hmw hmt _ _ depT arrT) h
  obtain ⟨rfl, hbd⟩ := hF hp
  obtain ⟨e, x, g, hAdm, harr⟩ := journeyOK_admFwd allowed_not_disabled hJ hbd
  refine ⟨e, x, g, ?_, harr⟩
  obtain ⟨⟨hcb, hdis, t, hr, ht⟩, h2, h3, h4, h5, h6, h7, h8⟩ := hAdm.mono_set (fun c hc => connSetOf_rev_mem_fwd ds _ c (List.mem_filter.mp hc).1)
  exact ⟨⟨hcb, hdis, t, hr.arrT (-1), ht⟩, h2, h3, h4, h5, h6, h7, h8⟩

/-- **C05, attained.** The returned route of a departure-time query is an admissible journey of the
    reverse kind for its own reported arrival time, leaves at the reported departure time or later
    and not before the requested time - with the third clause of `C03_optimal` (no such journey
    leaves later): the reported departure is the latest one that still meets the reported arrival. -/
theorem C05_attained (ds : Dataset) (hwf : WFData ds) (p : Params) (hp : p.forward = true) (hmw : 0 ≤ p.minWait)
    (hmt : 0 ≤ p.maxTransfer) (hend : (ds.egress.map (·.stop)).Nodup) {r : Route} (h : calculateSingle ds p = .ok r) :
    ∃ a0 e0 x0,
      AdmRev { mkCtx (ds.restrict (ds.connSetOf (ds.scenarioOf p))) p (ds.connSetOf (ds.scenarioOf p))
        (routerLookup ds.access p.maxAccess) (routerLookup ds.egress p.maxEgress) p.time (-1) with arrT := r.arrivalTime }
        (ds.connSetOf (ds.scenarioOf p)).rev a0 e0 x0 ∧
      r.departureTime ≤ e0.dep - e0.effWait p.minWait - a0.time ∧ p.time ≤ r.departureTime := by
  have hsub := connSetOf_rev_sub ds (ds.scenarioOf p)
  have hm : ArrMono (ds.connSetOf (ds.scenarioOf p)).rev :=
    fun x hx y hy => conns_arrMono hwf.toWFSchedule x (hsub x hx) y (hsub y hy)
  obtain ⟨depT, arrT, bd, j, rfl, hJ, hF, _, _⟩ := calculateSingleWith_emits_allowed _ _ p _ _ (connSetOf_sorted ds _) hm hmw
    (fun depT arrT => hclean_allowed hwf p hmw hmt _ _ depT arrT) h
  obtain ⟨rfl, hbd⟩ := hF hp
  have hJ' := journeyOK_exact hJ
  obtain ⟨a0, e0, x0, hAdm, hbd'⟩ := journeyOK_admRev (fun c hc => allowed_not_disabled c hc) hJ' (routerLookup_nodup _ _ hend)
  exact ⟨a0, e0, x0, hAdm.mono_set (fun c hc => (List.mem_filter.mp hc).1), hbd', hbd⟩

end Tr
