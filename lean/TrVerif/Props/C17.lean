/-
  Property C17 — missing, truncated, corrupt or inconsistent cache files never crash the server;
  it then serves what it could load or answers every request with data_error, naming the missing
  kind of data where something is missing.

  PARTIAL. What is proved here is the *decision logic* over fetch outcomes (`Model/Loader.lean`):
  for every assignment of an outcome (read n items / missing / failed after n items) to every
  cache kind,
    * the status is READY exactly when all seven collections the calculation needs are non-empty,
    * otherwise it names a collection that really is empty, and when a needed file is missing the
      status is never READY,
    * a non-READY server answers EVERY request - valid, invalid, any endpoint, after any history -
      with data_error and a documented MISSING_DATA_* code, and its state does not change,
    * a READY server answers from the data it loaded (the ordinary handler).
  What is NOT proved: that every fetch on arbitrary bytes ends in one of the three outcomes without
  abort, uncaught exception or memory error. No executable model exhibits that; it is enumerated
  against the real ASan+UBSan binary (check/fault_checks.py), and the syntactic facts
  `C17_structure` (every loader reads inside try with a catch-all, the /updateCache handler
  answers when an update throws) are re-read from the source on every run.
-/
import TrVerif.Model.Loader
namespace Tr

theorem statusOfCounts_ready_iff (order : List (String × String)) (count : String → Nat)
    (hnr : ∀ p ∈ order, p.2 ≠ "READY") :
    statusOfCounts order count = "READY" ↔ ∀ p ∈ order, count p.1 ≠ 0 := by
  unfold statusOfCounts
  cases h : order.find? (fun p => count p.1 = 0) with
  | none =>
    simp only [true_iff]
    intro p hp
    have := List.find?_eq_none.mp h p hp
    intro h0; exact this (by simp [h0])
  | some p =>
    have hp := List.mem_of_find?_eq_some h
    have hz := List.find?_some h
    constructor
    · intro e; exact absurd e (hnr p hp)
    · intro hall; exact absurd (by simpa using hz) (hall p hp)

theorem statusOfCounts_names_empty (order : List (String × String)) (count : String → Nat)
    (h : statusOfCounts order count ≠ "READY") :
    ∃ p ∈ order, p.2 = statusOfCounts order count ∧ count p.1 = 0 := by
  unfold statusOfCounts at h ⊢
  cases hf : order.find? (fun p => count p.1 = 0) with
  | none => simp [hf] at h
  | some p =>
    refine ⟨p, List.mem_of_find?_eq_some hf, rfl, ?_⟩
    simpa using List.find?_some hf

theorem order_never_ready : ∀ p ∈ Gen.dataStatusOrder, p.2 ≠ "READY" := by decide

/-- **C17 (decision logic), part 1.** READY exactly when every needed collection is non-empty. -/
theorem C17_ready_iff (f : String → Fetch) :
    startupStatus f = "READY" ↔ ∀ p ∈ Gen.dataStatusOrder, countAfterLoad f p.1 ≠ 0 :=
  statusOfCounts_ready_iff _ _ order_never_ready

/-- **part 2.** A non-READY status names a collection that really is empty. -/
theorem C17_names_empty (f : String → Fetch) (h : startupStatus f ≠ "READY") :
    ∃ p ∈ Gen.dataStatusOrder, p.2 = startupStatus f ∧ countAfterLoad f p.1 = 0 :=
  statusOfCounts_names_empty _ _ h

/-- a collection whose filler was not reached, or whose file is missing, is empty -/
theorem lookup_loadFrom_missing (order : List (String × Bool)) (f : String → Fetch) (fn : String)
    (hm : f fn = .missing) : ((loadFrom order f).lookup fn).getD 0 = 0 := by
  induction order with
  | nil => simp [loadFrom]
  | cons p rest ih =>
    obtain ⟨g, tol⟩ := p
    unfold loadFrom
    by_cases hg : fn = g
    · subst hg; simp [List.lookup, hm, Fetch.count]
    · have hb : (fn == g) = false := by simpa using hg
      rw [List.lookup_cons, hb]
      by_cases hh : (f g).hard tol
      · simp [hh, List.lookup]
      · simp only [hh]; exact ih

/-- **part 3.** When the file of a kind the calculation needs is missing, the server is never READY. -/
theorem C17_missing_file_not_ready (f : String → Fetch) (p : String × String) (hp : p ∈ Gen.dataStatusOrder)
    (hm : f (fillerOf p.1) = .missing) : startupStatus f ≠ "READY" := by
  intro h
  exact (C17_ready_iff f).mp h p hp (lookup_loadFrom_missing _ f _ hm)

/-- **part 4.** A non-READY server answers every request with data_error and keeps its state;
    the code is the documented one of its status. -/
theorem C17_every_request_data_error (l : Live) (h : fastError l.status ≠ "") (hist : List Request) (r : Request) :
    (l.run hist).handle r = (l, s!"{r.kind} data_error {fastError l.status}") := by
  have step : ∀ q : Request, l.handle q = (l, s!"{q.kind} data_error {fastError l.status}") := by
    intro q; unfold Live.handle; simp [h]
  have hrun : l.run hist = l := by
    unfold Live.run
    induction hist with
    | nil => rfl
    | cons q rest ih => rw [List.foldl_cons, step q]; exact ih
  rw [hrun, step r]

/-- **part 5.** A READY server serves the data it loaded: the ordinary handler on that data. -/
theorem C17_ready_serves (l : Live) (h : fastError l.status = "") (r : Request) :
    (l.handle r).2 = (handle l.ds l.srv r).2 := by
  unfold Live.handle; simp [h]

/-- the documented code that names each kind of data -/
def expectedCode (coll : String) : String :=
  if coll = "agencies" then "MISSING_DATA_AGENCIES"
  else if coll = "services" then "MISSING_DATA_SERVICES"
  else if coll = "nodes" then "MISSING_DATA_NODES"
  else if coll = "lines" then "MISSING_DATA_LINES"
  else if coll = "paths" then "MISSING_DATA_PATHS"
  else if coll = "scenarios" then "MISSING_DATA_SCENARIOS"
  else if coll = "trips" then "MISSING_DATA_SCHEDULES"
  else "?"

/-- the status -> errorCode table: every non-READY status of `getDataStatus` maps to the documented
    MISSING_DATA_* code of the collection it tests, READY maps to "" (no fast error) -/
theorem C17_codes :
    (Gen.dataStatusOrder.all fun p =>
        let code := fastError p.2
        code != "" && Gen.documentedCodes.contains code &&
        code == expectedCode p.1) = true
    ∧ fastError "READY" = "" ∧ fastError "DATA_READ_ERROR" = "DATA_ERROR" := by decide

/-- the seven collections `getDataStatus` tests are the seven the refresh model knows, each filled by
    a call `loadAllData` makes; every call of `loadAllData` is guarded -/
theorem C17_tables_cover :
    Gen.dataStatusOrder.map (·.1) = ["agencies", "services", "nodes", "lines", "paths", "scenarios", "trips"] ∧
    (Gen.dataStatusOrder.all fun p => (Gen.loadOrder.map (·.1)).contains (fillerOf p.1)) = true := by decide

/-- syntactic facts re-read from the source on every run: each loader deserialises inside `try` with
    handlers for kj::Exception and for everything else; the three endpoints test the data status
    before anything else; /updateCache answers, with the status recomputed, when an update throws -/
theorem C17_structure :
    (["loader_agencies_reads_inside_try_catch_all", "loader_services_reads_inside_try_catch_all",
      "loader_nodes_reads_inside_try_catch_all", "loader_lines_reads_inside_try_catch_all",
      "loader_paths_reads_inside_try_catch_all", "loader_scenarios_reads_inside_try_catch_all",
      "loader_trips_and_connections_reads_inside_try_catch_all", "loader_data_sources_reads_inside_try_catch_all",
      "loader_persons_reads_inside_try_catch_all", "loader_od_trips_reads_inside_try_catch_all",
      "handler_route_fast_error_first", "handler_summary_fast_error_first", "handler_accessibility_fast_error_first",
      "updateCache_answers_when_update_throws", "updateCache_recomputes_data_status"].all
        fun k => Gen.facts.lookup k == some true) = true := by decide

/-- non-vacuity: a start-up where the paths file is missing and the line file fails half-way -/
example : startupStatus (fun fn => if fn = "updatePaths" then .missing else if fn = "updateLines" then .failed 0 else .ok 3) = "NO_LINES" := by
  decide

example : startupStatus (fun fn => if fn = "updatePaths" then .missing else .ok 3) = "NO_PATHS" := by decide

example : startupStatus (fun _ => .ok 3) = "READY" := by decide

end Tr
