/-
  Property C20 — walking-router failures degrade to error answers, never to a dead server; requests
  issued after the router recovers are answered exactly as if the fault had never happened.

  PARTIAL. Proved over the model (`Model/Osrm.lean`):
    * `C20_recovery`: whatever the router did during any earlier requests (any mixture of healthy and
      failing look-ups, on any requests), the answer to a later request depends only on the data,
      the request and what the router answers to THAT request - it equals the answer of a server
      that never saw a fault. The only state a request leaves behind is the scenario cache, and its
      contents do not depend on the router.
    * `C20_fault_lookup`: each listed fault makes the look-up either return "no stop" or throw;
      when it returns stops (fewer entries than requested) they are candidates that were asked
      for, within the limit; `C20_faulted_answer`: a throwing look-up gives the documented
      query_error, and state is untouched.
  NOT proved (observed against the real binary with a scripted router, check/fault_checks.py):
  that the socket layer turns refused / dropped / truncated connections into a caught exception,
  that the process stays up, the HTTP framing of the answers.
-/
import TrVerif.Model.Osrm
import TrVerif.Props.C13
namespace Tr

theorem connSetOf_withRouter (ds : Dataset) (a e : List NTD) (sc : Scenario) :
    (ds.withRouter a e).connSetOf sc = ds.connSetOf sc := rfl

theorem coherent_withRouter {ds : Dataset} {s : Server} (a e : List NTD) :
    Coherent (ds.withRouter a e) s ↔ Coherent ds s := Iff.rfl

theorem handleView_coherent {ds : Dataset} {s : Server} (h : Coherent ds s) (v : RouterView) (r : Request) :
    Coherent ds (handleView ds s v r).1 := by
  unfold handleView
  by_cases ht : throwsFor ds v r
  · simp only [ht, if_true]; exact h
  · simp only [ht]
    exact (coherent_withRouter _ _).mp (handle_coherent ((coherent_withRouter _ _).mpr h) r)

theorem runViews_coherent {ds : Dataset} (hist : List (RouterView × Request)) :
    ∀ {s : Server}, Coherent ds s → Coherent ds (runViews ds s hist) := by
  induction hist with
  | nil => intro s h; exact h
  | cons x rest ih => intro s h; exact ih (handleView_coherent h x.1 x.2)

theorem handleView_response {ds : Dataset} {s1 s2 : Server} (h1 : Coherent ds s1) (h2 : Coherent ds s2)
    (v : RouterView) (r : Request) : (handleView ds s1 v r).2 = (handleView ds s2 v r).2 := by
  unfold handleView
  by_cases ht : throwsFor ds v r
  · simp [ht]
  · simp only [ht, Bool.false_eq_true, if_false]
    rw [handle_response ((coherent_withRouter _ _).mpr h1), handle_response ((coherent_withRouter _ _).mpr h2)]

/-- **C20 (recovery).** For every dataset, cache setting, every earlier history of requests each
    served under an arbitrary router behaviour (healthy, empty, throwing - per look-up), and every
    later request `req` served under router behaviour `v`: the answer equals the one a server that
    never saw any of that history gives under `v`. In particular, with `v` healthy, it is the
    fault-free answer. -/
theorem C20_recovery (ds : Dataset) (cacheAll : Bool) (hist : List (RouterView × Request)) (v : RouterView) (req : Request) :
    (handleView ds (runViews ds (Server.init cacheAll) hist) v req).2 = (handleView ds (Server.init cacheAll) v req).2 :=
  handleView_response (runViews_coherent hist (coherent_init ds cacheAll)) (coherent_init ds cacheAll) v req

/-- a request whose look-up throws is answered with the documented catch-all query error and
    leaves the server state alone -/
theorem C20_faulted_answer (ds : Dataset) (s : Server) (v : RouterView) (r : Request) (h : throwsFor ds v r = true) :
    handleView ds s v r = (s, s!"{r.kind} query_error PARAM_ERROR_UNKNOWN") ∧
    Gen.documentedCodes.contains "PARAM_ERROR_UNKNOWN" = true := by
  constructor
  · unfold handleView; simp [h]
  · decide

/-- stops returned by the row loop are candidates that were asked for, within the limit -/
theorem rowsLoop_sound (cands : List Nat) (maxT : Nat) (dur dist : List (Option Nat)) :
    ∀ (fuel i : Nat) (acc l : List NTD), (∀ x ∈ acc, x.stop ∈ cands ∧ x.time ≤ maxT) →
      rowsLoop cands maxT dur dist fuel i acc = .stops l → ∀ x ∈ l, x.stop ∈ cands ∧ x.time ≤ maxT := by
  intro fuel
  induction fuel with
  | zero => intro i acc l hacc h; simp [rowsLoop] at h; subst h; exact hacc
  | succ n ih =>
    intro i acc l hacc h
    unfold rowsLoop at h
    cases hd : dur[i]? with
    | none => simp only [hd] at h; cases h; exact hacc
    | some ot =>
      cases ot with
      | none => simp [hd] at h
      | some t =>
        simp only [hd] at h
        by_cases ht : t ≤ maxT
        · simp only [ht, if_true] at h
          cases hx : dist[i]? with
          | none => simp [hx] at h
          | some od =>
            cases od with
            | none => simp [hx] at h
            | some d =>
              simp only [hx] at h
              cases hc : cands[i - 1]? with
              | none => simp [hc] at h
              | some c =>
                simp only [hc] at h
                refine ih (i + 1) _ l ?_ h
                intro x hxm
                rcases List.mem_append.mp hxm with hx1 | hx1
                · exact hacc x hx1
                · simp at hx1; subst hx1
                  exact ⟨List.mem_of_getElem? hc, by simpa using ht⟩
        · simp only [ht, if_false] at h
          exact ih (i + 1) acc l hacc h

/-- **C20 (look-up under the listed faults).** Refused / dropped / truncated connection, error
    status, a table without durations: "no stop". Empty or non-JSON body: throws. Null entries:
    throws or no stop. Fewer entries than requested (or a healthy reply): throws or stops that were
    asked for, within the limit - never anything else. -/
theorem C20_fault_lookup (cands : List Nat) (maxT : Nat) (b : Body) (dur dist : List (Option Nat)) :
    lookup cands maxT .transport = .stops [] ∧
    lookup cands maxT (.http false b) = .stops [] ∧
    lookup cands maxT (.http true .noTable) = .stops [] ∧
    lookup cands maxT (.http true .unparsable) = .throws ∧
    (∀ l, lookup cands maxT (.http true (.rows dur dist)) = .stops l → ∀ x ∈ l, x.stop ∈ cands ∧ x.time ≤ maxT) := by
  refine ⟨rfl, rfl, rfl, rfl, ?_⟩
  intro l h
  unfold lookup at h
  by_cases hc : dur.length > 0 ∧ dist.length > 0
  · simp only [hc, and_self, if_true] at h
    exact rowsLoop_sound cands maxT dur dist _ _ [] l (by simp) h
  · simp only [hc, if_false] at h
    cases h; simp

/-- the outcome class of each fault of the scripted router, on a healthy row with a reachable stop:
    the table the check compares the real binary with -/
theorem C20_classes :
    let dur := [some 0, some 10, some 20]; let dist := [some 0, some 15, some 30]; let cands := [4, 7]
    (["refuse", "drop", "truncate", "http500", "http503late", "nodurations"].all fun f => lookup cands 100 (faultReply f dur dist) == .stops []) = true ∧
    (["empty", "nonjson", "nulls"].all fun f => lookup cands 100 (faultReply f dur dist) == .throws) = true ∧
    lookup cands 100 (faultReply "fewer" dur dist) = .stops [⟨4, 10, 15⟩] ∧
    lookup cands 100 (faultReply "healthy" dur dist) = .stops [⟨4, 10, 15⟩, ⟨7, 20, 30⟩] := by decide

/-- the client keeps nothing between calls (facts re-read from the source on every run): one
    HttpClient per call, no static or mutable member, the filter holds three configuration strings;
    every handler builds its own calculator -/
theorem C20_structure :
    (["osrm_client_per_call", "osrm_filter_members_are_config_strings", "handler_route_own_calculator",
      "handler_summary_own_calculator", "handler_accessibility_own_calculator", "no_static_state_in_calculator"].all
        fun k => Gen.facts.lookup k == some true) = true := by decide

end Tr
