/-
  Property C10 — alternatives: first is the plain answer, at most 50, counted.
  Proved here (for ALL datasets and queries): clauses (a) the alternatives answer fails exactly
  when the plain answer fails, with the same reason; (b) `routes[0]` is the plain answer;
  (f) at most 50 routes and `totalRoutesCalculated >= |routes|`; and the loop invariant behind
  (d): every returned route boards a multiset of lines no other returned route boards.
  Clauses (c) and (e) follow from C01/C02/C06 resp. C03/C04 applied to each recalculation.
-/
import TrVerif.Model.Calc
namespace Tr

/-- invariant of the alternatives loop -/
structure AltInv (ds : Dataset) (r0 : Route) (st : AltState) : Prop where
  head : st.routes.head? = some r0
  len : st.routes.length + 1 = st.seq
  cap : st.routes.length ≤ 50
  count : st.seq ≤ st.count
  found : st.found = st.routes.map fun r => sortNat (routeLines ds r)
  nodup : st.found.Nodup

theorem addCombos_fields (combination : List Nat) : ∀ (l : List (List Nat)) (st : AltState),
    (addCombos combination st l).routes = st.routes ∧ (addCombos combination st l).seq = st.seq ∧
    (addCombos combination st l).count = st.count ∧ (addCombos combination st l).found = st.found := by
  intro l
  induction l with
  | nil => intro st; simp [addCombos]
  | cons nc rest ih =>
    intro st
    simp only [addCombos]
    split
    · exact ih st
    · have := ih { st with allComb := if (st.failed.any fun fc => fc.all fun l => (sortNat (nc ++ combination)).contains l) then st.allComb else st.allComb ++ [sortNat (nc ++ combination)],
                           calculated := st.calculated ++ [sortNat (nc ++ combination)] }
      simpa using this

theorem altLoop_inv (ds : Dataset) (r0 : Route) (cs : ConnSet) (pAlt : Params) (base : List Nat) (a e : List NTD) :
    ∀ (fuel i : Nat) (st st' : AltState), AltInv ds r0 st → altLoop ds cs pAlt base a e fuel i st = .ok st' → AltInv ds r0 st' := by
  intro fuel
  induction fuel with
  | zero => intro i st st' h heq; simp [altLoop] at heq; rw [← heq]; exact h
  | succ fuel ih =>
    intro i st st' h heq
    simp only [altLoop] at heq
    split at heq
    · simp at heq; rw [← heq]; exact h
    · rename_i combination hc
      split at heq
      · rename_i hcond
        split at heq
        · simp at heq
        · -- failed recalculation
          refine ih _ _ _ ?_ heq
          exact ⟨h.head, h.len, h.cap, by have := h.count; simp; omega, h.found, h.nodup⟩
        · rename_i r hr
          split at heq
          · rename_i hnew
            -- a new alternative
            refine ih _ _ _ ?_ heq
            obtain ⟨f1, f2, f3, f4⟩ := addCombos_fields combination (allCombos (sortNat (routeLines ds r)))
              { st with routes := st.routes ++ [r], found := st.found ++ [sortNat (routeLines ds r)] }
            generalize addCombos combination
              { st with routes := st.routes ++ [r], found := st.found ++ [sortNat (routeLines ds r)] }
              (allCombos (sortNat (routeLines ds r))) = st2 at f1 f2 f3 f4 ⊢
            simp only at f1 f2 f3 f4
            have hlen := h.len
            have hcnt := h.count
            have hseq : st.seq - 1 < 50 := hcond.2
            constructor
            · show st2.routes.head? = some r0
              rw [f1]
              have := h.head
              cases hr' : st.routes with
              | nil => rw [hr'] at this; simp at this
              | cons x xs => rw [hr'] at this; simpa using this
            · show st2.routes.length + 1 = st2.seq + 1
              rw [f1, f2]; simp; omega
            · show st2.routes.length ≤ 50
              rw [f1]; simp; omega
            · show st2.seq + 1 ≤ st2.count + 1
              rw [f2, f3]; omega
            · show st2.found = st2.routes.map fun r => sortNat (routeLines ds r)
              rw [f4, f1, h.found]; simp
            · show st2.found.Nodup
              rw [f4, List.nodup_append]
              refine ⟨h.nodup, by simp, ?_⟩
              intro x hx y hy
              simp at hy; subst hy
              intro he; subst he
              have := hnew.2
              simp at this
              exact this hx
          · refine ih _ _ _ ?_ heq
            exact ⟨h.head, h.len, h.cap, by have := h.count; simp; omega, h.found, h.nodup⟩
      · exact ih _ _ _ h heq

theorem altLoop_not_noRouting (ds : Dataset) (cs : ConnSet) (pAlt : Params) (base : List Nat) (a e : List NTD) :
    ∀ (fuel i : Nat) (st : AltState) (r : Reason), altLoop ds cs pAlt base a e fuel i st ≠ .noRouting r := by
  intro fuel
  induction fuel with
  | zero => intro i st r; simp [altLoop]
  | succ fuel ih =>
    intro i st r
    simp only [altLoop]
    split
    · simp
    · split
      · split
        · simp
        · exact ih _ _ _
        · split
          · exact ih _ _ _
          · exact ih _ _ _
      · exact ih _ _ _

/-- **C10 (a, b, d, f).** -/
theorem C10_alternatives (ds : Dataset) (cs : ConnSet) (p : Params) :
    let plain := calculateSingleCS ds cs p
    match alternativesRoutingCS ds cs p with
    | .noRouting r => plain = .noRouting r                                       -- (a)
    | .exception _ => True
    | .ok (rs, n) =>
        (∃ r0 rest, rs = r0 :: rest ∧ plain = .ok r0) ∧                          -- (b)
        rs.length ≤ 50 ∧ rs.length ≤ n ∧                                        -- (f)
        (rs.map fun r => sortNat (routeLines (ds.restrict cs) r)).Nodup          -- (d)
    := by
  intro plain
  simp only [alternativesRoutingCS]
  have hplain : plain = calculateSingleWith (ds.restrict cs) cs p (routerLookup ds.access p.maxAccess) (routerLookup ds.egress p.maxEgress) := rfl
  have hacc : (ds.restrict cs).access = ds.access := rfl
  have hegr : (ds.restrict cs).egress = ds.egress := rfl
  rw [hacc, hegr]
  cases h0 : calculateSingleWith (ds.restrict cs) cs p (routerLookup ds.access p.maxAccess) (routerLookup ds.egress p.maxEgress) with
  | exception w => trivial
  | noRouting r => simp only [hplain, h0]
  | ok r0 =>
    simp only
    have hinit : AltInv (ds.restrict cs) r0
        { routes := [r0], allComb := (allCombos (sortNat (routeLines (ds.restrict cs) r0))).map sortNat,
          calculated := (allCombos (sortNat (routeLines (ds.restrict cs) r0))).map sortNat,
          found := [sortNat (routeLines (ds.restrict cs) r0)] } :=
      ⟨rfl, rfl, by simp, by simp, rfl, by simp⟩
    cases hl : altLoop (ds.restrict cs) cs { p with maxTotal := altMaxTravelTime p r0 } p.exceptLines
        (routerLookup ds.access p.maxAccess) (routerLookup ds.egress p.maxEgress) 100000 0
        { routes := [r0], allComb := (allCombos (sortNat (routeLines (ds.restrict cs) r0))).map sortNat,
          calculated := (allCombos (sortNat (routeLines (ds.restrict cs) r0))).map sortNat,
          found := [sortNat (routeLines (ds.restrict cs) r0)] } with
    | exception w => trivial
    | noRouting r => exact absurd hl (altLoop_not_noRouting _ _ _ _ _ _ _ _ _ _)
    | ok st =>
      have hinv := altLoop_inv _ r0 _ _ _ _ _ _ _ _ _ hinit hl
      simp only
      refine ⟨?_, hinv.cap, ?_, ?_⟩
      · have := hinv.head
        cases hr' : st.routes with
        | nil => rw [hr'] at this; simp at this
        | cons x xs => rw [hr'] at this; simp at this; exact ⟨x, xs, rfl, by rw [hplain, h0, this]⟩
      · have h1 := hinv.len; have h2 := hinv.count; omega
      · rw [← hinv.found]; exact hinv.nodup

end Tr
