/-
  Property C10, clause (e): no further route of an alternatives answer beats `routes[0]` -
  it does not arrive earlier (departure-time queries) nor depart later (arrival-time queries).

  Every further route is the answer of a recalculation with more lines excluded and a smaller
  `max_travel_time`, on the same connection set with the same footpaths.  By the attainment
  theorems it is an admissible journey of that recalculation; excluding fewer lines and allowing
  a longer journey keeps it admissible for the original query (`CtxLe`); and `routes[0]` is the
  original query's answer, optimal among its admissible journeys (C03 / C04).
-/
import TrVerif.Props.NoExc
import TrVerif.Props.C10
import TrVerif.Props.C06
namespace Tr

/-- two contexts that agree on everything the inductive specifications read, the second one
    excluding no trip the first one admits -/
structure CtxLe (cx cx' : Ctx) : Prop where
  ds : cx.ds = cx'.ds
  mw : cx.p.minWait = cx'.p.minWait
  mt : cx.p.maxTransfer = cx'.p.maxTransfer
  acc : cx.accessFoot = cx'.accessFoot
  egr : cx.egressFoot = cx'.egressFoot
  depT : cx.depT = cx'.depT
  arrT : cx.arrT = cx'.arrT
  dis : ∀ t, cx.disabled t = false → cx'.disabled t = false

theorem Reach.ctxLe {cx cx' : Ctx} (h : CtxLe cx cx') {C : List Conn} {y : Nat} {t : Int} (hr : Reach cx C y t) :
    Reach cx' C y t := by
  induction hr with
  | access a ha =>
    rw [h.depT]
    exact Reach.access a (h.acc ▸ ha)
  | ride y t e x f _ he hx h1 h2 h3 h4 h5 h6 h7 h8 h9 ih =>
    exact Reach.ride y t e x f ih he hx h1 (by rw [← h.mw]; exact h2) h3 h4 h5 h6 (h.dis _ h7)
      (by rw [← h.ds]; exact h8) (by rw [← h.mt]; exact h9)

theorem RReach.ctxLe {cx cx' : Ctx} (h : CtxLe cx cx') {C : List Conn} {y : Nat} {t : Int} (hr : RReach cx C y t) :
    RReach cx' C y t := by
  induction hr with
  | egress g hg =>
    rw [h.arrT]
    exact RReach.egress g (h.egr ▸ hg)
  | ride z t e x f _ he hx h1 h2 h3 h4 h5 h6 h7 h8 h9 ih =>
    rw [h.mw]
    exact RReach.ride z t e x f ih he hx h1 h2 h3 h4 h5 h6 (h.dis _ h7)
      (by rw [← h.ds]; exact h8) (by rw [← h.mt]; exact h9)

theorem AdmFwd.ctxLe {cx cx' : Ctx} (h : CtxLe cx cx') {C : List Conn} {e x : Conn} {g : NTD} (hA : AdmFwd cx C e x g) :
    AdmFwd cx' C e x g := by
  obtain ⟨⟨hcb, hdis, t, hr, ht⟩, h2, h3, h4, h5, h6, h7, h8⟩ := hA
  exact ⟨⟨hcb, h.dis _ hdis, t, hr.ctxLe h, by rw [← h.mw]; exact ht⟩, h2, h3, h4, h5, h6, h.egr ▸ h7, h8⟩

theorem AdmRev.ctxLe {cx cx' : Ctx} (h : CtxLe cx cx') {C : List Conn} {a0 : NTD} {e0 x0 : Conn} (hA : AdmRev cx C a0 e0 x0) :
    AdmRev cx' C a0 e0 x0 := by
  obtain ⟨h1, h2, h3, h4, h5, h6, h7, hcu, hdis, t, hr, ht⟩ := hA
  exact ⟨h.acc ▸ h1, h2, h3, h4, h5, h6, h7, hcu, h.dis _ hdis, t, hr.ctxLe h, ht⟩

/-- the context of a recalculation of the alternatives search against the one of the query -/
theorem ctxLe_alt (ds : Dataset) (p : Params) (cs : ConnSet) (a e : List NTD) (depT arrT : Int) (M : Int) (comb : List Nat) :
    CtxLe (mkCtx ds { p with maxTotal := M, exceptLines := p.exceptLines ++ comb } cs a e depT arrT)
      (mkCtx ds p cs a e depT arrT) := by
  refine ⟨rfl, rfl, rfl, rfl, rfl, rfl, rfl, ?_⟩
  intro t ht
  simp only [mkCtx, queryDisabled] at ht ⊢
  cases hc : p.exceptLines.contains (ds.lineOfTrip t) with
  | false => rfl
  | true =>
    have : (p.exceptLines ++ comb).contains (ds.lineOfTrip t) = true := by
      rw [List.contains_iff_mem] at hc ⊢
      exact List.mem_append_left _ hc
    rw [this] at ht; cases ht

theorem hclean_allowed' {ds : Dataset} (hwf : WFData ds) (p : Params) (hmw : 0 ≤ p.minWait) (hmt : 0 ≤ p.maxTransfer)
    (sc : Scenario) (a e : List NTD) (depT arrT : Int) :
    CleanupPreserves (mkCtx (ds.restrict (ds.connSetOf sc)) p (ds.connSetOf sc) a e depT arrT)
      ((ds.connSetOf sc).rev.filter (mkCtx (ds.restrict (ds.connSetOf sc)) p (ds.connSetOf sc) a e depT arrT).allowed) :=
  cleanupPreserves ((timeWF_dataset hwf p hmw hmt sc a e depT arrT).mono (fun c hc => (List.mem_filter.mp hc).1))
    (sliceOK_dataset hwf p sc a e depT arrT).allowed

/-- attainment for any recalculation on a scenario's connection set with given footpaths (forward) -/
theorem calcWith_attained_fwd (ds : Dataset) (hwf : WFData ds) (sc : Scenario) (p : Params) (hp : p.forward = true)
    (hmw : 0 ≤ p.minWait) (hmt : 0 ≤ p.maxTransfer) (a e : List NTD) (hend : (e.map (·.stop)).Nodup) {r : Route}
    (h : calculateSingleWith (ds.restrict (ds.connSetOf sc)) (ds.connSetOf sc) p a e = .ok r) :
    ∃ ec xc g, AdmFwd (mkCtx (ds.restrict (ds.connSetOf sc)) p (ds.connSetOf sc) a e p.time (-1)) (ds.connSetOf sc).fwd ec xc g ∧
      xc.arr + g.time = r.arrivalTime ∧ r.arrivalTime - p.time ≤ p.maxTotal ∧ p.time ≤ r.departureTime := by
  have hsub := connSetOf_rev_sub ds sc
  have hm : ArrMono (ds.connSetOf sc).rev :=
    fun x hx y hy => conns_arrMono hwf.toWFSchedule x (hsub x hx) y (hsub y hy)
  obtain ⟨depT, arrT, bd, j, rfl, hJ, hF, _, _, _, hS⟩ := calculateSingleWith_emits_allowed _ _ p _ _ (connSetOf_sorted ds _) hm hmw
    (fun depT arrT => hclean_allowed' hwf p hmw hmt sc a e depT arrT) h
  obtain ⟨rfl, hbd⟩ := hF hp
  have harr := journeyOK_arrival hJ (show ((mkCtx (ds.restrict (ds.connSetOf sc)) p (ds.connSetOf sc) a e p.time arrT).egressFoot.map (·.stop)).Nodup from hend)
  have hspan := hS hp
  obtain ⟨ec, xc, g, hAdm, harr2⟩ := journeyOK_admFwd allowed_not_disabled hJ hbd
  refine ⟨ec, xc, g, ?_, harr2, ?_, hbd⟩
  · obtain ⟨⟨hcb, hdis, t, hr, ht⟩, h2, h3, h4, h5, h6, h7, h8⟩ :=
      hAdm.mono_set (fun c hc => connSetOf_rev_mem_fwd ds _ c (List.mem_filter.mp hc).1)
    exact ⟨⟨hcb, hdis, t, hr.arrT (-1), ht⟩, h2, h3, h4, h5, h6, h7, h8⟩
  · have : (mkCtx (ds.restrict (ds.connSetOf sc)) p (ds.connSetOf sc) a e p.time arrT).arrT = arrT := rfl
    rw [this] at harr
    show (emit _ _ bd j).arrivalTime - p.time ≤ p.maxTotal
    have e1 : (mkCtx (ds.restrict (ds.connSetOf sc)) p (ds.connSetOf sc) a e p.time arrT).ds = ds.restrict (ds.connSetOf sc) := rfl
    have e2 : (mkCtx (ds.restrict (ds.connSetOf sc)) p (ds.connSetOf sc) a e p.time arrT).p.minWait = p.minWait := rfl
    rw [e1, e2] at harr
    omega

/-- attainment for any recalculation (reverse) -/
theorem calcWith_attained_rev (ds : Dataset) (hwf : WFData ds) (sc : Scenario) (p : Params) (hp : p.forward = false)
    (hmw : 0 ≤ p.minWait) (hmt : 0 ≤ p.maxTransfer) (a e : List NTD) (hend : (e.map (·.stop)).Nodup) {r : Route}
    (h : calculateSingleWith (ds.restrict (ds.connSetOf sc)) (ds.connSetOf sc) p a e = .ok r) :
    ∃ a0 e0 x0, AdmRev (mkCtx (ds.restrict (ds.connSetOf sc)) p (ds.connSetOf sc) a e (-1) p.time) (ds.connSetOf sc).rev a0 e0 x0 ∧
      r.departureTime ≤ e0.dep - e0.effWait p.minWait - a0.time ∧ 0 ≤ r.departureTime ∧ p.time - r.departureTime ≤ p.maxTotal ∧
      r.arrivalTime ≤ p.time := by
  have hsub := connSetOf_rev_sub ds sc
  have hm : ArrMono (ds.connSetOf sc).rev :=
    fun x hx y hy => conns_arrMono hwf.toWFSchedule x (hsub x hx) y (hsub y hy)
  obtain ⟨depT, arrT, bd, j, rfl, hJ, _, hA, h0, hT, _⟩ := calculateSingleWith_emits_allowed _ _ p _ _ (connSetOf_sorted ds _) hm hmw
    (fun depT arrT => hclean_allowed' hwf p hmw hmt sc a e depT arrT) h
  obtain ⟨rfl, rfl⟩ := hA hp
  obtain ⟨a0, e0, x0, hAdm, hbd⟩ := journeyOK_admRev allowed_not_disabled hJ
    (show ((mkCtx (ds.restrict (ds.connSetOf sc)) p (ds.connSetOf sc) a e (-1) p.time).egressFoot.map (·.stop)).Nodup from hend)
  have harr := journeyOK_arrival hJ
    (show ((mkCtx (ds.restrict (ds.connSetOf sc)) p (ds.connSetOf sc) a e (-1) p.time).egressFoot.map (·.stop)).Nodup from hend)
  exact ⟨a0, e0, x0, hAdm.mono_set (fun c hc => (List.mem_filter.mp hc).1), hbd, h0, hT, harr⟩


/-- where the routes of the alternatives loop come from -/
def AltFrom (ds : Dataset) (cs : ConnSet) (pAlt : Params) (base : List Nat) (a e : List NTD) (r0 : Route) (st : AltState) : Prop :=
  ∀ r ∈ st.routes, r = r0 ∨ ∃ comb, calculateSingleWith ds cs { pAlt with exceptLines := base ++ comb } a e = .ok r

theorem altLoop_from (ds : Dataset) (r0 : Route) (cs : ConnSet) (pAlt : Params) (base : List Nat) (a e : List NTD) :
    ∀ (fuel i : Nat) (st st' : AltState), AltFrom ds cs pAlt base a e r0 st →
      altLoop ds cs pAlt base a e fuel i st = .ok st' → AltFrom ds cs pAlt base a e r0 st' := by
  intro fuel
  induction fuel with
  | zero => intro i st st' h heq; simp [altLoop] at heq; rw [← heq]; exact h
  | succ fuel ih =>
    intro i st st' h heq
    simp only [altLoop] at heq
    split at heq
    · simp at heq; rw [← heq]; exact h
    · rename_i combination hc
      split at heq
      · split at heq
        · simp at heq
        · refine ih _ _ _ ?_ heq
          exact fun r hr => h r hr
        · rename_i r hr
          split at heq
          · refine ih _ _ _ ?_ heq
            obtain ⟨f1, _, _, _⟩ := addCombos_fields combination (allCombos (sortNat (routeLines ds r)))
              { st with routes := st.routes ++ [r], found := st.found ++ [sortNat (routeLines ds r)] }
            intro r' hr'
            have hr'' : r' ∈ st.routes ++ [r] := by
              have : r' ∈ (addCombos combination
                { st with routes := st.routes ++ [r], found := st.found ++ [sortNat (routeLines ds r)] }
                (allCombos (sortNat (routeLines ds r)))).routes := hr'
              rw [f1] at this; exact this
            rcases List.mem_append.mp hr'' with h1 | h1
            · exact h r' h1
            · simp only [List.mem_singleton] at h1
              subst h1
              exact Or.inr ⟨combination, hr⟩
          · refine ih _ _ _ ?_ heq
            exact fun r hr => h r hr
      · exact ih _ _ _ h heq

theorem altMaxTravelTime_le (p : Params) (r : Route) : altMaxTravelTime p r ≤ p.maxTotal := by
  unfold altMaxTravelTime
  simp only
  split <;> omega

/-- the routes of an alternatives answer: the plain answer first, every other one the answer of a
    recalculation with more excluded lines and the reduced `max_travel_time` -/
theorem alternatives_from (ds : Dataset) (p : Params) {rs : List Route} {n : Nat}
    (h : alternativesRouting ds p = .ok (rs, n)) :
    ∃ r0, calculateSingle ds p = .ok r0 ∧ ∀ r ∈ rs, r = r0 ∨ ∃ comb,
      calculateSingleWith (ds.restrict (ds.connSetOf (ds.scenarioOf p))) (ds.connSetOf (ds.scenarioOf p))
        { p with maxTotal := altMaxTravelTime p r0, exceptLines := p.exceptLines ++ comb }
        (routerLookup ds.access p.maxAccess) (routerLookup ds.egress p.maxEgress) = .ok r := by
  unfold alternativesRouting alternativesRoutingCS at h
  simp only at h
  have hacc : (ds.restrict (ds.connSetOf (ds.scenarioOf p))).access = ds.access := rfl
  have hegr : (ds.restrict (ds.connSetOf (ds.scenarioOf p))).egress = ds.egress := rfl
  rw [hacc, hegr] at h
  cases h0 : calculateSingleWith (ds.restrict (ds.connSetOf (ds.scenarioOf p))) (ds.connSetOf (ds.scenarioOf p)) p
      (routerLookup ds.access p.maxAccess) (routerLookup ds.egress p.maxEgress) with
  | exception w => rw [h0] at h; cases h
  | noRouting r => rw [h0] at h; cases h
  | ok r0 =>
    rw [h0] at h
    simp only at h
    refine ⟨r0, h0, ?_⟩
    split at h
    · rename_i st hst
      simp only [Outcome.ok.injEq, Prod.mk.injEq] at h
      obtain ⟨rfl, _⟩ := h
      have hinit : AltFrom (ds.restrict (ds.connSetOf (ds.scenarioOf p))) (ds.connSetOf (ds.scenarioOf p))
          { p with maxTotal := altMaxTravelTime p r0 } p.exceptLines
          (routerLookup ds.access p.maxAccess) (routerLookup ds.egress p.maxEgress) r0
          { routes := [r0], allComb := (allCombos (sortNat (routeLines (ds.restrict (ds.connSetOf (ds.scenarioOf p))) r0))).map sortNat,
            calculated := (allCombos (sortNat (routeLines (ds.restrict (ds.connSetOf (ds.scenarioOf p))) r0))).map sortNat,
            found := [sortNat (routeLines (ds.restrict (ds.connSetOf (ds.scenarioOf p))) r0)] } := by
        intro r hr
        simp only [List.mem_singleton] at hr
        exact Or.inl hr
      exact altLoop_from _ r0 _ _ _ _ _ _ _ _ _ hinit hst
    · cases h
    · cases h

/-- **C10 (e), departure-time queries.** On the domain of C03 no route of the alternatives answer
    arrives earlier than the plain answer `routes[0]`. -/
theorem C10_no_better_forward (ds : Dataset) (hwf : WFData ds) (p : Params) (hp : p.forward = true) (hmw : 0 ≤ p.minWait)
    (hmt : 0 ≤ p.maxTransfer) (hpos : PosHops ds) (hself : SelfFootArr ds) (hb : TimesBounded ds) (hba : ArrBounded ds)
    (hcap : p.maxFirstWait < 0)
    (hacc : ∀ a ∈ ds.access, 0 ≤ a.time) (hand : (ds.access.map (·.stop)).Nodup)
    (hegr : ∀ g ∈ ds.egress, 0 ≤ g.time) (hend : (ds.egress.map (·.stop)).Nodup)
    (h0 : 0 ≤ p.time) (ht : p.time < (HOUR_END : Int) * 3600)
    {rs : List Route} {n : Nat} (h : alternativesRouting ds p = .ok (rs, n)) :
    ∃ r0, calculateSingle ds p = .ok r0 ∧ rs.head? = some r0 ∧ ∀ r ∈ rs, r0.arrivalTime ≤ r.arrivalTime := by
  obtain ⟨r0, hr0, hall⟩ := alternatives_from ds p h
  have hhead : rs.head? = some r0 := by
    have hc := C10_alternatives ds (ds.connSetOf (ds.scenarioOf p)) p
    simp only at hc
    have h' : alternativesRoutingCS ds (ds.connSetOf (ds.scenarioOf p)) p = .ok (rs, n) := h
    rw [h'] at hc
    obtain ⟨⟨r0', rest, hrs, hpl⟩, _⟩ := hc
    have : calculateSingleCS ds (ds.connSetOf (ds.scenarioOf p)) p = .ok r0 := hr0
    rw [this] at hpl
    cases hpl
    rw [hrs]; rfl
  refine ⟨r0, hr0, hhead, ?_⟩
  intro r hr
  rcases hall r hr with rfl | ⟨comb, hc⟩
  · exact Int.le_refl _
  · obtain ⟨ec, xc, g, hAdm, harr, hspan, _⟩ := calcWith_attained_fwd ds hwf (ds.scenarioOf p)
      { p with maxTotal := altMaxTravelTime p r0, exceptLines := p.exceptLines ++ comb } hp hmw hmt _ _
      (routerLookup_nodup _ _ hend) hc
    have hAdm' := hAdm.ctxLe (ctxLe_alt _ p _ _ _ p.time (-1) (altMaxTravelTime p r0) comb)
    have hle := altMaxTravelTime_le p r0
    have hT : xc.arr + g.time - p.time ≤ p.maxTotal := by
      rw [harr]
      have : r.arrivalTime - p.time ≤ altMaxTravelTime p r0 := hspan
      omega
    have := (C03_optimal ds hwf p hp hmw hmt hpos hself hb hba hcap hacc hand hegr hend h0 ht hAdm' hT).1 r0 hr0
    omega

/-- **C10 (e), arrival-time queries.** On the domain of C04 no route of the alternatives answer
    departs later than the plain answer `routes[0]`. -/
theorem C10_no_better_reverse (ds : Dataset) (hwf : WFData ds) (p : Params) (hp : p.forward = false) (hmw : 0 ≤ p.minWait)
    (hmt : 0 ≤ p.maxTransfer) (hpos : PosHops ds) (hb : TimesBounded ds)
    (hegr : ∀ g ∈ ds.egress, 0 ≤ g.time) (hend : (ds.egress.map (·.stop)).Nodup)
    (hacc : ∀ a ∈ ds.access, 0 ≤ a.time) (hand : (ds.access.map (·.stop)).Nodup) (h0 : 0 ≤ p.time)
    {rs : List Route} {n : Nat} (h : alternativesRouting ds p = .ok (rs, n)) :
    ∃ r0, calculateSingle ds p = .ok r0 ∧ rs.head? = some r0 ∧ ∀ r ∈ rs, r.departureTime ≤ r0.departureTime := by
  obtain ⟨r0, hr0, hall⟩ := alternatives_from ds p h
  have hhead : rs.head? = some r0 := by
    have hc := C10_alternatives ds (ds.connSetOf (ds.scenarioOf p)) p
    simp only at hc
    have h' : alternativesRoutingCS ds (ds.connSetOf (ds.scenarioOf p)) p = .ok (rs, n) := h
    rw [h'] at hc
    obtain ⟨⟨r0', rest, hrs, hpl⟩, _⟩ := hc
    have : calculateSingleCS ds (ds.connSetOf (ds.scenarioOf p)) p = .ok r0 := hr0
    rw [this] at hpl
    cases hpl
    rw [hrs]; rfl
  refine ⟨r0, hr0, hhead, ?_⟩
  intro r hr
  rcases hall r hr with rfl | ⟨comb, hc⟩
  · exact Int.le_refl _
  · obtain ⟨a0, e0, x0, hAdm, hdep, hd0, hspan, _⟩ := calcWith_attained_rev ds hwf (ds.scenarioOf p)
      { p with maxTotal := altMaxTravelTime p r0, exceptLines := p.exceptLines ++ comb } hp hmw hmt _ _
      (routerLookup_nodup _ _ hend) hc
    have hAdm' := hAdm.ctxLe (ctxLe_alt _ p _ _ _ (-1) p.time (altMaxTravelTime p r0) comb)
    have hle := altMaxTravelTime_le p r0
    have hsp : p.time - r.departureTime ≤ altMaxTravelTime p r0 := hspan
    have hdep' : r.departureTime ≤ e0.dep - e0.effWait p.minWait - a0.time := hdep
    have := (C04_optimal ds hwf p hp hmw hmt hpos hb hegr hend hacc hand h0 hAdm' (by omega) (by omega)).1 r0 hr0
    omega


/-- **C10 (c), time limits of the ORIGINAL query.** Every route of an alternatives answer - also
    the ones calculated with the reduced `max_travel_time` - keeps the original query's limits:
    a departure-time answer never leaves before the requested time and arrives within
    max_travel_time of it; an arrival-time answer never arrives after the requested time, leaves
    within max_travel_time before it and not before 0:00. -/
theorem C10_alt_times (ds : Dataset) (hwf : WFData ds) (p : Params) (hmw : 0 ≤ p.minWait) (hmt : 0 ≤ p.maxTransfer)
    (hend : (ds.egress.map (·.stop)).Nodup) {rs : List Route} {n : Nat} (h : alternativesRouting ds p = .ok (rs, n)) :
    ∀ r ∈ rs,
      (p.forward = true → p.time ≤ r.departureTime ∧ r.arrivalTime - p.time ≤ p.maxTotal) ∧
      (p.forward = false → r.arrivalTime ≤ p.time ∧ p.time - r.departureTime ≤ p.maxTotal ∧ 0 ≤ r.departureTime) := by
  obtain ⟨r0, hr0, hall⟩ := alternatives_from ds p h
  intro r hr
  rcases hall r hr with rfl | ⟨comb, hc⟩
  · obtain ⟨t1, t2, t3⟩ := C02_times ds hwf p hmw hmt hr0
    obtain ⟨a1, a2⟩ := C02_arrival ds hwf p hmw hmt hend hr0
    exact ⟨fun hf => ⟨t2 hf, a2 hf⟩, fun hf => ⟨a1 hf, t3 hf, t1⟩⟩
  · have hle := altMaxTravelTime_le p r
    constructor
    · intro hf
      obtain ⟨_, _, _, _, _, hspan, hdep⟩ := calcWith_attained_fwd ds hwf (ds.scenarioOf p)
        { p with maxTotal := altMaxTravelTime p r0, exceptLines := p.exceptLines ++ comb } hf hmw hmt _ _
        (routerLookup_nodup _ _ hend) hc
      have hle := altMaxTravelTime_le p r0
      have h1 : r.arrivalTime - p.time ≤ altMaxTravelTime p r0 := hspan
      exact ⟨hdep, by omega⟩
    · intro hf
      obtain ⟨_, _, _, _, _, hd0, hspan, harr⟩ := calcWith_attained_rev ds hwf (ds.scenarioOf p)
        { p with maxTotal := altMaxTravelTime p r0, exceptLines := p.exceptLines ++ comb } hf hmw hmt _ _
        (routerLookup_nodup _ _ hend) hc
      have hle := altMaxTravelTime_le p r0
      have h1 : p.time - r.departureTime ≤ altMaxTravelTime p r0 := hspan
      exact ⟨harr, by omega, hd0⟩


/-- **C10 (c), scenario and walk limits of the ORIGINAL query.** Every route of an alternatives
    answer rides only hops of the scenario's connection set, walks what the router offers within
    the query's access / egress maxima (the tables of the first calculation are reused), and makes
    no transfer walk longer than the transfer maximum. -/
theorem C10_alt_limits (ds : Dataset) (hwf : WFData ds) (p : Params) (hmw : 0 ≤ p.minWait) (hmt : 0 ≤ p.maxTransfer)
    {rs : List Route} {n : Nat} (h : alternativesRouting ds p = .ok (rs, n)) :
    ∀ r ∈ rs,
      ValidItinerary (ds.connSetOf (ds.scenarioOf p)).rev ds.foot
        (routerLookup ds.access p.maxAccess) (routerLookup ds.egress p.maxEgress) (ds.mwOfTrip p) r ∧
      transferWalksWithin p.maxTransfer r.steps := by
  obtain ⟨r0, hr0, hall⟩ := alternatives_from ds p h
  intro r hr
  rcases hall r hr with rfl | ⟨comb, hc⟩
  · obtain ⟨h1, _, _, _, h5⟩ := C02_partial ds hwf p hmw hmt hr0
    exact ⟨h1, h5⟩
  · have hsub := connSetOf_rev_sub ds (ds.scenarioOf p)
    have hm : ArrMono (ds.connSetOf (ds.scenarioOf p)).rev :=
      fun x hx y hy => conns_arrMono hwf.toWFSchedule x (hsub x hx) y (hsub y hy)
    have hclean := fun depT arrT => cleanupPreserves
      (timeWF_dataset hwf { p with maxTotal := altMaxTravelTime p r0, exceptLines := p.exceptLines ++ comb } hmw hmt (ds.scenarioOf p)
        (routerLookup ds.access p.maxAccess) (routerLookup ds.egress p.maxEgress) depT arrT)
      (sliceOK_dataset hwf { p with maxTotal := altMaxTravelTime p r0, exceptLines := p.exceptLines ++ comb } (ds.scenarioOf p)
        (routerLookup ds.access p.maxAccess) (routerLookup ds.egress p.maxEgress) depT arrT)
    constructor
    · exact C01_modulo_cleanup (ds.restrict (ds.connSetOf (ds.scenarioOf p))) (ds.connSetOf (ds.scenarioOf p))
        { p with maxTotal := altMaxTravelTime p r0, exceptLines := p.exceptLines ++ comb } _ _
        (ds.connSetOf (ds.scenarioOf p)).rev (fun c hc => hc) (connSetOf_sorted ds _) hm hmw (ds.mwOfTrip p)
        (fun c hc => conns_effWait hwf.toWFSchedule p c (hsub c hc)) hclean hc
    · obtain ⟨depT, arrT, bd, j, rfl, hJ, _⟩ := calculateSingleWith_emits _ _
        { p with maxTotal := altMaxTravelTime p r0, exceptLines := p.exceptLines ++ comb } _ _ (connSetOf_sorted ds _) hm hmw hclean hc
      obtain ⟨acc, legs, egr, rfl, hacc, hegr, hne, hok, _, _⟩ := hJ
      obtain ⟨hsteps, _⟩ := emit_steps (ds.restrict (ds.connSetOf (ds.scenarioOf p))) p.minWait bd acc egr legs hacc hegr hne hok.allLegs
      show transferWalksWithin p.maxTransfer (emit (ds.restrict (ds.connSetOf (ds.scenarioOf p))) p.minWait bd ([acc] ++ legs ++ [egr])).steps
      rw [hsteps]
      intro s hs tt d dep arr rdy heq
      rcases List.mem_cons.mp hs with h0 | h0
      · rw [h0] at heq; cases heq
      · exact stepsOfLegs_transfer _ _ egr legs (bd + acc.walk) hok s h0 tt d dep arr rdy heq


/-- the first-waiting clause of C02 for any recalculation on a scenario's connection set -/
theorem calcWith_first_wait (ds : Dataset) (hwf : WFData ds) (sc : Scenario) (p : Params) (hmw : 0 ≤ p.minWait)
    (hmt : 0 ≤ p.maxTransfer) (a e : List NTD) {r : Route}
    (h : calculateSingleWith (ds.restrict (ds.connSetOf sc)) (ds.connSetOf sc) p a e = .ok r) (hf : p.forward = true) (hd : p.time ≠ -1) :
    ∃ w d t0 t1 t2 trip seq stop dep wait rest,
      r.steps = .walk 0 w d t0 t1 t2 :: .board trip seq stop dep wait :: rest ∧
      (p.maxFirstWait < ds.mwOfTrip p trip ∨ dep - p.time - w ≤ p.maxFirstWait) := by
  have hsub := connSetOf_rev_sub ds sc
  have hm : ArrMono (ds.connSetOf sc).rev :=
    fun x hx y hy => conns_arrMono hwf.toWFSchedule x (hsub x hx) y (hsub y hy)
  have key : ∃ arrT bd j, r = emit (ds.restrict (ds.connSetOf sc)) p.minWait bd j ∧
      JourneyOK (mkCtx (ds.restrict (ds.connSetOf sc)) p (ds.connSetOf sc) a e p.time arrT) (ds.connSetOf sc).rev bd j := by
    obtain ⟨depT, arrT, bd, j, h1, hJ, _, _, _, _, _, hD⟩ := calculateSingleWith_emits _ _ p _ _ (connSetOf_sorted ds _) hm hmw
      (fun depT arrT => cleanupPreserves (timeWF_dataset hwf p hmw hmt sc a e depT arrT) (sliceOK_dataset hwf p sc a e depT arrT)) h
    have hD' := hD hf
    subst hD'
    exact ⟨arrT, bd, j, h1, hJ⟩
  obtain ⟨arrT, bd, j, rfl, hJ⟩ := key
  obtain ⟨acc, legs, egr, rfl, hacc, hegr, hne, hok, hfirst, _⟩ := hJ
  obtain ⟨hsteps, _⟩ := emit_steps (ds.restrict (ds.connSetOf sc)) p.minWait bd acc egr legs hacc hegr hne hok.allLegs
  obtain ⟨l1, rest, rfl⟩ : ∃ l1 rest, legs = l1 :: rest := by
    cases legs with
    | nil => exact absurd rfl hne
    | cons a b => exact ⟨a, b, rfl⟩
  obtain ⟨e1, x1, he1, hx1⟩ := hok.allLegs l1 (List.mem_cons_self ..)
  have hhead := stepsOfLegs_head (ds.restrict (ds.connSetOf sc)) p.minWait egr l1 rest (bd + acc.walk) e1 x1 he1 hx1
  obtain ⟨_, _, hfw⟩ := hfirst e1 (by simp [he1])
  have hcap := hfw hd
  have hmem : e1 ∈ (ds.connSetOf sc).rev := hok.mem_enter l1 (List.mem_cons_self ..) e1 he1
  have hmwe : e1.effWait p.minWait = ds.mwOfTrip p e1.trip := conns_effWait hwf.toWFSchedule p e1 (hsub e1 hmem)
  cases hS : stepsOfLegs (ds.restrict (ds.connSetOf sc)) p.minWait (bd + acc.walk) (l1 :: rest) egr with
  | nil => rw [hS] at hhead; simp at hhead
  | cons b tl =>
    rw [hS] at hhead hsteps
    simp only [List.head?_cons, Option.some.injEq] at hhead
    subst hhead
    refine ⟨acc.walk, acc.dist, _, _, _, e1.trip, e1.seq, e1.depStop, e1.dep, _, tl, hsteps, ?_⟩
    rw [← hmwe]
    exact hcap

/-- **C10 (c), first-waiting cap of the ORIGINAL query** for every route of an alternatives answer
    to a departure-time query -/
theorem C10_alt_first_wait (ds : Dataset) (hwf : WFData ds) (p : Params) (hmw : 0 ≤ p.minWait) (hmt : 0 ≤ p.maxTransfer)
    (hf : p.forward = true) (hd : p.time ≠ -1) {rs : List Route} {n : Nat} (h : alternativesRouting ds p = .ok (rs, n)) :
    ∀ r ∈ rs, ∃ w d t0 t1 t2 trip seq stop dep wait rest,
      r.steps = .walk 0 w d t0 t1 t2 :: .board trip seq stop dep wait :: rest ∧
      (p.maxFirstWait < ds.mwOfTrip p trip ∨ dep - p.time - w ≤ p.maxFirstWait) := by
  obtain ⟨r0, hr0, hall⟩ := alternatives_from ds p h
  intro r hr
  rcases hall r hr with rfl | ⟨comb, hc⟩
  · exact C02_first_wait ds hwf p hmw hmt hr0 hf hd
  · exact calcWith_first_wait ds hwf (ds.scenarioOf p)
      { p with maxTotal := altMaxTravelTime p r0, exceptLines := p.exceptLines ++ comb } hmw hmt _ _ hc hf hd


/-- **C10 (c), totals (C06)** for every route of an alternatives answer -/
theorem C10_alt_totals (ds : Dataset) (hwf : WFData ds) (p : Params) (hmw : 0 ≤ p.minWait) (hmt : 0 ≤ p.maxTransfer)
    {rs : List Route} {n : Nat} (h : alternativesRouting ds p = .ok (rs, n)) :
    ∀ r ∈ rs, ∃ legs : List JStep, Totals (ds.mwOfTrip p) (NoXfer (ds.restrict (ds.connSetOf (ds.scenarioOf p))) legs) r := by
  obtain ⟨r0, hr0, hall⟩ := alternatives_from ds p h
  intro r hr
  rcases hall r hr with rfl | ⟨comb, hc⟩
  · exact C06_route ds hwf p hmw hmt hr0
  · have hsub := connSetOf_rev_sub ds (ds.scenarioOf p)
    have hm : ArrMono (ds.connSetOf (ds.scenarioOf p)).rev :=
      fun x hx y hy => conns_arrMono hwf.toWFSchedule x (hsub x hx) y (hsub y hy)
    obtain ⟨depT, arrT, bd, j, rfl, hJ, _⟩ := calculateSingleWith_emits _ _
      { p with maxTotal := altMaxTravelTime p r0, exceptLines := p.exceptLines ++ comb } _ _ (connSetOf_sorted ds _) hm hmw
      (fun depT arrT => cleanupPreserves
        (timeWF_dataset hwf { p with maxTotal := altMaxTravelTime p r0, exceptLines := p.exceptLines ++ comb } hmw hmt _ _ _ depT arrT)
        (sliceOK_dataset hwf { p with maxTotal := altMaxTravelTime p r0, exceptLines := p.exceptLines ++ comb } _ _ _ depT arrT)) hc
    obtain ⟨acc, legs, egr, rfl, hacc, hegr, hne, hok, _, _⟩ := hJ
    refine ⟨legs, ?_⟩
    exact C06_totals _ p.minWait bd (ds.mwOfTrip p) acc egr legs hacc hegr hne hok.allLegs
      (fun l hl e he => conns_effWait hwf.toWFSchedule p e (hsub e (hok.mem_enter l hl e he)))

end Tr
