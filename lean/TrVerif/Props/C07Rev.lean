/-
  Property C07, the reverse side — NO_SERVICE_TO_DESTINATION (arrival-time route queries) and
  NO_SERVICE_AT_PLACE (arrival-time accessibility) characterised by the data: the answer is given
  exactly when no connection of an admitted trip arrives at a stop the router offers around the
  destination early enough to walk there by the requested time, within max_travel_time
  (`CaughtR`). Mirror of `Props/C07Scan.lean`.
-/
import TrVerif.Props.C04
namespace Tr

/-- connection `c` would be counted by the reverse pass on the initial tables -/
def CaughtR (cx : Ctx) (single : Bool) (c : Conn) : Prop :=
  c.arr ≤ cx.arrT - (if single = true then cx.minEgress else 0) ∧ cx.disabled c.trip = false ∧
  cx.arrT - c.arr ≤ cx.p.maxTotal ∧ c.arr ≤ (RState.init cx).lab c.arrStop

theorem revStep_count_mono (cx : Ctx) (u : Nat → Bool) (single : Bool) (s : RState) (c : Conn) :
    s.count ≤ (revStep cx u single s c).count := by
  rcases revStep_cases cx u single s c with h | h | ⟨_, h⟩
  · rw [h]; exact Nat.le_refl _
  · rw [h]; exact Nat.le_refl _
  · rw [h]
    simp only
    have h1 : (revBoard cx single (revUnboard cx s c) c).count = s.count := by
      unfold revBoard
      split
      · simp only
        rw [(revFoot_fold_misc cx c _ _ _).2.2]
        split
        · exact (revUnboard_misc cx s c).2.2
        · exact (revUnboard_misc cx s c).2.2
      · exact (revUnboard_misc cx s c).2.2
    omega

theorem revFold_count_mono (cx : Ctx) (u : Nat → Bool) (single : Bool) : ∀ (l : List Conn) (s : RState),
    s.count ≤ (l.foldl (revStep cx u single) s).count := by
  intro l
  induction l with
  | nil => intro s; exact Nat.le_refl _
  | cons c rest ih => intro s; rw [List.foldl_cons]; exact Nat.le_trans (revStep_count_mono cx u single s c) (ih _)

/-- one step from the initial tables (possibly with the stop flag set), every trip usable -/
theorem revStep_init (cx : Ctx) (single : Bool) (b : Bool) (c : Conn) :
    let s : RState := { RState.init cx with stop := b }
    (b = false ∧ CaughtR cx single c → 1 ≤ (revStep cx (fun _ => true) single s c).count) ∧
    (¬ (b = false ∧ CaughtR cx single c) →
      revStep cx (fun _ => true) single s c = { RState.init cx with stop := (b ||
        decide (c.arr ≤ cx.arrT - (if single = true then cx.minEgress else 0) ∧ cx.disabled c.trip = false ∧ cx.arrT - c.arr > cx.p.maxTotal)) }) := by
  intro s
  have hbreak : revBreak cx single s c = decide (cx.arrT - c.arr > cx.p.maxTotal) := by
    unfold revBreak
    have : s.reached = false := rfl
    simp [this]
  constructor
  · rintro ⟨hb, h1, h2, h3, h4⟩
    subst hb
    unfold revStep
    have e0 : s.stop = false := rfl
    rw [if_neg (by rw [e0]; simp), if_neg (by simpa using h1), if_neg (by rw [h2]; simp)]
    rw [if_neg (by rw [hbreak]; simp; omega)]
    rw [if_neg (by intro hh; exact hh (Or.inr h4))]
    simp only
    omega
  · intro hn
    unfold revStep
    by_cases hb : b = true
    · have e0 : s.stop = true := hb
      rw [if_pos e0]
      subst hb; simp [s]
    · have hbf : b = false := by simpa using hb
      subst hbf
      have e0 : s.stop = false := rfl
      rw [if_neg (by rw [e0]; simp)]
      by_cases h1 : c.arr ≤ cx.arrT - (if single = true then cx.minEgress else 0)
      · rw [if_neg (by simpa using h1)]
        by_cases h2 : cx.disabled c.trip = true
        · rw [if_pos (by rw [h2]; simp)]; simp [s, h2]
        · have h2' : cx.disabled c.trip = false := by simpa using h2
          rw [if_neg (by rw [h2']; simp)]
          by_cases h3 : cx.arrT - c.arr > cx.p.maxTotal
          · rw [if_pos (by rw [hbreak]; simpa using h3)]
            simp [s, h2', h1, h3]
          · rw [if_neg (by rw [hbreak]; simpa using h3)]
            rw [if_pos]
            · simp [s, h2', h1, h3]
            · intro hcond
              apply hn
              refine ⟨rfl, h1, h2', by omega, ?_⟩
              rcases hcond with hh | hh
              · have : (s.exitC c.trip) = none := rfl
                rw [this] at hh; cases hh
              · exact hh
      · rw [if_pos (by simpa using h1)]
        simp [s, h1]

/-- **the reverse pass counts nothing exactly when no scanned connection can be caught** -/
theorem revScan_count_zero (cx : Ctx) (single : Bool) (hs : SortedRev cx.cs.rev) (start : Nat) :
    (revScan cx (fun _ => true) single start).count = 0 ↔ ∀ c ∈ cx.cs.rev.drop start, ¬ CaughtR cx single c := by
  unfold revScan
  have hsd : SortedRev (cx.cs.rev.drop start) := List.Pairwise.sublist (List.drop_sublist _ _) hs
  generalize cx.cs.rev.drop start = l at hsd
  have key : ∀ (l : List Conn) (b : Bool), SortedRev l →
      (b = true → ∀ c ∈ l, ¬ CaughtR cx single c) →
      ((l.foldl (revStep cx (fun _ => true) single) { RState.init cx with stop := b }).count = 0 ↔ ∀ c ∈ l, ¬ CaughtR cx single c) := by
    intro l
    induction l with
    | nil => intro b _ _; simp [RState.init]
    | cons c rest ih =>
      intro b hsorted hb
      rw [List.foldl_cons]
      obtain ⟨h1, h2⟩ := revStep_init cx single b c
      by_cases hc : b = false ∧ CaughtR cx single c
      · have := h1 hc
        have hm := revFold_count_mono cx (fun _ => true) single rest (revStep cx (fun _ => true) single { RState.init cx with stop := b } c)
        constructor
        · intro h0; omega
        · intro hall; exact absurd hc.2 (hall c (List.mem_cons_self ..))
      · rw [h2 hc]
        have hsr : SortedRev rest := (List.pairwise_cons.mp hsorted).2
        have hb' : (b || decide (c.arr ≤ cx.arrT - (if single = true then cx.minEgress else 0) ∧ cx.disabled c.trip = false ∧ cx.arrT - c.arr > cx.p.maxTotal)) = true →
            ∀ d ∈ rest, ¬ CaughtR cx single d := by
          intro hbb d hd
          rcases Bool.or_eq_true _ _ |>.mp hbb with hb1 | hb1
          · exact hb hb1 d (List.mem_cons_of_mem _ hd)
          · have hlate : cx.arrT - c.arr > cx.p.maxTotal := (of_decide_eq_true hb1).2.2
            have hord := (List.pairwise_cons.mp hsorted).1 d hd
            simp only [revLt, Bool.or_eq_false_iff, decide_eq_false_iff_not] at hord
            intro hcd
            have := hcd.2.2.1
            omega
        rw [ih _ hsr hb']
        constructor
        · intro hall d hd
          rcases List.mem_cons.mp hd with rfl | hd'
          · intro hcd
            by_cases hbb : b = true
            · exact hb hbb d (List.mem_cons_self ..) hcd
            · exact hc ⟨by simpa using hbb, hcd⟩
          · exact hall d hd'
        · intro hall d hd; exact hall d (List.mem_cons_of_mem _ hd)
  have := key l false hsd (by intro h; cases h)
  simpa [RState.init] using this

theorem reverseJourney_ne_service (cx : Ctx) (s : RState) (b : Option (Int × Nat)) :
    reverseJourney cx s b ≠ .noRouting .noServiceToDestination := by
  unfold reverseJourney
  intro h
  split at h
  · cases h
  · split at h
    · cases h
    · split at h
      · cases h
      · split at h
        · simp only at h
          split at h <;> cases h
        · cases h

/-- **C07 (NO_SERVICE_TO_DESTINATION, route endpoint).** -/
theorem C07_route_no_service_to_destination (ds : Dataset) (p : Params) (hp : p.forward = false) (h0 : 0 ≤ p.time)
    (ha : routerLookup ds.access p.maxAccess ≠ []) (he : routerLookup ds.egress p.maxEgress ≠ [])
    (hegr : ∀ g ∈ ds.egress, 0 ≤ g.time) :
    calculateSingle ds p = .noRouting .noServiceToDestination ↔
      ∀ c ∈ (ds.connSetOf (ds.scenarioOf p)).rev,
        ¬ CaughtR (mkCtx (ds.restrict (ds.connSetOf (ds.scenarioOf p))) p (ds.connSetOf (ds.scenarioOf p))
            (routerLookup ds.access p.maxAccess) (routerLookup ds.egress p.maxEgress) (-1) p.time) true c := by
  have ha' : (routerLookup ds.access p.maxAccess).isEmpty = false := by
    cases h : routerLookup ds.access p.maxAccess with | nil => exact absurd h ha | cons _ _ => rfl
  have he' : (routerLookup ds.egress p.maxEgress).isEmpty = false := by
    cases h : routerLookup ds.egress p.maxEgress with | nil => exact absurd h he | cons _ _ => rfl
  obtain ⟨start, hst⟩ := rev_start_exists (ds.connSetOf (ds.scenarioOf p)).rev (hourOf p.time + 1)
  generalize hcx : mkCtx (ds.restrict (ds.connSetOf (ds.scenarioOf p))) p (ds.connSetOf (ds.scenarioOf p))
      (routerLookup ds.access p.maxAccess) (routerLookup ds.egress p.maxEgress) (-1) p.time = cx
  have hcs : cx.cs = ds.connSetOf (ds.scenarioOf p) := by rw [← hcx]; rfl
  have harrT : cx.arrT = p.time := by rw [← hcx]; rfl
  have hcount := revScan_count_zero cx true (by rw [hcs]; exact connSetOf_sorted ds _) start
  have hst' : lookupPos (revLookup cx.cs.rev cx.cs.revIdx (hourOf cx.arrT + 1)) = some start := by
    rw [hcs, harrT]; exact hst
  have hres : calculateSingle ds p = singleReverse cx (fun _ => true) := by
    unfold calculateSingle calculateSingleCS calculateSingleWith
    show (if (routerLookup ds.access p.maxAccess).isEmpty = true ∧ (routerLookup ds.egress p.maxEgress).isEmpty = true then _ else _) = _
    simp only [ha', he', Bool.false_eq_true, false_and, and_false, if_false, hp]
    rw [← hcx]
  rw [hres]
  -- everything before the start position arrives after the requested time
  have hearly : ∀ c ∈ cx.cs.rev.take start, ¬ CaughtR cx true c := by
    intro c hc hcd
    have := before_start_late cx.cs (by rw [hcs]; rfl) cx.arrT (by rw [harrT]; exact h0) start hst' c hc
    have hmin : 0 ≤ cx.minEgress := by
      rw [← hcx]
      exact minTime_nonneg _ (fun g hg => hegr g (List.mem_filter.mp hg).1)
    have h1 := hcd.1
    simp only [if_true] at h1
    omega
  unfold singleReverse
  rw [hst']
  simp only
  rw [← hcs]
  by_cases hz : (revScan cx (fun _ => true) true start).count = 0
  · rw [if_pos hz]
    refine ⟨fun _ => ?_, fun _ => rfl⟩
    intro c hc
    rw [← List.take_append_drop start cx.cs.rev] at hc
    rcases List.mem_append.mp hc with h1 | h1
    · exact hearly c h1
    · exact hcount.mp hz c h1
  · rw [if_neg hz]
    constructor
    · intro h; exact absurd h (reverseJourney_ne_service _ _ _)
    · intro hall
      exact absurd (hcount.mpr (fun c hc => hall c (List.mem_of_mem_drop hc))) hz

end Tr
