/-
  Props/C12FullRev — translation invariance of the calculation itself, reverse side: the reverse
  scan states of the shifted problem are the shifted states of the original problem (sentinel of the
  reverse tables: -1 = unreached), reconstruction and clean-up are equivariant, hence
  `C12_full_accessibility_arrival`: arrival-time accessibility in full.
-/
import TrVerif.Props.C12Full
namespace Tr

def shL (k : Int) (t : Int) : Int := if t = -1 then -1 else t + k

def shR (k : Int) (s : RState) : RState :=
  { lab := fun n => shL k (s.lab n), steps := fun n => shJ k (s.steps n), exitC := fun t => (s.exitC t).map (shiftConn k),
    exitW := s.exitW, acc := fun n => (s.acc n).map (shJ k), count := s.count, reached := s.reached,
    tentAccDep := shL k s.tentAccDep, stop := s.stop }

/-- labels are unreached or at least `L` -/
def LabGe (L : Int) (s : RState) : Prop := ∀ n, s.lab n = -1 ∨ L ≤ s.lab n

structure CtxShR (k : Int) (cx cx' : Ctx) : Prop where
  same : CtxSame cx cx'
  maxTotal : cx'.p.maxTotal = cx.p.maxTotal
  maxFirstWait : cx'.p.maxFirstWait = cx.p.maxFirstWait
  arrT : cx'.arrT = cx.arrT + k
  depT : (cx.depT = -1 ∧ cx'.depT = -1) ∨ (cx.depT ≠ -1 ∧ cx'.depT ≠ -1 ∧ cx'.depT = cx.depT + k)
  transferable : ∀ t, cx'.ds.transferable t = cx.ds.transferable t
  nStops : cx'.ds.nStops = cx.ds.nStops

theorem shL_fin (k t L : Int) (h : L ≤ t) (hL : 0 ≤ L) : shL k t = t + k := by
  unfold shL; rw [if_neg (by omega)]

/-- `a > lab` across the shift, for a candidate `a` that is ≥ L on both sides -/
theorem gt_shL (k L t a : Int) (hL : 0 ≤ L) (hLk : 0 ≤ L + k) (ht : t = -1 ∨ L ≤ t) (ha : L ≤ a) : (a + k > shL k t) = (a > t) := by
  unfold shL
  rcases ht with rfl | ht
  · simp only [if_true]; apply propext; constructor <;> intro h <;> omega
  · have : t ≠ -1 := by omega
    simp only [this, if_false]; apply propext; constructor <;> intro h <;> omega

theorem shL_gt (k L t a : Int) (hL : 0 ≤ L) (hLk : 0 ≤ L + k) (ht : t = -1 ∨ L ≤ t) (ha : L ≤ a) : (shL k t > a + k) = (t > a) := by
  unfold shL
  rcases ht with rfl | ht
  · simp only [if_true]; apply propext; constructor <;> intro h <;> omega
  · have : t ≠ -1 := by omega
    simp only [this, if_false]; apply propext; constructor <;> intro h <;> omega

theorem shL_ge (k L t a : Int) (hL : 0 ≤ L) (hLk : 0 ≤ L + k) (ht : t = -1 ∨ L ≤ t) (ha : L ≤ a) : (shL k t ≥ a + k) = (t ≥ a) := by
  unfold shL
  rcases ht with rfl | ht
  · simp only [if_true]; apply propext; constructor <;> intro h <;> omega
  · have : t ≠ -1 := by omega
    simp only [this, if_false]; apply propext; constructor <;> intro h <;> omega

theorem le_shL (k L t a : Int) (hL : 0 ≤ L) (hLk : 0 ≤ L + k) (ht : t = -1 ∨ L ≤ t) (ha : L ≤ a) : (a + k ≤ shL k t) = (a ≤ t) := by
  unfold shL
  rcases ht with rfl | ht
  · simp only [if_true]; apply propext; constructor <;> intro h <;> omega
  · have : t ≠ -1 := by omega
    simp only [this, if_false]; apply propext; constructor <;> intro h <;> omega

theorem shR_lab (k : Int) (s : RState) (n : Nat) : (shR k s).lab n = shL k (s.lab n) := rfl
theorem shR_exitC (k : Int) (s : RState) (t : Nat) : (shR k s).exitC t = (s.exitC t).map (shiftConn k) := rfl
theorem shR_acc (k : Int) (s : RState) (n : Nat) : (shR k s).acc n = (s.acc n).map (shJ k) := rfl
theorem shR_steps (k : Int) (s : RState) (n : Nat) : (shR k s).steps n = shJ k (s.steps n) := rfl

/-! ### the footpath loop -/

theorem revFootLabel_shift {k L : Int} (hL : 0 ≤ L) (hLk : 0 ≤ L + k) (c : Conn) (mw : Int) (s : RState) (f : NTD)
    (hs : LabGe L s) (hcand : L ≤ c.dep - f.time - mw) :
    revFootLabel (shiftConn k c) mw (shR k s) f = shR k (revFootLabel c mw s f) ∧ LabGe L (revFootLabel c mw s f) := by
  have E : ((shiftConn k c).dep - f.time - mw > (shR k s).lab f.stop) = (c.dep - f.time - mw > s.lab f.stop) := by
    show (c.dep + k - f.time - mw > shL k (s.lab f.stop)) = _
    rw [show c.dep + k - f.time - mw = (c.dep - f.time - mw) + k by omega]
    exact gt_shL k L _ _ hL hLk (hs f.stop) hcand
  have ea : (shiftConn k c).dep - f.time - mw = shL k (c.dep - f.time - mw) := by
    rw [shL_fin k _ L hcand hL]; show c.dep + k - f.time - mw = _; omega
  have eb : ({ enter := some (shiftConn k c), exit := (shR k s).exitC (shiftConn k c).trip, walk := f.time, dist := f.dist } : JStep) =
      shJ k { enter := some c, exit := s.exitC c.trip, walk := f.time, dist := f.dist } := rfl
  unfold revFootLabel
  simp only [E]
  by_cases g : c.dep - f.time - mw > s.lab f.stop
  · simp only [if_pos g, ea, eb]
    refine ⟨?_, ?_⟩
    · simp only [shR, upd_map (shL k), upd_map (shJ k)]
    · intro n; simp only [upd]; split
      · exact Or.inr hcand
      · exact hs n
  · simp only [if_neg g]; first | exact ⟨rfl, hs⟩ | exact ⟨trivial, hs⟩

theorem accAll_shift (k : Int) (o : Option JStep) (mwd a : Int) :
    ((o.map (shJ k)).all fun x => x.enter.any fun e => decide (e.dep - e.effWait mwd ≤ a + k)) =
      (o.all fun x => x.enter.any fun e => decide (e.dep - e.effWait mwd ≤ a)) := by
  cases o with
  | none => rfl
  | some x =>
    simp only [Option.map_some, Option.all_some, shJ]
    cases x.enter with
    | none => rfl
    | some e =>
      simp only [Option.map_some, Option.any_some]
      apply Bool.eq_iff_iff.2; simp only [decide_eq_true_eq]
      show (e.dep + k - e.effWait mwd ≤ a + k) ↔ _
      constructor <;> intro h <;> omega

theorem revFootAcc_shift {k : Int} {cx cx' : Ctx} (h : CtxShR k cx cx') (c : Conn) (mw : Int) (s : RState) (f : NTD) :
    revFootAcc cx' (shiftConn k c) mw (shR k s) f = shR k (revFootAcc cx c mw s f) := by
  have EA : revAccAccept cx' (shiftConn k c) mw (shR k s) f = revAccAccept cx c mw s f := by
    unfold revAccAccept
    have e1 : (shiftConn k c).depStop = c.depStop := rfl
    have e2 : (shiftConn k c).dep - mw = (c.dep - mw) + k := by show c.dep + k - mw = _; omega
    rw [shR_acc, ← h.same.mw, e1, e2, accAll_shift, nodesAccess_same h.same, h.maxFirstWait]
    rcases h.depT with ⟨d1, d2⟩ | ⟨d1, d2, d3⟩
    · rw [d1, d2]; simp
    · have n1 : decide (cx.depT = -1) = false := by simp [d1]
      have n2 : decide (cx'.depT = -1) = false := by simp [d2]
      rw [n1, n2, d3]
      have a1 : ∀ a : NTD, decide ((shiftConn k c).dep - a.time - mw ≥ cx.depT + k) = decide (c.dep - a.time - mw ≥ cx.depT) := by
        intro a; apply Bool.eq_iff_iff.2; simp only [decide_eq_true_eq]; show (c.dep + k - a.time - mw ≥ _) ↔ _; constructor <;> intro g <;> omega
      have a2 : ∀ a : NTD, decide ((shiftConn k c).dep - (cx.depT + k) - a.time ≤ cx.p.maxFirstWait) = decide (c.dep - cx.depT - a.time ≤ cx.p.maxFirstWait) := by
        intro a; apply Bool.eq_iff_iff.2; simp only [decide_eq_true_eq]; show (c.dep + k - _ - a.time ≤ _) ↔ _; constructor <;> intro g <;> omega
      simp only [a1, a2]
  unfold revFootAcc
  rw [EA]
  split
  · simp only [shR, upd_map (Option.map (shJ k)), Option.map_some, shJ]; rfl
  · rfl

theorem revFoot_shift {k L : Int} {cx cx' : Ctx} (h : CtxShR k cx cx') (hL : 0 ≤ L) (hLk : 0 ≤ L + k) (c : Conn) (mw : Int) (s : RState) (f : NTD)
    (hs : LabGe L s) (hcand : L ≤ c.dep - f.time - mw) (hdep : L ≤ c.dep - mw) :
    revFoot cx' (shiftConn k c) mw (shR k s) f = shR k (revFoot cx c mw s f) ∧ LabGe L (revFoot cx c mw s f) := by
  have E : ((shR k s).lab f.stop > (shiftConn k c).dep - mw) = (s.lab f.stop > c.dep - mw) := by
    show (shL k (s.lab f.stop) > c.dep + k - mw) = _
    rw [show c.dep + k - mw = (c.dep - mw) + k by omega]
    exact shL_gt k L _ _ hL hLk (hs f.stop) hdep
  have e1 : (shiftConn k c).depStop = c.depStop := rfl
  obtain ⟨a1, a2⟩ := revFootLabel_shift hL hLk c mw s f hs hcand
  unfold revFoot
  simp only [E, e1, ← h.same.mt]
  by_cases g1 : f.stop ≠ c.depStop ∧ s.lab f.stop > c.dep - mw
  · simp only [if_pos g1]; exact ⟨trivial, hs⟩
  · simp only [if_neg g1]
    by_cases g2 : f.time ≤ cx.p.maxTransfer
    · simp only [if_pos g2]
      rw [a1, revFootAcc_shift h]
      refine ⟨rfl, ?_⟩
      intro n; rw [revFootAcc_lab]; exact a2 n
    · simp only [if_neg g2]; exact ⟨trivial, hs⟩

theorem revFootFold_shift {k L W : Int} {cx cx' : Ctx} (h : CtxShR k cx cx') (hL : 0 ≤ L) (hLk : 0 ≤ L + k) (c : Conn) (mw : Int)
    (hdep : L ≤ c.dep - W - mw) (hW : 0 ≤ W) : ∀ (l : List NTD) (s : RState), (∀ f ∈ l, f.time ≤ W) → LabGe L s →
    l.foldl (revFoot cx' (shiftConn k c) mw) (shR k s) = shR k (l.foldl (revFoot cx c mw) s) ∧ LabGe L (l.foldl (revFoot cx c mw) s) := by
  intro l
  induction l with
  | nil => intro s _ hs; exact ⟨rfl, hs⟩
  | cons f l ih =>
    intro s hl hs
    have hf := hl f (by simp)
    obtain ⟨a1, a2⟩ := revFoot_shift h hL hLk c mw s f hs (by omega) (by omega)
    simp only [List.foldl_cons]
    rw [a1]
    exact ih _ (fun g hg => hl g (List.mem_cons_of_mem _ hg)) a2

/-! ### one connection -/

theorem enterWait_nonneg' (mw : Int) (hmw : 0 ≤ mw) (j : JStep) : 0 ≤ enterWait mw j := by
  unfold enterWait
  cases j.enter with
  | none => simp
  | some e => simp only; unfold Conn.effWait; split <;> omega

theorem enterWait_shift (k mw : Int) (j : JStep) : enterWait mw (shJ k j) = enterWait mw j := by
  unfold enterWait shJ
  cases j.enter <;> rfl

theorem closerExit_shift {k L : Int} {cx cx' : Ctx} (h : CtxShR k cx cx') (hL : 0 ≤ L) (hLk : 0 ≤ L + k) (s : RState) (c : Conn)
    (hs : LabGe L s) (hca : L ≤ c.arr) (hmw : 0 ≤ cx.p.minWait) :
    closerExit cx' (shR k s) (shiftConn k c) = closerExit cx s c := by
  unfold closerExit
  have e1 : (shiftConn k c).arrStop = c.arrStop := rfl
  have e2 : (shiftConn k c).trip = c.trip := rfl
  simp only [e1, e2, shR_steps, ← h.same.mw, enterWait_shift]
  have e3 : ((shJ k (s.steps c.arrStop)).enter).isSome = (s.steps c.arrStop).enter.isSome := by simp [shJ]
  have e4 : (shJ k (s.steps c.arrStop)).walk = (s.steps c.arrStop).walk := rfl
  have e5 : (shR k s).exitW c.trip = s.exitW c.trip := rfl
  have e6 : ((shiftConn k c).arr + enterWait cx.p.minWait (s.steps c.arrStop) ≤ (shR k s).lab c.arrStop) =
      (c.arr + enterWait cx.p.minWait (s.steps c.arrStop) ≤ s.lab c.arrStop) := by
    show (c.arr + k + _ ≤ shL k _) = _
    rw [show c.arr + k + enterWait cx.p.minWait (s.steps c.arrStop) = (c.arr + enterWait cx.p.minWait (s.steps c.arrStop)) + k by omega]
    exact le_shL k L _ _ hL hLk (hs c.arrStop) (by have := enterWait_nonneg' cx.p.minWait hmw (s.steps c.arrStop); omega)
  rw [e3, e4, e5]
  simp only [e6]

theorem revUnboard_shift {k L : Int} {cx cx' : Ctx} (h : CtxShR k cx cx') (hL : 0 ≤ L) (hLk : 0 ≤ L + k) (s : RState) (c : Conn)
    (hs : LabGe L s) (hca : L ≤ c.arr) (hmw : 0 ≤ cx.p.minWait) :
    revUnboard cx' (shR k s) (shiftConn k c) = shR k (revUnboard cx s c) := by
  unfold revUnboard
  rw [closerExit_shift h hL hLk s c hs hca hmw]
  have e1 : (shiftConn k c).canUnboard = c.canUnboard := rfl
  have e2 : ((shR k s).exitC (shiftConn k c).trip).isNone = (s.exitC c.trip).isNone := by rw [shR_exitC]; simp; rfl
  have e3 : (shiftConn k c).trip = c.trip := rfl
  have e4 : (shiftConn k c).arrStop = c.arrStop := rfl
  rw [e1, e2]
  split
  · simp only [shR, e3, e4, upd_map (Option.map (shiftConn k)), Option.map_some, shJ]
  · rfl

theorem revUnboard_steps (cx : Ctx) (s : RState) (c : Conn) : (revUnboard cx s c).steps = s.steps := by
  unfold revUnboard; split <;> rfl

theorem revBoard_shift {k L W : Int} {cx cx' : Ctx} (h : CtxShR k cx cx') (hL : 0 ≤ L) (hLk : 0 ≤ L + k)
    (hrfoot : ∀ z, ∀ f ∈ cx.ds.rfootOf z, f.time ≤ W) (hW : 0 ≤ W) (s : RState) (c : Conn) (hs : LabGe L s)
    (hdep : L ≤ c.dep - W - c.effWait cx.p.minWait) :
    revBoard cx' false (shR k s) (shiftConn k c) = shR k (revBoard cx false s c) ∧ LabGe L (revBoard cx false s c) := by
  unfold revBoard
  have e1 : (shiftConn k c).canBoard = c.canBoard := rfl
  have e2 : ((shR k s).exitC (shiftConn k c).trip).isSome = (s.exitC c.trip).isSome := by rw [shR_exitC]; simp; rfl
  have e3 : (shiftConn k c).effWait cx'.p.minWait = c.effWait cx.p.minWait := by rw [← h.same.mw]; rfl
  have e4 : (shiftConn k c).depStop = c.depStop := rfl
  simp only [e1, e2, e3, e4, Bool.false_eq_true, false_and, if_false, ← h.same.rfoot]
  split
  · exact revFootFold_shift h hL hLk c _ hdep hW _ s (hrfoot c.depStop) hs
  · exact ⟨rfl, hs⟩

/-- the journey steps of a state start (if they start with a ride) with a boarding whose waiting time is ≥ 0 -/
def StepsWaitOk (mw : Int) (s : RState) : Prop := ∀ n, 0 ≤ enterWait mw (s.steps n)

theorem enterWait_nonneg (mw : Int) (hmw : 0 ≤ mw) (j : JStep) (hc : ∀ e, j.enter = some e → 0 ≤ e.minWait ∨ e.minWait = -1) : 0 ≤ enterWait mw j := by
  unfold enterWait
  cases he : j.enter with
  | none => simp
  | some e =>
    simp only
    unfold Conn.effWait
    split <;> omega

theorem revStep_shift {k L W : Int} {cx cx' : Ctx} (h : CtxShR k cx cx') (hL : 0 ≤ L) (hLk : 0 ≤ L + k)
    (hrfoot : ∀ z, ∀ f ∈ cx.ds.rfootOf z, f.time ≤ W) (hW : 0 ≤ W) (hmw : 0 ≤ cx.p.minWait)
    (s : RState) (c : Conn) (hs : LabGe L s)
    (hca : L ≤ c.arr) (hdep : L ≤ c.dep - W - c.effWait cx.p.minWait) :
    revStep cx' (fun _ => true) false (shR k s) (shiftConn k c) = shR k (revStep cx (fun _ => true) false s c) ∧
      LabGe L (revStep cx (fun _ => true) false s c) := by
  have hstop : (shR k s).stop = s.stop := rfl
  have E1 : ((shiftConn k c).arr ≤ cx'.arrT - (if false = true then cx'.minEgress else 0)) = (c.arr ≤ cx.arrT - (if false = true then cx.minEgress else 0)) := by
    simp only [Bool.false_eq_true, if_false, h.arrT]; show (c.arr + k ≤ _) = _; apply propext; constructor <;> intro g <;> omega
  have E2 : cx'.disabled (shiftConn k c).trip = cx.disabled c.trip := (h.same.dis c.trip).symm
  have E3 : revBreak cx' false (shR k s) (shiftConn k c) = revBreak cx false s c := by
    unfold revBreak
    simp only [Bool.false_eq_true, false_and, false_or, h.arrT, h.maxTotal]
    apply Bool.eq_iff_iff.2; simp only [decide_eq_true_eq]; show (cx.arrT + k - (c.arr + k) > _) ↔ _
    constructor <;> intro g <;> omega
  have E4 : (((shR k s).exitC (shiftConn k c).trip).isSome = true ∨ (shR k s).lab (shiftConn k c).arrStop ≥ (shiftConn k c).arr) ↔
      ((s.exitC c.trip).isSome = true ∨ s.lab c.arrStop ≥ c.arr) := by
    have a : ((shR k s).exitC (shiftConn k c).trip).isSome = (s.exitC c.trip).isSome := by rw [shR_exitC]; simp; rfl
    have b : ((shR k s).lab (shiftConn k c).arrStop ≥ (shiftConn k c).arr) = (s.lab c.arrStop ≥ c.arr) :=
      shL_ge k L _ _ hL hLk (hs c.arrStop) hca
    rw [a, b]
  obtain ⟨b1, b2⟩ := revBoard_shift h hL hLk hrfoot hW (revUnboard cx s c) c (by intro n; rw [revUnboard_lab]; exact hs n) hdep
  have hu := revUnboard_shift h hL hLk s c hs hca hmw
  refine ⟨?_, ?_⟩
  · unfold revStep
    simp only [hstop, E1, E2, E3, E4, hu, b1, apply_ite (shR k)]
    rfl
  · unfold revStep
    simp only
    repeat' split
    all_goals first | exact hs | exact fun n => hs n | exact fun n => b2 n

/-! ### reconstruction and clean-up are equivariant -/

theorem shJ_hasConns (k : Int) (j : JStep) : (shJ k j).hasConns = j.hasConns := by
  simp [JStep.hasConns, shJ]

theorem shJ_default (k : Int) : shJ k ({} : JStep) = {} := rfl

theorem getLast?_map' {α β : Type} (f : α → β) (l : List α) : (l.map f).getLast? = l.getLast?.map f := by
  simp [List.getLast?_map]

theorem reconLoop_shift (k : Int) (steps : Nat → JStep) : ∀ (fuel : Nat) (cur : JStep) (acc : List JStep) (last : Option Nat),
    reconLoop (fun n => shJ k (steps n)) fuel (shJ k cur) (acc.map (shJ k)) last =
      (reconLoop steps fuel cur acc last).map fun r => (r.1.map (shJ k), r.2) := by
  intro fuel
  induction fuel with
  | zero => intro cur acc last; simp only [reconLoop, shJ_hasConns]; split <;> rfl
  | succ fuel ih =>
    intro cur acc last
    simp only [reconLoop, shJ_hasConns]
    by_cases hc : cur.hasConns = true
    · simp only [hc, if_true]
      have hacc : ∀ (w d : Int), (match (acc.map (shJ k)).getLast? with
          | some l => (acc.map (shJ k)).dropLast ++ [{ l with walk := w, dist := d }]
          | none => acc.map (shJ k)) ++ [shJ k cur] =
          ((match acc.getLast? with
          | some l => acc.dropLast ++ [{ l with walk := w, dist := d }]
          | none => acc) ++ [cur]).map (shJ k) := by
        intro w d
        rw [getLast?_map']
        cases acc.getLast? with
        | none => simp
        | some l => simp [List.map_dropLast, shJ]
      obtain ⟨en, ex, w, d⟩ := cur
      cases ex with
      | none =>
        have := ih (steps 0) ((match acc.getLast? with
          | some l => acc.dropLast ++ [{ l with walk := w, dist := d }]
          | none => acc) ++ [⟨en, none, w, d⟩]) (some 0)
        rw [← hacc w d] at this
        exact this
      | some x =>
        have := ih (steps x.arrStop) ((match acc.getLast? with
          | some l => acc.dropLast ++ [{ l with walk := w, dist := d }]
          | none => acc) ++ [⟨en, some x, w, d⟩]) (some x.arrStop)
        rw [← hacc w d] at this
        exact this
    · simp only [hc, Bool.false_eq_true, if_false]; rfl

/-- the per-trip lists of the other dataset are the shifted per-trip lists -/
structure TripLists (k : Int) (ds ds' : Dataset) : Prop where
  fwd : ∀ t, ds'.tripFwd t = (ds.tripFwd t).map (shiftConn k)
  rev : ∀ t, ds'.tripRev t = (ds.tripRev t).map (shiftConn k)
  transferable : ∀ t, ds'.transferable t = ds.transferable t
  nStops : ds'.nStops = ds.nStops

theorem getD_map_depStop (k : Int) (l : List Conn) (i : Nat) : ((l.map (shiftConn k)).getD i default).depStop = (l.getD i default).depStop := by
  simp only [List.getD_eq_getElem?_getD, List.getElem?_map]
  cases l[i]? <;> rfl

theorem legInfo_shift {k : Int} {ds ds' : Dataset} (h : TripLists k ds ds') (j : JStep) : legInfo ds' (shJ k j) = legInfo ds j := by
  unfold legInfo
  simp only [shJ]
  cases j.enter with
  | none => rfl
  | some e =>
    cases j.exit with
    | none => rfl
    | some x =>
      simp only [Option.map_some]
      have he : (shiftConn k e).seq = e.seq := rfl
      have hx : (shiftConn k x).seq = x.seq := rfl
      have ht : (shiftConn k e).trip = e.trip := rfl
      have hd : (shiftConn k e).depStop = e.depStop := rfl
      have ha : (shiftConn k x).arrStop = x.arrStop := rfl
      simp only [he, hx, ht, hd, ha, h.fwd, getD_map_depStop]

theorem searchJourney_shift {k : Int} {ds ds' : Dataset} (h : TripLists k ds ds') (ignore : List Nat) :
    ∀ (j : List JStep) (idx : Nat) (infos : List (Option LegInfo)),
      searchJourney ds' ignore (j.map (shJ k)) idx infos = searchJourney ds ignore j idx infos := by
  intro j
  induction j with
  | nil => intro idx infos; rfl
  | cons a j ih =>
    intro idx infos
    simp only [List.map_cons, searchJourney, legInfo_shift h]
    cases legInfo ds a with
    | none => exact ih _ _
    | some cur =>
      simp only
      cases searchPair ignore (infos ++ [some cur]) idx cur 0 idx with
      | some f => rfl
      | none => exact ih _ _

theorem revSlice_shift {k : Int} {ds ds' : Dataset} (h : TripLists k ds ds') (t s0 s1 : Nat) :
    revSlice ds' t s0 s1 = (revSlice ds t s0 s1).map (shiftConn k) := by
  unfold revSlice
  simp only [h.rev, List.length_map, List.map_take, List.map_drop]

def shO (k : Int) (st : OptState) : OptState := { st with journey := st.journey.map (shJ k) }

theorem getD_map_shJ (k : Int) (j : List JStep) (i : Nat) : (j.map (shJ k)).getD i {} = shJ k (j.getD i {}) := by
  simp only [List.getD_eq_getElem?_getD, List.getElem?_map]
  cases j[i]? <;> rfl

theorem modifyAt_map (k : Int) (j : List JStep) (i : Nat) (f g : JStep → JStep) (hfg : ∀ x, g (shJ k x) = shJ k (f x)) :
    modifyAt (j.map (shJ k)) i g = (modifyAt j i f).map (shJ k) := by
  unfold modifyAt
  simp only [List.getElem?_map]
  cases hji : j[i]? with
  | none => rfl
  | some x => simp only [Option.map_some, hfg, List.map_set]

theorem eraseRange_map {α β : Type} (f : α → β) (l : List α) (a b : Nat) : eraseRange (l.map f) a b = (eraseRange l a b).map f := by
  simp only [eraseRange, List.map_append, List.map_take, List.map_drop]

theorem find?_map_shift (k : Int) (l : List Conn) (p : Conn → Bool) (hp : ∀ c, p (shiftConn k c) = p c) :
    (l.map (shiftConn k)).find? p = (l.find? p).map (shiftConn k) := by
  induction l with
  | nil => rfl
  | cons c l ih =>
    simp only [List.map_cons, List.find?_cons, hp]
    cases p c <;> simp [ih]

theorem cssExit_shift (k : Int) (node : Nat) : ∀ (l : List Conn) (acc : Option Conn),
    cssExit node (l.map (shiftConn k)) (acc.map (shiftConn k)) = (cssExit node l acc).map (shiftConn k) := by
  intro l
  induction l with
  | nil => intro acc; rfl
  | cons c l ih =>
    intro acc
    simp only [List.map_cons, cssExit]
    have e1 : (shiftConn k c).arrStop = c.arrStop := rfl
    have e2 : (shiftConn k c).canUnboard = c.canUnboard := rfl
    rw [e1, e2]
    split
    · split
      · exact ih (some c)
      · rfl
    · exact ih acc

theorem cssEnter_shift (k : Int) (node from_ to : Nat) (exitC : Option Conn) : ∀ (l : List Conn) (j : List JStep) (ig us : List Nat) (ap : Bool),
    cssEnter node from_ to (exitC.map (shiftConn k)) (l.map (shiftConn k)) (j.map (shJ k), ig, us, ap) =
      (fun r => (r.1.map (shJ k), r.2)) (cssEnter node from_ to exitC l (j, ig, us, ap)) := by
  intro l
  induction l with
  | nil => intro j ig us ap; rfl
  | cons c l ih =>
    intro j ig us ap
    simp only [List.map_cons, cssEnter]
    have e1 : (shiftConn k c).depStop = c.depStop := rfl
    have e2 : (shiftConn k c).canBoard = c.canBoard := rfl
    rw [e1, e2]
    split
    · cases exitC with
      | none => rfl
      | some x =>
        simp only [Option.map_some]
        split
        · have hm : modifyAt (modifyAt (j.map (shJ k)) from_ fun s => { s with exit := some (shiftConn k x) }) to (fun s => { s with enter := some (shiftConn k c) }) =
              (modifyAt (modifyAt j from_ fun s => { s with exit := some x }) to fun s => { s with enter := some c }).map (shJ k) := by
            rw [modifyAt_map k j from_ (fun s => { s with exit := some x }) _ (fun y => rfl)]
            rw [modifyAt_map k _ to (fun s => { s with enter := some c }) _ (fun y => rfl)]
          rw [hm]
          exact ih _ _ _ _
        · rfl
    · exact ih _ _ _ _

theorem applyFound_shift {k : Int} {ds ds' : Dataset} (h : TripLists k ds ds') (st : OptState) (f : Found) :
    applyFound ds' (shO k st) f = (shO k (applyFound ds st f).1, (applyFound ds st f).2) := by
  have hseq : ∀ c : Conn, (shiftConn k c).seq = c.seq := fun _ => rfl
  have htrip : ∀ c : Conn, (shiftConn k c).trip = c.trip := fun _ => rfl
  have hcu : ∀ c : Conn, (shiftConn k c).canUnboard = c.canUnboard := fun _ => rfl
  have hcb : ∀ c : Conn, (shiftConn k c).canBoard = c.canBoard := fun _ => rfl
  have hfa : ∀ (l : List Conn) (nd : Nat), (l.map (shiftConn k)).find? (fun c => decide (c.arrStop = nd)) = (l.find? (fun c => decide (c.arrStop = nd))).map (shiftConn k) :=
    fun l nd => find?_map_shift k l _ (fun _ => rfl)
  have hfd : ∀ (l : List Conn) (nd : Nat), (l.map (shiftConn k)).find? (fun c => decide (c.depStop = nd)) = (l.find? (fun c => decide (c.depStop = nd))).map (shiftConn k) :=
    fun l nd => find?_map_shift k l _ (fun _ => rfl)
  unfold applyFound
  simp only [shO, getD_map_shJ]
  split
  · -- CSL
    generalize hje : st.journey.getD f.from_ {} = jf
    obtain ⟨en, ex, w, d⟩ := jf
    cases en with
    | none => rfl
    | some e =>
      cases ex with
      | none => rfl
      | some x =>
        simp only [shJ, Option.map_some, hseq, htrip, revSlice_shift h, hfa]
        cases (revSlice ds e.trip (e.seq - 1) (x.seq - 1)).find? (fun c => decide (c.arrStop = f.node)) with
        | none => rfl
        | some c =>
          simp only [Option.map_some, hcu]
          split
          · rfl
          · simp only [shO]
            congr 2
            rw [modifyAt_map k st.journey f.from_ (fun s => { s with walk := (st.journey.getD f.to {}).walk, dist := (st.journey.getD f.to {}).dist }) _ (fun y => rfl)]
            rw [eraseRange_map]
            rw [modifyAt_map k _ f.from_ (fun s => { s with exit := some c }) _ (fun y => rfl)]
  · -- BTS
    generalize hje : st.journey.getD f.to {} = jt
    obtain ⟨en, ex, w, d⟩ := jt
    cases en with
    | none => rfl
    | some e =>
      cases ex with
      | none => rfl
      | some x =>
        simp only [shJ, Option.map_some, hseq, htrip, revSlice_shift h, hfd]
        cases (revSlice ds e.trip (e.seq - 1) (x.seq - 1)).find? (fun c => decide (c.depStop = f.node)) with
        | none => rfl
        | some c =>
          simp only [Option.map_some, hcb]
          split
          · rfl
          · simp only [shO]
            congr 2
            rw [modifyAt_map k st.journey f.to (fun s => { s with enter := some c }) _ (fun y => rfl)]
            rw [modifyAt_map k _ f.from_ (fun s => { s with walk := 0, dist := 0 }) _ (fun y => rfl)]
            rw [eraseRange_map]
  · -- GTF
    generalize hje : st.journey.getD f.from_ {} = jf
    obtain ⟨en, ex, w, d⟩ := jf
    cases en with
    | none => rfl
    | some e =>
      cases ex with
      | none => rfl
      | some x =>
        simp only [shJ, Option.map_some, hseq, htrip, revSlice_shift h, hfa]
        cases (revSlice ds e.trip (e.seq - 1) (x.seq - 1)).find? (fun c => decide (c.arrStop = f.node)) with
        | none => rfl
        | some c =>
          simp only [Option.map_some, hcu]
          split
          · rfl
          · simp only [shO]
            congr 2
            rw [modifyAt_map k st.journey f.from_ (fun s => { s with exit := some c, walk := 0, dist := 0 }) _ (fun y => rfl)]
            rw [eraseRange_map]
  · -- CSS
    generalize hje : st.journey.getD f.from_ {} = jf
    generalize hjt : st.journey.getD f.to {} = jt
    obtain ⟨en1, ex1, w1, d1⟩ := jf
    obtain ⟨en2, ex2, w2, d2⟩ := jt
    cases en1 with
    | none => rfl
    | some e1 =>
      cases ex1 with
      | none => rfl
      | some x1 =>
        cases en2 with
        | none => rfl
        | some e2 =>
          cases ex2 with
          | none => rfl
          | some x2 =>
            simp only [shJ, Option.map_some, hseq, htrip, revSlice_shift h]
            have he := cssExit_shift k f.node (revSlice ds e1.trip (e1.seq - 1) (x1.seq - 1)) none
            simp only [Option.map_none] at he
            rw [he]
            have hen := cssEnter_shift k f.node f.from_ f.to (cssExit f.node (revSlice ds e1.trip (e1.seq - 1) (x1.seq - 1)) none)
              (revSlice ds e2.trip (e2.seq - 1) (x2.seq - 1)) st.journey st.ignore st.used false
            rw [hen]
            generalize cssEnter f.node f.from_ f.to (cssExit f.node (revSlice ds e1.trip (e1.seq - 1) (x1.seq - 1)) none)
              (revSlice ds e2.trip (e2.seq - 1) (x2.seq - 1)) (st.journey, st.ignore, st.used, false) = r
            obtain ⟨j1, ig, us, ap⟩ := r
            simp only [shO]
            cases ap with
            | false => rfl
            | true =>
              simp only [if_true]
              congr 2
              rw [modifyAt_map k j1 f.from_ (fun s => { s with walk := 0, dist := 0 }) _ (fun y => rfl), eraseRange_map]

theorem optimizeLoop_shift {k : Int} {ds ds' : Dataset} (h : TripLists k ds ds') : ∀ (fuel : Nat) (st : OptState),
    optimizeLoop ds' fuel (shO k st) = (optimizeLoop ds fuel st).map (shO k) := by
  intro fuel
  induction fuel with
  | zero => intro st; rfl
  | succ fuel ih =>
    intro st
    simp only [optimizeLoop]
    have hs : searchJourney ds' (shO k st).ignore (shO k st).journey 0 [] = searchJourney ds st.ignore st.journey 0 [] :=
      searchJourney_shift h st.ignore st.journey 0 []
    rw [hs]
    cases searchJourney ds st.ignore st.journey 0 [] with
    | none => rfl
    | some f =>
      simp only [applyFound_shift h]
      cases (applyFound ds st f).2 with
      | true => simp only [if_true]; exact ih _
      | false => rfl

theorem legHops_shift (k : Int) (j : JStep) : legHops (shJ k j) = legHops j := by
  unfold legHops shJ
  cases j.enter <;> cases j.exit <;> rfl

theorem optimizeJourney_shift {k : Int} {ds ds' : Dataset} (h : TripLists k ds ds') (j : List JStep) :
    optimizeJourney ds' (j.map (shJ k)) = (optimizeJourney ds j).map (shO k) := by
  unfold optimizeJourney optimizeFuel
  have hf : ((j.map (shJ k)).map legHops).sum = (j.map legHops).sum := by
    simp only [List.map_map]; congr 1; apply List.map_congr_left; intro a _; exact legHops_shift k a
  rw [hf, h.nStops]
  exact optimizeLoop_shift h _ { journey := j }

theorem countTransfers_shift {k : Int} {ds ds' : Dataset} (h : TripLists k ds ds') (j : List JStep) :
    countTransfers ds' (j.map (shJ k)) = countTransfers ds j := by
  unfold countTransfers
  generalize (-1 : Int) = n0
  induction j generalizing n0 with
  | nil => rfl
  | cons a j ih =>
    simp only [List.map_cons, List.foldl_cons]
    obtain ⟨en, ex, w, d⟩ := a
    cases en with
    | none => exact ih _
    | some e =>
      cases ex with
      | none => exact ih _
      | some x =>
        simp only [shJ, Option.map_some]
        rw [show (shiftConn k e).trip = e.trip from rfl, h.transferable]
        exact ih _

/-! ### the arrival-time accessibility answer -/

theorem reverseNode_shift {k : Int} {cx cx' : Ctx} (h : CtxShR k cx cx') (ht : TripLists k cx.ds cx'.ds) (s : RState) (node : Nat) :
    reverseNode cx' (shR k s) node = shNodeOut k (reverseNode cx s node) := by
  unfold reverseNode
  rw [shR_acc]
  cases hs : s.acc node with
  | none => rfl
  | some first =>
    simp only [Option.map_some]
    have hrec := reconLoop_shift k s.steps (cx.ds.nStops + 2) first [] none
    simp only [List.map_nil] at hrec
    rw [ht.nStops]
    show (match reconLoop (fun n => shJ k (s.steps n)) (cx.ds.nStops + 2) (shJ k first) [] none with
      | none => _ | some (legs, lastStop) => _) = _
    rw [hrec]
    cases reconLoop s.steps (cx.ds.nStops + 2) first [] none with
    | none => rfl
    | some r =>
      obtain ⟨legs, lastStop⟩ := r
      simp only [Option.map_some]
      have hne : ∀ z, cx'.nodesEgress z = cx.nodesEgress z := nodesEgress_same h.same
      have hb : lastStop.bind cx'.nodesEgress = lastStop.bind cx.nodesEgress := by cases lastStop <;> simp [hne]
      rw [hb]
      cases lastStop.bind cx.nodesEgress with
      | none => rfl
      | some eg =>
        simp only
        have hj : legs.map (shJ k) ++ [({ walk := eg.time, dist := eg.dist } : JStep)] = (legs ++ [({ walk := eg.time, dist := eg.dist } : JStep)]).map (shJ k) := by
          simp [shJ]
        rw [hj, optimizeJourney_shift ht]
        cases optimizeJourney cx.ds (legs ++ [{ walk := eg.time, dist := eg.dist }]) with
        | none => rfl
        | some o =>
          simp only [Option.map_some, shJ]
          cases first.enter with
          | none => rfl
          | some e =>
            simp only [Option.map_some, h.arrT, h.maxTotal, ← h.same.mw]
            have e1 : (shiftConn k e).dep - (shiftConn k e).effWait cx.p.minWait = (e.dep - e.effWait cx.p.minWait) + k := by
              show e.dep + k - e.effWait cx.p.minWait = _; omega
            rw [e1]
            have e2 : (cx.arrT + k - (e.dep - e.effWait cx.p.minWait + k) ≤ cx.p.maxTotal) = (cx.arrT - (e.dep - e.effWait cx.p.minWait) ≤ cx.p.maxTotal) := by
              apply propext; constructor <;> intro g <;> omega
            simp only [e2]
            by_cases g : cx.arrT - (e.dep - e.effWait cx.p.minWait) ≤ cx.p.maxTotal
            · simp only [g, if_true, shNodeOut, Option.map_some, shNode, shO, countTransfers_shift ht]
              have a1 : cx.arrT + k - (cx.arrT + k - (e.dep - e.effWait cx.p.minWait + k)) = cx.arrT - (cx.arrT - (e.dep - e.effWait cx.p.minWait)) + k := by omega
              have a2 : cx.arrT + k - (e.dep - e.effWait cx.p.minWait + k) = cx.arrT - (e.dep - e.effWait cx.p.minWait) := by omega
              rw [a1, a2]
            · simp only [g, if_false]; rfl

def LabsInit (L : Int) (cx : Ctx) : Prop := ∀ e ∈ cx.egressFoot, L ≤ cx.arrT - e.time

theorem rinit_fold_shift (k L a : Int) (hL : 0 ≤ L) : ∀ (l : List NTD) (f : Nat → Int), (∀ e ∈ l, L ≤ a - e.time) →
    (fun n => shL k ((l.foldl (fun f e => upd f e.stop (a - e.time)) f) n)) =
      l.foldl (fun f e => upd f e.stop (a + k - e.time)) (fun n => shL k (f n)) := by
  intro l
  induction l with
  | nil => intro f _; rfl
  | cons e l ih =>
    intro f hl
    simp only [List.foldl_cons]
    rw [ih _ (fun x hx => hl x (List.mem_cons_of_mem _ hx)), upd_map (shL k), shL_fin k _ L (hl e (by simp)) hL]
    congr 2; omega

theorem rinit_fold_labGe (L a : Int) : ∀ (l : List NTD) (f : Nat → Int), (∀ e ∈ l, L ≤ a - e.time) → (∀ n, f n = -1 ∨ L ≤ f n) →
    ∀ n, (l.foldl (fun f e => upd f e.stop (a - e.time)) f) n = -1 ∨ L ≤ (l.foldl (fun f e => upd f e.stop (a - e.time)) f) n := by
  intro l
  induction l with
  | nil => intro f _ hf; exact hf
  | cons e l ih =>
    intro f hl hf
    simp only [List.foldl_cons]
    apply ih _ (fun x hx => hl x (List.mem_cons_of_mem _ hx))
    intro n; simp only [upd]; split
    · exact Or.inr (hl e (by simp))
    · exact hf n

theorem RState_init_shift {k L : Int} {cx cx' : Ctx} (h : CtxShR k cx cx') (hL : 0 ≤ L) (ha : LabsInit L cx) :
    RState.init cx' = shR k (RState.init cx) ∧ LabGe L (RState.init cx) := by
  refine ⟨?_, ?_⟩
  · unfold RState.init shR
    rw [← h.same.egr, h.arrT]
    simp only
    rw [rinit_fold_shift k L cx.arrT hL cx.egressFoot _ ha, init_steps_shift k]
    simp only [shL, if_true, shJ, Option.map_none]
  · exact rinit_fold_labGe L cx.arrT cx.egressFoot _ ha (fun _ => Or.inl rfl)

/-- range conditions on a connection list for the reverse scan: arrivals and (departure − longest footpath − waiting) stay ≥ `L` -/
def ConnsGe (L W mw : Int) (l : List Conn) : Prop := ∀ c ∈ l, L ≤ c.arr ∧ L ≤ c.dep - W - c.effWait mw

theorem revFold_shift {k L W : Int} {cx cx' : Ctx} (h : CtxShR k cx cx') (hL : 0 ≤ L) (hLk : 0 ≤ L + k)
    (hrfoot : ∀ z, ∀ f ∈ cx.ds.rfootOf z, f.time ≤ W) (hW : 0 ≤ W) (hmw : 0 ≤ cx.p.minWait) :
    ∀ (l : List Conn) (s : RState), ConnsGe L W cx.p.minWait l → LabGe L s →
      (l.map (shiftConn k)).foldl (revStep cx' (fun _ => true) false) (shR k s) = shR k (l.foldl (revStep cx (fun _ => true) false) s) := by
  intro l
  induction l with
  | nil => intro s _ _; rfl
  | cons c l ih =>
    intro s hl hs
    obtain ⟨a1, a2⟩ := hl c (by simp)
    obtain ⟨e1, e2⟩ := revStep_shift h hL hLk hrfoot hW hmw s c hs a1 a2
    simp only [List.map_cons, List.foldl_cons]
    rw [e1]
    exact ih _ (fun x hx => hl x (List.mem_cons_of_mem _ hx)) e2

theorem revLt_shift (k : Int) (a b : Conn) : revLt (shiftConn k a) (shiftConn k b) = revLt a b := by
  apply Bool.eq_iff_iff.2
  simp only [revLt, Bool.or_eq_true, Bool.and_eq_true, decide_eq_true_eq]
  simp only [shiftConn]
  constructor <;> intro h <;> omega

theorem fwdAll_shift (k : Int) (ds : Dataset) (hal : TripsAligned ds) : (shiftDs k ds).fwdAll = ds.fwdAll.map (shiftConn k) := by
  simp only [Dataset.fwdAll]; rw [conns_shift k ds hal, isort_map' fwdLt fwdLt (shiftConn k) (fwdLt_shift k)]
theorem revAll_shift (k : Int) (ds : Dataset) (hal : TripsAligned ds) : (shiftDs k ds).revAll = ds.revAll.map (shiftConn k) := by
  simp only [Dataset.revAll]; rw [conns_shift k ds hal, isort_map' revLt revLt (shiftConn k) (revLt_shift k)]

theorem rev_list_shift (k : Int) (ds : Dataset) (hal : TripsAligned ds) (sc : Scenario) :
    ((shiftDs k ds).connSetOf sc).rev = ((ds.connSetOf sc).rev).map (shiftConn k) := by
  simp only [Dataset.connSetOf, mkConnSet]
  rw [revAll_shift k ds hal, List.filter_map]
  congr 1
  apply List.filter_congr
  intro c _
  simp only [Function.comp]
  rw [tripEnabled_shift]; rfl

theorem tripLists_shift (k : Int) (ds : Dataset) (hal : TripsAligned ds) : TripLists k ds (shiftDs k ds) := by
  refine ⟨?_, ?_, transferable_shift k ds, rfl⟩
  · intro t; simp only [Dataset.tripFwd]; rw [fwdAll_shift k ds hal, List.filter_map]; rfl
  · intro t; simp only [Dataset.tripRev]; rw [revAll_shift k ds hal, List.filter_map]; rfl

theorem aligned_restrict (ds : Dataset) (cs : ConnSet) (h : TripsAligned ds) : TripsAligned (ds.restrict cs) := by
  intro tr htr
  simp only [Dataset.restrict, List.mem_filter] at htr
  exact h tr htr.1

structure RevRange (ds : Dataset) (p : Params) (k L W : Int) : Prop where
  hL : 0 ≤ L
  hLk : 0 ≤ L + k
  hW : 0 ≤ W
  rfoot : ∀ z, ∀ f ∈ ds.rfootOf z, f.time ≤ W
  mw : 0 ≤ p.minWait
  conns : ConnsGe L W p.minWait (ds.connSetOf (ds.scenarioOf p)).rev
  egress : ∀ e ∈ ds.egress, L ≤ p.time - e.time

/-- **C12 in full for arrival-time accessibility**: same statement as `C12_full_accessibility_departure` for the reverse
    calculation — reverse scan, journey reconstruction, journey clean-up (all four rewrite cases) and transfer count of the
    shifted problem are the shifted ones of the original problem; the range conditions keep the clock values clear of the
    reverse tables' sentinel -1 (every label candidate - departure minus longest footpath minus waiting - stays ≥ 0 on both sides:
    this is the property's "next to 0:00"). -/
theorem C12_full_accessibility_arrival (ds : Dataset) (p : Params) (k L W : Int) (hal : TripsAligned ds) (hf : p.forward = false)
    (R : RevRange ds p k L W) :
    calculateAllNodes0 (shiftDs k ds) (shiftP k p) = shAccOutcome k (calculateAllNodes0 ds p) := by
  have hsc : (shiftDs k ds).scenarioOf (shiftP k p) = ds.scenarioOf p := rfl
  have hfw : (shiftP k p).forward = false := hf
  unfold calculateAllNodes0
  simp only [hfw, hf, Bool.false_eq_true, if_false, hsc]
  have hegr : routerLookup ((shiftDs k ds).restrict ((shiftDs k ds).connSetOf (ds.scenarioOf p))).egress (shiftP k p).maxEgress =
      routerLookup (ds.restrict (ds.connSetOf (ds.scenarioOf p))).egress p.maxEgress := rfl
  rw [hegr]
  by_cases he : (routerLookup (ds.restrict (ds.connSetOf (ds.scenarioOf p))).egress p.maxEgress).isEmpty = true
  · simp only [he, if_true]; rfl
  · simp only [he, Bool.false_eq_true, if_false]
    have hsame := ctxSame_shift' k ds p [] (routerLookup (ds.restrict (ds.connSetOf (ds.scenarioOf p))).egress p.maxEgress) (-1) p.time (-1) (shiftP k p).time
    rw [hsc] at hsame
    have hrs : (shiftDs k ds).restrict ((shiftDs k ds).connSetOf (ds.scenarioOf p)) = shiftDs k (ds.restrict (ds.connSetOf (ds.scenarioOf p))) :=
      restrict_shift k ds (ds.scenarioOf p)
    have hsh : CtxShR k
        (mkCtx (ds.restrict (ds.connSetOf (ds.scenarioOf p))) p (ds.connSetOf (ds.scenarioOf p)) []
          (routerLookup (ds.restrict (ds.connSetOf (ds.scenarioOf p))).egress p.maxEgress) (-1) p.time)
        (mkCtx ((shiftDs k ds).restrict ((shiftDs k ds).connSetOf (ds.scenarioOf p))) (shiftP k p) ((shiftDs k ds).connSetOf (ds.scenarioOf p)) []
          (routerLookup (ds.restrict (ds.connSetOf (ds.scenarioOf p))).egress p.maxEgress) (-1) (shiftP k p).time) := by
      refine ⟨hsame, rfl, rfl, rfl, Or.inl ⟨rfl, rfl⟩, ?_, ?_⟩
      · intro t; show ((shiftDs k ds).restrict _).transferable t = _; rw [hrs, transferable_shift]; rfl
      · show ((shiftDs k ds).restrict _).nStops = _; rw [hrs]; rfl
    have htl : TripLists k (ds.restrict (ds.connSetOf (ds.scenarioOf p))) ((shiftDs k ds).restrict ((shiftDs k ds).connSetOf (ds.scenarioOf p))) := by
      rw [hrs]; exact tripLists_shift k _ (aligned_restrict ds _ hal)
    generalize hcx : mkCtx (ds.restrict (ds.connSetOf (ds.scenarioOf p))) p (ds.connSetOf (ds.scenarioOf p)) []
          (routerLookup (ds.restrict (ds.connSetOf (ds.scenarioOf p))).egress p.maxEgress) (-1) p.time = cx at *
    generalize hcx' : mkCtx ((shiftDs k ds).restrict ((shiftDs k ds).connSetOf (ds.scenarioOf p))) (shiftP k p) ((shiftDs k ds).connSetOf (ds.scenarioOf p)) []
          (routerLookup (ds.restrict (ds.connSetOf (ds.scenarioOf p))).egress p.maxEgress) (-1) (shiftP k p).time = cx' at *
    have hrev : cx'.cs.rev = cx.cs.rev.map (shiftConn k) := by rw [← hcx, ← hcx']; exact rev_list_shift k ds hal _
    have hrfootc : ∀ z, ∀ f ∈ cx.ds.rfootOf z, f.time ≤ W := by rw [← hcx]; exact R.rfoot
    have hmwc : 0 ≤ cx.p.minWait := by rw [← hcx]; exact R.mw
    have hconns : ConnsGe L W cx.p.minWait cx.cs.rev := by rw [← hcx]; exact R.conns
    have hinit : LabsInit L cx := by
      rw [← hcx]; intro e he'
      simp only [mkCtx, routerLookup, List.mem_filter] at he'
      exact R.egress e he'.1
    have htl' : TripLists k cx.ds cx'.ds := by rw [← hcx, ← hcx']; exact htl
    obtain ⟨hi1, hi2⟩ := RState_init_shift hsh R.hL hinit
    have hscan : revScan cx' (fun _ => true) false 0 = shR k (revScan cx (fun _ => true) false 0) := by
      unfold revScan
      rw [List.drop_zero, List.drop_zero, hrev, hi1]
      exact revFold_shift hsh R.hL R.hLk hrfootc R.hW hmwc _ _ hconns hi2
    rw [hscan]
    have hcount : (shR k (revScan cx (fun _ => true) false 0)).count = (revScan cx (fun _ => true) false 0).count := rfl
    rw [hcount]
    by_cases hz : (revScan cx (fun _ => true) false 0).count = 0
    · simp only [hz, if_true]; rfl
    · simp only [hz, if_false]
      have hn : ((shiftDs k ds).restrict ((shiftDs k ds).connSetOf (ds.scenarioOf p))).nStops = (ds.restrict (ds.connSetOf (ds.scenarioOf p))).nStops := by
        rw [hrs]; rfl
      rw [hn]
      have hcn := collectNodes_shift k (reverseNode cx (revScan cx (fun _ => true) false 0)) (reverseNode cx' (shR k (revScan cx (fun _ => true) false 0)))
        (fun n => reverseNode_shift hsh htl' _ n) (List.range (ds.restrict (ds.connSetOf (ds.scenarioOf p))).nStops) []
      simp only [List.map_nil] at hcn
      rw [hcn]
      cases collectNodes (reverseNode cx (revScan cx (fun _ => true) false 0)) (List.range (ds.restrict (ds.connSetOf (ds.scenarioOf p))).nStops) [] <;> rfl

/-- the same for the calculation WITH the hour index, inside [0, 32 h) on both sides -/
theorem C12_full_accessibility_arrival_indexed (ds : Dataset) (p : Params) (k L W : Int) (hal : TripsAligned ds) (hf : p.forward = false)
    (R : RevRange ds p k L W) (h0 : 0 ≤ p.time) (ht : p.time < (HOUR_END : Int) * 3600) (h0' : 0 ≤ p.time + k)
    (ht' : p.time + k < (HOUR_END : Int) * 3600) (hacc : ∀ a ∈ ds.access, 0 ≤ a.time) :
    calculateAllNodes (shiftDs k ds) (shiftP k p) = shAccOutcome k (calculateAllNodes ds p) := by
  rw [C12_index_transparent_accessibility ds p h0 ht hacc,
    C12_index_transparent_accessibility (shiftDs k ds) (shiftP k p) h0' ht' hacc]
  exact C12_full_accessibility_arrival ds p k L W hal hf R

def nvRev' : Params := { forward := false, time := 2000, scenario := 0, minWait := 60 }

theorem rfootOf_time_mem (ds : Dataset) (z : Nat) (f : NTD) (h : f ∈ ds.rfootOf z) : ∃ x ∈ ds.foot, f.time = x.time := by
  simp only [Dataset.rfootOf, List.mem_filterMap] at h
  obtain ⟨x, hx, e⟩ := h
  split at e
  · simp only [Option.some.injEq] at e; exact ⟨x, hx, by rw [← e]⟩
  · simp at e

/-- non-vacuity: the reverse range conditions hold of the same dataset for an offset that crosses an hour mark backwards, and the two maps
    are shifted copies -/
theorem nv_full_shift_rev :
    RevRange nvDs' nvRev' (-500) 600 60 ∧
    (match calculateAllNodes nvDs' nvRev', calculateAllNodes (shiftDs (-500) nvDs') (shiftP (-500) nvRev') with
      | .ok (l, _), .ok (l', _) => decide (l.map (fun (a : AccNode) => (a.stop, a.nodeTime + (-500), a.totalTravelTime, a.numberOfTransfers)) =
          l'.map (fun (a : AccNode) => (a.stop, a.nodeTime, a.totalTravelTime, a.numberOfTransfers))) && !l.isEmpty
      | _, _ => false) = true := by
  refine ⟨⟨by decide, by decide, by decide, ?_, by decide, ?_, by decide⟩, by decide⟩
  · intro z f hf
    obtain ⟨x, hx, e⟩ := rfootOf_time_mem _ z f hf
    have : ∀ x ∈ nvDs'.foot, x.time ≤ 60 := by decide
    rw [e]; exact this x hx
  · unfold ConnsGe; decide

end Tr
