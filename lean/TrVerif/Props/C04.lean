/-
  Property C04 — arrival-time queries return the latest possible departure, if any exists.

  Over the model, on the property's own domain - and, after the `fix:` a7932ab of the reverse
  break, WITHOUT its restriction to one minimum waiting time (lines of the `transferable` mode are
  allowed): well-formed data, positive hop times, non-negative walks, the router lists each stop
  once, clock values in [0, 32 h):

    * `C04_optimal`: when the answer is a route, it departs no earlier than ANY admissible journey
      (`AdmRev`: access entry, permitted boarding of an admitted trip at its stop, permitted
      alighting from which the place is still reached by the requested time - `RReach` -,
      departure at or after 0:00, span within max_travel_time). That the route itself is such a
      journey is C01 + C02; so its departure time IS the maximum.
    * `C04_no_false_failure`: when an admissible journey exists the answer is not
      no_routing_found (whatever the reason).
  NOT proved: that the model never ends in its `exception` outcome on well-formed data (the
  reconstruction and clean-up loops are fuel-bounded in the model; their termination within the
  fuel is observed by the correspondence runs, not proved).

  History: the first proof attempt needed "one minimum waiting time" exactly at the break after the
  first reached access stop; running the real code at the excluded point (a `transferable` line)
  gave a wrong answer (DESIGN 0.3, fix a7932ab). With the repaired break the hypothesis is gone.
-/
import TrVerif.Proofs.ReverseSingle
import TrVerif.Props.C09Complete
namespace Tr

/-- an admissible journey of an arrival-time query, seen from its first ride -/
structure AdmRev (cx : Ctx) (L : List Conn) (a0 : NTD) (e0 x0 : Conn) : Prop where
  acc : a0 ∈ cx.accessFoot
  stop : a0.stop = e0.depStop
  he : e0 ∈ L
  hx : x0 ∈ L
  trip : e0.trip = x0.trip
  seq : e0.seq ≤ x0.seq
  board : e0.canBoard = true
  unboard : UnboardP cx L x0

/-- when the traveller of that journey leaves the place -/
def admDeparture (cx : Ctx) (a0 : NTD) (e0 : Conn) : Int := e0.dep - e0.effWait cx.p.minWait - a0.time

theorem maxTime_ge (l : List NTD) : ∀ a ∈ l, a.time ≤ maxTime l := by
  unfold maxTime
  have key : ∀ (l : List NTD) (m : Int),
      (m ≤ l.foldl (fun m e => if e.time > m then e.time else m) m) ∧
      ∀ a ∈ l, a.time ≤ l.foldl (fun m e => if e.time > m then e.time else m) m := by
    intro l
    induction l with
    | nil => intro m; exact ⟨Int.le_refl _, fun a ha => by cases ha⟩
    | cons b rest ih =>
      intro m
      rw [List.foldl_cons]
      by_cases hb : b.time > m
      · rw [if_pos hb]
        obtain ⟨h1, h2⟩ := ih b.time
        refine ⟨by omega, ?_⟩
        intro a ha
        rcases List.mem_cons.mp ha with rfl | h
        · exact h1
        · exact h2 a h
      · rw [if_neg hb]
        obtain ⟨h1, h2⟩ := ih m
        refine ⟨h1, ?_⟩
        intro a ha
        rcases List.mem_cons.mp ha with rfl | h
        · omega
        · exact h2 a h
  exact fun a ha => (key l (-1)).2 a ha

theorem reverseJourney_some (cx : Ctx) (s : RState) (bd : Int) (node : Nat) :
    (∀ r, reverseJourney cx s (some (bd, node)) = .ok r → r.departureTime = bd) ∧
    (∀ reason, reverseJourney cx s (some (bd, node)) ≠ .noRouting reason) := by
  unfold reverseJourney
  simp only
  constructor
  · intro r h
    split at h
    · cases h
    · split at h
      · cases h
      · split at h
        · split at h
          · cases h
          · simp only [Outcome.ok.injEq] at h; rw [← h]; rfl
        · cases h
  · intro reason h
    split at h
    · cases h
    · split at h
      · cases h
      · split at h
        · split at h <;> cases h
        · cases h

/-- **the single reverse pass is optimal and complete** (context level) -/
theorem singleReverse_optimal {cx : Ctx} (w : RW cx cx.cs.rev) (hs : SortedRev cx.cs.rev) (hidx : cx.cs.revIdx = revIndex cx.cs.rev)
    (huni : ∀ c ∈ cx.cs.rev, c.effWait cx.p.minWait ≤ cx.p.minWait)
    (hand : (cx.accessFoot.map (·.stop)).Nodup) (haccNonneg : ∀ a ∈ cx.accessFoot, 0 ≤ a.time)
    (hbound : ∀ c ∈ cx.cs.rev, c.dep < MAX_INT) (h0 : 0 ≤ cx.arrT) (hnd : cx.depT = -1)
    {a0 : NTD} {e0 x0 : Conn} (hJ : AdmRev cx cx.cs.rev a0 e0 x0)
    (hd0 : 0 ≤ admDeparture cx a0 e0) (hdT : cx.arrT - admDeparture cx a0 e0 ≤ cx.p.maxTotal) :
    (∀ r, singleReverse cx (fun _ => true) = .ok r → admDeparture cx a0 e0 ≤ r.departureTime) ∧
    (∀ reason, singleReverse cx (fun _ => true) ≠ .noRouting reason) := by
  unfold admDeparture at hd0 hdT ⊢
  unfold singleReverse
  cases hl : lookupPos (revLookup cx.cs.rev cx.cs.revIdx (hourOf cx.arrT + 1)) with
  | none => simp
  | some start =>
    simp only
    generalize hsdef : revScan cx (fun _ => true) true start = s
    have hsfold : s = (cx.cs.rev.drop start).foldl (revStep cx (fun _ => true) true) (RState.init cx) := by
      rw [← hsdef]; rfl
    -- the cut line, from the final state
    obtain ⟨θ, hθdef⟩ : ∃ θ : Int, θ = if s.reached = true ∧ cx.maxAccess ≥ 0 ∧ cx.arrT - cx.p.maxTotal ≤ s.tentAccDep - cx.maxAccess - cx.p.minWait
        then s.tentAccDep - cx.maxAccess - cx.p.minWait else cx.arrT - cx.p.maxTotal := ⟨_, rfl⟩
    have hθ1 : cx.arrT - cx.p.maxTotal ≤ θ := by
      rw [hθdef]
      by_cases hc : s.reached = true ∧ cx.maxAccess ≥ 0 ∧ cx.arrT - cx.p.maxTotal ≤ s.tentAccDep - cx.maxAccess - cx.p.minWait
      · rw [if_pos hc]; exact hc.2.2
      · rw [if_neg hc]; exact Int.le_refl _
    have hfin : s.reached = true → cx.maxAccess ≥ 0 → s.tentAccDep - cx.maxAccess - cx.p.minWait ≤ θ := by
      intro hr hm
      rw [hθdef]
      by_cases hc : s.reached = true ∧ cx.maxAccess ≥ 0 ∧ cx.arrT - cx.p.maxTotal ≤ s.tentAccDep - cx.maxAccess - cx.p.minWait
      · rw [if_pos hc]; exact Int.le_refl _
      · rw [if_neg hc]
        have : ¬ (cx.arrT - cx.p.maxTotal ≤ s.tentAccDep - cx.maxAccess - cx.p.minWait) := fun hh => hc ⟨hr, hm, hh⟩
        omega
    have hsubd : ∀ a ∈ cx.cs.rev.drop start, a ∈ cx.cs.rev := fun a ha => List.mem_of_mem_drop ha
    have hsorted : SortedRev ([] ++ cx.cs.rev.drop start) := by
      show List.Pairwise _ ([] ++ cx.cs.rev.drop start)
      rw [List.nil_append]
      exact List.Pairwise.sublist (List.drop_sublist _ _) hs
    have hC := revScanList1_RCθ w θ hθ1 (cx.cs.rev.drop start) [] (RState.init cx) (by simpa using hsubd) hsorted
      (init_RCθ cx θ w.egrNodup) (by rw [← hsfold]; exact hfin)
    simp only [List.nil_append] at hC
    rw [← hsfold] at hC
    -- the journey lives in the scanned range
    have hin : ∀ a ∈ cx.cs.rev, a.arr ≤ cx.arrT → a ∈ cx.cs.rev.drop start := by
      intro a ha hd
      rw [← List.take_append_drop start cx.cs.rev] at ha
      rcases List.mem_append.mp ha with h1 | h1
      · have := before_start_late cx.cs hidx cx.arrT h0 start hl a h1
        omega
      · exact h1
    obtain ⟨hcu, hdis, t, hr, hrt⟩ := hJ.unboard
    have hrP := hr.restrict w hsubd hin
    have hle := hrP.time_le w hsubd
    have ham := w.arrMono e0 hJ.he x0 hJ.hx hJ.trip hJ.seq
    have hphe := w.posHop e0 hJ.he
    have hwe := effWait_nonneg e0 cx.p.minWait w.mw
    have hat0 := haccNonneg a0 hJ.acc
    have heP : e0 ∈ cx.cs.rev.drop start := hin e0 hJ.he (by omega)
    have hxP : x0 ∈ cx.cs.rev.drop start := hin x0 hJ.hx (by omega)
    have hbnd : ∀ y js e, s.acc y = some js → js.enter = some e → e.dep < MAX_INT :=
      fun y js e hj he => hbound e (hsubd e (hC.accMem y js e hj he))
    -- a kept boarding at some access stop that is at least as good, and a positive count
    have hkey : ∃ a1 ∈ cx.accessFoot, ∃ b, AccGe cx s a1.stop b ∧ e0.dep - e0.effWait cx.p.minWait - a0.time ≤ b - a1.time ∧
        1 ≤ s.count := by
      by_cases hcut : θ ≤ e0.arr
      · obtain ⟨hacc, hcnt⟩ := hC.acc e0 heP x0 hxP ⟨hcu, hdis, t, hrP, hrt⟩ hJ.trip hJ.seq hJ.board (Or.inl hnd) hcut
        exact ⟨a0, hJ.acc, _, by rw [hJ.stop]; exact hacc, Int.le_refl _, hcnt⟩
      · -- cut by the break after the first reached access stop: that stop's boarding is better
        have hθ : s.reached = true ∧ cx.maxAccess ≥ 0 ∧ θ = s.tentAccDep - cx.maxAccess - cx.p.minWait := by
          by_cases hc : s.reached = true ∧ cx.maxAccess ≥ 0 ∧ cx.arrT - cx.p.maxTotal ≤ s.tentAccDep - cx.maxAccess - cx.p.minWait
          · exact ⟨hc.1, hc.2.1, by rw [hθdef, if_pos hc]⟩
          · have : θ = cx.arrT - cx.p.maxTotal := by rw [hθdef, if_neg hc]
            omega
        obtain ⟨c1, hc1, hdep1, ⟨a1, hna1⟩, hacc1, hcnt1⟩ := hC.reach hθ.1
        have hm1 := nodes_mem hna1
        have hmax := maxTime_ge cx.accessFoot a1 hm1.1
        have hu1 := huni c1 (hsubd c1 hc1)
        have hu0 := huni e0 hJ.he
        refine ⟨a1, hm1.1, _, by rw [hm1.2]; exact hacc1 (Or.inl hnd), ?_, hcnt1⟩
        have : cx.maxAccess = maxTime cx.accessFoot := rfl
        omega
    obtain ⟨a1, ha1, b, hacc1, hb1, hcnt⟩ := hkey
    obtain ⟨bd, node, hbest, hbd⟩ := bestAccess_ge hand ha1 hacc1 (by omega) (by omega) hbnd w.mw haccNonneg
    rw [if_neg (by omega), hbest]
    obtain ⟨k1, k2⟩ := reverseJourney_some cx s bd node
    exact ⟨fun r hr' => by rw [k1 r hr']; omega, k2⟩

/-! ### dataset level -/

/-- one minimum waiting time for all departures: no line of the `transferable` mode -/
def UniformWait (ds : Dataset) : Prop := ∀ c ∈ ds.conns, c.minWait < 0

theorem RReach.egress_nonempty {cx : Ctx} {C : List Conn} {y : Nat} {t : Int} (h : RReach cx C y t) : cx.egressFoot ≠ [] := by
  induction h with
  | egress g hg => intro hh; rw [hh] at hg; cases hg
  | ride _ _ _ _ _ _ _ _ _ _ _ _ _ _ _ _ _ ih => exact ih

theorem RW_dataset' {ds : Dataset} (hwf : WFData ds) (p : Params) (hmw : 0 ≤ p.minWait) (hmt : 0 ≤ p.maxTransfer)
    (hpos : PosHops ds) (hegr : ∀ g ∈ ds.egress, 0 ≤ g.time) (hend : (ds.egress.map (·.stop)).Nodup) (a : List NTD) :
    RW (mkCtx (ds.restrict (ds.connSetOf (ds.scenarioOf p))) p (ds.connSetOf (ds.scenarioOf p))
        a (routerLookup ds.egress p.maxEgress) (-1) p.time) (ds.connSetOf (ds.scenarioOf p)).rev := by
  have hsub := connSetOf_rev_sub ds (ds.scenarioOf p)
  have hw := timeWF_dataset hwf p hmw hmt (ds.scenarioOf p) a (routerLookup ds.egress p.maxEgress) (-1) p.time
  refine ⟨?_, hw.depMono, hw.arrMono, ?_, hw.footNonneg, ?_, hmw, ?_, ?_⟩
  · intro c hc; exact hpos c (hsub c hc)
  · intro a' ha b hb; exact conns_unique hwf.toWFSchedule a' (hsub a' ha) b (hsub b hb)
  · intro c hc
    obtain ⟨d, hd⟩ := hw.selfFoot c hc
    exact ⟨⟨c.depStop, 0, d⟩, hd, rfl, hmt⟩
  · intro g hg; exact hegr g (List.mem_filter.mp hg).1
  · exact routerLookup_nodup _ _ hend

/-- **C04.** On the property's domain: a returned route departs no earlier than any admissible
    journey, and no admissible journey is answered with no_routing_found. -/
theorem C04_optimal (ds : Dataset) (hwf : WFData ds) (p : Params) (hp : p.forward = false) (hmw : 0 ≤ p.minWait)
    (hmt : 0 ≤ p.maxTransfer) (hpos : PosHops ds) (hb : TimesBounded ds)
    (hegr : ∀ g ∈ ds.egress, 0 ≤ g.time) (hend : (ds.egress.map (·.stop)).Nodup)
    (hacc : ∀ a ∈ ds.access, 0 ≤ a.time) (hand : (ds.access.map (·.stop)).Nodup) (h0 : 0 ≤ p.time)
    {a0 : NTD} {e0 x0 : Conn}
    (hJ : AdmRev (mkCtx (ds.restrict (ds.connSetOf (ds.scenarioOf p))) p (ds.connSetOf (ds.scenarioOf p))
        (routerLookup ds.access p.maxAccess) (routerLookup ds.egress p.maxEgress) (-1) p.time)
        (ds.connSetOf (ds.scenarioOf p)).rev a0 e0 x0)
    (hd0 : 0 ≤ e0.dep - e0.effWait p.minWait - a0.time)
    (hdT : p.time - (e0.dep - e0.effWait p.minWait - a0.time) ≤ p.maxTotal) :
    (∀ r, calculateSingle ds p = .ok r → e0.dep - e0.effWait p.minWait - a0.time ≤ r.departureTime) ∧
    (∀ reason, calculateSingle ds p ≠ .noRouting reason) := by
  have hsub := connSetOf_rev_sub ds (ds.scenarioOf p)
  have w := RW_dataset' hwf p hmw hmt hpos hegr hend (routerLookup ds.access p.maxAccess)
  have hane : (routerLookup ds.access p.maxAccess).isEmpty = false := by
    cases h : routerLookup ds.access p.maxAccess with
    | nil => have := hJ.acc; simp only [mkCtx] at this; rw [h] at this; cases this
    | cons _ _ => rfl
  have hene : (routerLookup ds.egress p.maxEgress).isEmpty = false := by
    obtain ⟨_, _, t, hr, _⟩ := hJ.unboard
    have := hr.egress_nonempty
    simp only [mkCtx] at this
    cases h : routerLookup ds.egress p.maxEgress with
    | nil => exact absurd h this
    | cons _ _ => rfl
  have hopt := singleReverse_optimal (cx := mkCtx (ds.restrict (ds.connSetOf (ds.scenarioOf p))) p (ds.connSetOf (ds.scenarioOf p))
      (routerLookup ds.access p.maxAccess) (routerLookup ds.egress p.maxEgress) (-1) p.time)
    w (connSetOf_sorted ds _) rfl
    (by
      intro c hc
      obtain ⟨tr, _, hc'⟩ := mem_conns (hsub c hc)
      have hm := (tripConns_facts ds tr c hc').2.2.2.2
      show c.effWait p.minWait ≤ p.minWait
      unfold Conn.effWait
      rw [hm]
      unfold Dataset.lineMinWait
      split <;> split <;> omega)
    (routerLookup_nodup _ _ hand) (fun a ha => hacc a (List.mem_filter.mp ha).1)
    (fun c hc => hb c (hsub c hc)) h0 rfl hJ hd0 hdT
  unfold calculateSingle calculateSingleCS calculateSingleWith
  show (∀ r, (if (routerLookup ds.access p.maxAccess).isEmpty = true ∧ (routerLookup ds.egress p.maxEgress).isEmpty = true then _
      else _) = Outcome.ok r → _) ∧ _
  simp only [hane, hene, Bool.false_eq_true, false_and, and_false, if_false, hp]
  exact hopt

end Tr
