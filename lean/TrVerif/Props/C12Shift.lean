/-
  Property C12, second part (still PARTIAL): where an answer is characterised by a
  specification - the optimal times of a route answer on the domains of C03 / C04 / C05 - moving
  every scheduled time of the data and the requested time by the same offset moves exactly those
  values by the offset and keeps the status.  The argument does not look at the scans at all: the
  inductive specifications (`Reach`, `RReach`, `AdmFwd`, `AdmRev`) are translation invariant, the
  answers are optimal among and attained by admissible journeys on both sides.

  Hypotheses: the domain hypotheses of C03 / C04 for BOTH datasets (the property quantifies over
  offsets that keep all clock values in range on both sides) and `TripsAligned` (as many
  departure as arrival times per trip).
-/
import TrVerif.Props.NoExc
namespace Tr

def shiftTrip (k : Int) (tr : TripRec) : TripRec := { tr with arr := tr.arr.map (· + k), dep := tr.dep.map (· + k) }
def shiftDs (k : Int) (ds : Dataset) : Dataset := { ds with trips := ds.trips.map (shiftTrip k) }
def shiftConn (k : Int) (c : Conn) : Conn := { c with dep := c.dep + k, arr := c.arr + k }
def shiftP (k : Int) (p : Params) : Params := { p with time := p.time + k }

/-- as many departure as arrival times in every trip record -/
def TripsAligned (ds : Dataset) : Prop := ∀ tr ∈ ds.trips, tr.dep.length = tr.arr.length

theorem getD_map_add (l : List Int) (k : Int) (i : Nat) (h : i < l.length) : (l.map (· + k)).getD i 0 = l.getD i 0 + k := by
  simp [List.getD, List.getElem?_map, List.getElem?_eq_getElem h]

theorem tripConnsAux_shift (k : Int) (tr : TripRec) (stops : List Nat) (mw : Int) (hal : tr.dep.length = tr.arr.length) :
    ∀ (n i : Nat), i + n ≤ tr.arr.length - 1 →
      tripConnsAux (shiftTrip k tr) stops mw i n = (tripConnsAux tr stops mw i n).map (shiftConn k) := by
  intro n
  induction n with
  | zero => intro i _; rfl
  | succ n ih =>
    intro i hi
    simp only [tripConnsAux, List.map_cons]
    rw [ih (i + 1) (by omega)]
    congr 1
    simp only [shiftTrip, shiftConn]
    rw [getD_map_add _ _ _ (by omega), getD_map_add _ _ _ (by omega)]

theorem tripConns_shift (k : Int) (ds : Dataset) (tr : TripRec) (hal : tr.dep.length = tr.arr.length) :
    (shiftDs k ds).tripConns (shiftTrip k tr) = (ds.tripConns tr).map (shiftConn k) := by
  unfold Dataset.tripConns
  simp only
  have hlen : (shiftTrip k tr).arr.length = tr.arr.length := by simp [shiftTrip]
  rw [hlen]
  exact tripConnsAux_shift k tr _ _ hal _ 0 (by omega)

theorem conns_shift (k : Int) (ds : Dataset) (hal : TripsAligned ds) :
    (shiftDs k ds).conns = ds.conns.map (shiftConn k) := by
  unfold Dataset.conns
  show (ds.trips.map (shiftTrip k)).flatMap (shiftDs k ds).tripConns = _
  have key : ∀ (l : List TripRec), (∀ tr ∈ l, tr.dep.length = tr.arr.length) →
      (l.map (shiftTrip k)).flatMap (shiftDs k ds).tripConns = (l.flatMap ds.tripConns).map (shiftConn k) := by
    intro l
    induction l with
    | nil => intro _; rfl
    | cons tr rest ih =>
      intro h
      simp only [List.map_cons, List.flatMap_cons, List.map_append]
      rw [ih (fun t ht => h t (List.mem_cons_of_mem _ ht)), tripConns_shift k ds tr (h tr (List.mem_cons_self ..))]
  exact key ds.trips hal

theorem tripRec_shift (k : Int) (ds : Dataset) (t : Nat) :
    (shiftDs k ds).tripRec? t = (ds.tripRec? t).map (shiftTrip k) := by
  unfold Dataset.tripRec? shiftDs
  simp only
  rw [List.find?_map]
  rfl

theorem lineOfTrip_shift (k : Int) (ds : Dataset) (t : Nat) : (shiftDs k ds).lineOfTrip t = ds.lineOfTrip t := by
  unfold Dataset.lineOfTrip Dataset.pathOfTrip
  rw [tripRec_shift]
  cases ds.tripRec? t <;> rfl

theorem serviceOfTrip_shift (k : Int) (ds : Dataset) (t : Nat) : (shiftDs k ds).serviceOfTrip t = ds.serviceOfTrip t := by
  unfold Dataset.serviceOfTrip
  rw [tripRec_shift]
  cases ds.tripRec? t <;> rfl

theorem tripEnabled_shift (k : Int) (ds : Dataset) (sc : Scenario) (t : Nat) :
    (shiftDs k ds).tripEnabled sc t = ds.tripEnabled sc t := by
  unfold Dataset.tripEnabled Dataset.agencyOfTrip Dataset.modeOfTrip
  rw [serviceOfTrip_shift, lineOfTrip_shift]
  rfl

/-- the scenario's forward list of the shifted data holds exactly the shifted connections -/
theorem mem_fwd_shift (k : Int) (ds : Dataset) (hal : TripsAligned ds) (sc : Scenario) (c : Conn)
    (h : c ∈ (ds.connSetOf sc).fwd) : shiftConn k c ∈ ((shiftDs k ds).connSetOf sc).fwd := by
  simp only [Dataset.connSetOf, mkConnSet, Dataset.fwdAll, List.mem_filter] at h ⊢
  refine ⟨(mem_isort fwdLt _ _).mpr ?_, ?_⟩
  · rw [conns_shift k ds hal]
    exact List.mem_map_of_mem ((mem_isort fwdLt _ _).mp h.1)
  · rw [tripEnabled_shift]; exact h.2

theorem mem_rev_shift (k : Int) (ds : Dataset) (hal : TripsAligned ds) (sc : Scenario) (c : Conn)
    (h : c ∈ (ds.connSetOf sc).rev) : shiftConn k c ∈ ((shiftDs k ds).connSetOf sc).rev := by
  simp only [Dataset.connSetOf, mkConnSet, Dataset.revAll, List.mem_filter] at h ⊢
  refine ⟨(mem_isort revLt _ _).mpr ?_, ?_⟩
  · rw [conns_shift k ds hal]
    exact List.mem_map_of_mem ((mem_isort revLt _ _).mp h.1)
  · rw [tripEnabled_shift]; exact h.2

/-- two contexts that agree on everything but the clock -/
structure CtxSame (cx cx' : Ctx) : Prop where
  foot : ∀ z, cx.ds.footOf z = cx'.ds.footOf z
  rfoot : ∀ z, cx.ds.rfootOf z = cx'.ds.rfootOf z
  mw : cx.p.minWait = cx'.p.minWait
  mt : cx.p.maxTransfer = cx'.p.maxTransfer
  acc : cx.accessFoot = cx'.accessFoot
  egr : cx.egressFoot = cx'.egressFoot
  dis : ∀ t, cx.disabled t = cx'.disabled t

theorem Reach.shift {cx cx' : Ctx} (k : Int) (h : CtxSame cx cx') (hd : cx'.depT = cx.depT + k) {C C' : List Conn}
    (hC : ∀ c ∈ C, shiftConn k c ∈ C') {y : Nat} {t : Int} (hr : Reach cx C y t) : Reach cx' C' y (t + k) := by
  induction hr with
  | access a ha =>
    have : cx.depT + a.time + k = cx'.depT + a.time := by omega
    rw [this]
    exact Reach.access a (h.acc ▸ ha)
  | ride y t e x f _ he hx h1 h2 h3 h4 h5 h6 h7 h8 h9 ih =>
    have : x.arr + f.time + k = (shiftConn k x).arr + f.time := by simp [shiftConn]; omega
    rw [this]
    exact Reach.ride y (t + k) (shiftConn k e) (shiftConn k x) f ih (hC e he) (hC x hx) h1
      (by show t + k + e.effWait cx'.p.minWait ≤ e.dep + k; rw [← h.mw]; omega) h3 h4 h5 h6
      (by show cx'.disabled e.trip = false; rw [← h.dis]; exact h7)
      (by show f ∈ cx'.ds.footOf x.arrStop; rw [← h.foot]; exact h8) (by rw [← h.mt]; exact h9)

theorem RReach.shift {cx cx' : Ctx} (k : Int) (h : CtxSame cx cx') (ha : cx'.arrT = cx.arrT + k) {C C' : List Conn}
    (hC : ∀ c ∈ C, shiftConn k c ∈ C') {y : Nat} {t : Int} (hr : RReach cx C y t) : RReach cx' C' y (t + k) := by
  induction hr with
  | egress g hg =>
    have : cx.arrT - g.time + k = cx'.arrT - g.time := by omega
    rw [this]
    exact RReach.egress g (h.egr ▸ hg)
  | ride z t e x f _ he hx h1 h2 h3 h4 h5 h6 h7 h8 h9 ih =>
    have : e.dep - f.time - e.effWait cx.p.minWait + k
        = (shiftConn k e).dep - f.time - (shiftConn k e).effWait cx'.p.minWait := by
      rw [← h.mw]; simp [shiftConn, Conn.effWait]; omega
    rw [this]
    exact RReach.ride z (t + k) (shiftConn k e) (shiftConn k x) f ih (hC e he) (hC x hx) h1
      (by show x.arr + k ≤ t + k; omega) h3 h4 h5 h6
      (by show cx'.disabled e.trip = false; rw [← h.dis]; exact h7)
      (by show f ∈ cx'.ds.rfootOf e.depStop; rw [← h.rfoot]; exact h8) (by rw [← h.mt]; exact h9)

theorem AdmFwd.shift {cx cx' : Ctx} (k : Int) (h : CtxSame cx cx') (hd : cx'.depT = cx.depT + k) {C C' : List Conn}
    (hC : ∀ c ∈ C, shiftConn k c ∈ C') {e x : Conn} {g : NTD} (hA : AdmFwd cx C e x g) :
    AdmFwd cx' C' (shiftConn k e) (shiftConn k x) g := by
  obtain ⟨⟨hcb, hdis, t, hr, ht⟩, h2, h3, h4, h5, h6, h7, h8⟩ := hA
  refine ⟨⟨hcb, by show cx'.disabled e.trip = false; rw [← h.dis]; exact hdis, t + k, hr.shift k h hd hC, ?_⟩,
    hC e h2, hC x h3, h4, h5, h6, h.egr ▸ h7, h8⟩
  show t + k + e.effWait cx'.p.minWait ≤ e.dep + k
  rw [← h.mw]; omega

theorem AdmRev.shift {cx cx' : Ctx} (k : Int) (h : CtxSame cx cx') (ha : cx'.arrT = cx.arrT + k) {C C' : List Conn}
    (hC : ∀ c ∈ C, shiftConn k c ∈ C') {a0 : NTD} {e0 x0 : Conn} (hA : AdmRev cx C a0 e0 x0) :
    AdmRev cx' C' a0 (shiftConn k e0) (shiftConn k x0) := by
  obtain ⟨h1, h2, h3, h4, h5, h6, h7, hcu, hdis, t, hr, ht⟩ := hA
  exact ⟨h.acc ▸ h1, h2, hC e0 h3, hC x0 h4, h5, h6, h7, hcu,
    by show cx'.disabled x0.trip = false; rw [← h.dis]; exact hdis, t + k, hr.shift k h ha hC,
    by show x0.arr + k ≤ t + k; omega⟩


/-! ### the contexts of a query and of the shifted query -/

theorem map_add_neg (k : Int) (l : List Int) : (l.map (· + k)).map (· + -k) = l := by
  rw [List.map_map]
  have : ((fun x : Int => x + -k) ∘ fun x => x + k) = id := by
    funext a; simp only [Function.comp, id]; omega
  rw [this, List.map_id]

theorem shiftTrip_neg (k : Int) (tr : TripRec) : shiftTrip (-k) (shiftTrip k tr) = tr := by
  cases tr
  simp only [shiftTrip, map_add_neg]

theorem shiftDs_neg (k : Int) (ds : Dataset) : shiftDs (-k) (shiftDs k ds) = ds := by
  cases ds
  simp only [shiftDs, List.map_map]
  congr 1
  rw [List.map_congr_left (g := id)]
  · simp
  · intro a _; exact shiftTrip_neg k a

theorem shiftP_neg (k : Int) (p : Params) : shiftP (-k) (shiftP k p) = p := by
  cases p
  simp only [shiftP]
  congr 1
  omega

theorem aligned_shift (k : Int) (ds : Dataset) (h : TripsAligned ds) : TripsAligned (shiftDs k ds) := by
  intro tr htr
  simp only [shiftDs, List.mem_map] at htr
  obtain ⟨t0, ht0, rfl⟩ := htr
  simp [shiftTrip, h t0 ht0]

theorem connSet_trips_shift (k : Int) (ds : Dataset) (sc : Scenario) :
    ((shiftDs k ds).connSetOf sc).trips = (ds.connSetOf sc).trips := by
  simp only [Dataset.connSetOf, mkConnSet]
  have h1 : (shiftDs k ds).trips.map (·.id) = ds.trips.map (·.id) := by
    simp only [shiftDs, List.map_map]
    apply List.map_congr_left
    intro a _; rfl
  rw [h1]
  apply List.filter_congr
  intro t _
  exact tripEnabled_shift k ds sc t

theorem restrict_shift (k : Int) (ds : Dataset) (sc : Scenario) :
    (shiftDs k ds).restrict ((shiftDs k ds).connSetOf sc) = shiftDs k (ds.restrict (ds.connSetOf sc)) := by
  have h := connSet_trips_shift k ds sc
  unfold Dataset.restrict
  rw [h]
  simp only [shiftDs, List.filter_map]
  congr 1

theorem ctxSame_shift' (k : Int) (ds : Dataset) (p : Params) (a e : List NTD) (dT aT dT' aT' : Int) :
    CtxSame
      (mkCtx (ds.restrict (ds.connSetOf (ds.scenarioOf p))) p (ds.connSetOf (ds.scenarioOf p)) a e dT aT)
      (mkCtx ((shiftDs k ds).restrict ((shiftDs k ds).connSetOf ((shiftDs k ds).scenarioOf (shiftP k p)))) (shiftP k p)
        ((shiftDs k ds).connSetOf ((shiftDs k ds).scenarioOf (shiftP k p))) a e dT' aT') := by
  have hsc : (shiftDs k ds).scenarioOf (shiftP k p) = ds.scenarioOf p := rfl
  refine ⟨fun z => rfl, fun z => rfl, rfl, rfl, rfl, rfl, ?_⟩
  intro t
  show queryDisabled (ds.restrict (ds.connSetOf (ds.scenarioOf p))) p t
    = queryDisabled ((shiftDs k ds).restrict ((shiftDs k ds).connSetOf ((shiftDs k ds).scenarioOf (shiftP k p)))) (shiftP k p) t
  rw [hsc, restrict_shift]
  unfold queryDisabled
  rw [lineOfTrip_shift]
  rfl

theorem ctxSame_shift (k : Int) (ds : Dataset) (p : Params) (dT aT dT' aT' : Int) :
    CtxSame
      (mkCtx (ds.restrict (ds.connSetOf (ds.scenarioOf p))) p (ds.connSetOf (ds.scenarioOf p))
        (routerLookup ds.access p.maxAccess) (routerLookup ds.egress p.maxEgress) dT aT)
      (mkCtx ((shiftDs k ds).restrict ((shiftDs k ds).connSetOf ((shiftDs k ds).scenarioOf (shiftP k p)))) (shiftP k p)
        ((shiftDs k ds).connSetOf ((shiftDs k ds).scenarioOf (shiftP k p)))
        (routerLookup (shiftDs k ds).access (shiftP k p).maxAccess) (routerLookup (shiftDs k ds).egress (shiftP k p).maxEgress) dT' aT') :=
  ctxSame_shift' k ds p _ _ dT aT dT' aT'

theorem CtxSame.withArrT {cx cx' : Ctx} (h : CtxSame cx cx') (a a' : Int) :
    CtxSame { cx with arrT := a } { cx' with arrT := a' } :=
  ⟨h.foot, h.rfoot, h.mw, h.mt, h.acc, h.egr, h.dis⟩

theorem effWait_shift (k : Int) (c : Conn) (d : Int) : (shiftConn k c).effWait d = c.effWait d := rfl

/-- the domain of C03 / C05 (see `C03_answer`) -/
structure C03Dom (ds : Dataset) (p : Params) : Prop where
  wf : WFData ds
  fwd : p.forward = true
  mw : 0 ≤ p.minWait
  mt : 0 ≤ p.maxTransfer
  pos : PosHops ds
  self : SelfFootArr ds
  tb : TimesBounded ds
  ab : ArrBounded ds
  r1 : StopsInRange ds
  r2 : DepStopsInRange ds
  cap : p.maxFirstWait < 0
  acc : ∀ a ∈ ds.access, 0 ≤ a.time
  accNd : (ds.access.map (·.stop)).Nodup
  egr : ∀ g ∈ ds.egress, 0 ≤ g.time
  egrNd : (ds.egress.map (·.stop)).Nodup
  t0 : 0 ≤ p.time
  t32 : p.time < (HOUR_END : Int) * 3600

/-- one direction: the shifted query is answered, no later than the shifted answer; and if it
    arrives exactly then, it leaves no earlier than the shifted answer -/
theorem shift_departure_le (ds : Dataset) (p : Params) (k : Int) (D : C03Dom ds p) (D' : C03Dom (shiftDs k ds) (shiftP k p))
    (hal : TripsAligned ds) {r : Route} (h : calculateSingle ds p = .ok r) :
    ∃ r', calculateSingle (shiftDs k ds) (shiftP k p) = .ok r' ∧ r'.arrivalTime ≤ r.arrivalTime + k ∧
      (r'.arrivalTime = r.arrivalTime + k → r.departureTime + k ≤ r'.departureTime) := by
  obtain ⟨e, x, g, hAdm, harr⟩ := C03_attained ds D.wf p D.fwd D.mw D.mt h
  have hspan := (C02_arrival ds D.wf p D.mw D.mt D.egrNd h).2 D.fwd
  have hAdm' := hAdm.shift k (ctxSame_shift k ds p p.time (-1) (p.time + k) (-1)) rfl
    (C' := ((shiftDs k ds).connSetOf ((shiftDs k ds).scenarioOf (shiftP k p))).fwd)
    (fun c hc => mem_fwd_shift k ds hal _ c hc)
  obtain ⟨r', hr', hle, hdep⟩ := C03_answer (shiftDs k ds) D'.wf (shiftP k p) D'.fwd D'.mw D'.mt D'.pos D'.self D'.tb D'.ab
    D'.r1 D'.r2 D'.cap D'.acc D'.accNd D'.egr D'.egrNd D'.t0 D'.t32 hAdm'
    (by show x.arr + k + g.time - (p.time + k) ≤ p.maxTotal; omega)
  have hle' : r'.arrivalTime ≤ x.arr + k + g.time := hle
  refine ⟨r', hr', by omega, ?_⟩
  intro heq
  obtain ⟨a0, e0, x0, hRev, hd1, hd2⟩ := C05_attained ds D.wf p D.fwd D.mw D.mt D.egrNd h
  have hRev' := hRev.shift k
    ((ctxSame_shift k ds p p.time (-1) (p.time + k) (-1)).withArrT r.arrivalTime r'.arrivalTime)
    (by show r'.arrivalTime = r.arrivalTime + k; exact heq)
    (C' := ((shiftDs k ds).connSetOf ((shiftDs k ds).scenarioOf (shiftP k p))).rev)
    (fun c hc => mem_rev_shift k ds hal _ c hc)
  have := hdep a0 (shiftConn k e0) (shiftConn k x0) hRev'
    (by show p.time + k ≤ e0.dep + k - e0.effWait p.minWait - a0.time; omega)
  have h2 : e0.dep + k - e0.effWait p.minWait - a0.time ≤ r'.departureTime := this
  omega

/-- **C12 for departure-time route queries, on the domain of C03 / C05.** Moving every scheduled
    time and the requested time by `k` keeps the status - a route is returned on one side exactly
    when one is returned on the other - and moves the reported arrival AND the reported departure
    time by exactly `k`. -/
theorem C12_departure_query (ds : Dataset) (p : Params) (k : Int) (D : C03Dom ds p) (D' : C03Dom (shiftDs k ds) (shiftP k p))
    (hal : TripsAligned ds) :
    (∀ r, calculateSingle ds p = .ok r → ∃ r', calculateSingle (shiftDs k ds) (shiftP k p) = .ok r' ∧
      r'.arrivalTime = r.arrivalTime + k ∧ r'.departureTime = r.departureTime + k) ∧
    (∀ r', calculateSingle (shiftDs k ds) (shiftP k p) = .ok r' → ∃ r, calculateSingle ds p = .ok r) := by
  have hback : ∀ r', calculateSingle (shiftDs k ds) (shiftP k p) = .ok r' →
      ∃ r, calculateSingle ds p = .ok r ∧ r.arrivalTime ≤ r'.arrivalTime + -k ∧
        (r.arrivalTime = r'.arrivalTime + -k → r'.departureTime + -k ≤ r.departureTime) := by
    intro r' hr'
    have D'' : C03Dom (shiftDs (-k) (shiftDs k ds)) (shiftP (-k) (shiftP k p)) := by
      rw [shiftDs_neg, shiftP_neg]; exact D
    have := shift_departure_le (shiftDs k ds) (shiftP k p) (-k) D' D'' (aligned_shift k ds hal) hr'
    rw [shiftDs_neg, shiftP_neg] at this
    exact this
  constructor
  · intro r hr
    obtain ⟨r', hr', h1, h2⟩ := shift_departure_le ds p k D D' hal hr
    obtain ⟨r2, hr2, h3, h4⟩ := hback r' hr'
    rw [hr] at hr2
    cases hr2
    have harr : r'.arrivalTime = r.arrivalTime + k := by omega
    have hd1 := h2 harr
    have hd2 := h4 (by omega)
    exact ⟨r', hr', harr, by omega⟩
  · intro r' hr'
    obtain ⟨r, hr, _⟩ := hback r' hr'
    exact ⟨r, hr⟩


/-- the domain of C04 (see `C04_answer`) -/
structure C04Dom (ds : Dataset) (p : Params) : Prop where
  wf : WFData ds
  rev : p.forward = false
  mw : 0 ≤ p.minWait
  mt : 0 ≤ p.maxTransfer
  pos : PosHops ds
  tb : TimesBounded ds
  r1 : StopsInRange ds
  r2 : DepStopsInRange ds
  egr : ∀ g ∈ ds.egress, 0 ≤ g.time
  egrNd : (ds.egress.map (·.stop)).Nodup
  acc : ∀ a ∈ ds.access, 0 ≤ a.time
  accNd : (ds.access.map (·.stop)).Nodup
  t0 : 0 ≤ p.time

theorem shift_arrival_le (ds : Dataset) (p : Params) (k : Int) (D : C04Dom ds p) (D' : C04Dom (shiftDs k ds) (shiftP k p))
    (hal : TripsAligned ds) {r : Route} (h : calculateSingle ds p = .ok r) (h0 : 0 ≤ r.departureTime + k) :
    ∃ r', calculateSingle (shiftDs k ds) (shiftP k p) = .ok r' ∧ r.departureTime + k ≤ r'.departureTime := by
  obtain ⟨a0, e0, x0, hAdm, hdep⟩ := C04_attained ds D.wf p D.rev D.mw D.mt D.egrNd h
  obtain ⟨_, _, hspan⟩ := C02_times ds D.wf p D.mw D.mt h
  have hspan' := hspan D.rev
  have hAdm' := hAdm.shift k (ctxSame_shift k ds p (-1) p.time (-1) (p.time + k)) rfl
    (C' := ((shiftDs k ds).connSetOf ((shiftDs k ds).scenarioOf (shiftP k p))).rev)
    (fun c hc => mem_rev_shift k ds hal _ c hc)
  obtain ⟨r', hr', hle⟩ := C04_answer (shiftDs k ds) D'.wf (shiftP k p) D'.rev D'.mw D'.mt D'.pos D'.tb D'.r1 D'.r2
    D'.egr D'.egrNd D'.acc D'.accNd D'.t0 hAdm'
    (by show 0 ≤ e0.dep + k - e0.effWait p.minWait - a0.time; omega)
    (by show p.time + k - (e0.dep + k - e0.effWait p.minWait - a0.time) ≤ p.maxTotal; omega)
  have hle' : e0.dep + k - e0.effWait p.minWait - a0.time ≤ r'.departureTime := hle
  exact ⟨r', hr', by omega⟩

/-- **C12 for arrival-time route queries, on the domain of C04.** When the answer moved to the
    other side still leaves at or after 0:00 (the property's "both answers stay in range"), moving
    every scheduled time and the requested time by `k` keeps the status and moves the reported
    departure time by exactly `k`. -/
theorem C12_arrival_query (ds : Dataset) (p : Params) (k : Int) (D : C04Dom ds p) (D' : C04Dom (shiftDs k ds) (shiftP k p))
    (hal : TripsAligned ds) :
    (∀ r, calculateSingle ds p = .ok r → 0 ≤ r.departureTime + k →
      ∃ r', calculateSingle (shiftDs k ds) (shiftP k p) = .ok r' ∧ r'.departureTime = r.departureTime + k) ∧
    (∀ r', calculateSingle (shiftDs k ds) (shiftP k p) = .ok r' → 0 ≤ r'.departureTime + -k →
      ∃ r, calculateSingle ds p = .ok r ∧ r'.departureTime = r.departureTime + k) := by
  have hback : ∀ r', calculateSingle (shiftDs k ds) (shiftP k p) = .ok r' → 0 ≤ r'.departureTime + -k →
      ∃ r, calculateSingle ds p = .ok r ∧ r'.departureTime + -k ≤ r.departureTime := by
    intro r' hr' h0
    have D'' : C04Dom (shiftDs (-k) (shiftDs k ds)) (shiftP (-k) (shiftP k p)) := by
      rw [shiftDs_neg, shiftP_neg]; exact D
    have := shift_arrival_le (shiftDs k ds) (shiftP k p) (-k) D' D'' (aligned_shift k ds hal) hr' h0
    rw [shiftDs_neg, shiftP_neg] at this
    exact this
  constructor
  · intro r hr h0
    obtain ⟨r', hr', h1⟩ := shift_arrival_le ds p k D D' hal hr h0
    have hr0 := (C02_times ds D.wf p D.mw D.mt hr).1
    obtain ⟨r2, hr2, h3⟩ := hback r' hr' (by omega)
    rw [hr] at hr2
    cases hr2
    exact ⟨r', hr', by omega⟩
  · intro r' hr' h0
    obtain ⟨r, hr, h1⟩ := hback r' hr' h0
    have hr0 := (C02_times (shiftDs k ds) D'.wf (shiftP k p) D'.mw D'.mt hr').1
    obtain ⟨r2, hr2, h2⟩ := shift_arrival_le ds p k D D' hal hr (by omega)
    rw [hr'] at hr2
    cases hr2
    exact ⟨r, hr, by omega⟩


/-! ### the structural hypotheses move with the data -/

theorem mem_conns_shift {k : Int} {ds : Dataset} (hal : TripsAligned ds) {c : Conn} (h : c ∈ (shiftDs k ds).conns) :
    ∃ c0 ∈ ds.conns, c = shiftConn k c0 := by
  rw [conns_shift k ds hal] at h
  obtain ⟨c0, h0, rfl⟩ := List.mem_map.mp h
  exact ⟨c0, h0, rfl⟩

theorem wfData_shift (k : Int) {ds : Dataset} (h : WFData ds) (hal : TripsAligned ds) : WFData (shiftDs k ds) := by
  have hid : (shiftDs k ds).trips.map (·.id) = ds.trips.map (·.id) := by
    simp only [shiftDs, List.map_map]
    apply List.map_congr_left
    intro a _; rfl
  have htr : ∀ tr ∈ (shiftDs k ds).trips, ∃ t0 ∈ ds.trips, tr = shiftTrip k t0 := by
    intro tr htr
    simp only [shiftDs, List.mem_map] at htr
    obtain ⟨t0, ht0, rfl⟩ := htr
    exact ⟨t0, ht0, rfl⟩
  refine ⟨⟨by rw [hid]; exact h.nodup, ?_⟩, ?_, ?_, h.footNonneg, ?_⟩
  · intro tr htr' i j hij hj
    obtain ⟨t0, ht0, rfl⟩ := htr tr htr'
    have hl : (shiftTrip k t0).arr.length = t0.arr.length := by simp [shiftTrip]
    rw [hl] at hj
    show (t0.arr.map (· + k)).getD i 0 ≤ (t0.arr.map (· + k)).getD j 0
    rw [getD_map_add _ _ _ (by omega), getD_map_add _ _ _ hj]
    have := h.arrMono t0 ht0 i j hij hj
    omega
  · intro tr htr' i j hij hj
    obtain ⟨t0, ht0, rfl⟩ := htr tr htr'
    have hl : (shiftTrip k t0).arr.length = t0.arr.length := by simp [shiftTrip]
    rw [hl] at hj
    have ha := hal t0 ht0
    show (t0.dep.map (· + k)).getD i 0 ≤ (t0.dep.map (· + k)).getD j 0
    rw [getD_map_add _ _ _ (by omega), getD_map_add _ _ _ (by omega)]
    have := h.depMono t0 ht0 i j hij hj
    omega
  · intro tr htr' i hi
    obtain ⟨t0, ht0, rfl⟩ := htr tr htr'
    have hl : (shiftTrip k t0).arr.length = t0.arr.length := by simp [shiftTrip]
    rw [hl] at hi
    have ha := hal t0 ht0
    show (t0.dep.map (· + k)).getD i 0 ≤ (t0.arr.map (· + k)).getD (i + 1) 0
    rw [getD_map_add _ _ _ (by omega), getD_map_add _ _ _ hi]
    have := h.hop t0 ht0 i hi
    omega
  · intro c hc
    obtain ⟨c0, h0, rfl⟩ := mem_conns_shift hal hc
    exact h.selfFoot c0 h0

theorem posHops_shift (k : Int) {ds : Dataset} (h : PosHops ds) (hal : TripsAligned ds) : PosHops (shiftDs k ds) := by
  intro c hc
  obtain ⟨c0, h0, rfl⟩ := mem_conns_shift hal hc
  have := h c0 h0
  show c0.dep + k < c0.arr + k
  omega

theorem selfFootArr_shift (k : Int) {ds : Dataset} (h : SelfFootArr ds) (hal : TripsAligned ds) : SelfFootArr (shiftDs k ds) := by
  intro c hc
  obtain ⟨c0, h0, rfl⟩ := mem_conns_shift hal hc
  exact h c0 h0

theorem stopsInRange_shift (k : Int) {ds : Dataset} (h : StopsInRange ds) (hal : TripsAligned ds) : StopsInRange (shiftDs k ds) := by
  intro c hc
  obtain ⟨c0, h0, rfl⟩ := mem_conns_shift hal hc
  exact h c0 h0

theorem depStopsInRange_shift (k : Int) {ds : Dataset} (h : DepStopsInRange ds) (hal : TripsAligned ds) :
    DepStopsInRange (shiftDs k ds) := by
  intro c hc
  obtain ⟨c0, h0, rfl⟩ := mem_conns_shift hal hc
  exact h c0 h0

/-- what "all clock values stay in range" has to provide on the shifted side -/
structure ShiftInRange (ds : Dataset) (p : Params) (k : Int) : Prop where
  tb : TimesBounded (shiftDs k ds)
  ab : ArrBounded (shiftDs k ds)
  t0 : 0 ≤ p.time + k
  t32 : p.time + k < (HOUR_END : Int) * 3600

theorem C03Dom.shift {ds : Dataset} {p : Params} (D : C03Dom ds p) (hal : TripsAligned ds) {k : Int} (R : ShiftInRange ds p k) :
    C03Dom (shiftDs k ds) (shiftP k p) :=
  ⟨wfData_shift k D.wf hal, D.fwd, D.mw, D.mt, posHops_shift k D.pos hal, selfFootArr_shift k D.self hal, R.tb, R.ab,
   stopsInRange_shift k D.r1 hal, depStopsInRange_shift k D.r2 hal, D.cap, D.acc, D.accNd, D.egr, D.egrNd, R.t0, R.t32⟩

theorem C04Dom.shift {ds : Dataset} {p : Params} (D : C04Dom ds p) (hal : TripsAligned ds) {k : Int} (R : ShiftInRange ds p k) :
    C04Dom (shiftDs k ds) (shiftP k p) :=
  ⟨wfData_shift k D.wf hal, D.rev, D.mw, D.mt, posHops_shift k D.pos hal, R.tb,
   stopsInRange_shift k D.r1 hal, depStopsInRange_shift k D.r2 hal, D.egr, D.egrNd, D.acc, D.accNd, R.t0⟩

/-- **C12, departure-time route queries** with the hypotheses on the shifted side reduced to
    "clock values stay in range" -/
theorem C12_departure (ds : Dataset) (p : Params) (k : Int) (D : C03Dom ds p) (hal : TripsAligned ds)
    (R : ShiftInRange ds p k) :
    (∀ r, calculateSingle ds p = .ok r → ∃ r', calculateSingle (shiftDs k ds) (shiftP k p) = .ok r' ∧
      r'.arrivalTime = r.arrivalTime + k ∧ r'.departureTime = r.departureTime + k) ∧
    (∀ r', calculateSingle (shiftDs k ds) (shiftP k p) = .ok r' → ∃ r, calculateSingle ds p = .ok r) :=
  C12_departure_query ds p k D (D.shift hal R) hal

/-- **C12, arrival-time route queries** likewise -/
theorem C12_arrival (ds : Dataset) (p : Params) (k : Int) (D : C04Dom ds p) (hal : TripsAligned ds)
    (R : ShiftInRange ds p k) :
    (∀ r, calculateSingle ds p = .ok r → 0 ≤ r.departureTime + k →
      ∃ r', calculateSingle (shiftDs k ds) (shiftP k p) = .ok r' ∧ r'.departureTime = r.departureTime + k) ∧
    (∀ r', calculateSingle (shiftDs k ds) (shiftP k p) = .ok r' → 0 ≤ r'.departureTime + -k →
      ∃ r, calculateSingle ds p = .ok r ∧ r'.departureTime = r.departureTime + k) :=
  C12_arrival_query ds p k D (D.shift hal R) hal


/-! ### accessibility maps -/

theorem BoardP.shift {cx cx' : Ctx} (k : Int) (h : CtxSame cx cx') (hd : cx'.depT = cx.depT + k) {C C' : List Conn}
    (hC : ∀ c ∈ C, shiftConn k c ∈ C') {e : Conn} (hB : BoardP cx C e) : BoardP cx' C' (shiftConn k e) := by
  obtain ⟨hcb, hdis, t, hr, ht⟩ := hB
  refine ⟨hcb, by show cx'.disabled e.trip = false; rw [← h.dis]; exact hdis, t + k, hr.shift k h hd hC, ?_⟩
  show t + k + e.effWait cx'.p.minWait ≤ e.dep + k
  rw [← h.mw]; omega

theorem UnboardP.shift {cx cx' : Ctx} (k : Int) (h : CtxSame cx cx') (ha : cx'.arrT = cx.arrT + k) {C C' : List Conn}
    (hC : ∀ c ∈ C, shiftConn k c ∈ C') {x : Conn} (hU : UnboardP cx C x) : UnboardP cx' C' (shiftConn k x) := by
  obtain ⟨hcu, hdis, t, hr, ht⟩ := hU
  exact ⟨hcu, by show cx'.disabled x.trip = false; rw [← h.dis]; exact hdis, t + k, hr.shift k h ha hC,
    by show x.arr + k ≤ t + k; omega⟩

/-- the domain of C08 (see `C08_complete`) -/
structure C08Dom (ds : Dataset) (p : Params) : Prop where
  wf : WFData ds
  fwd : p.forward = true
  mw : 0 ≤ p.minWait
  mt : 0 ≤ p.maxTransfer
  tb : TimesBounded ds
  pos : PosHops ds
  self : SelfFootArr ds
  r1 : StopsInRange ds
  cap : p.maxFirstWait ≤ 0
  acc : ∀ a ∈ ds.access, 0 ≤ a.time
  accNd : (ds.access.map (·.stop)).Nodup
  t0 : 0 ≤ p.time
  t32 : p.time < (HOUR_END : Int) * 3600

/-- one direction for departure maps: a listed stop is listed on the shifted side, no later than
    its shifted time -/
theorem shift_map_forward_le (ds : Dataset) (p : Params) (k : Int) (D : C08Dom ds p) (D' : C08Dom (shiftDs k ds) (shiftP k p))
    (hal : TripsAligned ds) {l l' : List AccNode} {n n' : Nat}
    (h : calculateAllNodes ds p = .ok (l, n)) (h' : calculateAllNodes (shiftDs k ds) (shiftP k p) = .ok (l', n')) :
    ∀ a ∈ l, ∃ a' ∈ l', a'.stop = a.stop ∧ a'.nodeTime ≤ a.nodeTime + k := by
  intro a ha
  obtain ⟨_, _, hall⟩ := C08_sound ds D.wf p D.fwd D.mw D.mt D.tb h
  obtain ⟨_, htt, hmax, e, x, ⟨heC, hcb, hdis, t, hr, ht⟩, hxC, htrip, hseq, hcu, hstop, harr⟩ := hall a ha
  have hB : BoardP (mkCtx (ds.restrict (ds.connSetOf (ds.scenarioOf p))) p (ds.connSetOf (ds.scenarioOf p))
      (routerLookup ds.access p.maxAccess) [] p.time (-1)) (ds.connSetOf (ds.scenarioOf p)).fwd e := ⟨hcb, hdis, t, hr, ht⟩
  have hB' := hB.shift k (ctxSame_shift' k ds p _ _ p.time (-1) (p.time + k) (-1)) rfl
    (C' := ((shiftDs k ds).connSetOf ((shiftDs k ds).scenarioOf (shiftP k p))).fwd)
    (fun c hc => mem_fwd_shift k ds hal _ c hc)
  obtain ⟨a', ha', hs', ht'⟩ := C08_complete (shiftDs k ds) D'.wf (shiftP k p) D'.fwd D'.mw D'.mt D'.tb D'.pos D'.self D'.r1
    D'.cap D'.acc D'.accNd D'.t0 D'.t32 h' (shiftConn k e) (mem_fwd_shift k ds hal _ e heC) (shiftConn k x)
    (mem_fwd_shift k ds hal _ x hxC) hB' htrip hseq hcu
    (by show x.arr + k - (p.time + k) ≤ p.maxTotal; omega)
  refine ⟨a', ha', by rw [hs']; exact hstop, ?_⟩
  have : a'.nodeTime ≤ x.arr + k := ht'
  omega

/-- **C12 for departure accessibility maps, on the domain of C08.** When both sides return a map,
    the shifted map lists exactly the same stops, each with its time moved by exactly `k` (and
    therefore the same travel time); the stop count is unchanged. -/
theorem C12_accessibility_departure (ds : Dataset) (p : Params) (k : Int) (D : C08Dom ds p)
    (D' : C08Dom (shiftDs k ds) (shiftP k p)) (hal : TripsAligned ds) {l l' : List AccNode} {n n' : Nat}
    (h : calculateAllNodes ds p = .ok (l, n)) (h' : calculateAllNodes (shiftDs k ds) (shiftP k p) = .ok (l', n')) :
    n' = n ∧
    (∀ a ∈ l, ∃ a' ∈ l', a'.stop = a.stop ∧ a'.nodeTime = a.nodeTime + k ∧ a'.totalTravelTime = a.totalTravelTime) ∧
    (∀ a' ∈ l', ∃ a ∈ l, a'.stop = a.stop ∧ a'.nodeTime = a.nodeTime + k ∧ a'.totalTravelTime = a.totalTravelTime) := by
  obtain ⟨hn, hsorted, hall⟩ := C08_sound ds D.wf p D.fwd D.mw D.mt D.tb h
  obtain ⟨hn', hsorted', hall'⟩ := C08_sound (shiftDs k ds) D'.wf (shiftP k p) D'.fwd D'.mw D'.mt D'.tb h'
  have D'' : C08Dom (shiftDs (-k) (shiftDs k ds)) (shiftP (-k) (shiftP k p)) := by
    rw [shiftDs_neg, shiftP_neg]; exact D
  have hback : ∀ a' ∈ l', ∃ a ∈ l, a.stop = a'.stop ∧ a.nodeTime ≤ a'.nodeTime + -k := by
    have := shift_map_forward_le (shiftDs k ds) (shiftP k p) (-k) D' D'' (aligned_shift k ds hal) (l := l') (l' := l) (n := n') (n' := n) h'
      (by rw [shiftDs_neg, shiftP_neg]; exact h)
    exact this
  -- a stop is listed at most once
  have uniq : ∀ {L : List AccNode}, (L.map (·.stop)).Pairwise (· < ·) → ∀ a ∈ L, ∀ b ∈ L, a.stop = b.stop → a = b := by
    intro L hs a ha b hb hab
    induction L with
    | nil => cases ha
    | cons c rest ih =>
      simp only [List.map_cons, List.pairwise_cons] at hs
      rcases List.mem_cons.mp ha with rfl | ha' <;> rcases List.mem_cons.mp hb with rfl | hb'
      · rfl
      · have := hs.1 b.stop (List.mem_map_of_mem hb'); omega
      · have := hs.1 a.stop (List.mem_map_of_mem ha'); omega
      · exact ih hs.2 ha' hb'
  refine ⟨by rw [hn, hn']; rfl, ?_, ?_⟩
  · intro a ha
    obtain ⟨a', ha', hs', ht'⟩ := shift_map_forward_le ds p k D D' hal h h' a ha
    obtain ⟨a2, ha2, hs2, ht2⟩ := hback a' ha'
    have : a2 = a := uniq hsorted a2 ha2 a ha (by rw [hs2, hs'])
    subst this
    have htime : a'.nodeTime = a2.nodeTime + k := by omega
    refine ⟨a', ha', hs', htime, ?_⟩
    rw [(hall a2 ha).2.1, (hall' a' ha').2.1, htime]
    show a2.nodeTime + k - (p.time + k) = a2.nodeTime - p.time
    omega
  · intro a' ha'
    obtain ⟨a, ha, hs, ht⟩ := hback a' ha'
    obtain ⟨a2', ha2', hs2', ht2'⟩ := shift_map_forward_le ds p k D D' hal h h' a ha
    have : a2' = a' := uniq hsorted' a2' ha2' a' ha' (by rw [hs2', hs])
    subst this
    have htime : a2'.nodeTime = a.nodeTime + k := by omega
    refine ⟨a, ha, hs.symm, htime, ?_⟩
    rw [(hall a ha).2.1, (hall' a2' ha').2.1, htime]
    show a.nodeTime + k - (p.time + k) = a.nodeTime - p.time
    omega


/-- the domain of C09 (see `C09_complete`); accessibility requests exclude no line -/
structure C09Dom (ds : Dataset) (p : Params) : Prop where
  wf : WFData ds
  rev : p.forward = false
  mw : 0 ≤ p.minWait
  mt : 0 ≤ p.maxTransfer
  pos : PosHops ds
  r2 : DepStopsInRange ds
  egr : ∀ g ∈ ds.egress, 0 ≤ g.time
  egrNd : (ds.egress.map (·.stop)).Nodup
  t0 : 0 ≤ p.time
  noExcept : p.exceptLines = []

theorem shift_map_reverse_ge (ds : Dataset) (p : Params) (k : Int) (D : C09Dom ds p) (D' : C09Dom (shiftDs k ds) (shiftP k p))
    (hal : TripsAligned ds) {l l' : List AccNode} {n n' : Nat}
    (h : calculateAllNodes ds p = .ok (l, n)) (h' : calculateAllNodes (shiftDs k ds) (shiftP k p) = .ok (l', n')) :
    ∀ a ∈ l, ∃ a' ∈ l', a'.stop = a.stop ∧ a.nodeTime + k ≤ a'.nodeTime := by
  intro a ha
  obtain ⟨_, _, hall⟩ := C09_sound ds D.wf p D.rev D.mw h
  obtain ⟨_, htt, hmax, e, legs, xl, eg, hok, hhead, hestop, hecb, hnt, hlast, hegm, hegs, harr⟩ := hall a ha
  have hsub := connSetOf_rev_sub ds (ds.scenarioOf p)
  have hnd : ∀ c ∈ (ds.connSetOf (ds.scenarioOf p)).rev,
      (mkCtx (ds.restrict (ds.connSetOf (ds.scenarioOf p))) p (ds.connSetOf (ds.scenarioOf p)) []
        (routerLookup ds.egress p.maxEgress) (-1) p.time).disabled c.trip = false := by
    intro c _
    show queryDisabled _ p c.trip = false
    unfold queryDisabled
    rw [D.noExcept]; rfl
  -- the first leg
  obtain ⟨l1, hl1⟩ : ∃ l1, legs.head? = some l1 := by
    cases hh : legs.head? with
    | none => rw [hh] at hhead; simp at hhead
    | some l1 => exact ⟨l1, rfl⟩
  have hne : legs ≠ [] := by intro hnil; rw [hnil] at hl1; cases hl1
  have hl1e : l1.enter = some e := by rw [hl1] at hhead; simpa using hhead
  obtain ⟨e1, x1, he1, hx1, hr1⟩ := hok.isRide l1 (List.mem_of_mem_head? hl1)
  rw [hl1e] at he1; cases he1
  -- from the last alighting the place is reached in time
  have hU := legs_unboard hnd legs hok hne (by
    intro ll x hll hx
    have hxl : xl = x := by
      simp only [lastExit, hll, Option.bind_some, hx, Option.some.injEq] at hlast
      exact hlast.symm
    subst hxl
    obtain ⟨e', x', he', hx', hrr⟩ := hok.isRide ll (List.mem_of_getLast? hll)
    rw [hx] at hx'; cases hx'
    refine ⟨hrr.2.2.2.2.2, hnd xl hrr.2.1, p.time - eg.time, ?_, by have := harr D.egrNd; omega⟩
    have := RReach.egress (cx := mkCtx (ds.restrict (ds.connSetOf (ds.scenarioOf p))) p (ds.connSetOf (ds.scenarioOf p)) []
      (routerLookup ds.egress p.maxEgress) (-1) p.time) (C := (ds.connSetOf (ds.scenarioOf p)).rev) eg hegm
    rw [hegs] at this
    exact this) l1 x1 hl1 hx1
  have hU' := hU.shift k (ctxSame_shift' k ds p _ _ (-1) p.time (-1) (p.time + k)) rfl
    (C' := ((shiftDs k ds).connSetOf ((shiftDs k ds).scenarioOf (shiftP k p))).rev)
    (fun c hc => mem_rev_shift k ds hal _ c hc)
  have hw : ds.mwOfTrip p e.trip = e.effWait p.minWait := (conns_effWait D.wf.toWFSchedule p e (hsub e hr1.1)).symm
  obtain ⟨a', ha', hs', ht'⟩ := C09_complete (shiftDs k ds) D'.wf (shiftP k p) D'.rev D'.mw D'.mt D'.pos D'.r2 D'.egr D'.egrNd
    D'.t0 h' (shiftConn k e) (mem_rev_shift k ds hal _ e hr1.1) (shiftConn k x1) (mem_rev_shift k ds hal _ x1 hr1.2.1)
    hU' hr1.2.2.1 hr1.2.2.2.1 hecb
    (by show p.time + k - (e.dep + k - e.effWait p.minWait) ≤ p.maxTotal; omega)
  refine ⟨a', ha', by rw [hs']; exact hestop, ?_⟩
  have : e.dep + k - e.effWait p.minWait ≤ a'.nodeTime := ht'
  omega

/-- **C12 for arrival accessibility maps, on the domain of C09.** When both sides return a map, the
    shifted map lists exactly the same stops, each with its time moved by exactly `k` (and the same
    travel time); the stop count is unchanged. -/
theorem C12_accessibility_arrival (ds : Dataset) (p : Params) (k : Int) (D : C09Dom ds p)
    (D' : C09Dom (shiftDs k ds) (shiftP k p)) (hal : TripsAligned ds) {l l' : List AccNode} {n n' : Nat}
    (h : calculateAllNodes ds p = .ok (l, n)) (h' : calculateAllNodes (shiftDs k ds) (shiftP k p) = .ok (l', n')) :
    n' = n ∧
    (∀ a ∈ l, ∃ a' ∈ l', a'.stop = a.stop ∧ a'.nodeTime = a.nodeTime + k ∧ a'.totalTravelTime = a.totalTravelTime) ∧
    (∀ a' ∈ l', ∃ a ∈ l, a'.stop = a.stop ∧ a'.nodeTime = a.nodeTime + k ∧ a'.totalTravelTime = a.totalTravelTime) := by
  obtain ⟨hn, hsorted, hall⟩ := C09_sound ds D.wf p D.rev D.mw h
  obtain ⟨hn', hsorted', hall'⟩ := C09_sound (shiftDs k ds) D'.wf (shiftP k p) D'.rev D'.mw h'
  have D'' : C09Dom (shiftDs (-k) (shiftDs k ds)) (shiftP (-k) (shiftP k p)) := by
    rw [shiftDs_neg, shiftP_neg]; exact D
  have hback : ∀ a' ∈ l', ∃ a ∈ l, a.stop = a'.stop ∧ a'.nodeTime + -k ≤ a.nodeTime := by
    have := shift_map_reverse_ge (shiftDs k ds) (shiftP k p) (-k) D' D'' (aligned_shift k ds hal) (l := l') (l' := l) (n := n') (n' := n) h'
      (by rw [shiftDs_neg, shiftP_neg]; exact h)
    exact this
  have uniq : ∀ {L : List AccNode}, (L.map (·.stop)).Pairwise (· < ·) → ∀ a ∈ L, ∀ b ∈ L, a.stop = b.stop → a = b := by
    intro L hs a ha b hb hab
    induction L with
    | nil => cases ha
    | cons c rest ih =>
      simp only [List.map_cons, List.pairwise_cons] at hs
      rcases List.mem_cons.mp ha with rfl | ha' <;> rcases List.mem_cons.mp hb with rfl | hb'
      · rfl
      · have := hs.1 b.stop (List.mem_map_of_mem hb'); omega
      · have := hs.1 a.stop (List.mem_map_of_mem ha'); omega
      · exact ih hs.2 ha' hb'
  refine ⟨by rw [hn, hn']; rfl, ?_, ?_⟩
  · intro a ha
    obtain ⟨a', ha', hs', ht'⟩ := shift_map_reverse_ge ds p k D D' hal h h' a ha
    obtain ⟨a2, ha2, hs2, ht2⟩ := hback a' ha'
    have : a2 = a := uniq hsorted a2 ha2 a ha (by rw [hs2, hs'])
    subst this
    have htime : a'.nodeTime = a2.nodeTime + k := by omega
    refine ⟨a', ha', hs', htime, ?_⟩
    rw [(hall a2 ha).2.1, (hall' a' ha').2.1, htime]
    show p.time + k - (a2.nodeTime + k) = p.time - a2.nodeTime
    omega
  · intro a' ha'
    obtain ⟨a, ha, hs, ht⟩ := hback a' ha'
    obtain ⟨a2', ha2', hs2', ht2'⟩ := shift_map_reverse_ge ds p k D D' hal h h' a ha
    have : a2' = a' := uniq hsorted' a2' ha2' a' ha' (by rw [hs2', hs])
    subst this
    have htime : a2'.nodeTime = a.nodeTime + k := by omega
    refine ⟨a, ha, hs.symm, htime, ?_⟩
    rw [(hall a ha).2.1, (hall' a2' ha').2.1, htime]
    show p.time + k - (a.nodeTime + k) = p.time - a.nodeTime
    omega


theorem C08Dom.shift {ds : Dataset} {p : Params} (D : C08Dom ds p) (hal : TripsAligned ds) {k : Int} (R : ShiftInRange ds p k) :
    C08Dom (shiftDs k ds) (shiftP k p) :=
  ⟨wfData_shift k D.wf hal, D.fwd, D.mw, D.mt, R.tb, posHops_shift k D.pos hal, selfFootArr_shift k D.self hal,
   stopsInRange_shift k D.r1 hal, D.cap, D.acc, D.accNd, R.t0, R.t32⟩

theorem C09Dom.shift {ds : Dataset} {p : Params} (D : C09Dom ds p) (hal : TripsAligned ds) {k : Int} (h0 : 0 ≤ p.time + k) :
    C09Dom (shiftDs k ds) (shiftP k p) :=
  ⟨wfData_shift k D.wf hal, D.rev, D.mw, D.mt, posHops_shift k D.pos hal, depStopsInRange_shift k D.r2 hal, D.egr, D.egrNd, h0,
   D.noExcept⟩

/-- **C12, departure accessibility maps** with the shifted side's hypotheses reduced to "in range" -/
theorem C12_map_departure (ds : Dataset) (p : Params) (k : Int) (D : C08Dom ds p) (hal : TripsAligned ds)
    (R : ShiftInRange ds p k) {l l' : List AccNode} {n n' : Nat}
    (h : calculateAllNodes ds p = .ok (l, n)) (h' : calculateAllNodes (shiftDs k ds) (shiftP k p) = .ok (l', n')) :
    n' = n ∧
    (∀ a ∈ l, ∃ a' ∈ l', a'.stop = a.stop ∧ a'.nodeTime = a.nodeTime + k ∧ a'.totalTravelTime = a.totalTravelTime) ∧
    (∀ a' ∈ l', ∃ a ∈ l, a'.stop = a.stop ∧ a'.nodeTime = a.nodeTime + k ∧ a'.totalTravelTime = a.totalTravelTime) :=
  C12_accessibility_departure ds p k D (D.shift hal R) hal h h'

/-- **C12, arrival accessibility maps** likewise -/
theorem C12_map_arrival (ds : Dataset) (p : Params) (k : Int) (D : C09Dom ds p) (hal : TripsAligned ds)
    (h0 : 0 ≤ p.time + k) {l l' : List AccNode} {n n' : Nat}
    (h : calculateAllNodes ds p = .ok (l, n)) (h' : calculateAllNodes (shiftDs k ds) (shiftP k p) = .ok (l', n')) :
    n' = n ∧
    (∀ a ∈ l, ∃ a' ∈ l', a'.stop = a.stop ∧ a'.nodeTime = a.nodeTime + k ∧ a'.totalTravelTime = a.totalTravelTime) ∧
    (∀ a' ∈ l', ∃ a ∈ l, a'.stop = a.stop ∧ a'.nodeTime = a.nodeTime + k ∧ a'.totalTravelTime = a.totalTravelTime) :=
  C12_accessibility_arrival ds p k D (D.shift hal h0) hal h h'

end Tr
