/-
  Property C07 at dataset level: NO_SERVICE_FROM_ORIGIN (route endpoint) and NO_SERVICE_AT_PLACE for
  departure-time accessibility, characterised by the connections of the scenario and the access
  stops, for every dataset, scenario and query inside the clock range [0, 32 h).
-/
import TrVerif.Props.C07
import TrVerif.Props.C07Scan
import TrVerif.Props.C08
import TrVerif.Props.C18
namespace Tr

theorem fwd_start_exists (l : List Conn) (hour : Int) : ∃ start, lookupPos (fwdLookup l (fwdIndex l) hour) = some start := by
  have := (C18_index_safe l hour).1
  cases h : fwdLookup l (fwdIndex l) hour with
  | pos p => exact ⟨p, rfl⟩
  | outOfBounds => exact absurd h this

/-- **C07 (NO_SERVICE_FROM_ORIGIN).** For every dataset, scenario and departure-time query with
    0 <= time_of_trip < 32 h, non-negative access walks and a stop offered at both ends:
    `/v2/route` answers NO_SERVICE_FROM_ORIGIN exactly when no connection of a trip the scenario
    admits can be caught from an access stop within the limits. -/
theorem C07_route_no_service_from_origin (ds : Dataset) (p : Params) (hp : p.forward = true)
    (h0 : 0 ≤ p.time) (ht : p.time < (HOUR_END : Int) * 3600)
    (ha : routerLookup ds.access p.maxAccess ≠ []) (he : routerLookup ds.egress p.maxEgress ≠ [])
    (hacc : ∀ a ∈ ds.access, 0 ≤ a.time) :
    calculateSingle ds p = .noRouting .noServiceFromOrigin ↔
      ∀ c ∈ (ds.connSetOf (ds.scenarioOf p)).fwd,
        ¬ CaughtF (mkCtx (ds.restrict (ds.connSetOf (ds.scenarioOf p))) p (ds.connSetOf (ds.scenarioOf p))
            (routerLookup ds.access p.maxAccess) (routerLookup ds.egress p.maxEgress) p.time (-1)) c := by
  obtain ⟨start, hst⟩ := fwd_start_exists (ds.connSetOf (ds.scenarioOf p)).fwd (hourOf p.time)
  exact C07_no_service_from_origin_data (ds.restrict (ds.connSetOf (ds.scenarioOf p))) (ds.connSetOf (ds.scenarioOf p)) p _ _ hp
    (connSetOf_sortedFwd ds _) rfl ha he (fun a ha' => hacc a (List.mem_filter.mp ha').1) h0 ht start hst

/-- what `CaughtF` says in terms of the access stops, when the router lists each stop once: the
    initial tentative time of a stop is the requested time plus its access walk, "not reached"
    for a stop the router does not offer -/
theorem init_tent_access (cx : Ctx) (hnd : (cx.accessFoot.map (·.stop)).Nodup) {a : NTD} (h : a ∈ cx.accessFoot) :
    (FState.init cx).tent a.stop = cx.depT + a.time := by
  unfold FState.init
  exact foldl_upd_nodup (fun e => cx.depT + e.time) cx.accessFoot _ hnd a h

theorem init_tent_none (cx : Ctx) (y : Nat) (h : ∀ a ∈ cx.accessFoot, a.stop ≠ y) : (FState.init cx).tent y = MAX_INT := by
  unfold FState.init
  exact foldl_upd_untouched (fun e => cx.depT + e.time) y cx.accessFoot _ h

end Tr
