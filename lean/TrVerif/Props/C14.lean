/-
  Property C14 (partial) — concurrent requests are answered exactly as if each were served alone.

  Proved: for EVERY schedule of the atomic actions of any number of worker threads over any
  requests and scenarios, with either cache kind, every finished thread has produced exactly the
  response of an idle fresh server, every reference a thread holds is the connection set of its
  scenario, and the cache stays coherent (so later answers are not corrupted).
  Not exhibited by the model (hence *partial*): atomicity of a critical section and the C++
  memory model are assumed; that the locks and the shared ownership are there is re-read from the
  source on every run (`C14_structure`); races elsewhere are only observed (TSan soak).
-/
import TrVerif.Model.Concurrent
import TrVerif.Props.C13
namespace Tr

/-- what is true of one thread at every moment -/
def ThreadOK (ds : Dataset) (t : Thread) : Prop :=
  match t.pc with
  | .start => True
  | .ready p => parseParams ds t.req.kvs = .ok p ∧ reachesFilters ds t.req.kind p = true
  | .missed p => parseParams ds t.req.kvs = .ok p ∧ reachesFilters ds t.req.kind p = true
  | .computed p cs => parseParams ds t.req.kvs = .ok p ∧ reachesFilters ds t.req.kind p = true ∧
      cs = ds.connSetOf (ds.scenarios.getD p.scenario default)
  | .holding p cs => parseParams ds t.req.kvs = .ok p ∧ reachesFilters ds t.req.kind p = true ∧
      cs = ds.connSetOf (ds.scenarios.getD p.scenario default)
  | .done r => r = (handle ds (Server.init false) t.req).2

def WorldOK (ds : Dataset) (w : World) : Prop := Coherent ds w.srv ∧ ∀ t ∈ w.threads, ThreadOK ds t

theorem seq_response (ds : Dataset) (r : Request) :
    (handle ds (Server.init false) r).2 =
      match parseParams ds r.kvs with
      | .error e => s!"{r.kind} query_error {paramErrorType e}"
      | .ok p => if reachesFilters ds r.kind p
          then respond ds (ds.connSetOf (ds.scenarios.getD p.scenario default)) r.kind p
          else respond ds (mkConnSet [] [] []) r.kind p :=
  handle_response (coherent_init ds false) r

theorem threadStep_ok {ds : Dataset} {srv : Server} {t : Thread} (hs : Coherent ds srv) (ht : ThreadOK ds t) :
    Coherent ds (threadStep ds srv t).1 ∧ ThreadOK ds (threadStep ds srv t).2 ∧ (threadStep ds srv t).2.req = t.req := by
  unfold threadStep
  cases hpc : t.pc with
  | start =>
    simp only
    cases hp : parseParams ds t.req.kvs with
    | error e => refine ⟨hs, ?_, rfl⟩; simp [ThreadOK, seq_response, hp]
    | ok p =>
      by_cases hr : reachesFilters ds t.req.kind p
      · simp only [hr, if_true]; exact ⟨hs, ⟨hp, hr⟩, by first | rfl | trivial⟩
      · simp only [hr]; refine ⟨hs, ?_, rfl⟩; simp [ThreadOK, seq_response, hp, hr]
  | ready p =>
    simp only [ThreadOK, hpc] at ht
    simp only
    cases hg : srv.get p.scenario with
    | none => exact ⟨hs, ⟨ht.1, ht.2⟩, rfl⟩
    | some cs => exact ⟨hs, ⟨ht.1, ht.2, hs _ _ hg⟩, rfl⟩
  | missed p =>
    simp only [ThreadOK, hpc] at ht
    exact ⟨hs, ⟨ht.1, ht.2, rfl⟩, rfl⟩
  | computed p cs =>
    simp only [ThreadOK, hpc] at ht
    refine ⟨?_, ⟨ht.1, ht.2.1, ht.2.2⟩, rfl⟩
    rw [ht.2.2]; exact coherent_set hs _
  | holding p cs =>
    simp only [ThreadOK, hpc] at ht
    refine ⟨hs, ?_, rfl⟩
    simp [ThreadOK, seq_response, ht.1, ht.2.1, ht.2.2]
  | done r =>
    simp only [ThreadOK, hpc] at ht
    exact ⟨hs, by simpa [ThreadOK] using ht, rfl⟩

theorem worldStep_ok {ds : Dataset} {w : World} (h : WorldOK ds w) (i : Nat) : WorldOK ds (worldStep ds w i) := by
  unfold worldStep
  cases hi : w.threads[i]? with
  | none => exact h
  | some t =>
    have htm : t ∈ w.threads := List.mem_of_getElem? hi
    obtain ⟨h1, h2, _⟩ := threadStep_ok h.1 (h.2 t htm)
    refine ⟨h1, ?_⟩
    intro t' ht'
    rcases List.mem_or_eq_of_mem_set ht' with hm | he
    · exact h.2 t' hm
    · rw [he]; exact h2

theorem runSchedule_ok {ds : Dataset} (sched : List Nat) : ∀ {w : World}, WorldOK ds w → WorldOK ds (runSchedule ds w sched) := by
  induction sched with
  | nil => intro w h; exact h
  | cons i rest ih => intro w h; exact ih (worldStep_ok h i)

theorem init_ok (ds : Dataset) (cacheAll : Bool) (reqs : List Request) : WorldOK ds (World.init cacheAll reqs) := by
  refine ⟨coherent_init ds cacheAll, ?_⟩
  intro t ht
  simp [World.init] at ht
  obtain ⟨r, _, rfl⟩ := ht
  simp [ThreadOK]

/-- **C14.** Any number of concurrent requests `reqs`, any schedule `sched` of their atomic
    actions (including schedules in which the cache misses, is filled and is replaced while other
    threads still hold an older entry), either cache setting: every thread that has finished
    holds exactly the response an idle server gives to its request, every thread that holds a
    connection set holds the one of its scenario, and the shared cache is coherent afterwards. -/
theorem C14_interleavings (ds : Dataset) (cacheAll : Bool) (reqs : List Request) (sched : List Nat) :
    let w := runSchedule ds (World.init cacheAll reqs) sched
    Coherent ds w.srv ∧
    ∀ t ∈ w.threads,
      (∀ r, t.pc = .done r → r = (handle ds (Server.init cacheAll) t.req).2) ∧
      (∀ p cs, t.pc = .holding p cs → cs = ds.connSetOf (ds.scenarios.getD p.scenario default)) := by
  intro w
  have h := runSchedule_ok sched (init_ok ds cacheAll reqs)
  refine ⟨h.1, ?_⟩
  intro t ht
  have ht' := h.2 t ht
  constructor
  · intro r hr
    simp only [ThreadOK, hr] at ht'
    rw [ht']; exact (seq_response ds t.req).trans (handle_response (coherent_init ds cacheAll) t.req).symm
  · intro p cs hc
    simp only [ThreadOK, hc] at ht'
    exact ht'.2.2

def Pc.rank : Pc → Nat
  | .start => 0 | .ready _ => 1 | .missed _ => 2 | .computed _ _ => 3 | .holding _ _ => 4 | .done _ => 5

/-- no action blocks: every action of an unfinished thread moves it strictly forward, so a thread
    finishes after at most 5 of its own actions whatever the others do -/
theorem C14_progress (ds : Dataset) (srv : Server) (t : Thread) :
    t.pc.rank < 5 → t.pc.rank < (threadStep ds srv t).2.pc.rank := by
  intro h
  unfold threadStep
  cases h0 : t.pc with
  | start =>
    simp only
    cases parseParams ds t.req.kvs with
    | error e => simp [Pc.rank]
    | ok p => by_cases hr : reachesFilters ds t.req.kind p <;> simp [hr, Pc.rank]
  | ready p =>
    simp only
    cases srv.get p.scenario <;> simp [Pc.rank]
  | missed p => simp [Pc.rank]
  | computed p cs => simp [Pc.rank]
  | holding p cs => simp [Pc.rank]
  | done r => rw [h0] at h; simp [Pc.rank] at h

/-- the locks and the shared ownership the model assumes are in the source (re-read every run) -/
theorem C14_structure :
    (["ScenarioConnectionCacheOne_get_shared_lock", "ScenarioConnectionCacheOne_set_unique_lock",
      "ScenarioConnectionCacheAll_get_shared_lock", "ScenarioConnectionCacheAll_set_unique_lock",
      "cache_holds_shared_ptr", "calculator_holds_shared_ptr", "cache_touched_only_via_get_set",
      "handler_route_own_calculator", "handler_summary_own_calculator", "handler_accessibility_own_calculator"].all
        fun k => Gen.facts.lookup k == some true) = true := by decide

end Tr
