/-
  Property C12, third part: "the same status and reason" for departure-time route queries on the
  domain of C03.  A failed query fails on the shifted side with the same reason: the outcome is
  never `exception`, a route is returned on one side iff on the other (`C12_departure`), and the
  reason of a failure is classified by conditions on the data (C07) that are translation
  invariant - the router's tables do not move, and a connection is "caught" before the shift iff
  its image is caught after it.
-/
import TrVerif.Props.C12Shift
import TrVerif.Props.C07Fwd2
namespace Tr

theorem shiftConn_neg (k : Int) (c : Conn) : shiftConn k (shiftConn (-k) c) = c := by
  cases c
  simp only [shiftConn, Conn.mk.injEq, true_and, and_true]
  constructor <;> omega

/-- every connection of the shifted scenario list is the image of a connection of the list -/
theorem mem_fwd_unshift (k : Int) (ds : Dataset) (hal : TripsAligned ds) (sc : Scenario) (c' : Conn)
    (h : c' ∈ ((shiftDs k ds).connSetOf sc).fwd) : ∃ c ∈ (ds.connSetOf sc).fwd, c' = shiftConn k c := by
  have := mem_fwd_shift (-k) (shiftDs k ds) (aligned_shift k ds hal) sc c' h
  rw [shiftDs_neg] at this
  exact ⟨shiftConn (-k) c', this, (shiftConn_neg k c').symm⟩

/-- tentative times of the initial tables: an accessible stop's time moves with the request -/
theorem init_tent_shift {cx cx' : Ctx} (k : Int) (hacc : cx.accessFoot = cx'.accessFoot) (hd : cx'.depT = cx.depT + k)
    (hnd : (cx.accessFoot.map (·.stop)).Nodup) (y : Nat) :
    ((FState.init cx).tent y = MAX_INT ∧ (FState.init cx').tent y = MAX_INT) ∨
    ((FState.init cx').tent y = (FState.init cx).tent y + k ∧ ∃ a ∈ cx.accessFoot, a.stop = y) := by
  by_cases h : ∃ a ∈ cx.accessFoot, a.stop = y
  · obtain ⟨a, ha, hay⟩ := h
    right
    refine ⟨?_, a, ha, hay⟩
    rw [← hay, init_tent_access cx hnd ha, init_tent_access cx' (hacc ▸ hnd) (hacc ▸ ha), hd]
    omega
  · left
    have hn : ∀ a ∈ cx.accessFoot, a.stop ≠ y := fun a ha hay => h ⟨a, ha, hay⟩
    exact ⟨init_tent_none cx y hn, init_tent_none cx' y (hacc ▸ hn)⟩

/-- "caught by the first pass" is translation invariant -/
theorem CaughtF.shift {cx cx' : Ctx} (k : Int) (h : CtxSame cx cx') (hd : cx'.depT = cx.depT + k)
    (hmt : cx.p.maxTotal = cx'.p.maxTotal) (hmf : cx.p.maxFirstWait = cx'.p.maxFirstWait)
    (hnd : (cx.accessFoot.map (·.stop)).Nodup) {c : Conn} (hb0 : c.dep < MAX_INT) (hmw : 0 ≤ cx.p.minWait)
    (hC : CaughtF cx c) : CaughtF cx' (shiftConn k c) := by
  obtain ⟨h1, h2, h3, h4, h5⟩ := hC
  have hma : cx'.minAccess = cx.minAccess := by unfold Ctx.minAccess; rw [h.acc]
  have hna : ∀ y, cx'.nodesAccess y = cx.nodesAccess y := by intro y; unfold Ctx.nodesAccess; rw [h.acc]
  have hw := effWait_nonneg c cx.p.minWait hmw
  rcases init_tent_shift k h.acc hd hnd c.depStop with ⟨t1, t2⟩ | ⟨t1, _⟩
  · -- not accessible: not caught at all
    rw [t1] at h4
    omega
  · refine ⟨?_, by show cx'.disabled c.trip = false; rw [← h.dis]; exact h2, ?_, ?_, ?_⟩
    · show c.dep + k ≥ cx'.depT + cx'.minAccess
      rw [hma, hd]; omega
    · show c.dep + k - cx'.depT ≤ cx'.p.maxTotal
      rw [← hmt, hd]; omega
    · show (FState.init cx').tent c.depStop ≤ c.dep + k - c.effWait cx'.p.minWait
      rw [t1, ← h.mw]; omega
    · rcases h5 with h5 | h5
      · left
        show ¬ (decide (cx'.p.maxFirstWait > 0) && ((cx'.nodesAccess c.depStop).any fun a => decide (a.time ≥ 0))) = true
        rw [← hmf, hna]; exact h5
      · right
        show c.dep + k - (FState.init cx').tent c.depStop ≤ cx'.p.maxFirstWait
        rw [t1, ← hmf]; omega

/-- the context of the first pass of a departure-time route query -/
abbrev ctxF (ds : Dataset) (p : Params) : Ctx :=
  mkCtx (ds.restrict (ds.connSetOf (ds.scenarioOf p))) p (ds.connSetOf (ds.scenarioOf p))
    (routerLookup ds.access p.maxAccess) (routerLookup ds.egress p.maxEgress) p.time (-1)

theorem caught_shift (ds : Dataset) (p : Params) (k : Int) (hmw : 0 ≤ p.minWait) (htb : TimesBounded ds)
    (hnd : (ds.access.map (·.stop)).Nodup) {c : Conn} (hc : c ∈ (ds.connSetOf (ds.scenarioOf p)).fwd)
    (h : CaughtF (ctxF ds p) c) : CaughtF (ctxF (shiftDs k ds) (shiftP k p)) (shiftConn k c) :=
  h.shift k (ctxSame_shift k ds p p.time (-1) (p.time + k) (-1)) rfl rfl rfl (routerLookup_nodup _ _ hnd)
    (htb c (connSetOf_rev_sub ds _ c (connSetOf_fwd_mem_rev ds _ c hc))) hmw

/-- **C12, status and reason of departure-time route queries on the domain of C03.** A query that
    fails, fails on the shifted side with the same reason. -/
theorem C12_departure_reason (ds : Dataset) (p : Params) (k : Int) (D : C03Dom ds p) (hal : TripsAligned ds)
    (R : ShiftInRange ds p k) (r : Reason) (h : calculateSingle ds p = .noRouting r) :
    calculateSingle (shiftDs k ds) (shiftP k p) = .noRouting r := by
  have D' := D.shift hal R
  obtain ⟨hfw, hbk⟩ := C12_departure ds p k D hal R
  -- the shifted outcome is a failure too
  cases h' : calculateSingle (shiftDs k ds) (shiftP k p) with
  | ok r' =>
    obtain ⟨r0, hr0⟩ := hbk r' h'
    rw [h] at hr0; cases hr0
  | exception w =>
    exact absurd h' (calculateSingle_no_exception _ D'.wf D'.pos D'.r1 D'.r2 D'.acc _ D'.mw D'.mt w)
  | noRouting r' =>
    -- the reasons agree
    have hA := C07_access ds (ds.connSetOf (ds.scenarioOf p)) p
    have hA' := C07_access (shiftDs k ds) ((shiftDs k ds).connSetOf ((shiftDs k ds).scenarioOf (shiftP k p))) (shiftP k p)
    simp only at hA hA'
    have hc : calculateSingleCS ds (ds.connSetOf (ds.scenarioOf p)) p = .noRouting r := h
    have hc' : calculateSingleCS (shiftDs k ds) ((shiftDs k ds).connSetOf ((shiftDs k ds).scenarioOf (shiftP k p))) (shiftP k p)
        = .noRouting r' := h'
    have hacc : routerLookup (shiftDs k ds).access (shiftP k p).maxAccess = routerLookup ds.access p.maxAccess := rfl
    have hegr : routerLookup (shiftDs k ds).egress (shiftP k p).maxEgress = routerLookup ds.egress p.maxEgress := rfl
    rw [hacc, hegr] at hA'
    by_cases ha : routerLookup ds.access p.maxAccess = [] <;> by_cases he : routerLookup ds.egress p.maxEgress = []
    · have e1 := hA.1.mpr ⟨ha, he⟩
      have e2 := hA'.1.mpr ⟨ha, he⟩
      rw [hc] at e1; rw [hc'] at e2
      cases e1; cases e2; rfl
    · have e1 := hA.2.1.mpr ⟨ha, he⟩
      have e2 := hA'.2.1.mpr ⟨ha, he⟩
      rw [hc] at e1; rw [hc'] at e2
      cases e1; cases e2; rfl
    · have e1 := hA.2.2.mpr ⟨ha, he⟩
      have e2 := hA'.2.2.mpr ⟨ha, he⟩
      rw [hc] at e1; rw [hc'] at e2
      cases e1; cases e2; rfl
    · -- both tables offer stops: NO_SERVICE_FROM_ORIGIN iff nothing is caught, never NO_SERVICE_TO_DESTINATION
      have hS := C07_route_no_service_from_origin ds p D.fwd D.t0 D.t32 ha he D.acc
      have hS' := C07_route_no_service_from_origin (shiftDs k ds) (shiftP k p) D'.fwd D'.t0 D'.t32
        (by rw [hacc]; exact ha) (by rw [hegr]; exact he) D'.acc
      have hN := C07_departure_never_to_destination ds D.wf p D.fwd D.mw D.mt D.tb D.acc D.egr D.egrNd
      have hN' := C07_departure_never_to_destination (shiftDs k ds) D'.wf (shiftP k p) D'.fwd D'.mw D'.mt D'.tb D'.acc D'.egr D'.egrNd
      -- caught on one side iff caught on the other
      have hiff : (∀ c ∈ (ds.connSetOf (ds.scenarioOf p)).fwd, ¬ CaughtF (ctxF ds p) c) ↔
          (∀ c ∈ ((shiftDs k ds).connSetOf ((shiftDs k ds).scenarioOf (shiftP k p))).fwd,
            ¬ CaughtF (ctxF (shiftDs k ds) (shiftP k p)) c) := by
        constructor
        · intro hall c' hc' hcaught
          obtain ⟨c, hcm, rfl⟩ := mem_fwd_unshift k ds hal _ c' hc'
          apply hall c hcm
          have := caught_shift (shiftDs k ds) (shiftP k p) (-k) D'.mw D'.tb D'.accNd hc' hcaught
          rw [shiftDs_neg, shiftP_neg] at this
          rw [show shiftConn (-k) (shiftConn k c) = c by
            cases c; simp only [shiftConn, Conn.mk.injEq, true_and, and_true]; constructor <;> omega] at this
          exact this
        · intro hall c hc hcaught
          exact hall (shiftConn k c) (mem_fwd_shift k ds hal _ c hc) (caught_shift ds p k D.mw D.tb D.accNd hc hcaught)
      -- classify both reasons
      have key : ∀ {q : Reason} {o : Outcome Route}, o = .noRouting q →
          (o = .noRouting .noAccessAtOriginAndDestination ↔ routerLookup ds.access p.maxAccess = [] ∧ routerLookup ds.egress p.maxEgress = []) →
          (o = .noRouting .noAccessAtOrigin ↔ routerLookup ds.access p.maxAccess = [] ∧ routerLookup ds.egress p.maxEgress ≠ []) →
          (o = .noRouting .noAccessAtDestination ↔ routerLookup ds.access p.maxAccess ≠ [] ∧ routerLookup ds.egress p.maxEgress = []) →
          o ≠ .noRouting .noServiceToDestination →
          q = .noServiceFromOrigin ∨ q = .noRoutingFound := by
        intro q o ho h1 h2 h3 h4
        subst ho
        cases q with
        | noRoutingFound => exact Or.inr rfl
        | noServiceFromOrigin => exact Or.inl rfl
        | noAccessAtOrigin => exact absurd (h2.mp rfl).1 ha
        | noAccessAtDestination => exact absurd (h3.mp rfl).2 he
        | noServiceToDestination => exact absurd rfl h4
        | noAccessAtOriginAndDestination => exact absurd (h1.mp rfl).1 ha
      have k1 := key hc hA.1 hA.2.1 hA.2.2 hN
      have k2 := key hc' hA'.1 hA'.2.1 hA'.2.2 hN'
      have hS2 : calculateSingleCS ds (ds.connSetOf (ds.scenarioOf p)) p = .noRouting .noServiceFromOrigin ↔ _ := hS
      have hS2' : calculateSingleCS (shiftDs k ds) ((shiftDs k ds).connSetOf ((shiftDs k ds).scenarioOf (shiftP k p))) (shiftP k p)
          = .noRouting .noServiceFromOrigin ↔ _ := hS'
      rcases k1 with rfl | rfl <;> rcases k2 with rfl | rfl
      · rfl
      · exfalso
        have := hS2'.mpr (hiff.mp (hS2.mp hc))
        rw [hc'] at this; cases this
      · exfalso
        have := hS2.mpr (hiff.mpr (hS2'.mp hc'))
        rw [hc] at this; cases this
      · rfl


/-! ### arrival-time route queries -/

theorem mem_rev_unshift (k : Int) (ds : Dataset) (hal : TripsAligned ds) (sc : Scenario) (c' : Conn)
    (h : c' ∈ ((shiftDs k ds).connSetOf sc).rev) : ∃ c ∈ (ds.connSetOf sc).rev, c' = shiftConn k c := by
  have := mem_rev_shift (-k) (shiftDs k ds) (aligned_shift k ds hal) sc c' h
  rw [shiftDs_neg] at this
  exact ⟨shiftConn (-k) c', this, (shiftConn_neg k c').symm⟩

theorem init_lab_none (cx : Ctx) (y : Nat) (h : ∀ g ∈ cx.egressFoot, g.stop ≠ y) : (RState.init cx).lab y = -1 := by
  unfold RState.init
  exact foldl_upd_untouched (fun e => cx.arrT - e.time) y cx.egressFoot _ h

/-- "arrives in time for the walk to the place" is translation invariant -/
theorem CaughtR.shift {cx cx' : Ctx} (k : Int) (h : CtxSame cx cx') (ha : cx'.arrT = cx.arrT + k)
    (hmt : cx.p.maxTotal = cx'.p.maxTotal) (hnd : cx.EgrNodup) (single : Bool) {c : Conn} (h0 : 0 ≤ c.arr)
    (hC : CaughtR cx single c) : CaughtR cx' single (shiftConn k c) := by
  obtain ⟨h1, h2, h3, h4⟩ := hC
  have hme : cx'.minEgress = cx.minEgress := by unfold Ctx.minEgress; rw [h.egr]
  refine ⟨?_, by show cx'.disabled c.trip = false; rw [← h.dis]; exact h2, ?_, ?_⟩
  · show c.arr + k ≤ cx'.arrT - (if single = true then cx'.minEgress else 0)
    rw [hme, ha]; omega
  · show cx'.arrT - (c.arr + k) ≤ cx'.p.maxTotal
    rw [← hmt, ha]; omega
  · show c.arr + k ≤ (RState.init cx').lab c.arrStop
    by_cases hg : ∃ g ∈ cx.egressFoot, g.stop = c.arrStop
    · obtain ⟨g, hgm, hgs⟩ := hg
      have l1 := init_lab_egress hnd hgm
      have l2 := init_lab_egress (cx := cx') (by unfold Ctx.EgrNodup; rw [← h.egr]; exact hnd) (h.egr ▸ hgm)
      rw [hgs] at l1 l2
      rw [l1] at h4
      rw [l2, ha]; omega
    · exfalso
      have := init_lab_none cx c.arrStop (fun g hgm hgs => hg ⟨g, hgm, hgs⟩)
      rw [this] at h4
      omega

/-- the context of an arrival-time route query -/
abbrev ctxR (ds : Dataset) (p : Params) : Ctx :=
  mkCtx (ds.restrict (ds.connSetOf (ds.scenarioOf p))) p (ds.connSetOf (ds.scenarioOf p))
    (routerLookup ds.access p.maxAccess) (routerLookup ds.egress p.maxEgress) (-1) p.time

theorem caughtR_shift (ds : Dataset) (p : Params) (k : Int) (hnn : NonnegArr ds)
    (hnd : (ds.egress.map (·.stop)).Nodup) {c : Conn} (hc : c ∈ (ds.connSetOf (ds.scenarioOf p)).rev)
    (h : CaughtR (ctxR ds p) true c) : CaughtR (ctxR (shiftDs k ds) (shiftP k p)) true (shiftConn k c) :=
  h.shift k (ctxSame_shift k ds p (-1) p.time (-1) (p.time + k)) rfl rfl (routerLookup_nodup _ _ hnd) true
    (hnn c (connSetOf_rev_sub ds _ c hc))

/-- **C12, status and reason of arrival-time route queries on the domain of C04.** A query that
    fails, fails on the shifted side with the same reason - unless the shifted side returns a
    route that, moved back, would leave before 0:00 (then the two answers are not both in range,
    and the property does not speak). -/
theorem C12_arrival_reason (ds : Dataset) (p : Params) (k : Int) (D : C04Dom ds p) (hal : TripsAligned ds)
    (R : ShiftInRange ds p k) (hnn : NonnegArr ds) (hnn' : NonnegArr (shiftDs k ds))
    (r : Reason) (h : calculateSingle ds p = .noRouting r) :
    calculateSingle (shiftDs k ds) (shiftP k p) = .noRouting r ∨
      ∃ r', calculateSingle (shiftDs k ds) (shiftP k p) = .ok r' ∧ r'.departureTime + -k < 0 := by
  have D' := D.shift hal R
  obtain ⟨hfw, hbk⟩ := C12_arrival ds p k D hal R
  cases h' : calculateSingle (shiftDs k ds) (shiftP k p) with
  | ok r' =>
    right
    refine ⟨r', rfl, ?_⟩
    by_cases hlt : r'.departureTime + -k < 0
    · exact hlt
    · obtain ⟨r0, hr0, _⟩ := hbk r' h' (by omega)
      rw [h] at hr0; cases hr0
  | exception w =>
    exact absurd h' (calculateSingle_no_exception _ D'.wf D'.pos D'.r1 D'.r2 D'.acc _ D'.mw D'.mt w)
  | noRouting r' =>
    left
    have hA := C07_access ds (ds.connSetOf (ds.scenarioOf p)) p
    have hA' := C07_access (shiftDs k ds) ((shiftDs k ds).connSetOf ((shiftDs k ds).scenarioOf (shiftP k p))) (shiftP k p)
    simp only at hA hA'
    have hc : calculateSingleCS ds (ds.connSetOf (ds.scenarioOf p)) p = .noRouting r := h
    have hc' : calculateSingleCS (shiftDs k ds) ((shiftDs k ds).connSetOf ((shiftDs k ds).scenarioOf (shiftP k p))) (shiftP k p)
        = .noRouting r' := h'
    have hacc : routerLookup (shiftDs k ds).access (shiftP k p).maxAccess = routerLookup ds.access p.maxAccess := rfl
    have hegr : routerLookup (shiftDs k ds).egress (shiftP k p).maxEgress = routerLookup ds.egress p.maxEgress := rfl
    rw [hacc, hegr] at hA'
    by_cases ha : routerLookup ds.access p.maxAccess = [] <;> by_cases he : routerLookup ds.egress p.maxEgress = []
    · have e1 := hA.1.mpr ⟨ha, he⟩
      have e2 := hA'.1.mpr ⟨ha, he⟩
      rw [hc] at e1; rw [hc'] at e2
      cases e1; cases e2; rfl
    · have e1 := hA.2.1.mpr ⟨ha, he⟩
      have e2 := hA'.2.1.mpr ⟨ha, he⟩
      rw [hc] at e1; rw [hc'] at e2
      cases e1; cases e2; rfl
    · have e1 := hA.2.2.mpr ⟨ha, he⟩
      have e2 := hA'.2.2.mpr ⟨ha, he⟩
      rw [hc] at e1; rw [hc'] at e2
      cases e1; cases e2; rfl
    · have hS := C07_route_no_service_to_destination ds p D.rev D.t0 ha he D.egr
      have hS' := C07_route_no_service_to_destination (shiftDs k ds) (shiftP k p) D'.rev D'.t0
        (by rw [hacc]; exact ha) (by rw [hegr]; exact he) D'.egr
      have hN := C07_arrival_never_from_origin ds p D.rev
      have hN' := C07_arrival_never_from_origin (shiftDs k ds) (shiftP k p) D'.rev
      have hiff : (∀ c ∈ (ds.connSetOf (ds.scenarioOf p)).rev, ¬ CaughtR (ctxR ds p) true c) ↔
          (∀ c ∈ ((shiftDs k ds).connSetOf ((shiftDs k ds).scenarioOf (shiftP k p))).rev,
            ¬ CaughtR (ctxR (shiftDs k ds) (shiftP k p)) true c) := by
        constructor
        · intro hall c' hc' hcaught
          obtain ⟨c, hcm, rfl⟩ := mem_rev_unshift k ds hal _ c' hc'
          apply hall c hcm
          have := caughtR_shift (shiftDs k ds) (shiftP k p) (-k) hnn' D'.egrNd hc' hcaught
          rw [shiftDs_neg, shiftP_neg] at this
          rw [show shiftConn (-k) (shiftConn k c) = c by
            cases c; simp only [shiftConn, Conn.mk.injEq, true_and, and_true]; constructor <;> omega] at this
          exact this
        · intro hall c hc hcaught
          exact hall (shiftConn k c) (mem_rev_shift k ds hal _ c hc) (caughtR_shift ds p k hnn D.egrNd hc hcaught)
      have key : ∀ {q : Reason} {o : Outcome Route}, o = .noRouting q →
          (o = .noRouting .noAccessAtOriginAndDestination ↔ routerLookup ds.access p.maxAccess = [] ∧ routerLookup ds.egress p.maxEgress = []) →
          (o = .noRouting .noAccessAtOrigin ↔ routerLookup ds.access p.maxAccess = [] ∧ routerLookup ds.egress p.maxEgress ≠ []) →
          (o = .noRouting .noAccessAtDestination ↔ routerLookup ds.access p.maxAccess ≠ [] ∧ routerLookup ds.egress p.maxEgress = []) →
          o ≠ .noRouting .noServiceFromOrigin →
          q = .noServiceToDestination ∨ q = .noRoutingFound := by
        intro q o ho h1 h2 h3 h4
        subst ho
        cases q with
        | noRoutingFound => exact Or.inr rfl
        | noServiceToDestination => exact Or.inl rfl
        | noAccessAtOrigin => exact absurd (h2.mp rfl).1 ha
        | noAccessAtDestination => exact absurd (h3.mp rfl).2 he
        | noServiceFromOrigin => exact absurd rfl h4
        | noAccessAtOriginAndDestination => exact absurd (h1.mp rfl).1 ha
      have k1 := key hc hA.1 hA.2.1 hA.2.2 hN
      have k2 := key hc' hA'.1 hA'.2.1 hA'.2.2 hN'
      have hS2 : calculateSingleCS ds (ds.connSetOf (ds.scenarioOf p)) p = .noRouting .noServiceToDestination ↔ _ := hS
      have hS2' : calculateSingleCS (shiftDs k ds) ((shiftDs k ds).connSetOf ((shiftDs k ds).scenarioOf (shiftP k p))) (shiftP k p)
          = .noRouting .noServiceToDestination ↔ _ := hS'
      rcases k1 with rfl | rfl <;> rcases k2 with rfl | rfl
      · rfl
      · exfalso
        have := hS2'.mpr (hiff.mp (hS2.mp hc))
        rw [hc'] at this; cases this
      · exfalso
        have := hS2.mpr (hiff.mpr (hS2'.mp hc'))
        rw [hc] at this; cases this
      · rfl

end Tr
