/-
  Props/C18Params — classification of a request by its parameter list (`Model/Params.lean`), for
  EVERY list of (name, value) pairs in EVERY order, every coordinate parser and every scenario table.

  * `C18_query_error_documented`  a 400 carries a documented errorCode (the enum literals of docs/APIv2)
  * `C18_defect_present`          … that names a defect ACTUALLY PRESENT in the request (`Defect`)
  * `C18_not_ready_data_error`    on data that is not READY every request is answered data_error with the
                                  documented code of the status, whatever its parameters
  * `C18_calc_meets_contract`     when the calculation runs, the scenario exists and has services, the time of
                                  trip is a non-negative integer of the request, every limit is normalised
                                  (waiting ≥ 0, limits > 0 or "no limit", cap > 0 or disabled)
  * `C18_stoi_examples`           `stoiFull` on the corner cases the unit tests do not have
-/
import TrVerif.Model.Params
namespace Tr.Par

/-- what must be wrong with a request for each parameter error (written from the API description) -/
def Defect (env : Env) (ps : List (String × String)) : PErr → Prop
  | .invalidNumerical => ∃ k v, (k, v) ∈ ps ∧ k ∈ numericKeys ∧ stoiFull v = none
  | .invalidOrigin => ∃ v, ("origin", v) ∈ ps ∧ coordPair env v = false
  | .invalidDestination => ∃ v, ("destination", v) ∈ ps ∧ coordPair env v = false
  | .invalidPlace => ∃ v, ("place", v) ∈ ps ∧ coordPair env v = false
  | .missingOrigin => ∀ v, ("origin", v) ∉ ps
  | .missingDestination => ∀ v, ("destination", v) ∉ ps
  | .missingPlace => ∀ v, ("place", v) ∉ ps
  | .missingScenario => ∀ v, ("scenario_id", v) ∈ ps → env.scen v = none        -- absent, malformed or unknown: no scenario is named
  | .emptyScenario => ∃ v, ("scenario_id", v) ∈ ps ∧ env.scen v = some true
  | .missingTime => (∀ v, ("time_of_trip", v) ∉ ps) ∨ ∃ v n, ("time_of_trip", v) ∈ ps ∧ stoiFull v = some n ∧ n < 0

theorem PErr_code_documented (e : PErr) : e.code ∈ Gen.documentedCodes := by
  cases e <;> decide

/-! ### the common loop -/

theorem commonStep_error {env : Env} {c : Common} {kv : String × String} {e : PErr} (h : commonStep env c kv = .error e) :
    e = .invalidNumerical ∧ kv.1 ∈ numericKeys ∧ stoiFull kv.2 = none := by
  unfold commonStep at h
  simp only at h
  repeat' split at h
  all_goals first
    | (cases h; done)
    | (cases h; refine ⟨rfl, ?_, ‹_›⟩; simp [numericKeys, *])

theorem commonLoop_error {env : Env} : ∀ (ps : List (String × String)) (c : Common) (e : PErr), commonLoop env ps c = .error e →
    e = .invalidNumerical ∧ ∃ k v, (k, v) ∈ ps ∧ k ∈ numericKeys ∧ stoiFull v = none := by
  intro ps
  induction ps with
  | nil => intro c e h; simp [commonLoop] at h
  | cons kv rest ih =>
    intro c e h
    rw [commonLoop] at h
    split at h
    · rename_i e' he
      cases h
      obtain ⟨h1, h2, h3⟩ := commonStep_error he
      exact ⟨h1, kv.1, kv.2, by simp, h2, h3⟩
    · obtain ⟨h1, k, v, hm, h2, h3⟩ := ih _ e h
      exact ⟨h1, k, v, List.mem_cons_of_mem _ hm, h2, h3⟩

/-- facts about one successful step -/
theorem commonStep_ok {env : Env} {c c' : Common} {kv : String × String} (h : commonStep env c kv = .ok c') :
    (c'.scenario = c.scenario ∨ (kv.1 = "scenario_id" ∧ ∃ e, env.scen kv.2 = some e ∧ c'.scenario = some e)) ∧
    (kv.1 = "scenario_id" → env.scen kv.2 = none → c'.scenario = c.scenario) ∧
    (c'.time = c.time ∨ (kv.1 = "time_of_trip" ∧ ∃ n, stoiFull kv.2 = some n ∧ c'.time = if n < 0 then -1 else n)) ∧
    (0 ≤ c.minWait → 0 ≤ c'.minWait) ∧ (0 < c.maxTotal → 0 < c'.maxTotal) ∧ (0 < c.maxAccess → 0 < c'.maxAccess) ∧
    (0 < c.maxEgress → 0 < c'.maxEgress) ∧ (0 < c.maxTransfer → 0 < c'.maxTransfer) ∧
    ((0 < c.maxFirstWait ∨ c.maxFirstWait = -1) → (0 < c'.maxFirstWait ∨ c'.maxFirstWait = -1)) := by
  unfold commonStep at h
  simp only at h
  repeat' split at h
  all_goals (cases h)
  all_goals (refine ⟨?_, ?_, ?_, ?_, ?_, ?_, ?_, ?_, ?_⟩)
  all_goals first
    | (intro _ _; rfl)
    | (left; rfl)
    | (right; refine ⟨‹_›, _, ‹_›, ?_⟩; simp [*]; done)
    | (intro hh; right; rfl)
    | (intro hh; left; show (0:Int) < _; omega)
    | (intro hh; (simp only [MAX_INT] at *) <;> omega)
    | (intro hh; exact hh)
    | (intro h1 h2; simp_all; done)


theorem commonStep_time_other {env : Env} {c c' : Common} {kv : String × String} (h : commonStep env c kv = .ok c')
    (hk : kv.1 ≠ "time_of_trip") : c'.time = c.time := by
  unfold commonStep at h
  simp only at h
  repeat' split at h
  all_goals (cases h)
  all_goals first | rfl | (exfalso; exact hk ‹_›)

theorem commonStep_time_tot {env : Env} {c c' : Common} {kv : String × String} (h : commonStep env c kv = .ok c')
    (hk : kv.1 = "time_of_trip") : ∃ n, stoiFull kv.2 = some n ∧ c'.time = if n < 0 then -1 else n := by
  unfold commonStep at h
  simp only [hk, if_true] at h
  split at h
  · cases h
  · rename_i n hn; cases h; exact ⟨n, hn, rfl⟩

theorem commonStep_scen_other {env : Env} {c c' : Common} {kv : String × String} (h : commonStep env c kv = .ok c')
    (hk : kv.1 ≠ "scenario_id") : c'.scenario = c.scenario := by
  unfold commonStep at h
  simp only at h
  repeat' split at h
  all_goals (cases h)
  all_goals first | rfl | (exfalso; exact hk ‹_›)

theorem commonStep_scen_sid {env : Env} {c c' : Common} {kv : String × String} (h : commonStep env c kv = .ok c')
    (hk : kv.1 = "scenario_id") : c'.scenario = (match env.scen kv.2 with | some e => some e | none => c.scenario) := by
  unfold commonStep at h
  have h1 : ¬ kv.1 = "time_of_trip" := by rw [hk]; decide
  have h2 : ¬ kv.1 = "time_type" := by rw [hk]; decide
  simp only [h1, h2, hk, if_true, if_false] at h
  cases hs : env.scen kv.2 <;> rw [hs] at h <;> cases h <;> rfl

/-- the bounds every successful run of the loop keeps -/
def Bounds (c : Common) : Prop :=
  0 ≤ c.minWait ∧ 0 < c.maxTotal ∧ 0 < c.maxAccess ∧ 0 < c.maxEgress ∧ 0 < c.maxTransfer ∧ (0 < c.maxFirstWait ∨ c.maxFirstWait = -1)

theorem commonLoop_ok {env : Env} : ∀ (ps : List (String × String)) (c c' : Common), commonLoop env ps c = .ok c' →
    (c'.scenario = none → c.scenario = none ∧ ∀ v, ("scenario_id", v) ∈ ps → env.scen v = none) ∧
    (∀ e, c'.scenario = some e → c.scenario = some e ∨ ∃ v, ("scenario_id", v) ∈ ps ∧ env.scen v = some e) ∧
    (c'.time < 0 → (c.time < 0 ∧ ∀ v, ("time_of_trip", v) ∉ ps) ∨ ∃ v n, ("time_of_trip", v) ∈ ps ∧ stoiFull v = some n ∧ n < 0) ∧
    (0 ≤ c'.time → c'.time = c.time ∨ ∃ v, ("time_of_trip", v) ∈ ps ∧ stoiFull v = some c'.time) ∧
    (Bounds c → Bounds c') := by
  intro ps
  induction ps with
  | nil => intro c c' h; simp only [commonLoop, Except.ok.injEq] at h; subst h; simp
  | cons kv rest ih =>
    intro c c' h
    rw [commonLoop] at h
    split at h
    · cases h
    · rename_i c1 hstep
      obtain ⟨i1, i2, i3, i4, i5⟩ := ih c1 c' h
      have hb := commonStep_ok hstep
      refine ⟨?_, ?_, ?_, ?_, ?_⟩
      · intro hn
        obtain ⟨a, b⟩ := i1 hn
        by_cases hk : kv.1 = "scenario_id"
        · have := commonStep_scen_sid hstep hk
          rw [a] at this
          cases hs : env.scen kv.2 with
          | some e => rw [hs] at this; simp at this
          | none =>
            rw [hs] at this
            refine ⟨this.symm, ?_⟩
            intro v hv
            rcases List.mem_cons.1 hv with e | e
            · have : kv.2 = v := by rw [← e]
              rw [← this]; exact hs
            · exact b v e
        · have := commonStep_scen_other hstep hk
          refine ⟨by rw [← this]; exact a, ?_⟩
          intro v hv
          rcases List.mem_cons.1 hv with e | e
          · exact absurd (by rw [← e]) hk
          · exact b v e
      · intro e he
        rcases i2 e he with a | ⟨v, hv, hs⟩
        · by_cases hk : kv.1 = "scenario_id"
          · have := commonStep_scen_sid hstep hk
            rw [a] at this
            cases hs : env.scen kv.2 with
            | some e' =>
              rw [hs] at this
              simp only [Option.some.injEq] at this
              exact Or.inr ⟨kv.2, by rw [← hk]; simp, by rw [hs, this]⟩
            | none => rw [hs] at this; exact Or.inl this.symm
          · exact Or.inl (by rw [← commonStep_scen_other hstep hk]; exact a)
        · exact Or.inr ⟨v, List.mem_cons_of_mem _ hv, hs⟩
      · intro hneg
        rcases i3 hneg with ⟨a, b⟩ | ⟨v, n, hv, hs, hn⟩
        · by_cases hk : kv.1 = "time_of_trip"
          · obtain ⟨n, hn, ht⟩ := commonStep_time_tot hstep hk
            by_cases hn0 : n < 0
            · exact Or.inr ⟨kv.2, n, by rw [← hk]; simp, hn, hn0⟩
            · rw [ht, if_neg hn0] at a; omega
          · have := commonStep_time_other hstep hk
            refine Or.inl ⟨by rw [← this]; exact a, ?_⟩
            intro v hv
            rcases List.mem_cons.1 hv with e | e
            · exact hk (by rw [← e])
            · exact b v e
        · exact Or.inr ⟨v, n, List.mem_cons_of_mem _ hv, hs, hn⟩
      · intro hpos
        rcases i4 hpos with a | ⟨v, hv, hs⟩
        · by_cases hk : kv.1 = "time_of_trip"
          · obtain ⟨n, hn, ht⟩ := commonStep_time_tot hstep hk
            by_cases hn0 : n < 0
            · rw [a, ht, if_pos hn0] at hpos; omega
            · rw [ht, if_neg hn0] at a
              exact Or.inr ⟨kv.2, by rw [← hk]; simp, by rw [hn, a]⟩
          · exact Or.inl (by rw [a, commonStep_time_other hstep hk])
        · exact Or.inr ⟨v, List.mem_cons_of_mem _ hv, hs⟩
      · intro hbd
        obtain ⟨b1, b2, b3, b4, b5, b6⟩ := hbd
        exact i5 ⟨hb.2.2.2.1 b1, hb.2.2.2.2.1 b2, hb.2.2.2.2.2.1 b3, hb.2.2.2.2.2.2.1 b4, hb.2.2.2.2.2.2.2.1 b5, hb.2.2.2.2.2.2.2.2 b6⟩

theorem default_bounds : Bounds ({} : Common) := by
  simp only [Bounds, Gen.DEFAULT_MIN_WAITING_TIME, Gen.DEFAULT_MAX_ACCESS_TRAVEL_TIME, Gen.DEFAULT_MAX_EGRESS_TRAVEL_TIME,
    Gen.DEFAULT_MAX_TRANSFER_TRAVEL_TIME, Gen.DEFAULT_FIRST_WAITING_TIME, MAX_INT]
  omega

/-- `createCommonParameter`: an error names a defect present; success meets the contract -/
theorem createCommon_spec (env : Env) (ps : List (String × String)) :
    (∀ e, createCommon env ps = .error e → Defect env ps e) ∧
    (∀ c, createCommon env ps = .ok c → c.scenario = some false ∧ 0 ≤ c.time ∧
      (∃ v, ("time_of_trip", v) ∈ ps ∧ stoiFull v = some c.time) ∧
      (∃ v, ("scenario_id", v) ∈ ps ∧ env.scen v = some false) ∧ Bounds c) := by
  unfold createCommon
  cases hl : commonLoop env ps {} with
  | error e =>
    refine ⟨?_, by intro c h; simp at h⟩
    intro e' h
    simp only [Except.error.injEq] at h; subst h
    obtain ⟨rfl, k, v, hm, hk, hv⟩ := commonLoop_error ps {} e hl
    exact ⟨k, v, hm, hk, hv⟩
  | ok c =>
    obtain ⟨i1, i2, i3, i4, i5⟩ := commonLoop_ok ps {} c hl
    simp only
    cases hs : c.scenario with
    | none =>
      refine ⟨?_, by intro c' h; simp at h⟩
      intro e h; simp only [Except.error.injEq] at h; subst h
      exact (i1 hs).2
    | some b =>
      cases b with
      | true =>
        refine ⟨?_, by intro c' h; simp at h⟩
        intro e h; simp only [Except.error.injEq] at h; subst h
        rcases i2 true hs with a | a
        · simp at a
        · exact a
      | false =>
        simp only
        by_cases ht : c.time < 0
        · rw [if_pos ht]
          refine ⟨?_, by intro c' h; simp at h⟩
          intro e h; simp only [Except.error.injEq] at h; subst h
          rcases i3 ht with ⟨_, b⟩ | a
          · exact Or.inl b
          · exact Or.inr a
        · rw [if_neg ht]
          refine ⟨by intro e h; simp at h, ?_⟩
          intro c' h; simp only [Except.ok.injEq] at h; subst h
          refine ⟨hs, by omega, ?_, ?_, i5 default_bounds⟩
          · rcases i4 (by omega) with a | a
            · exfalso; rw [a] at ht; simp at ht
            · exact a
          · rcases i2 false hs with a | a
            · simp at a
            · exact a


/-! ### origin / destination / place -/

theorem routeLoop_spec {env : Env} : ∀ (ps : List (String × String)) (s : RouteSt),
    (∀ e, routeLoop env ps s = .error e → Defect env ps e ∧ (e = .invalidOrigin ∨ e = .invalidDestination)) ∧
    (∀ s', routeLoop env ps s = .ok s' →
      (s'.origin = none → s.origin = none ∧ ∀ v, ("origin", v) ∉ ps) ∧
      (s'.destination = none → s.destination = none ∧ ∀ v, ("destination", v) ∉ ps) ∧
      (∀ o, s'.origin = some o → s.origin = some o ∨ (("origin", o) ∈ ps ∧ coordPair env o = true)) ∧
      (∀ o, s'.destination = some o → s.destination = some o ∨ (("destination", o) ∈ ps ∧ coordPair env o = true))) := by
  intro ps
  induction ps with
  | nil =>
    intro s
    refine ⟨by intro e h; simp [routeLoop] at h, ?_⟩
    intro s' h; simp only [routeLoop, Except.ok.injEq] at h; subst h; simp
  | cons kv rest ih =>
    intro s
    rw [routeLoop]
    unfold routeStep
    by_cases ho : kv.1 = "origin"
    · by_cases hc : coordPair env kv.2 = true
      · simp only [ho, if_true, hc]
        obtain ⟨e1, e2⟩ := ih { s with origin := some kv.2 }
        refine ⟨?_, ?_⟩
        · intro e h
          obtain ⟨d, r⟩ := e1 e h
          refine ⟨?_, r⟩
          rcases r with rfl | rfl
          · obtain ⟨v, hv, hb⟩ := d; exact ⟨v, List.mem_cons_of_mem _ hv, hb⟩
          · obtain ⟨v, hv, hb⟩ := d; exact ⟨v, List.mem_cons_of_mem _ hv, hb⟩
        · intro s' h
          obtain ⟨a1, a2, a3, a4⟩ := e2 s' h
          refine ⟨?_, ?_, ?_, ?_⟩
          · intro hn; have := (a1 hn).1; simp at this
          · intro hn
            refine ⟨(a2 hn).1, ?_⟩
            intro v hv
            rcases List.mem_cons.1 hv with e | e
            · have : kv.1 = "destination" := by rw [← e]
              rw [ho] at this; exact absurd this (by decide)
            · exact (a2 hn).2 v e
          · intro o h1
            rcases a3 o h1 with a | a
            · simp only [Option.some.injEq] at a
              exact Or.inr ⟨by rw [← a, ← ho]; simp, by rw [← a]; exact hc⟩
            · exact Or.inr ⟨List.mem_cons_of_mem _ a.1, a.2⟩
          · intro o h1
            rcases a4 o h1 with a | a
            · exact Or.inl a
            · exact Or.inr ⟨List.mem_cons_of_mem _ a.1, a.2⟩
      · simp only [ho, if_true, hc]
        refine ⟨?_, by intro s' h; simp at h⟩
        intro e h; cases h
        exact ⟨⟨kv.2, by rw [← ho]; simp, by simpa using hc⟩, Or.inl rfl⟩
    · by_cases hd : kv.1 = "destination"
      · by_cases hc : coordPair env kv.2 = true
        · simp only [ho, if_false, hd, if_true, hc]
          obtain ⟨e1, e2⟩ := ih { s with destination := some kv.2 }
          refine ⟨?_, ?_⟩
          · intro e h
            obtain ⟨d, r⟩ := e1 e h
            refine ⟨?_, r⟩
            rcases r with rfl | rfl
            · obtain ⟨v, hv, hb⟩ := d; exact ⟨v, List.mem_cons_of_mem _ hv, hb⟩
            · obtain ⟨v, hv, hb⟩ := d; exact ⟨v, List.mem_cons_of_mem _ hv, hb⟩
          · intro s' h
            obtain ⟨a1, a2, a3, a4⟩ := e2 s' h
            refine ⟨?_, ?_, ?_, ?_⟩
            · intro hn
              refine ⟨(a1 hn).1, ?_⟩
              intro v hv
              rcases List.mem_cons.1 hv with e | e
              · exact ho (by rw [← e])
              · exact (a1 hn).2 v e
            · intro hn; have := (a2 hn).1; simp at this
            · intro o h1
              rcases a3 o h1 with a | a
              · exact Or.inl a
              · exact Or.inr ⟨List.mem_cons_of_mem _ a.1, a.2⟩
            · intro o h1
              rcases a4 o h1 with a | a
              · simp only [Option.some.injEq] at a
                exact Or.inr ⟨by rw [← a, ← hd]; simp, by rw [← a]; exact hc⟩
              · exact Or.inr ⟨List.mem_cons_of_mem _ a.1, a.2⟩
        · simp only [ho, if_false, hd, if_true, hc]
          refine ⟨?_, by intro s' h; simp at h⟩
          intro e h; cases h
          exact ⟨⟨kv.2, by rw [← hd]; simp, by simpa using hc⟩, Or.inr rfl⟩
      · have hstep : (if kv.1 = "origin" then (if coordPair env kv.2 = true then Except.ok { s with origin := some kv.2 } else Except.error PErr.invalidOrigin)
            else if kv.1 = "destination" then (if coordPair env kv.2 = true then Except.ok { s with destination := some kv.2 } else Except.error PErr.invalidDestination)
            else if kv.1 = "alternatives" then Except.ok (if kv.2 = "true" ∨ kv.2 = "1" then { s with alternatives := true } else s)
            else Except.ok s) = Except.ok (if kv.1 = "alternatives" then (if kv.2 = "true" ∨ kv.2 = "1" then { s with alternatives := true } else s) else s) := by
          rw [if_neg ho, if_neg hd]; split <;> rfl
        rw [hstep]
        simp only
        generalize hs1 : (if kv.1 = "alternatives" then (if kv.2 = "true" ∨ kv.2 = "1" then { s with alternatives := true } else s) else s) = s1
        have ho1 : s1.origin = s.origin := by rw [← hs1]; split <;> (try split) <;> rfl
        have hd1 : s1.destination = s.destination := by rw [← hs1]; split <;> (try split) <;> rfl
        obtain ⟨e1, e2⟩ := ih s1
        refine ⟨?_, ?_⟩
        · intro e h
          obtain ⟨d, r⟩ := e1 e h
          refine ⟨?_, r⟩
          rcases r with rfl | rfl
          · obtain ⟨v, hv, hb⟩ := d; exact ⟨v, List.mem_cons_of_mem _ hv, hb⟩
          · obtain ⟨v, hv, hb⟩ := d; exact ⟨v, List.mem_cons_of_mem _ hv, hb⟩
        · intro s' h
          obtain ⟨a1, a2, a3, a4⟩ := e2 s' h
          refine ⟨?_, ?_, ?_, ?_⟩
          · intro hn
            refine ⟨by rw [← ho1]; exact (a1 hn).1, ?_⟩
            intro v hv
            rcases List.mem_cons.1 hv with e | e
            · exact ho (by rw [← e])
            · exact (a1 hn).2 v e
          · intro hn
            refine ⟨by rw [← hd1]; exact (a2 hn).1, ?_⟩
            intro v hv
            rcases List.mem_cons.1 hv with e | e
            · exact hd (by rw [← e])
            · exact (a2 hn).2 v e
          · intro o h1
            rcases a3 o h1 with a | a
            · exact Or.inl (by rw [← ho1]; exact a)
            · exact Or.inr ⟨List.mem_cons_of_mem _ a.1, a.2⟩
          · intro o h1
            rcases a4 o h1 with a | a
            · exact Or.inl (by rw [← hd1]; exact a)
            · exact Or.inr ⟨List.mem_cons_of_mem _ a.1, a.2⟩

theorem placeLoop_spec {env : Env} : ∀ (ps : List (String × String)) (p : Option String),
    (∀ e, placeLoop env ps p = .error e → e = .invalidPlace ∧ Defect env ps .invalidPlace) ∧
    (∀ p', placeLoop env ps p = .ok p' →
      (p' = none → p = none ∧ ∀ v, ("place", v) ∉ ps) ∧
      (∀ o, p' = some o → p = some o ∨ (("place", o) ∈ ps ∧ coordPair env o = true))) := by
  intro ps
  induction ps with
  | nil =>
    intro p
    refine ⟨by intro e h; simp [placeLoop] at h, ?_⟩
    intro p' h; simp only [placeLoop, Except.ok.injEq] at h; subst h; simp
  | cons kv rest ih =>
    intro p
    rw [placeLoop]
    by_cases hk : kv.1 = "place"
    · by_cases hc : coordPair env kv.2 = true
      · simp only [hk, if_true, hc]
        obtain ⟨e1, e2⟩ := ih (some kv.2)
        refine ⟨?_, ?_⟩
        · intro e h
          obtain ⟨r, v, hv, hb⟩ := e1 e h
          exact ⟨r, v, List.mem_cons_of_mem _ hv, hb⟩
        · intro p' h
          obtain ⟨a1, a2⟩ := e2 p' h
          refine ⟨?_, ?_⟩
          · intro hn; have := (a1 hn).1; simp at this
          · intro o h1
            rcases a2 o h1 with a | a
            · simp only [Option.some.injEq] at a
              exact Or.inr ⟨by rw [← a, ← hk]; simp, by rw [← a]; exact hc⟩
            · exact Or.inr ⟨List.mem_cons_of_mem _ a.1, a.2⟩
      · simp only [hk, if_true, hc]
        refine ⟨?_, by intro p' h; simp at h⟩
        intro e h; cases h
        exact ⟨rfl, kv.2, by rw [← hk]; simp, by simpa using hc⟩
    · simp only [hk, if_false]
      obtain ⟨e1, e2⟩ := ih p
      refine ⟨?_, ?_⟩
      · intro e h
        obtain ⟨r, v, hv, hb⟩ := e1 e h
        exact ⟨r, v, List.mem_cons_of_mem _ hv, hb⟩
      · intro p' h
        obtain ⟨a1, a2⟩ := e2 p' h
        refine ⟨?_, ?_⟩
        · intro hn
          refine ⟨(a1 hn).1, ?_⟩
          intro v hv
          rcases List.mem_cons.1 hv with e | e
          · exact hk (by rw [← e])
          · exact (a1 hn).2 v e
        · intro o h1
          rcases a2 o h1 with a | a
          · exact Or.inl a
          · exact Or.inr ⟨List.mem_cons_of_mem _ a.1, a.2⟩


/-! ### the handlers -/

theorem createCommon_error_kind (env : Env) (ps : List (String × String)) (e : PErr) (h : createCommon env ps = .error e) :
    e = .invalidNumerical ∨ e = .missingScenario ∨ e = .emptyScenario ∨ e = .missingTime := by
  unfold createCommon at h
  cases hl : commonLoop env ps {} with
  | error e2 =>
    rw [hl] at h; simp only [Except.error.injEq] at h; subst h
    exact Or.inl (commonLoop_error ps {} _ hl).1
  | ok c =>
    rw [hl] at h; simp only at h
    repeat' split at h
    all_goals (cases h)
    · exact Or.inr (Or.inl rfl)
    · exact Or.inr (Or.inr (Or.inl rfl))
    · exact Or.inr (Or.inr (Or.inr rfl))

theorem createRoute_spec (env : Env) (ps : List (String × String)) :
    (∀ e, createRoute env ps = .error e → Defect env ps e ∧ e ≠ .missingPlace ∧ e ≠ .invalidPlace) ∧
    (∀ s c, createRoute env ps = .ok (s, c) → createCommon env ps = .ok c ∧
      (∃ o, ("origin", o) ∈ ps ∧ coordPair env o = true) ∧ (∃ o, ("destination", o) ∈ ps ∧ coordPair env o = true)) := by
  unfold createRoute
  obtain ⟨r1, r2⟩ := routeLoop_spec (env := env) ps {}
  cases hl : routeLoop env ps {} with
  | error e =>
    refine ⟨?_, by intro s c h; simp at h⟩
    intro e' h; cases h
    obtain ⟨d, r⟩ := r1 e hl
    exact ⟨d, by rcases r with rfl | rfl <;> decide, by rcases r with rfl | rfl <;> decide⟩
  | ok s =>
    obtain ⟨a1, a2, a3, a4⟩ := r2 s hl
    simp only
    cases ho : s.origin with
    | none =>
      refine ⟨?_, by intro s' c h; simp at h⟩
      intro e h; simp only [Option.isNone_none, if_true] at h; cases h
      exact ⟨(a1 ho).2, by decide, by decide⟩
    | some o =>
      cases hd : s.destination with
      | none =>
        refine ⟨?_, by intro s' c h; simp at h⟩
        intro e h; simp at h; cases h
        exact ⟨(a2 hd).2, by decide, by decide⟩
      | some d =>
        simp only [Option.isNone_some, Bool.false_eq_true, if_false]
        obtain ⟨c1, c2⟩ := createCommon_spec env ps
        cases hc : createCommon env ps with
        | error e =>
          refine ⟨?_, by intro s' c h; simp at h⟩
          intro e' h; cases h
          have := c1 e hc
          have hk := createCommon_error_kind env ps e hc
          refine ⟨this, ?_, ?_⟩ <;> (intro he; subst he; rcases hk with h | h | h | h <;> cases h)
        | ok c =>
          refine ⟨by intro e h; simp at h, ?_⟩
          intro s' c' h
          simp only [Except.ok.injEq, Prod.mk.injEq] at h
          obtain ⟨rfl, rfl⟩ := h
          refine ⟨rfl, ?_, ?_⟩
          · rcases a3 o ho with a | a
            · simp at a
            · exact ⟨o, a⟩
          · rcases a4 d hd with a | a
            · simp at a
            · exact ⟨d, a⟩

theorem createAccess_spec (env : Env) (ps : List (String × String)) :
    (∀ e, createAccess env ps = .error e → Defect env ps e ∧ e ≠ .missingOrigin ∧ e ≠ .missingDestination ∧ e ≠ .invalidOrigin ∧ e ≠ .invalidDestination) ∧
    (∀ p c, createAccess env ps = .ok (p, c) → createCommon env ps = .ok c ∧ ("place", p) ∈ ps ∧ coordPair env p = true) := by
  unfold createAccess
  obtain ⟨r1, r2⟩ := placeLoop_spec (env := env) ps none
  cases hl : placeLoop env ps none with
  | error e =>
    refine ⟨?_, by intro p c h; simp at h⟩
    intro e' h; cases h
    obtain ⟨rfl, d⟩ := r1 e hl
    exact ⟨d, by decide, by decide, by decide, by decide⟩
  | ok p =>
    obtain ⟨a1, a2⟩ := r2 p hl
    cases p with
    | none =>
      refine ⟨?_, by intro p c h; simp at h⟩
      intro e h; cases h
      exact ⟨(a1 rfl).2, by decide, by decide, by decide, by decide⟩
    | some o =>
      simp only
      obtain ⟨c1, c2⟩ := createCommon_spec env ps
      cases hc : createCommon env ps with
      | error e =>
        refine ⟨?_, by intro p c h; simp at h⟩
        intro e' h; cases h
        have hk := createCommon_error_kind env ps e hc
        refine ⟨c1 e hc, ?_, ?_, ?_, ?_⟩ <;> (intro he; subst he; rcases hk with h | h | h | h <;> cases h)
      | ok c =>
        refine ⟨by intro e h; simp at h, ?_⟩
        intro p' c' h
        simp only [Except.ok.injEq, Prod.mk.injEq] at h
        obtain ⟨rfl, rfl⟩ := h
        rcases a2 o rfl with a | a
        · simp at a
        · exact ⟨rfl, a⟩

/-- **C18**: a 400 names a defect that is present in the request — for every parameter list in every order,
    every coordinate parser and every scenario table; origin / destination errors only on /v2/route|summary, place
    errors only on /v2/accessibility. -/
theorem C18_defect_present (env : Env) (status : String) (acc : Bool) (ps : List (String × String)) (code : String)
    (h : handle env status acc ps = .queryError code) :
    ∃ e : PErr, code = e.code ∧ Defect env ps e ∧
      (acc = true → e ≠ .missingOrigin ∧ e ≠ .missingDestination ∧ e ≠ .invalidOrigin ∧ e ≠ .invalidDestination) ∧
      (acc = false → e ≠ .missingPlace ∧ e ≠ .invalidPlace) := by
  unfold handle at h
  simp only at h
  split at h
  · cases h
  · cases acc with
    | true =>
      simp only [if_true] at h
      cases hc : createAccess env ps with
      | error e =>
        rw [hc] at h; simp only [Resp.queryError.injEq] at h
        obtain ⟨d, r⟩ := (createAccess_spec env ps).1 e hc
        exact ⟨e, h.symm, d, fun _ => r, (fun hh => nomatch hh)⟩
      | ok r => rw [hc] at h; cases h
    | false =>
      simp only [Bool.false_eq_true, if_false] at h
      cases hc : createRoute env ps with
      | error e =>
        rw [hc] at h; simp only [Resp.queryError.injEq] at h
        obtain ⟨d, r⟩ := (createRoute_spec env ps).1 e hc
        exact ⟨e, h.symm, d, (fun hh => nomatch hh), fun _ => r⟩
      | ok r => rw [hc] at h; cases h

/-- **C18**: … and its errorCode is one of the documented ones -/
theorem C18_query_error_documented (env : Env) (status : String) (acc : Bool) (ps : List (String × String)) (code : String)
    (h : handle env status acc ps = .queryError code) : code ∈ Gen.documentedCodes := by
  obtain ⟨e, rfl, _⟩ := C18_defect_present env status acc ps code h
  exact PErr_code_documented e

/-- **C18**: on data that is not READY every request, whatever its parameters, is answered data_error with the
    code of the status; on READY data no request is -/
theorem C18_not_ready_data_error (env : Env) (status : String) (acc : Bool) (ps : List (String × String)) :
    ((Gen.dataStatusCodes.lookup status).getD "PARAM_ERROR_UNKNOWN" ≠ "" →
      handle env status acc ps = .dataError ((Gen.dataStatusCodes.lookup status).getD "PARAM_ERROR_UNKNOWN")) ∧
    (∀ code, handle env "READY" acc ps ≠ .dataError code) := by
  refine ⟨?_, ?_⟩
  · intro h; unfold handle; simp only [h, ne_eq, not_false_eq_true, if_true]
  · intro code h
    unfold handle at h
    have : (Gen.dataStatusCodes.lookup "READY").getD "PARAM_ERROR_UNKNOWN" = "" := by decide
    simp only [this, ne_eq, not_true_eq_false, if_false] at h
    cases acc <;> simp only [Bool.false_eq_true, if_false, if_true] at h <;> split at h <;> cases h

/-- **C18**: when the calculation runs, its parameters meet the contract: the scenario named exists and has
    services, the time of trip is a non-negative integer written in the request, every limit is normalised
    (minimum waiting ≥ 0; each maximum > 0 — "no limit" is MAX_INT —; first-waiting cap > 0 or disabled = -1),
    and the place / origin and destination are coordinates of the request that parse -/
theorem C18_calc_meets_contract (env : Env) (status : String) (acc : Bool) (ps : List (String × String)) (c : Common) (alt : Bool)
    (h : handle env status acc ps = .calc c alt) :
    c.scenario = some false ∧ 0 ≤ c.time ∧ (∃ v, ("time_of_trip", v) ∈ ps ∧ stoiFull v = some c.time) ∧
    (∃ v, ("scenario_id", v) ∈ ps ∧ env.scen v = some false) ∧ Bounds c ∧
    (acc = true → ∃ p, ("place", p) ∈ ps ∧ coordPair env p = true) ∧
    (acc = false → (∃ o, ("origin", o) ∈ ps ∧ coordPair env o = true) ∧ ∃ o, ("destination", o) ∈ ps ∧ coordPair env o = true) := by
  unfold handle at h
  simp only at h
  split at h
  · cases h
  · cases acc with
    | true =>
      simp only [if_true] at h
      cases hc : createAccess env ps with
      | error e => rw [hc] at h; cases h
      | ok r =>
        obtain ⟨p, c'⟩ := r
        rw [hc] at h; simp only [Resp.calc.injEq] at h
        obtain ⟨rfl, _⟩ := h
        obtain ⟨k1, k2, k3⟩ := (createAccess_spec env ps).2 p c' hc
        obtain ⟨b1, b2, b3, b4, b5⟩ := (createCommon_spec env ps).2 c' k1
        exact ⟨b1, b2, b3, b4, b5, fun _ => ⟨p, k2, k3⟩, (fun hh => nomatch hh)⟩
    | false =>
      simp only [Bool.false_eq_true, if_false] at h
      cases hc : createRoute env ps with
      | error e => rw [hc] at h; cases h
      | ok r =>
        obtain ⟨s, c'⟩ := r
        rw [hc] at h; simp only [Resp.calc.injEq] at h
        obtain ⟨rfl, _⟩ := h
        obtain ⟨k1, k2, k3⟩ := (createRoute_spec env ps).2 s c' hc
        obtain ⟨b1, b2, b3, b4, b5⟩ := (createCommon_spec env ps).2 c' k1
        exact ⟨b1, b2, b3, b4, b5, (fun hh => nomatch hh), fun _ => ⟨k2, k3⟩⟩


/-! ### requests without a duplicated key: the value of every numeric parameter -/

/-- the numeric parameter of the calculation that the request parameter `k` sets -/
def Common.get (c : Common) (k : String) : Int :=
  if k = "time_of_trip" then c.time else if k = "min_waiting_time" then c.minWait else if k = "max_travel_time" then c.maxTotal
  else if k = "max_access_travel_time" then c.maxAccess else if k = "max_egress_travel_time" then c.maxEgress
  else if k = "max_transfer_travel_time" then c.maxTransfer else if k = "max_first_waiting_time" then c.maxFirstWait else 0

/-- the documented normalisation: a negative time is "missing", a negative waiting time is 0, a non-positive maximum is
    "no limit" (MAX_INT), a non-positive first-waiting cap disables the cap (-1) -/
def norm (k : String) (n : Int) : Int :=
  if k = "time_of_trip" then (if n < 0 then -1 else n) else if k = "min_waiting_time" then (if n < 0 then 0 else n)
  else if k = "max_first_waiting_time" then (if n ≤ 0 then -1 else n) else (if n ≤ 0 then MAX_INT else n)

theorem commonStep_get {env : Env} {c c' : Common} {kv : String × String} (h : commonStep env c kv = .ok c') (k : String) (hk : k ∈ numericKeys) :
    (kv.1 = k → ∃ n, stoiFull kv.2 = some n ∧ c'.get k = norm k n) ∧ (kv.1 ≠ k → c'.get k = c.get k) := by
  unfold commonStep at h
  simp only at h
  simp only [numericKeys, List.mem_cons, List.not_mem_nil, or_false] at hk
  repeat' split at h
  all_goals (cases h)
  all_goals (rcases hk with rfl | rfl | rfl | rfl | rfl | rfl | rfl)
  all_goals (refine ⟨fun he => ?_, fun hne => ?_⟩)
  all_goals first
    | (exfalso; simp_all; done)
    | (refine ⟨_, ‹_›, ?_⟩; simp [Common.get, norm, *]; done)
    | (simp [Common.get, *]; done)
    | (simp_all [Common.get]; done)

theorem commonLoop_get {env : Env} : ∀ (ps : List (String × String)) (c c' : Common), (ps.map (·.1)).Nodup → commonLoop env ps c = .ok c' →
    ∀ k ∈ numericKeys, c'.get k = match ps.lookup k with
      | some v => norm k ((stoiFull v).getD 0)
      | none => c.get k := by
  intro ps
  induction ps with
  | nil => intro c c' _ h k _; simp only [commonLoop, Except.ok.injEq] at h; subst h; rfl
  | cons kv rest ih =>
    intro c c' hnd h k hk
    rw [commonLoop] at h
    split at h
    · cases h
    · rename_i c1 hstep
      simp only [List.map_cons, List.nodup_cons] at hnd
      have hrest := ih c1 c' hnd.2 h k hk
      obtain ⟨g1, g2⟩ := commonStep_get hstep k hk
      rw [List.lookup_cons]
      by_cases e : kv.1 = k
      · have hb : (k == kv.1) = true := by simp [e]
        rw [hb]
        have hnone : rest.lookup k = none := by
          rw [List.lookup_eq_none_iff]
          intro p hp
          have : p.1 ∈ rest.map (·.1) := List.mem_map.2 ⟨p, hp, rfl⟩
          simp only [bne_iff_ne, ne_eq]
          intro hkk
          exact hnd.1 (by rw [e, hkk]; exact this)
        rw [hnone] at hrest
        obtain ⟨n, hn, hv⟩ := g1 e
        simp only at hrest ⊢
        rw [hrest, hv, hn]; rfl
      · have hb : (k == kv.1) = false := by simp; exact fun h => e h.symm
        rw [hb]
        simp only
        rw [hrest, g2 e]

/-- **C18 (defaults, "non-positive = no limit")**: in a request without a duplicated key, every numeric parameter of the
    calculation is the documented default when the parameter is omitted and the normalised value of the request when it is
    given — for every order of the pairs. -/
theorem C18_unique_keys_values (env : Env) (status : String) (acc : Bool) (ps : List (String × String)) (c : Common) (alt : Bool)
    (hnd : (ps.map (·.1)).Nodup) (h : handle env status acc ps = .calc c alt) :
    ∀ k ∈ numericKeys, c.get k = match ps.lookup k with
      | some v => norm k ((stoiFull v).getD 0)
      | none => ({} : Common).get k := by
  have hc : createCommon env ps = .ok c := by
    unfold handle at h
    simp only at h
    split at h
    · cases h
    · cases acc with
      | true =>
        simp only [if_true] at h
        cases hca : createAccess env ps with
        | error e => rw [hca] at h; cases h
        | ok r =>
          obtain ⟨p, c'⟩ := r
          rw [hca] at h; simp only [Resp.calc.injEq] at h
          obtain ⟨rfl, _⟩ := h
          exact ((createAccess_spec env ps).2 p c' hca).1
      | false =>
        simp only [Bool.false_eq_true, if_false] at h
        cases hcr : createRoute env ps with
        | error e => rw [hcr] at h; cases h
        | ok r =>
          obtain ⟨s, c'⟩ := r
          rw [hcr] at h; simp only [Resp.calc.injEq] at h
          obtain ⟨rfl, _⟩ := h
          exact ((createRoute_spec env ps).2 s c' hcr).1
  unfold createCommon at hc
  cases hl : commonLoop env ps {} with
  | error e => rw [hl] at hc; cases hc
  | ok c0 =>
    rw [hl] at hc
    simp only at hc
    repeat' split at hc
    all_goals (cases hc)
    exact commonLoop_get ps {} c hnd hl

/-- the defaults are the documented ones -/
theorem C18_default_values :
    ({} : Common).get "min_waiting_time" = 180 ∧ ({} : Common).get "max_travel_time" = MAX_INT ∧ ({} : Common).get "max_access_travel_time" = 1200 ∧
    ({} : Common).get "max_egress_travel_time" = 1200 ∧ ({} : Common).get "max_transfer_travel_time" = 1200 ∧
    ({} : Common).get "max_first_waiting_time" = 1800 := by decide

/-- `std::stoi` + full consumption on the corner cases (tests of the model's `stoiFull`, labelled as tests; the
    same strings go to the real server on every run of the C18 check) -/
theorem C18_stoi_examples :
    stoiFull "12" = some 12 ∧ stoiFull "-7" = some (-7) ∧ stoiFull "+5" = some 5 ∧ stoiFull "  42" = some 42 ∧
    stoiFull "12abc" = none ∧ stoiFull "" = none ∧ stoiFull "-" = none ∧ stoiFull "1 " = none ∧ stoiFull "1.5" = none ∧
    stoiFull "2147483647" = some 2147483647 ∧ stoiFull "2147483648" = none ∧ stoiFull "-2147483648" = some (-2147483648) ∧
    stoiFull "-2147483649" = none ∧ stoiFull "0x10" = none ∧ stoiFull "007" = some 7 := by decide

/-- non-vacuity: a well-formed request is calculated with the documented defaults, a zero limit means "no limit",
    a non-positive first-waiting cap disables it, and four defective requests get their four codes -/
theorem C18_params_examples :
    let env : Env := ⟨fun s => s = "-73,1.5" || s = "1.5,-73", fun s => if s = "S" then some false else if s = "E" then some true else none⟩
    handle env "READY" false [("origin", "-73,1.5"), ("destination", "1.5,-73"), ("scenario_id", "S"), ("time_of_trip", "36000")]
      = .calc { time := 36000, scenario := some false } false ∧
    handle env "READY" false [("max_travel_time", "0"), ("origin", "-73,1.5"), ("time_type", "1"), ("destination", "1.5,-73"), ("scenario_id", "S"),
        ("time_of_trip", "36000"), ("max_first_waiting_time", "-4"), ("min_waiting_time", "-1"), ("alternatives", "true")]
      = .calc { time := 36000, scenario := some false, maxTotal := MAX_INT, maxFirstWait := -1, minWait := 0, forward := false } true ∧
    handle env "READY" false [("origin", "-73,1.5"), ("destination", "1.5"), ("scenario_id", "S"), ("time_of_trip", "1")] = .queryError "INVALID_DESTINATION" ∧
    handle env "READY" true [("place", "-73,1.5"), ("scenario_id", "E"), ("time_of_trip", "1")] = .queryError "EMPTY_SCENARIO" ∧
    handle env "READY" true [("place", "-73,1.5"), ("scenario_id", "S"), ("time_of_trip", "1x")] = .queryError "INVALID_NUMERICAL_DATA" ∧
    handle env "READY" true [("scenario_id", "S"), ("time_of_trip", "1")] = .queryError "MISSING_PARAM_PLACE" ∧
    handle env "NO_LINES" true [("whatever", "x")] = .dataError "MISSING_DATA_LINES" := by
  decide

/-- the names, the numeric ones, the order of the checks after each loop and the shape of `getIntegerValue` are those the
    translator reads from the three parameter factories NOW (a renamed parameter, a reordered check, a numeric parameter
    parsed another way make this fail) -/
theorem C18_params_source :
    Gen.commonKeys = ["time_of_trip", "time_type", "scenario_id", "min_waiting_time", "max_travel_time", "max_access_travel_time",
      "max_egress_travel_time", "max_transfer_travel_time", "max_first_waiting_time"] ∧
    Gen.commonNumericKeys = numericKeys ∧
    Gen.commonThrows = [PErr.missingScenario.typeName, PErr.emptyScenario.typeName, PErr.missingTime.typeName] ∧
    Gen.routeKeys = ["origin", "destination", "alternatives"] ∧
    Gen.routeThrows = [PErr.invalidOrigin.typeName, PErr.invalidOrigin.typeName, PErr.invalidDestination.typeName, PErr.invalidDestination.typeName,
      PErr.missingOrigin.typeName, PErr.missingDestination.typeName] ∧
    Gen.accessKeys = ["place"] ∧ Gen.accessThrows = [PErr.invalidPlace.typeName, PErr.invalidPlace.typeName, PErr.missingPlace.typeName] ∧
    Gen.integerValueIsFullStoi = true := by decide

end Tr.Par
