/-
  Property C08 — departure accessibility lists exactly the reachable stops, earliest arrivals.

  PARTIAL: the *soundness* half. Every stop a departure-time accessibility answer lists is
  reachable with the reported time: a traveller leaving the place at the requested time can board
  (`Boardable`: stands at the boarding stop, by the access walk or after earlier rides and one
  footpath each, no later than the departure minus the minimum waiting time; boarding permitted;
  trip not excluded) a connection `e` of a trip that alights (permitted) at the listed stop at
  `nodeTime`; `totalTravelTime` is `nodeTime` minus the requested time and within max_travel_time;
  each stop once, ascending; `totalNodeCount` is the number of stops. NOT proved: that every
  reachable stop is listed and that `nodeTime` is the EARLIEST such time (completeness of the
  forward scan; decided per answer by the reference solver of `check/oracles.py`).
-/
import TrVerif.Proofs.Forward
import TrVerif.Props.C09
namespace Tr

theorem connSetOf_fwd_mem_rev (ds : Dataset) (sc : Scenario) : ∀ c ∈ (ds.connSetOf sc).fwd, c ∈ (ds.connSetOf sc).rev := by
  intro c hc
  simp only [Dataset.connSetOf, mkConnSet, Dataset.fwdAll, Dataset.revAll, List.mem_filter] at hc ⊢
  exact ⟨(mem_isort revLt c _).mpr ((mem_isort fwdLt c _).mp hc.1), hc.2⟩

theorem connSetOf_sortedFwd (ds : Dataset) (sc : Scenario) : SortedFwd (ds.connSetOf sc).fwd := by
  simp only [Dataset.connSetOf, mkConnSet, Dataset.fwdAll]
  exact List.Pairwise.sublist List.filter_sublist (sorted_isort fwdLt fwdLt_strictWeak ds.conns)

/-- what `forwardJourneyStepAllNodes` returns for a listed stop, on any state satisfying the
    forward-scan invariant -/
theorem forwardNode_sound {cx : Ctx} {C pre : List Conn} {s : FState} (hI : FInv cx C pre s) {node : Nat} {a : AccNode}
    (h : forwardNode cx s node = .ok (some a)) :
    a.stop = node ∧ a.totalTravelTime = a.nodeTime - cx.depT ∧ a.totalTravelTime ≤ cx.p.maxTotal ∧
    ∃ e x, Boardable cx C e ∧ x ∈ C ∧ e.trip = x.trip ∧ e.seq ≤ x.seq ∧ x.canUnboard = true ∧
      x.arrStop = node ∧ x.arr = a.nodeTime := by
  unfold forwardNode at h
  cases hegr : s.egr node with
  | none => rw [hegr] at h; simp at h
  | some first =>
    rw [hegr] at h
    simp only at h
    cases hch : fwdChain cx.ds s.steps (cx.ds.nStops + 2) first (-1) with
    | none => rw [hch] at h; cases h
    | some nt =>
      rw [hch] at h
      simp only at h
      obtain ⟨e, x, h1, h2, h3, h4, h5, h6, h7, h8⟩ := hI.egr node first hegr
      rw [h1, h2] at h
      simp only at h
      by_cases hc : x.arr - cx.depT ≤ cx.p.maxTotal
      · rw [if_pos hc] at h
        simp only [Outcome.ok.injEq, Option.some.injEq] at h
        subst h
        exact ⟨rfl, rfl, hc, e, x, h8, h4, h5, h6, h7, h3, rfl⟩
      · rw [if_neg hc] at h; simp at h

/-- clock values fit the integer type the tables use for "not reached" -/
def TimesBounded (ds : Dataset) : Prop := ∀ c ∈ ds.conns, c.dep < MAX_INT

/-- **C08 (soundness half).** -/
theorem C08_sound (ds : Dataset) (hwf : WFData ds) (p : Params) (hp : p.forward = true) (hmw : 0 ≤ p.minWait)
    (hmt : 0 ≤ p.maxTransfer) (hb : TimesBounded ds)
    {l : List AccNode} {n : Nat} (h : calculateAllNodes ds p = .ok (l, n)) :
    n = ds.nStops ∧ (l.map (·.stop)).Pairwise (· < ·) ∧
    ∀ a ∈ l, a.stop < ds.nStops ∧ a.totalTravelTime = a.nodeTime - p.time ∧ a.totalTravelTime ≤ p.maxTotal ∧
      ∃ e x,
        Boardable (mkCtx (ds.restrict (ds.connSetOf (ds.scenarioOf p))) p (ds.connSetOf (ds.scenarioOf p))
          (routerLookup ds.access p.maxAccess) [] p.time (-1)) (ds.connSetOf (ds.scenarioOf p)).fwd e ∧
        x ∈ (ds.connSetOf (ds.scenarioOf p)).fwd ∧ e.trip = x.trip ∧ e.seq ≤ x.seq ∧ x.canUnboard = true ∧
        x.arrStop = a.stop ∧ x.arr = a.nodeTime := by
  have hsub := connSetOf_rev_sub ds (ds.scenarioOf p)
  have hfr := connSetOf_fwd_mem_rev ds (ds.scenarioOf p)
  have hw := timeWF_dataset hwf p hmw hmt (ds.scenarioOf p) (routerLookup ds.access p.maxAccess) [] p.time (-1)
  unfold calculateAllNodes calculateAllNodesCS at h
  simp only [hp, if_true] at h
  split at h
  · cases h
  · generalize hcx : mkCtx (ds.restrict (ds.connSetOf (ds.scenarioOf p))) p (ds.connSetOf (ds.scenarioOf p))
        (routerLookup (ds.restrict (ds.connSetOf (ds.scenarioOf p))).access p.maxAccess) [] p.time (-1) = cx at h
    have hcs : cx.cs = ds.connSetOf (ds.scenarioOf p) := by rw [← hcx]; rfl
    split at h
    · cases h
    · rename_i start hstart
      split at h
      · cases h
      · split at h
        · rename_i l' hcoll
          simp only [Outcome.ok.injEq, Prod.mk.injEq] at h
          obtain ⟨rfl, rfl⟩ := h
          have hsubd : ∀ a ∈ cx.cs.fwd.drop start, a ∈ cx.cs.fwd := fun a ha => List.mem_of_mem_drop ha
          have hsorted : SortedFwd ([] ++ cx.cs.fwd.drop start) := by
            show List.Pairwise _ ([] ++ cx.cs.fwd.drop start)
            rw [List.nil_append, hcs]
            exact List.Pairwise.sublist (List.drop_sublist _ _) (connSetOf_sortedFwd ds _)
          have hdm : ∀ a ∈ cx.cs.fwd, ∀ b ∈ cx.cs.fwd, a.trip = b.trip → a.seq ≤ b.seq → a.dep ≤ b.dep := by
            rw [hcs]
            intro a ha b hb'
            exact hw.depMono a (hfr a ha) b (hfr b hb')
          have hbb : ∀ c ∈ cx.cs.fwd, c.dep < MAX_INT := by
            rw [hcs]; intro c hc; exact hb c (hsub c (hfr c hc))
          have hinv := fwdScanList_inv (cx := cx) false cx.cs.fwd hdm (by rw [← hcx]; exact hmw) hbb
            (cx.cs.fwd.drop start) [] (FState.init cx) (by simpa using hsubd) hsorted (init_FInv cx _)
          simp only [List.nil_append] at hinv
          refine ⟨rfl, ?_, ?_⟩
          · refine collectNodes_sorted _ ?_ _ _ _ hcoll (by simpa using List.pairwise_lt_range)
            intro n a hn
            exact (forwardNode_sound hinv hn).1
          · intro a ha
            rcases collectNodes_mem _ _ _ _ hcoll a ha with h0 | ⟨m, hmr, hfm⟩
            · cases h0
            · obtain ⟨h1, h2, h3, e, x, k1, k2, k3, k4, k5, k6, k7⟩ := forwardNode_sound hinv hfm
              have hlt : m < ds.nStops := by simpa [Dataset.restrict] using hmr
              rw [hcs] at k1 k2
              subst hcx
              exact ⟨by rw [h1]; exact hlt, h2, h3, e, x, k1, k2, k3, k4, k5, by rw [h1]; exact k6, k7⟩
        · cases h
        · cases h

end Tr
