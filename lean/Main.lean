import TrVerif.Model.Block
import TrVerif.Model.Osrm
import TrVerif.Model.LoadDriver
import TrVerif.Model.ParamsDriver
open Tr

partial def loop (h : IO.FS.Stream) (st : DState) : IO Unit := do
  let line ← h.getLine
  let flush (st : DState) : IO Unit := do
    if st.ds.nStops > 0 ∨ ¬ st.reqs.isEmpty then
      for l in runBlock st do IO.println l
  if line.isEmpty then
    flush st
    return ()
  match words line with
  | [] => loop h st
  | "dataset" :: id :: _ => flush st; loop h { id := id }
  | ["end"] => flush st; loop h {}
  | w :: ws =>
    if w.startsWith "#" then loop h st
    else if w ∈ ["route", "summary", "accessibility", "update"] then loop h { st with reqs := st.reqs ++ [line] }
    else match dataLine st (w :: ws) with
      | some st' => loop h st'
      | none => IO.eprintln s!"bad line: {line}"; IO.Process.exit 2

/-- outcome class of every fault of the scripted router on a healthy two-stop row (read by check/fault_checks.py) -/
def c20Classes : List String :=
  let dur := [some 0, some 10, some 20]; let dist := [some 0, some 15, some 30]
  ["refuse", "drop", "truncate", "http500", "http503late", "empty", "nonjson", "nodurations", "nulls", "fewer", "healthy"].map fun f =>
    match lookup [4, 7] 100 (faultReply f dur dist) with
    | .throws => s!"{f} throws"
    | .stops l => s!"{f} stops {l.length}"

def main (args : List String) : IO Unit := do
  match args with
  | ["--c20-classes"] => for l in c20Classes do IO.println l
  | ["--classify", f] => do
    let txt ← IO.FS.readFile f
    for l in Par.classifyAll (txt.splitOn "\n") do IO.println l
  | ["--encode", f] => do
    let txt ← IO.FS.readFile f
    let st := (txt.splitOn "\n").foldl (fun (st : DState) l => match words l with
      | [] => st
      | ws => (dataLine st ws).getD st) {}
    for l in Load.printRecords (Load.encode st.ds) do IO.println l
  | ["--load", f0, "--update", names, f1] => do
    let d0 := Load.parseRecords ((← IO.FS.readFile f0).splitOn "\n")
    let d1 := Load.parseRecords ((← IO.FS.readFile f1).splitOn "\n")
    for l in Load.printLoaded (Load.updateNames d1 (names.splitOn ",") (Load.loadAll d0)) do IO.println l
  | ["--load", f] => do
    let txt ← IO.FS.readFile f
    for l in Load.printLoaded (Load.loadAll (Load.parseRecords (txt.splitOn "\n"))) do IO.println l
  | [f] => do
    let hnd ← IO.FS.Handle.mk f IO.FS.Mode.read
    loop (IO.FS.Stream.ofHandle hnd) {}
  | _ => loop (← IO.getStdin) {}
