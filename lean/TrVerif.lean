import TrVerif.Model.Basic
import TrVerif.Model.Data
import TrVerif.Model.Scan
import TrVerif.Model.Journey
import TrVerif.Model.Calc
import TrVerif.Model.Render
import TrVerif.Model.Driver
