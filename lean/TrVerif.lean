-- This module serves as the root of the `TrVerif` library.
-- Import modules here that should be built as part of the library.
import TrVerif.Basic
