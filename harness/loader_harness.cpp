// loader_harness: cache directory -> LOADED text of /verif/notes/loader-protocol.md (what the REAL loader built).
//
//   loader_harness <cache-dir>
//
// Runs the repository's own code exactly like the server's main does (transit_routing_http_server.cpp):
//   TrRouting::CacheFetcher fetcher(<cache-dir>);  TrRouting::TransitData data(fetcher, false);
// (the constructor runs loadAllData) and dumps the result through the public getters of TransitData.
// No guard is put around the real code: an ASan report / abort / uncaught exception is a result for the caller.
//
// Access to TransitData::connections / forwardConnections / reverseConnections: they are PROTECTED members without a
// public getter that preserves creation order, so the dump goes through a derived class (`Probe`, plain C++
// protected access; no `#define private public` trick is needed).
#include <iostream>
#include <sstream>
#include <string>
#include <vector>
#include <map>
#include <functional>
#include <optional>
#include <memory>
#include <boost/uuid/uuid.hpp>
#include <boost/uuid/uuid_io.hpp>
#include "spdlog/spdlog.h"
#include "cache_fetcher.hpp"
#include "transit_data.hpp"
#include "connection.hpp"
#include "node.hpp"
#include "line.hpp"
#include "path.hpp"
#include "trip.hpp"
#include "mode.hpp"
#include "agency.hpp"
#include "service.hpp"
#include "scenario.hpp"

extern "C" void trrouting_verif_point(const char *) {}

using namespace TrRouting;

struct Probe : public TransitData {
  Probe(DataFetcher &f, bool cacheAll) : TransitData(f, cacheAll) {}
  const std::vector<Connection> &conns() const { return connections; }
  const std::vector<std::reference_wrapper<const Connection>> &fwd() const { return forwardConnections; }
  const std::vector<std::reference_wrapper<const Connection>> &rev() const { return reverseConnections; }
};

// 128-bit value of a uuid (most significant byte first) as a decimal string
static std::string U(const boost::uuids::uuid &u) {
  unsigned __int128 v = 0;
  for (int i = 0; i < 16; i++) v = (v << 8) | (unsigned __int128)u.data[i];
  if (v == 0) return "0";
  char buf[48]; int n = 0;
  while (v != 0) { buf[n++] = (char)('0' + (int)(v % 10)); v /= 10; }
  std::string s; while (n > 0) s += buf[--n];
  return s;
}
static std::string S(const std::string &s) {
  if (s.empty()) return "?";
  for (unsigned char c : s) if (!(isalnum(c) || c == '_')) return "?";
  return s;
}
static const char *statusName(DataStatus s) {
  switch (s) {
    case DataStatus::READY: return "READY";
    case DataStatus::DATA_READ_ERROR: return "DATA_READ_ERROR";
    case DataStatus::NO_AGENCIES: return "NO_AGENCIES";
    case DataStatus::NO_LINES: return "NO_LINES";
    case DataStatus::NO_PATHS: return "NO_PATHS";
    case DataStatus::NO_SERVICES: return "NO_SERVICES";
    case DataStatus::NO_SCENARIOS: return "NO_SCENARIOS";
    case DataStatus::NO_SCHEDULES: return "NO_SCHEDULES";
    case DataStatus::NO_NODES: return "NO_NODES";
  }
  return "?";
}
template <class V> static std::string uuidRefs(const V &v) { std::string s; for (auto &r : v) s += " " + U(r.get().uuid); return s; }
template <class V> static std::string modeRefs(const V &v) { std::string s; for (auto &r : v) s += " " + S(r.get().shortname); return s; }

int main(int argc, char **argv) {
  if (argc != 2 && argc != 5) { std::cerr << "usage: loader_harness <cache-dir> [--update <name,name,...> <custom path relative to cache-dir>]\n"; return 2; }
  spdlog::set_level(spdlog::level::off);
  CacheFetcher fetcher(argv[1]);
  Probe data(fetcher, false);
  if (argc == 5) {
    // the update calls of the /updateCache handler (transit_routing_http_server.cpp), same order, return values ignored
    std::string names = argv[3], custom = argv[4];
    std::vector<std::string> list; { std::istringstream is(names); std::string w; while (std::getline(is, w, ',')) list.push_back(w); }
    for (auto &n : list) {
      if (n == "data_sources" || n == "all") data.updateDataSources(custom);
      if (n == "persons" || n == "all") data.updatePersons(custom);
      if (n == "od_trips" || n == "all") data.updateOdTrips(custom);
      if (n == "agencies" || n == "all") data.updateAgencies(custom);
      if (n == "services" || n == "all") data.updateServices(custom);
      if (n == "nodes" || n == "all") data.updateNodes(custom);
      if (n == "lines" || n == "all") data.updateLines(custom);
      if (n == "paths" || n == "all") data.updatePaths(custom);
      if (n == "scenarios" || n == "all") data.updateScenarios(custom);
      if (n == "schedules" || n == "all") data.updateSchedules(custom);
    }
  }

  std::ostream &o = std::cout;
  o << "loaded\n";
  o << "datastatus " << statusName(data.getDataStatus()) << "\n";
  o << "agencies"; for (auto &kv : data.getAgencies()) o << " " << U(kv.first); o << "\n";
  o << "services"; for (auto &kv : data.getServices()) o << " " << U(kv.first); o << "\n";
  o << "nodes"; for (auto &kv : data.getNodes()) o << " " << U(kv.first); o << "\n";
  for (auto &kv : data.getNodes()) {
    const Node &n = kv.second;
    o << "foot " << U(kv.first);
    for (auto &t : n.transferableNodes) o << " ; " << U(t.node.uuid) << " " << t.time << " " << t.distance;
    o << "\n";
    o << "rfoot " << U(kv.first);
    for (auto &t : n.reverseTransferableNodes) o << " ; " << U(t.node.uuid) << " " << t.time << " " << t.distance;
    o << "\n";
  }
  for (auto &kv : data.getLines()) {
    const Line &l = kv.second;
    o << "line " << U(kv.first) << " " << U(l.agency.uuid) << " " << S(l.mode.shortname) << "\n";
  }
  for (auto &kv : data.getPaths()) {
    const Path &p = kv.second;
    o << "path " << U(kv.first) << " " << U(p.line.uuid) << " ;" << uuidRefs(p.nodesRef) << " ;";
    for (int d : p.segmentsDistanceMeters) o << " " << d;
    o << "\n";
  }
  for (auto &kv : data.getScenarios()) {
    const Scenario &s = kv.second;
    o << "scenario " << U(kv.first) << " ;" << uuidRefs(s.servicesList)
      << " ;" << uuidRefs(s.onlyLines) << " ;" << uuidRefs(s.exceptLines)
      << " ;" << uuidRefs(s.onlyAgencies) << " ;" << uuidRefs(s.exceptAgencies)
      << " ;" << uuidRefs(s.onlyNodes) << " ;" << uuidRefs(s.exceptNodes)
      << " ;" << modeRefs(s.onlyModes) << " ;" << modeRefs(s.exceptModes) << "\n";
  }
  for (auto &kv : data.getTrips()) {
    const Trip &t = kv.second;
    o << "trip " << U(kv.first) << " " << U(t.path.uuid) << " " << U(t.line.uuid) << " " << U(t.agency.uuid) << " "
      << S(t.mode.shortname) << " " << U(t.service.uuid) << "\n";
  }
  for (const Connection &c : data.conns()) {
    o << "conn " << U(c.getDepartureNode().uuid) << " " << U(c.getArrivalNode().uuid) << " " << c.getDepartureTime() << " "
      << c.getArrivalTime() << " " << U(c.getTrip().uuid) << " " << c.getSequenceInTrip() << " " << (c.canBoard() ? 1 : 0) << " "
      << (c.canUnboard() ? 1 : 0) << " " << (int)c.getMinWaitingTime() << "\n";
  }
  o << "fwd"; for (auto &r : data.fwd()) o << " " << U(r.get().getTrip().uuid) << ":" << r.get().getSequenceInTrip(); o << "\n";
  o << "rev"; for (auto &r : data.rev()) o << " " << U(r.get().getTrip().uuid) << ":" << r.get().getSequenceInTrip(); o << "\n";
  o << "end\n";
  o.flush();
  return 0;
}
