// In-process correspondence harness for trRouting (no routing logic of its own).
//
// Reads the /verif line protocol (see DESIGN.md 3.2) from the file given as argv[1]
// (or stdin), builds the dataset through an in-memory DataFetcher, answers every
// request line with the repository's real TransitData / Calculator /
// ResultToV2*Response classes -- one fresh Calculator per request, exactly like the
// HTTP handlers -- and prints one line per request:
//      A <dataset-id> <request-index> <compact JSON body>
// A file may contain many blocks "dataset <id> ... end".
#include <iostream>
#include <fstream>
#include <sstream>
#include <map>
#include <vector>
#include <string>
#include <boost/uuid/uuid.hpp>
#include <boost/uuid/uuid_io.hpp>
#include <boost/uuid/string_generator.hpp>
#include <nlohmann/json.hpp>
#include "spdlog/spdlog.h"
#include "data_fetcher.hpp"
#include "transit_data.hpp"
#include "calculator.hpp"
#include "geofilter.hpp"
#include "node.hpp"
#include "line.hpp"
#include "path.hpp"
#include "trip.hpp"
#include "mode.hpp"
#include "agency.hpp"
#include "service.hpp"
#include "scenario.hpp"
#include "data_source.hpp"
#include "person.hpp"
#include "od_trip.hpp"
#include "point.hpp"
#include "parameters.hpp"
#include "routing_result.hpp"
#include "result_to_v2.hpp"
#include "result_to_v2_accessibility.hpp"
#include "result_to_v2_summary.hpp"

// line short names are deliberately NOT unique (lines 0 and 2 share "L0", every fourth line has an empty one): anything that
// identifies a line by its short name instead of its uuid collapses two lines (check/canon.py line_short mirrors this)
static inline std::string verifLineShortname(size_t i) { return i % 4 == 3 ? std::string("") : "L" + std::to_string(i % 2); }

using namespace TrRouting;

extern "C" void trrouting_verif_point(const char *) {}

static boost::uuids::uuid mk(int kind, int i) {
  char buf[64];
  snprintf(buf, sizeof buf, "00000000-0000-0000-%04x-%012x", kind, i);
  return boost::uuids::string_generator()(std::string(buf));
}
// modes 0 and 1 are two entries of the server's own table that share one extended GTFS route type (tram / tramTrain: 900), so that a
// comparison of modes by anything but their name shows (seeded change C02-r5)
static const char *MODES[] = {"tram", "tramTrain", "transferable"};

struct DS {
  int nstops = 0;
  std::vector<std::tuple<int,int,int,int>> foot; // a b time dist
  struct L { int agency; int mode; };
  std::vector<L> lines;
  struct P { int line; std::vector<int> stops; std::vector<int> dist; };
  std::vector<P> paths;
  struct T { int path; int service; int id; std::vector<int> arr, dep, cb, cu; };
  std::vector<T> trips, trips2;
  int nagencies = 1, nservices = 1;
  struct S { std::vector<int> services, onlyLines, exceptLines, onlyAgencies, exceptAgencies, onlyModes, exceptModes; };
  std::vector<S> scenarios;
  bool cacheAll = false;
};

struct Fetch : DataFetcher {
  DS &d; Fetch(DS &d_) : d(d_) {}
  const std::map<std::string, Mode> getModes() override {
    std::map<std::string, Mode> m;
    m.emplace("bus", Mode("bus", "Bus", 3, 700));
    m.emplace("tram", Mode("tram", "Tram/LRT", 0, 900));
    m.emplace("tramTrain", Mode("tramTrain", "Tram Train", 0, 900));
    m.emplace("rail", Mode("rail", "Rail", 2, 100));
    m.emplace(Mode::TRANSFERABLE, Mode(Mode::TRANSFERABLE, "Transferable", -1, -1));
    return m;
  }
  int getDataSources(std::map<boost::uuids::uuid, DataSource>&, std::string) override { return 0; }
  int getPersons(std::map<boost::uuids::uuid, Person>&, const std::map<boost::uuids::uuid, DataSource>&, std::string) override { return 0; }
  int getOdTrips(std::map<boost::uuids::uuid, OdTrip>&, const std::map<boost::uuids::uuid, DataSource>&, const std::map<boost::uuids::uuid, Person>&, const std::map<boost::uuids::uuid, Node>&, std::string) override { return 0; }
  int getAgencies(std::map<boost::uuids::uuid, Agency>& ts, std::string) override {
    ts.clear();
    for (int i = 0; i < d.nagencies; i++) { Agency a; a.uuid = mk(2, i); a.acronym = "A" + std::to_string(i); a.name = "Agency" + std::to_string(i); ts[a.uuid] = a; }
    return 0;
  }
  int getServices(std::map<boost::uuids::uuid, Service>& ts, std::string) override {
    ts.clear();
    for (int i = 0; i < d.nservices; i++) { Service s; s.uuid = mk(3, i); s.name = "S" + std::to_string(i); ts[s.uuid] = s; }
    return 0;
  }
  int getNodes(std::map<boost::uuids::uuid, Node>& ts, std::string) override {
    ts.clear();
    for (int i = 0; i < d.nstops; i++)
      ts.emplace(mk(1, i), Node(mk(1, i), i, "c" + std::to_string(i), "n" + std::to_string(i), "", std::make_unique<Point>(0.0, i)));
    for (auto &[a, b, t, di] : d.foot) {
      ts.at(mk(1, a)).transferableNodes.push_back(NodeTimeDistance(ts.at(mk(1, b)), t, di));
      ts.at(mk(1, b)).reverseTransferableNodes.push_back(NodeTimeDistance(ts.at(mk(1, a)), t, di));
    }
    return 0;
  }
  int getLines(std::map<boost::uuids::uuid, Line>& ts, const std::map<boost::uuids::uuid, Agency>& ag, const std::map<std::string, Mode>& modes, std::string) override {
    ts.clear();
    for (size_t i = 0; i < d.lines.size(); i++)
      ts.emplace(mk(4, i), Line(mk(4, i), ag.at(mk(2, d.lines[i].agency)), modes.at(MODES[d.lines[i].mode]), verifLineShortname(i), "Line" + std::to_string(i), "", 0));
    return 0;
  }
  int getPaths(std::map<boost::uuids::uuid, Path>& ts, const std::map<boost::uuids::uuid, Line>& lines, const std::map<boost::uuids::uuid, Node>& nodes, std::string) override {
    ts.clear();
    for (size_t i = 0; i < d.paths.size(); i++) {
      std::vector<std::reference_wrapper<const Node>> nr; std::vector<std::reference_wrapper<const Trip>> tr; std::vector<int> tt;
      for (int s : d.paths[i].stops) nr.push_back(nodes.at(mk(1, s)));
      ts.emplace(mk(5, i), Path(mk(5, i), lines.at(mk(4, d.paths[i].line)), "o", "", nr, tr, tt, d.paths[i].dist));
    }
    return 0;
  }
  int getScenarios(std::map<boost::uuids::uuid, Scenario>& ts, const std::map<boost::uuids::uuid, Service>& sv, const std::map<boost::uuids::uuid, Line>& ln, const std::map<boost::uuids::uuid, Agency>& ag, const std::map<boost::uuids::uuid, Node>&, const std::map<std::string, Mode>& md, std::string) override {
    ts.clear();
    for (size_t i = 0; i < d.scenarios.size(); i++) {
      auto u = mk(6, i); auto &s = ts[u]; s.uuid = u; s.name = "sc";
      for (int x : d.scenarios[i].services) s.servicesList.push_back(sv.at(mk(3, x)));
      for (int x : d.scenarios[i].onlyLines) s.onlyLines.push_back(ln.at(mk(4, x)));
      for (int x : d.scenarios[i].exceptLines) s.exceptLines.push_back(ln.at(mk(4, x)));
      for (int x : d.scenarios[i].onlyAgencies) s.onlyAgencies.push_back(ag.at(mk(2, x)));
      for (int x : d.scenarios[i].exceptAgencies) s.exceptAgencies.push_back(ag.at(mk(2, x)));
      for (int x : d.scenarios[i].onlyModes) s.onlyModes.push_back(md.at(MODES[x]));
      for (int x : d.scenarios[i].exceptModes) s.exceptModes.push_back(md.at(MODES[x]));
    }
    return 0;
  }
  int getSchedules(std::map<boost::uuids::uuid, Trip>& trips, const std::map<boost::uuids::uuid, Line>&, std::map<boost::uuids::uuid, Path>& paths, const std::map<boost::uuids::uuid, Service>& services, std::vector<Connection>& connections, std::string) override {
    // same clearing discipline as the real CacheFetcher (trips_and_connections_cache_fetcher.cpp:32-34)
    trips.clear(); connections.clear(); connections.shrink_to_fit();
    size_t total = 0; for (auto &t : d.trips) total += t.arr.empty() ? 0 : t.arr.size() - 1;
    connections.reserve(total);
    for (size_t i = 0; i < d.trips.size(); i++) {
      auto &t = d.trips[i]; Path &p = paths.at(mk(5, t.path)); const Line &l = p.line;
      auto u = mk(7, t.id);
      trips.emplace(u, Trip(u, l.agency, l, p, l.mode, services.at(mk(3, t.service)), 0));
      Trip &trip = trips.at(u);
      for (size_t k = 0; k + 1 < t.arr.size(); k++)
        connections.push_back(Connection(p.nodesRef[k].get(), p.nodesRef[k + 1].get(), t.dep[k], t.arr[k + 1], trip, t.cb[k] == 1, t.cu[k + 1] == 1, k + 1, 0, l.mode.isTransferable() ? 0 : -1));
    }
    return 0;
  }
};

// The walking router as a table: origin/place for departure queries has latitude 1 ("0,1"),
// destination / place for arrival queries has latitude 2 ("0,2").
struct TableGeo : GeoFilter {
  std::vector<std::tuple<int,int,int>> acc, egr; // stop time dist
  std::vector<NodeTimeDistance> getAccessibleNodesFootpathsFromPoint(const Point &point, const std::map<boost::uuids::uuid, Node> &nodes, int maxT, float, bool) override {
    std::vector<NodeTimeDistance> r;
    auto &tab = point.latitude < 1.5 ? acc : egr;
    for (auto &[s, t, di] : tab) if (t <= maxT) r.push_back(NodeTimeDistance(nodes.at(mk(1, s)), t, di));
    return r;
  }
};

static std::vector<int> ints(std::istringstream &is) { std::vector<int> v; std::string w; while (is >> w) { if (w == ";") break; v.push_back(std::stoi(w)); } return v; }

static void runBlock(const std::string &id, DS &d, TableGeo &geo, const std::vector<std::string> &requests) {
  Fetch f(d);
  TransitData td(f, d.cacheAll);
  int idx = 0;
  for (auto &q : requests) {
    std::istringstream is(q); std::string kind; is >> kind;
    std::cout << "A " << id << " " << idx++ << " ";
    if (kind == "update") {
      std::string what; nlohmann::json r; r["status"] = "updated";
      while (is >> what) {
        if (what == "swap") { std::swap(d.trips, d.trips2); continue; }
        int ret = -999;
        if (what == "schedules") ret = td.updateSchedules();
        else if (what == "scenarios") ret = td.updateScenarios();
        else if (what == "paths") ret = td.updatePaths();
        else if (what == "lines") ret = td.updateLines();
        else if (what == "nodes") ret = td.updateNodes();
        else if (what == "services") ret = td.updateServices();
        else if (what == "agencies") ret = td.updateAgencies();
        r[what] = ret;
      }
      std::cout << r.dump() << "\n"; continue;
    }
    std::vector<std::pair<std::string, std::string>> params;
    std::string kv;
    bool hasPlace = false, hasOrigin = false, hasDest = false;
    while (is >> kv) {
      auto p = kv.find('='); std::string key = kv.substr(0, p), val = p == std::string::npos ? "" : kv.substr(p + 1);
      if (key == "scenario") { key = "scenario_id"; val = boost::uuids::to_string(mk(6, std::stoi(val))); }
      if (key == "place") hasPlace = true;
      if (key == "origin") hasOrigin = true;
      if (key == "destination") hasDest = true;
      params.push_back({key, val});
    }
    Calculator calc(td, geo);
    try {
      if (kind == "accessibility") {
        bool fwd = true; for (auto &p : params) if (p.first == "time_type" && p.second == "1") fwd = false;
        if (!hasPlace) params.push_back({"place", fwd ? "0,1" : "0,2"});
        auto qp = AccessibilityParameters::createAccessibilityParameter(params, td.getScenarios());
        try { auto r = calc.calculateAllNodes(qp); if (r.get() != nullptr) std::cout << ResultToV2AccessibilityResponse::resultToJsonString(*r, qp).dump() << "\n"; else std::cout << "{\"status\":\"empty\"}\n"; }
        catch (NoRoutingFoundException &e) { std::cout << ResultToV2AccessibilityResponse::noRoutingFoundResponse(qp, e.getReason()).dump() << "\n"; }
      } else {
        if (!hasOrigin) params.push_back({"origin", "0,1"});
        if (!hasDest) params.push_back({"destination", "0,2"});
        auto qp = RouteParameters::createRouteODParameter(params, td.getScenarios());
        bool summary = kind == "summary";
        try {
          if (qp.isWithAlternatives()) {
            auto r = calc.alternativesRouting(qp);
            std::cout << (summary ? ResultToV2SummaryResponse::resultToJsonString(r, qp) : ResultToV2Response::resultToJsonString(r, qp)).dump() << "\n";
          } else {
            auto r = calc.calculateSingle(qp);
            if (r.get() != nullptr) std::cout << (summary ? ResultToV2SummaryResponse::resultToJsonString(*r, qp) : ResultToV2Response::resultToJsonString(*r, qp)).dump() << "\n";
            else std::cout << "{\"status\":\"empty\"}\n";
          }
        } catch (NoRoutingFoundException &e) {
          std::cout << (summary ? ResultToV2SummaryResponse::noRoutingFoundResponse(qp, e.getReason()) : ResultToV2Response::noRoutingFoundResponse(qp, e.getReason())).dump() << "\n";
        }
      }
    } catch (ParameterException &e) { std::cout << "{\"status\":\"query_error\",\"type\":" << (int)e.getType() << "}\n"; }
    catch (std::exception &e) { nlohmann::json j; j["status"] = "exception"; j["what"] = e.what(); std::cout << j.dump() << "\n"; }
    std::cout.flush();
  }
}

int main(int argc, char **argv) {
  spdlog::set_level(getenv("TRDEBUG") ? spdlog::level::debug : spdlog::level::off);
  std::ifstream fin; if (argc > 1) fin.open(argv[1]);
  std::istream &in = argc > 1 ? static_cast<std::istream&>(fin) : std::cin;
  DS d; TableGeo geo; std::vector<std::string> requests; std::string id = "0";
  std::string line;
  auto flush = [&]() { if (d.nstops > 0 || !requests.empty()) runBlock(id, d, geo, requests); d = DS(); geo = TableGeo(); requests.clear(); };
  while (std::getline(in, line)) {
    std::istringstream is(line); std::string k; is >> k;
    if (k.empty() || k[0] == '#') continue;
    if (k == "dataset") { flush(); is >> id; }
    else if (k == "end") { flush(); }
    else if (k == "stops") is >> d.nstops;
    else if (k == "agencies") is >> d.nagencies;
    else if (k == "services") is >> d.nservices;
    else if (k == "cacheall") { int x; is >> x; d.cacheAll = x != 0; }
    else if (k == "foot") { int a, b, t, x; is >> a >> b >> t >> x; d.foot.push_back({a, b, t, x}); }
    else if (k == "line") { DS::L l; is >> l.agency >> l.mode; d.lines.push_back(l); }
    else if (k == "path") { DS::P p; is >> p.line; p.stops = ints(is); p.dist = ints(is); d.paths.push_back(p); }
    else if (k == "trip" || k == "trip2") { DS::T t; is >> t.path >> t.service >> t.id; t.arr = ints(is); t.dep = ints(is); t.cb = ints(is); t.cu = ints(is);
      if (t.cb.empty()) t.cb.assign(t.arr.size(), 1); if (t.cu.empty()) t.cu.assign(t.arr.size(), 1); (k == "trip" ? d.trips : d.trips2).push_back(t); }
    else if (k == "scenario") { DS::S s; s.services = ints(is); s.onlyLines = ints(is); s.exceptLines = ints(is); s.onlyAgencies = ints(is); s.exceptAgencies = ints(is); s.onlyModes = ints(is); s.exceptModes = ints(is); d.scenarios.push_back(s); }
    else if (k == "access") { int s, t, x; is >> s >> t >> x; geo.acc.push_back({s, t, x}); }
    else if (k == "egress") { int s, t, x; is >> s >> t >> x; geo.egr.push_back({s, t, x}); }
    else if (k == "route" || k == "accessibility" || k == "summary" || k == "update") requests.push_back(line);
    else { std::cerr << "bad line: " << line << "\n"; return 2; }
  }
  flush();
  return 0;
}
