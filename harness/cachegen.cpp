// cachegen: ONE dataset block of the /verif line protocol -> Cap'n Proto cache directory, written with the
// repository's own compiled schemas (/repo/include/capnp/*.capnp), as the real CacheFetcher reads it.
//
//   cachegen <dataset.txt> <out-dir> [--break <kind>[:<index>|:all]] [--trips2] [--list-breaks]
//
// The protocol is the one core_harness.cpp parses (DESIGN.md 3.2).  Only the first block of the file is
// used (reading stops at its `end`); request lines and `access` / `egress` lines are ignored (the access
// and egress tables belong to the walking-router stub, not to the cache).  `--trips2` encodes the `trip2`
// lines instead of the `trip` lines (second timetable of a refresh history).
//
// Encoding (the spec `encode` of C16 at record level):
//   * identifiers: integer i of kind k -> UUID 00000000-0000-0000-kkkk-iiiiiiiiiiii
//       (1 node, 2 agency, 3 service, 4 line, 5 path, 6 scenario, 7 trip);
//   * names exactly as core_harness.cpp: node code "c<i>" name "n<i>", agency acronym "A<i>" name
//       "Agency<i>", line shortname verifLineShortname(i) (NOT unique: "L0","L1","L0","",...) longname "Line<i>", service "S<i>", scenario name "sc";
//   * stop i lies at latitude 45.000000 + i * 1e-6, longitude -73.000000 (1 micro-degree = 0.11 m apart, so
//       that the bird-distance pre-filter of the OSRM client passes every stop and the stub decides);
//   * nodes/node_<uuid>.capnpbin of stop a lists the footpaths a -> b (uuid, time, distance) in dataset
//       order; the loader derives the reverse lists itself and appends a (self,0,0) entry to every
//       reverse list (nodes_cache_fetcher.cpp:133-162); times / distances are Int16 in the schema;
//   * modes 0,1,2 -> "tram","tramTrain","transferable" (0 and 1 share one extended GTFS route type in the server's table);
//   * a path's segment distances go to the JSON `data` field: {"segments":[{"distanceMeters":d,
//       "travelTimeSeconds":t}, ...]} with one object per encoded distance (paths_cache_fetcher.cpp:80-92);
//       travelTimeSeconds is 1000+k (never used by the calculation; deliberately unlike any distance);
//   * lines/line_<uuid>.capnpbin: one Schedule per service that has a trip on the line, one Period each,
//       trips in dataset order with nodeArrivalTimesSeconds / nodeDepartureTimesSeconds / nodesCanBoard /
//       nodesCanUnboard in stop order;
//   * scenarios carry all seven lists (services, only/except lines, only/except agencies, only/except
//       modes by shortname).
//
// --break kinds (cross-file inconsistencies of property C17; default target = record 0 of the affected
// kind, `:N` = record N modulo the count, `:all` = every record): see BREAKS below / --list-breaks.
#include <iostream>
#include <fstream>
#include <sstream>
#include <vector>
#include <string>
#include <tuple>
#include <algorithm>
#include <cstring>
#include <fcntl.h>
#include <unistd.h>
#include <sys/stat.h>
#include <capnp/message.h>
#include <capnp/serialize-packed.h>
#include "capnp/nodeCollection.capnp.h"
#include "capnp/node.capnp.h"
#include "capnp/lineCollection.capnp.h"
#include "capnp/line.capnp.h"
#include "capnp/pathCollection.capnp.h"
#include "capnp/scenarioCollection.capnp.h"
#include "capnp/serviceCollection.capnp.h"
#include "capnp/agencyCollection.capnp.h"

// line short names are deliberately NOT unique (lines 0 and 2 share "L0", every fourth line has an empty one): anything that
// identifies a line by its short name instead of its uuid collapses two lines (check/canon.py line_short mirrors this)
static inline std::string verifLineShortname(size_t i) { return i % 4 == 3 ? std::string("") : "L" + std::to_string(i % 2); }

static const char *BREAKS[][2] = {
  {"trip_path",        "a trip refers to a path uuid that paths.capnpbin does not define"},
  {"trip_service",     "a schedule refers to a service uuid that services.capnpbin does not define"},
  {"trip_uuid",        "a trip's uuid is not uuid text (\"not-a-uuid\")"},
  {"trip_path_uuid",   "a trip's pathUuid is not uuid text"},
  {"trip_empty",       "a trip has no stop times at all (all four arrays empty)"},
  {"trip_long",        "a trip has 3 more stop times than its path has stops"},
  {"trip_long1",       "boundary: a trip has exactly one more stop time than its path has stops"},
  {"trip_single",      "boundary: a trip has a single stop time (no connection)"},
  {"trip_short_dep",   "short parallel array: departure times one shorter than arrival times"},
  {"trip_short_flags", "short parallel arrays: canBoard / canUnboard one shorter than the times"},
  {"line_agency",      "a line refers to an agency uuid that agencies.capnpbin does not define"},
  {"line_mode",        "a line has a mode shortname that is not in the mode table (\"hovercraft\")"},
  {"line_file_missing","the per-line schedule file of a line is not written"},
  {"foot_unknown",     "a per-stop file lists a footpath to a stop uuid that nodes.capnpbin does not define"},
  {"foot_uuid",        "a per-stop file lists a footpath target that is not uuid text"},
  {"foot_short_time",  "short parallel array: footpath travel times one shorter than the uuids"},
  {"foot_short_dist",  "short parallel array: footpath distances one shorter than the uuids"},
  {"node_file_missing","the per-stop file of a stop is not written"},
  {"path_node",        "a path lists a stop uuid that nodes.capnpbin does not define"},
  {"path_line",        "a path refers to a line uuid that lines.capnpbin does not define"},
  {"path_data",        "a path's JSON data field is not JSON"},
  {"scenario_ids",     "a scenario lists unknown service, line, agency ids and an unknown mode next to the valid ones"},
  {"scenario_only_unknown", "a scenario's lists contain ONLY unknown ids (services included)"},
  {"scenario_uuid",    "a scenario's service list contains text that is not a uuid"},
  // record-level quirks of the loaders (added with the Lean loader model, Model/Load.lean)
  {"dup_trip",         "a trip carries the uuid of the previous trip of its period (emplace keeps the first, its connections are appended to it)"},
  {"trip_foreign_path","a trip refers to a path of ANOTHER line (the next path of the dataset)"},
  {"trip_backwards",   "a trip arrives at its second stop before it leaves the first"},
  {"foot_negative",    "the last footpath of a stop has a negative travel time"},
  {"dup_node",         "nodes.capnpbin lists the uuid of a stop twice (extra record at the end)"},
  {"dup_line",         "a line record carries the uuid of the previous line record (the later line vanishes, its paths dangle)"},
  {"dup_path",         "a path record carries the uuid of the previous path record"},
  {"dup_scenario",     "a scenario record carries the uuid of the previous scenario record (lists assigned over the first)"},
  {"scenario_bad_late","a scenario's exceptLines list ends with text that is not a uuid (earlier lists are already assigned)"},
  {"scenario_sim_bad", "a scenario's simulationUuid is not uuid text"},
  {"path_seg_wrong",   "a path's first segment has a distanceMeters that is a string"},
  {"path_seg_null",    "a path's first segment has distanceMeters null"},
  {"path_extra_segs",  "a path's JSON lists two more segments than it has stops"},
};

static std::string mk(int kind, long i) { char b[64]; snprintf(b, sizeof b, "00000000-0000-0000-%04x-%012lx", kind, i); return b; }
static const char *MODES[] = {"tram", "tramTrain", "transferable"};
static std::vector<int> ints(std::istringstream &is) { std::vector<int> v; std::string w; while (is >> w) { if (w == ";") break; v.push_back(std::stoi(w)); } return v; }
static bool save(::capnp::MessageBuilder &m, const std::string &p) {
  int fd = open(p.c_str(), O_WRONLY | O_CREAT | O_TRUNC, 0644);
  if (fd < 0) { std::cerr << "cachegen: cannot write " << p << ": " << strerror(errno) << "\n"; exit(4); }
  ::capnp::writePackedMessageToFd(fd, m); close(fd); return true;
}
struct L { int agency; int mode; };
struct P { int line; std::vector<int> stops, dist; };
struct T { int path, service, id; std::vector<int> arr, dep, cb, cu; };
struct S { std::vector<int> l[7]; }; // services onlyLines exceptLines onlyAgencies exceptAgencies onlyModes exceptModes

static std::string brkKind; static long brkIndex = 0; static bool brkAll = false;
// does break `kind` apply to record `i` of `n`?
static bool B(const char *kind, size_t i, size_t n) {
  if (brkKind != kind || n == 0) return false;
  return brkAll || (size_t)(brkIndex % (long)n) == i;
}

int main(int argc, char **argv) {
  std::vector<std::string> pos; bool useTrips2 = false;
  for (int a = 1; a < argc; a++) {
    std::string s = argv[a];
    if (s == "--list-breaks") { for (auto &b : BREAKS) std::cout << b[0] << "\t" << b[1] << "\n"; return 0; }
    else if (s == "--trips2") useTrips2 = true;
    else if (s == "--break" && a + 1 < argc) {
      brkKind = argv[++a];
      auto c = brkKind.find(':');
      if (c != std::string::npos) { std::string ix = brkKind.substr(c + 1); brkKind = brkKind.substr(0, c); if (ix == "all") brkAll = true; else brkIndex = std::stol(ix); }
      bool known = false; for (auto &b : BREAKS) if (brkKind == b[0]) known = true;
      if (!known) { std::cerr << "cachegen: unknown --break kind " << brkKind << " (see --list-breaks)\n"; return 2; }
    }
    else pos.push_back(s);
  }
  if (pos.size() != 2) { std::cerr << "usage: cachegen <dataset.txt> <out-dir> [--break kind[:index|:all]] [--trips2] | --list-breaks\n"; return 2; }
  std::ifstream in(pos[0]); if (!in) { std::cerr << "cachegen: cannot read " << pos[0] << "\n"; return 2; }
  std::string dir = pos[1];

  int nstops = 0, nag = 1, nsv = 1; std::vector<std::tuple<int,int,int,int>> foot; std::vector<L> lines; std::vector<P> paths;
  std::vector<T> trips, trips2; std::vector<S> scs;
  std::string line; bool started = false;
  while (std::getline(in, line)) {
    std::istringstream is(line); std::string k; is >> k;
    if (k.empty() || k[0] == '#') continue;
    if (k == "dataset") { if (started) break; started = true; }
    else if (k == "end") break;
    else if (k == "stops") { is >> nstops; started = true; }
    else if (k == "agencies") is >> nag;
    else if (k == "services") is >> nsv;
    else if (k == "cacheall") {}
    else if (k == "foot") { int a, b, t, x; is >> a >> b >> t >> x; foot.push_back({a, b, t, x}); }
    else if (k == "line") { L l; is >> l.agency >> l.mode; lines.push_back(l); }
    else if (k == "path") { P p; is >> p.line; p.stops = ints(is); p.dist = ints(is); paths.push_back(p); }
    else if (k == "trip" || k == "trip2") { T t; is >> t.path >> t.service >> t.id; t.arr = ints(is); t.dep = ints(is); t.cb = ints(is); t.cu = ints(is);
      if (t.cb.empty()) t.cb.assign(t.arr.size(), 1); if (t.cu.empty()) t.cu.assign(t.arr.size(), 1); (k == "trip" ? trips : trips2).push_back(t); }
    else if (k == "scenario") { S s; for (int i = 0; i < 7; i++) s.l[i] = ints(is); scs.push_back(s); }
    else if (k == "access" || k == "egress" || k == "route" || k == "summary" || k == "accessibility" || k == "update" || k == "newdisk" || k == "sched") {}
    else { std::cerr << "cachegen: bad line: " << line << "\n"; return 2; }
  }
  if (useTrips2) trips = trips2;
  // range checks on what the schema / the encoding can hold (a generator bug must not become a silent wrap-around)
  for (auto &[a, b, t, x] : foot) {
    if (a < 0 || a >= nstops || b < 0 || b >= nstops) { std::cerr << "cachegen: footpath names stop outside 0.." << nstops - 1 << "\n"; return 2; }
    if (t < -32768 || t > 32767 || x < -32768 || x > 32767) { std::cerr << "cachegen: footpath time/distance " << t << "/" << x << " does not fit Int16\n"; return 2; }
  }
  for (auto &l : lines) if (l.mode < 0 || l.mode > 2 || l.agency < 0) { std::cerr << "cachegen: bad line agency/mode\n"; return 2; }
  for (auto &p : paths) if (p.line < 0 || p.line >= (int)lines.size()) { std::cerr << "cachegen: path names unknown line\n"; return 2; }
  for (auto &t : trips) {
    if (t.path < 0 || t.path >= (int)paths.size()) { std::cerr << "cachegen: trip names unknown path\n"; return 2; }
    if (t.dep.size() != t.arr.size() || t.cb.size() != t.arr.size() || t.cu.size() != t.arr.size()) { std::cerr << "cachegen: trip arrays differ in length\n"; return 2; }
  }

  mkdir(dir.c_str(), 0755); mkdir((dir + "/nodes").c_str(), 0755); mkdir((dir + "/lines").c_str(), 0755);

  { ::capnp::MallocMessageBuilder m; auto c = m.initRoot<agencyCollection::AgencyCollection>(); auto l = c.initAgencies(nag);
    for (int i = 0; i < nag; i++) { l[i].setUuid(mk(2, i)); l[i].setAcronym("A" + std::to_string(i)); l[i].setName("Agency" + std::to_string(i)); l[i].setIsEnabled(1); }
    save(m, dir + "/agencies.capnpbin"); }

  { ::capnp::MallocMessageBuilder m; auto c = m.initRoot<serviceCollection::ServiceCollection>(); auto l = c.initServices(nsv);
    for (int i = 0; i < nsv; i++) { l[i].setUuid(mk(3, i)); l[i].setName("S" + std::to_string(i)); l[i].setStartDate("2020-01-01"); l[i].setEndDate("2030-01-01");
      l[i].setMonday(1); l[i].setTuesday(1); l[i].setWednesday(1); l[i].setThursday(1); l[i].setFriday(1); l[i].setSaturday(1); l[i].setSunday(1); l[i].setIsEnabled(1); }
    save(m, dir + "/services.capnpbin"); }

  { ::capnp::MallocMessageBuilder m; auto c = m.initRoot<nodeCollection::NodeCollection>(); bool dupNode = brkKind == "dup_node" && nstops > 0; int dupOf = dupNode ? (brkAll ? nstops - 1 : (int)(brkIndex % nstops)) : 0;
    auto l = c.initNodes(nstops + (dupNode ? 1 : 0));
    for (int i = 0; i < nstops + (dupNode ? 1 : 0); i++) { int j = i < nstops ? i : dupOf; l[i].setUuid(mk(1, j)); l[i].setId(i); l[i].setCode("c" + std::to_string(i)); l[i].setName("n" + std::to_string(i));
      l[i].setLatitude(45000000 + i); l[i].setLongitude(-73000000); l[i].setIsEnabled(1); }
    save(m, dir + "/nodes.capnpbin"); }

  for (int i = 0; i < nstops; i++) {
    if (B("node_file_missing", i, nstops)) continue;
    ::capnp::MallocMessageBuilder m; auto n = m.initRoot<node::Node>(); n.setUuid(mk(1, i)); n.setId(i);
    n.setCode("c" + std::to_string(i)); n.setName("n" + std::to_string(i)); n.setLatitude(45000000 + i); n.setLongitude(-73000000);
    std::vector<std::tuple<int,int,int>> f; for (auto &[a, b, t, x] : foot) if (a == i) f.push_back({b, t, x});
    size_t nt = f.size(), nd = f.size();
    if (B("foot_short_time", i, nstops) && nt > 0) nt--;
    if (B("foot_short_dist", i, nstops) && nd > 0) nd--;
    auto u = n.initTransferableNodesUuids(f.size()); auto tt = n.initTransferableNodesTravelTimes(nt); auto dd = n.initTransferableNodesDistances(nd);
    for (size_t k = 0; k < f.size(); k++) {
      std::string target = mk(1, std::get<0>(f[k]));
      // the inconsistent entry is the LAST footpath of the stop (the self loop usually comes first and stays valid)
      if (k + 1 == f.size() && B("foot_unknown", i, nstops)) target = mk(1, 999);
      if (k + 1 == f.size() && B("foot_uuid", i, nstops)) target = "not-a-uuid";
      u.set(k, target);
      if (k < nt) tt.set(k, (k + 1 == f.size() && B("foot_negative", i, nstops)) ? -5 : std::get<1>(f[k]));
      if (k < nd) dd.set(k, std::get<2>(f[k]));
    }
    save(m, dir + "/nodes/node_" + mk(1, i) + ".capnpbin");
  }

  { ::capnp::MallocMessageBuilder m; auto c = m.initRoot<lineCollection::LineCollection>(); auto l = c.initLines(lines.size());
    for (size_t i = 0; i < lines.size(); i++) {
      l[i].setUuid(mk(4, (i > 0 && B("dup_line", i, lines.size())) ? i - 1 : i)); l[i].setMode(B("line_mode", i, lines.size()) ? "hovercraft" : MODES[lines[i].mode]);
      l[i].setAgencyUuid(B("line_agency", i, lines.size()) ? mk(2, 999) : mk(2, lines[i].agency));
      l[i].setShortname(verifLineShortname(i)); l[i].setLongname("Line" + std::to_string(i)); l[i].setIsEnabled(1); l[i].setAllowSameLineTransfers(0); }
    save(m, dir + "/lines.capnpbin"); }

  { ::capnp::MallocMessageBuilder m; auto c = m.initRoot<pathCollection::PathCollection>(); auto l = c.initPaths(paths.size());
    for (size_t i = 0; i < paths.size(); i++) {
      l[i].setUuid(mk(5, (i > 0 && B("dup_path", i, paths.size())) ? i - 1 : i)); l[i].setId(i); l[i].setLineUuid(B("path_line", i, paths.size()) ? mk(4, 999) : mk(4, paths[i].line)); l[i].setDirection("o"); l[i].setIsEnabled(1);
      auto n = l[i].initNodesUuids(paths[i].stops.size());
      for (size_t k = 0; k < paths[i].stops.size(); k++) n.set(k, (k + 1 == paths[i].stops.size() && B("path_node", i, paths.size())) ? mk(1, 999) : mk(1, paths[i].stops[k]));
      std::string js = "{\"segments\":[";
      size_t nseg = paths[i].dist.size() + (B("path_extra_segs", i, paths.size()) ? paths[i].stops.size() + 2 - paths[i].dist.size() : 0);
      for (size_t k = 0; k < nseg; k++) { if (k) js += ",";
        std::string dm = k < paths[i].dist.size() ? std::to_string(paths[i].dist[k]) : std::to_string(9000 + k);
        if (k == 0 && B("path_seg_wrong", i, paths.size())) dm = "\"abc\"";
        if (k == 0 && B("path_seg_null", i, paths.size())) dm = "null";
        js += "{\"travelTimeSeconds\":" + std::to_string(1000 + k) + ",\"distanceMeters\":" + dm + "}"; }
      js += "]}";
      if (B("path_data", i, paths.size())) js = "{\"segments\":[{";
      l[i].setData(js); }
    save(m, dir + "/paths.capnpbin"); }

  { ::capnp::MallocMessageBuilder m; auto c = m.initRoot<scenarioCollection::ScenarioCollection>(); auto l = c.initScenarios(scs.size());
    for (size_t i = 0; i < scs.size(); i++) {
      l[i].setUuid(mk(6, (i > 0 && B("dup_scenario", i, scs.size())) ? i - 1 : i)); l[i].setName("sc"); l[i].setIsEnabled(1);
      if (B("scenario_sim_bad", i, scs.size())) l[i].setSimulationUuid("not-a-uuid");
      bool addUnknown = B("scenario_ids", i, scs.size()), onlyUnknown = B("scenario_only_unknown", i, scs.size()), badUuid = B("scenario_uuid", i, scs.size());
      static const int KIND[7] = {3, 4, 4, 2, 2, 0, 0};
      for (int w = 0; w < 7; w++) {
        std::vector<std::string> v;
        if (!onlyUnknown) for (int x : scs[i].l[w]) v.push_back(KIND[w] ? mk(KIND[w], x) : std::string(x >= 0 && x <= 2 ? MODES[x] : "hovercraft"));
        // unknown ids are added to the service list and to the EXCEPT lists only when they are otherwise in use or harmless:
        // an unknown id in an `only` list that is otherwise empty would be dropped by the loader and change nothing either.
        if (addUnknown || onlyUnknown) v.insert(v.begin(), KIND[w] ? mk(KIND[w], 999) : std::string("hovercraft"));
        if (badUuid && w == 0) v.push_back("not-a-uuid");
        if (w == 2 && B("scenario_bad_late", i, scs.size())) v.push_back("not-a-uuid");
        ::capnp::List< ::capnp::Text>::Builder lb =
          w == 0 ? l[i].initServicesUuids(v.size()) : w == 1 ? l[i].initOnlyLinesUuids(v.size()) : w == 2 ? l[i].initExceptLinesUuids(v.size()) :
          w == 3 ? l[i].initOnlyAgenciesUuids(v.size()) : w == 4 ? l[i].initExceptAgenciesUuids(v.size()) :
          w == 5 ? l[i].initOnlyModesShortnames(v.size()) : l[i].initExceptModesShortnames(v.size());
        for (size_t k = 0; k < v.size(); k++) lb.set(k, v[k]);
      } }
    save(m, dir + "/scenarios.capnpbin"); }

  size_t tripCounter = 0; // running index over all encoded trips (target of trip_* breaks)
  size_t schedCounter = 0, nSched = 0;
  for (size_t li = 0; li < lines.size(); li++) { std::vector<int> svs; for (auto &t : trips) if (paths[t.path].line == (int)li && std::find(svs.begin(), svs.end(), t.service) == svs.end()) svs.push_back(t.service); nSched += svs.size(); }
  for (size_t li = 0; li < lines.size(); li++) {
    if (B("line_file_missing", li, lines.size())) { for (auto &t : trips) if (paths[t.path].line == (int)li) tripCounter++; continue; }
    ::capnp::MallocMessageBuilder m; auto ln = m.initRoot<line::Line>(); ln.setUuid(mk(4, li));
    ln.setMode(MODES[lines[li].mode]); ln.setAgencyUuid(mk(2, lines[li].agency)); ln.setShortname(verifLineShortname(li)); ln.setLongname("Line" + std::to_string(li));
    std::vector<int> svs; for (auto &t : trips) if (paths[t.path].line == (int)li && std::find(svs.begin(), svs.end(), t.service) == svs.end()) svs.push_back(t.service);
    auto sch = ln.initSchedules(svs.size());
    for (size_t si = 0; si < svs.size(); si++, schedCounter++) {
      sch[si].setUuid(mk(8, li * 1000 + si));
      sch[si].setServiceUuid(B("trip_service", schedCounter, nSched) ? mk(3, 999) : mk(3, svs[si]));
      auto pe = sch[si].initPeriods(1); pe[0].setPeriodShortname("all");
      std::vector<T*> ts; for (auto &t : trips) if (paths[t.path].line == (int)li && t.service == svs[si]) ts.push_back(&t);
      auto tl = pe[0].initTrips(ts.size());
      for (size_t k = 0; k < ts.size(); k++, tripCounter++) {
        T &t = *ts[k]; size_t NT = trips.size();
        tl[k].setUuid(B("trip_uuid", tripCounter, NT) ? "not-a-uuid" : (k > 0 && B("dup_trip", tripCounter, NT)) ? mk(7, ts[k - 1]->id) : mk(7, t.id));
        tl[k].setPathUuid(B("trip_path", tripCounter, NT) ? mk(5, 999) : B("trip_path_uuid", tripCounter, NT) ? "not-a-uuid" : B("trip_foreign_path", tripCounter, NT) ? mk(5, (t.path + 1) % paths.size()) : mk(5, t.path));
        size_t n = t.arr.size();
        if (B("trip_empty", tripCounter, NT)) n = 0;
        if (B("trip_long", tripCounter, NT)) n += 3;
        if (B("trip_long1", tripCounter, NT)) n = paths[t.path].stops.size() + 1;
        if (B("trip_single", tripCounter, NT)) n = 1;
        size_t ndep = n, nfl = n;
        if (B("trip_short_dep", tripCounter, NT) && ndep > 0) ndep--;
        if (B("trip_short_flags", tripCounter, NT) && nfl > 0) nfl--;
        if (!t.arr.empty()) { tl[k].setDepartureTimeSeconds(t.dep.front()); tl[k].setArrivalTimeSeconds(t.arr.back()); }
        auto a = tl[k].initNodeArrivalTimesSeconds(n); auto d = tl[k].initNodeDepartureTimesSeconds(ndep);
        auto cb = tl[k].initNodesCanBoard(nfl); auto cu = tl[k].initNodesCanUnboard(nfl);
        for (size_t x = 0; x < n; x++) {
          size_t y = t.arr.empty() ? 0 : std::min(x, t.arr.size() - 1); int extra = (int)(x - y) * 60;
          a.set(x, t.arr.empty() ? 0 : (x == 1 && B("trip_backwards", tripCounter, NT)) ? t.dep[0] - 1 : t.arr[y] + extra);
          if (x < ndep) d.set(x, t.arr.empty() ? 0 : t.dep[y] + extra);
          if (x < nfl) { cb.set(x, t.arr.empty() ? 1 : t.cb[y]); cu.set(x, t.arr.empty() ? 1 : t.cu[y]); }
        }
      }
    }
    save(m, dir + "/lines/line_" + mk(4, li) + ".capnpbin");
  }
  return 0;
}
