#!/usr/bin/env python3
"""Build the C++ harnesses from /repo's *current working tree*.

Every object file is keyed by sha256(source text + every header under /repo/include and
/repo/connection_scan_algorithm/include + flags); an edited tree therefore gets new keys and
is recompiled (16-way parallel), an unchanged tree is a cache hit.  Cache: /verif/.cache.
A compile or link error is reported to the caller (it counts as a broken correspondence).
"""
import hashlib, os, subprocess, sys, glob, time, shutil
from concurrent.futures import ThreadPoolExecutor

VERIF = os.path.dirname(os.path.dirname(os.path.abspath(__file__)))
REPO = os.environ.get("VERIF_REPO", "/repo")
CACHE = os.path.join(VERIF, ".cache")
GUARD = "TRROUTING_VERIF"

COMMON = ["-std=c++17", "-DBOOST_BIND_GLOBAL_PLACEHOLDERS", "-DSPDLOG_SHARED_LIB", "-DSPDLOG_COMPILED_LIB",
          "-DSPDLOG_FMT_EXTERNAL", "-D" + GUARD, "-w", "-pthread"]
VARIANTS = {
    "asan": ["-O1", "-g", "-fsanitize=address,undefined", "-fno-sanitize-recover=undefined",
             "-fno-sanitize=signed-integer-overflow", "-fno-omit-frame-pointer"],
    "tsan": ["-O1", "-g", "-fsanitize=thread"],
    "plain": ["-O1", "-g"],
}
LINK = {"asan": ["-fsanitize=address,undefined"], "tsan": ["-fsanitize=thread"], "plain": []}

CSA = ["calculator", "forward_calculation", "forward_journey", "reverse_calculation", "reverse_journey",
       "optimize_journey", "resets", "initializations", "alternatives_routing", "result_to_v2",
       "result_to_v2_accessibility", "result_to_v2_summary", "parameters/common_parameters",
       "parameters/route_parameters", "parameters/accessibility_parameters"]
CORE_SRC = ["src/transit_data.cpp", "src/connection_set.cpp", "src/connection_cache.cpp",
            "src/calculation_time.cpp", "src/geofilter.cpp"] + \
           ["connection_scan_algorithm/src/%s.cpp" % f for f in CSA]
FETCHERS = ["agencies_cache_fetcher", "cache_fetcher", "data_sources_cache_fetcher", "lines_cache_fetcher",
            "modes_initialization", "nodes_cache_fetcher", "od_trips_cache_fetcher", "paths_cache_fetcher",
            "persons_cache_fetcher", "scenarios_cache_fetcher", "services_cache_fetcher",
            "trips_and_connections_cache_fetcher"]
FETCH_SRC = ["src/%s.cpp" % f for f in FETCHERS]
SERVER_SRC = CORE_SRC + FETCH_SRC + ["src/euclideangeofilter.cpp", "src/osrmgeofilter.cpp",
             "connection_scan_algorithm/src/od_trips_routing.cpp",
             "connection_scan_algorithm/src/parameters/legacyV1_parameters.cpp",
             "connection_scan_algorithm/src/program_options.cpp",
             "connection_scan_algorithm/src/transit_routing_http_server.cpp"]
BASE_LIBS = ["-lspdlog", "-lfmt", "-lpthread"]
CAPNP_LIBS = ["-lcapnp", "-lkj"]
BOOST_LIBS = ["-lboost_regex", "-lboost_system", "-lboost_program_options", "-lboost_date_time"]

TARGETS = {
    # name: (harness sources under /verif/harness, repo sources, needs capnp, libs)
    "core": (["core_harness.cpp"], CORE_SRC, False, BASE_LIBS),
    "c14": (["c14_harness.cpp"], CORE_SRC, False, BASE_LIBS),
    "server": ([], SERVER_SRC, True, BOOST_LIBS + CAPNP_LIBS + BASE_LIBS),
    # the real server WITH the yield-point hooks (harness/c14_server_hook.cpp holds a request inside its calculation): C14's HTTP leg only
    "server-hooked": (["c14_server_hook.cpp"], SERVER_SRC, True, BOOST_LIBS + CAPNP_LIBS + BASE_LIBS),
    "cachegen": (["cachegen.cpp"], [], True, CAPNP_LIBS + BASE_LIBS),
    "decode": (["decode.cpp"], [], True, CAPNP_LIBS + BASE_LIBS),
    "loader": (["loader_harness.cpp"], CORE_SRC + FETCH_SRC, True, CAPNP_LIBS + BASE_LIBS),
}


# targets compiled WITHOUT -DTRROUTING_VERIF: the real server binary must be the production code (the yield-point
# hooks of DESIGN.md section 8 expand to nothing, and nothing has to supply trrouting_verif_point); cachegen uses no repo code
NO_GUARD = {"server", "cachegen", "decode"}

SETUP_TARGETS = [("core", "asan"), ("server", "asan"), ("cachegen", "plain"), ("decode", "plain"), ("loader", "asan"), ("c14", "asan"), ("c14", "tsan"), ("server-hooked", "asan")]


class BuildError(Exception):
    pass


def _sha(*parts):
    h = hashlib.sha256()
    for p in parts:
        h.update(p if isinstance(p, bytes) else p.encode())
        h.update(b"\0")
    return h.hexdigest()


def headers_hash():
    h = hashlib.sha256()
    for root in (os.path.join(REPO, "include"), os.path.join(REPO, "connection_scan_algorithm/include")):
        for dp, dn, fn in sorted(os.walk(root)):
            dn.sort()
            for f in sorted(fn):
                if f.endswith((".hpp", ".h", ".capnp")):
                    p = os.path.join(dp, f)
                    h.update(p.encode()); h.update(open(p, "rb").read())
    return h.hexdigest()


def capnp_sources():
    d = os.path.join(REPO, "include/capnp")
    out = []
    for c in sorted(glob.glob(os.path.join(d, "*.capnp"))):
        cc = c + ".c++"
        if not os.path.exists(cc) or not os.path.exists(c + ".h"):
            # generated files are not tracked by git; regenerate next to the schema like the repo's Makefile
            r = subprocess.run(["capnp", "compile", "-oc++", os.path.basename(c)], cwd=d, capture_output=True, text=True)
            if r.returncode != 0:
                raise BuildError("capnp compile %s failed: %s" % (c, r.stderr[-400:]))
        out.append(cc)
    return out


def _compile(job):
    src, obj, flags = job
    if os.path.exists(obj):
        os.utime(obj, None)
        return None
    tmp = obj + ".tmp%d" % os.getpid()
    lang = ["-x", "c++"] if src.endswith(".c++") else []
    r = subprocess.run(["g++"] + flags + ["-I" + os.path.join(REPO, "include"),
                        "-I" + os.path.join(REPO, "connection_scan_algorithm/include"),
                        "-I" + os.path.join(REPO, "include/capnp"),
                        "-c"] + lang + [src, "-o", tmp], capture_output=True, text=True)
    if r.returncode != 0:
        return "%s: %s" % (src, r.stderr[-1500:])
    os.replace(tmp, obj)
    return None


def build(target, variant="asan", quiet=True):
    """returns path of the executable; raises BuildError"""
    hs, rs, need_capnp, libs = TARGETS[target]
    os.makedirs(os.path.join(CACHE, "obj"), exist_ok=True)
    os.makedirs(os.path.join(CACHE, "bin"), exist_ok=True)
    flags = [f for f in COMMON if not (target in NO_GUARD and f == "-D" + GUARD)] + VARIANTS[variant]
    hh = headers_hash()
    srcs = [os.path.join(VERIF, "harness", h) for h in hs] + [os.path.join(REPO, r) for r in rs]
    if need_capnp:
        srcs += capnp_sources()
    jobs, objs = [], []
    for s in srcs:
        if not os.path.exists(s):
            raise BuildError("source missing: " + s)
        key = _sha(open(s, "rb").read(), hh, " ".join(flags), s)
        obj = os.path.join(CACHE, "obj", key + ".o")
        objs.append(obj)
        jobs.append((s, obj, flags))
    exe = os.path.join(CACHE, "bin", "%s-%s-%s" % (target, variant, _sha(*objs)[:20]))
    if os.path.exists(exe):
        os.utime(exe, None)
        return exe
    t0 = time.time()
    with ThreadPoolExecutor(max_workers=int(os.environ.get("VERIF_JOBS", "16"))) as ex:
        errs = [e for e in ex.map(_compile, jobs) if e]
    if errs:
        raise BuildError("compile failed:\n" + "\n".join(errs[:3]))
    tmp = exe + ".tmp%d" % os.getpid()
    r = subprocess.run(["g++"] + LINK[variant] + objs + libs + ["-o", tmp], capture_output=True, text=True)
    if r.returncode != 0:
        raise BuildError("link failed: " + r.stderr[-1500:])
    os.replace(tmp, exe)
    if not quiet:
        print("built %s (%s) in %.1fs" % (target, variant, time.time() - t0), file=sys.stderr)
    prune()
    return exe


def prune(max_bytes=3 << 30):
    files = []
    for sub in ("obj", "bin"):
        for f in glob.glob(os.path.join(CACHE, sub, "*")):
            try:
                st = os.stat(f); files.append((st.st_mtime, st.st_size, f))
            except OSError:
                pass
    total = sum(f[1] for f in files)
    for mt, sz, f in sorted(files):
        if total <= max_bytes:
            break
        try:
            os.remove(f); total -= sz
        except OSError:
            pass


if __name__ == "__main__":
    t = sys.argv[1] if len(sys.argv) > 1 else "core"
    v = sys.argv[2] if len(sys.argv) > 2 else "asan"
    try:
        print(build(t, v, quiet=False))
    except BuildError as e:
        print("BUILD-ERROR", e, file=sys.stderr); sys.exit(3)
