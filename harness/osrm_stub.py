#!/usr/bin/env python3
"""Scripted walking-router stub: answers the OSRM `table` requests that /repo/src/osrmgeofilter.cpp issues.

What the client sends (osrmgeofilter.cpp:32-65):
    GET /table/v1/walking/<lon>,<lat>;<lon>,<lat>;...?annotations=duration,distance&sources=0
  coordinate 0 is the query point (origin, destination or accessibility place), the others are the stops that
  passed the client's bird-distance pre-filter (distance <= max_walking_time * 5 km/h), in the iteration order
  of the node map (= uuid order = stop-index order).  All numbers are printed with std::to_string, i.e. six
  decimals: one micro-degree is exactly the resolution that survives.  The reply is read by POSITION:
  durations[0][k] / distances[0][k] belong to the k-th coordinate of the request (k = 0 is the query point itself).

Coordinate conventions (shared with harness/cachegen.cpp and check/httpkit.py):
    stop i           lon -73.000000            lat 45.000000 + i * 1e-6
    ACCESS  point    lon -73.000001 (west)     lat 45.000005     origin; `place` of a departure-time accessibility query
    EGRESS  point    lon -72.999999 (east)     lat 45.000005     destination; `place` of an arrival-time accessibility query
  The stub picks the table from the query point: lon < -73 -> access table, lon > -73 -> egress table; a query
  point exactly on lon -73 is classified by latitude (north of every stop, lat > 45.0001 -> access; south,
  lat < 45.0 -> egress).  Stops are recognised by lon == -73.000000 and their micro-degree latitude offset.
  With the query points 1 micro-degree (0.08 m) beside the stop column every stop 0..16 is within 1.25 m, hence
  inside the pre-filter even for max_*_travel_time = 1 s (1.39 m).  Measured behaviour: see notes/httpkit-report.md.

Healthy reply for a request with n stops: {"code":"Ok","durations":[[0,t1..tn]],"distances":[[0,d1..dn]]} where
(t,d) comes from the chosen table and is (UNREACHABLE, UNREACHABLE) = (100000, 100000) for a stop the table does
not list.  NOTE: 100000 is "larger than any maximum" only for finite maxima; a request with a non-positive
max_access/egress_travel_time means "no limit" (INT_MAX) and then every stop sent is accepted at 100000 s -- the
OSRM protocol has no way to say "unreachable" other than null, which the client turns into an exception.

Faults (set_fault / script / control endpoint), applied per table request:
    healthy      normal reply
    refuse       listener closed (connection refused) until another fault is set
    drop         connection closed without any reply
    truncate     status line + headers with Content-Length = len+50, 10 body bytes, then the connection is shut down
    http500      status 500 with a short text body
    http503late  status 503, HTTP/1.1, NO Content-Length; a text body follows 0.3 s after the headers and the connection is kept open for
                 2 s (a front-end / load balancer that streams its error page): a client that keeps one connection for all lookups
                 finds the unread page at the head of its next reply
    empty        200 with Content-Length 0
    nonjson      200 with an HTML body
    nodurations  JSON without `durations`  (nodurations:null / :empty / :emptyrow / :emptydur = durations null, both tables [], both [[]], durations [])
    nulls        every stop entry of durations[0] is null
    fewer        entries for the first n//2 stops only  (fewer:<k> = first k stops)
  outside the faults listed by property C20 (kept for the record, DESIGN.md 7a O3):
    more         50 additional entries (kills the unchanged server)      shortdist  distances shorter than durations
`where` restricts a fault to the access lookups, the egress lookups or both ("origin" / "destination" / "both").
`refuse` cannot tell lookups apart (no request arrives): where="destination" closes the listener while the access
lookup of the same request is being answered; where="origin" behaves like "both".

Measured against the real client (Simple-Web-Server client_http.hpp): a connection that is closed before any reply byte
(`drop`) is retried ONCE on a new connection -- a single scripted `drop` (script entry or count=1) is therefore masked by
the retry, two consecutive ones reach the caller as "no stop"; `truncate`, `http500` and the malformed bodies are not retried.

A drop / truncation must really shut the socket down (self.close_connection = True; shutdown(SHUT_RDWR)): the
trRouting client has no time-out and would otherwise hang for ever on a half-open connection (stub artefact).

Use in-process:  s = Stub(access, egress); s.start(); s.set_fault("drop", where="origin", count=1); ...; s.stop()
Stand-alone:     osrm_stub.py --port P (--dataset file.txt | --tables file.json) [--script faults.txt]
                 control endpoint: GET /control/fault/<kind>[/<where>[/<count>]]   GET /control/log   GET /control/reset
                 (stand-alone, `refuse` closes the one listener, so the control endpoint is gone too: restart the stub)
"""
import http.server, json, socket, sys, threading, time

UNREACHABLE = 100000
FAULTS = ["healthy", "refuse", "drop", "truncate", "http500", "http503late", "empty", "nonjson", "nodurations", "nulls", "fewer"]
UNLISTED_FAULTS = ["more", "shortdist"]
STOP_LON = -73000000            # micro-degrees
STOP_LAT0 = 45000000
ACCESS_POINT = "-73.000001,45.000005"   # lon,lat as they go into origin= / place=
EGRESS_POINT = "-72.999999,45.000005"


def _micro(x):
    return int(round(float(x) * 1e6))


def classify_point(lon, lat):
    """'access' | 'egress' | None for the first coordinate of a table request (micro-degrees)"""
    if lon < STOP_LON: return "access"
    if lon > STOP_LON: return "egress"
    if lat > STOP_LAT0 + 100: return "access"
    if lat < STOP_LAT0: return "egress"
    return None


def stop_of(lon, lat):
    if lon != STOP_LON or not (0 <= lat - STOP_LAT0 < 100):
        return None
    return lat - STOP_LAT0


class Stub:
    def __init__(self, access, egress, port=0, host="127.0.0.1"):
        """access / egress: iterable of (stop, time, distance)"""
        self.tables = {"access": {int(s): (int(t), int(x)) for s, t, x in access},
                       "egress": {int(s): (int(t), int(x)) for s, t, x in egress}}
        self.host, self.port = host, port
        self.lock = threading.RLock()
        self.fault, self.where, self.count = "healthy", "both", None   # persistent fault (count None = until changed)
        self.script = []           # per-request fault kinds consumed first (each "kind" or "kind@where")
        self.log = []              # dict(kind=access|egress, stops=[..], fault=.., raw=path)
        self.httpd = None
        self.thread = None

    # ------------------------------------------------------------ life cycle
    def start(self):
        with self.lock:
            if self.httpd is not None:
                return self
            stub = self

            class H(http.server.BaseHTTPRequestHandler):
                protocol_version = "HTTP/1.1"

                def log_message(self, *a):
                    pass

                def do_GET(self):
                    stub._handle(self)

            class S(http.server.ThreadingHTTPServer):
                daemon_threads = True
                allow_reuse_address = True
                request_queue_size = 64

            self.httpd = S((self.host, self.port), H)
            self.port = self.httpd.server_address[1]
            self.thread = threading.Thread(target=self.httpd.serve_forever, kwargs=dict(poll_interval=0.02), daemon=True)
            self.thread.start()
        return self

    def _close_listener(self):
        with self.lock:
            h, self.httpd = self.httpd, None
        if h is not None:
            h.shutdown(); h.server_close()

    def stop(self):
        self._close_listener()

    def alive(self):
        return self.httpd is not None

    # ------------------------------------------------------------ scripting
    def set_tables(self, access, egress):
        with self.lock:
            self.tables = {"access": {int(s): (int(t), int(x)) for s, t, x in access},
                           "egress": {int(s): (int(t), int(x)) for s, t, x in egress}}

    def set_fault(self, kind, where="both", count=None):
        """persistent fault for the next `count` matching table requests (None = until changed)"""
        base = kind.split(":")[0]
        if base not in FAULTS + UNLISTED_FAULTS:
            raise ValueError("unknown fault " + kind)
        if where not in ("both", "origin", "destination"):
            raise ValueError("where must be both|origin|destination")
        with self.lock:
            self.fault, self.where, self.count = kind, where, count
        if base == "refuse" and where != "destination":
            self._close_listener()
        elif self.httpd is None:
            self.start()

    def set_script(self, kinds):
        """one entry per table request, consumed in arrival order; afterwards the persistent fault applies"""
        with self.lock:
            self.script = list(kinds)

    def clear_log(self):
        with self.lock:
            self.log = []

    def _next_fault(self, table):
        side = "origin" if table == "access" else "destination"
        with self.lock:
            if self.script:
                item = self.script.pop(0)
                kind, _, wh = item.partition("@")
                if not wh or wh == "both" or wh == side:
                    return kind
                return "healthy"
            if self.fault != "healthy" and self.where in ("both", side):
                if self.count is not None:
                    if self.count <= 0:
                        return "healthy"
                    self.count -= 1
                return self.fault
            if self.fault.split(":")[0] == "refuse" and self.where == "destination" and side == "origin":
                return "close-listener-then-healthy"
            return "healthy"

    # ------------------------------------------------------------ request handling
    def _send(self, h, status, body, ctype="application/json"):
        b = body if isinstance(body, bytes) else body.encode()
        h.send_response(status)
        h.send_header("Content-Type", ctype)
        h.send_header("Content-Length", str(len(b)))
        h.end_headers()
        h.wfile.write(b)

    def _handle(self, h):
        path = h.path
        if path.startswith("/control/"):
            return self._control(h, path)
        if not path.startswith("/table/v1/"):
            return self._send(h, 400, json.dumps({"code": "InvalidUrl", "message": "stub answers /table/v1 only"}))
        try:
            rest = path.split("/", 4)[4]                 # <coords>?query
            coords_s, _, query = rest.partition("?")
            coords = [(_micro(c.split(",")[0]), _micro(c.split(",")[1])) for c in coords_s.split(";")]
        except Exception:
            return self._send(h, 400, json.dumps({"code": "InvalidQuery", "message": "bad coordinates"}))
        table = classify_point(*coords[0])
        stops = [stop_of(lon, lat) for lon, lat in coords[1:]]
        fault = self._next_fault(table) if table else "healthy"
        with self.lock:
            self.log.append(dict(kind=table, stops=stops, fault=fault, raw=path, t=time.time()))
        if table is None:
            return self._send(h, 400, json.dumps({"code": "InvalidQuery", "message": "query point not recognised by the stub"}))
        if fault == "close-listener-then-healthy":
            threading.Thread(target=self._close_listener, daemon=True).start()
            t0 = time.time()
            while self.httpd is not None and time.time() - t0 < 2:   # answer only once the listener is really gone
                time.sleep(0.005)
            fault = "healthy"
        tab = self.tables[table]
        n = len(stops)
        dur = [0] + [tab.get(s, (UNREACHABLE, UNREACHABLE))[0] if s is not None else UNREACHABLE for s in stops]
        dist = [0] + [tab.get(s, (UNREACHABLE, UNREACHABLE))[1] if s is not None else UNREACHABLE for s in stops]
        if "destinations=0" in query and "sources=0" not in query:       # what a real router would send: an n x 1 matrix
            body = json.dumps({"code": "Ok", "durations": [[x] for x in dur], "distances": [[x] for x in dist]})
        else:
            body = json.dumps({"code": "Ok", "durations": [dur], "distances": [dist]})
        base, _, arg = fault.partition(":")
        if base == "healthy":
            return self._send(h, 200, body)
        if base in ("drop", "refuse"):     # `refuse` reaching a handler (race with the listener closing) degrades to a drop
            h.close_connection = True
            try: h.connection.shutdown(socket.SHUT_RDWR)
            except OSError: pass
            return
        if base == "truncate":
            b = body.encode()
            h.send_response(200); h.send_header("Content-Type", "application/json")
            h.send_header("Content-Length", str(len(b) + 50)); h.end_headers()
            h.wfile.write(b[:10]); h.wfile.flush()
            h.close_connection = True
            try: h.connection.shutdown(socket.SHUT_RDWR)
            except OSError: pass
            return
        if base == "http500":
            return self._send(h, 500, "Internal Server Error", "text/plain")
        if base == "http503late":
            h.send_response(503); h.send_header("Content-Type", "text/plain"); h.send_header("Connection", "keep-alive"); h.end_headers()
            h.wfile.flush()
            try:
                time.sleep(0.3)
                h.wfile.write(b"Service Unavailable: the walking router is restarting\n"); h.wfile.flush()
                h.connection.settimeout(2.0)      # keep the connection open: a pooled client will send its next request on it
            except OSError:
                h.close_connection = True
            return
        if base == "empty":
            return self._send(h, 200, b"")
        if base == "nonjson":
            return self._send(h, 200, "<html><body>walking router is being upgraded</body></html>", "text/html")
        if base == "nodurations":
            # a table without durations, in the shapes a router can give it: key absent, null, an empty table, a table of one empty row
            shape = {"": {"code": "Ok", "distances": [dist]}, "null": {"code": "Ok", "durations": None, "distances": [dist]},
                     "empty": {"code": "Ok", "durations": [], "distances": []}, "emptyrow": {"code": "Ok", "durations": [[]], "distances": [[]]},
                     "emptydur": {"code": "Ok", "durations": [], "distances": [dist]}}.get(arg or "", None)
            return self._send(h, 200, json.dumps(shape if shape is not None else {"code": "Ok", "distances": [dist]}))
        if base == "nulls":
            return self._send(h, 200, json.dumps({"code": "Ok", "durations": [[0] + [None] * n], "distances": [dist]}))
        if base == "fewer":
            k = int(arg) if arg else n // 2
            k = max(0, min(k, n - 1 if n else 0))
            return self._send(h, 200, json.dumps({"code": "Ok", "durations": [dur[:1 + k]], "distances": [dist[:1 + k]]}))
        if base == "more":
            return self._send(h, 200, json.dumps({"code": "Ok", "durations": [dur + [5] * 50], "distances": [dist + [5] * 50]}))
        if base == "shortdist":
            return self._send(h, 200, json.dumps({"code": "Ok", "durations": [dur], "distances": [[0]]}))
        return self._send(h, 200, body)

    def _control(self, h, path):
        ws = path.split("?")[0].strip("/").split("/")      # control fault kind where count
        try:
            if ws[1] == "fault":
                kind = ws[2]; where = ws[3] if len(ws) > 3 else "both"; count = int(ws[4]) if len(ws) > 4 else None
                self._send(h, 200, json.dumps({"ok": True, "fault": kind, "where": where, "count": count}))
                # set after answering: `refuse` closes the listener
                threading.Thread(target=self.set_fault, args=(kind, where, count), daemon=True).start()
                return
            if ws[1] == "log":
                with self.lock:
                    return self._send(h, 200, json.dumps(self.log))
            if ws[1] == "reset":
                self.clear_log(); self.set_script([]); self.set_fault("healthy")
                return self._send(h, 200, json.dumps({"ok": True}))
        except Exception as e:
            return self._send(h, 400, json.dumps({"ok": False, "error": str(e)}))
        return self._send(h, 404, json.dumps({"ok": False, "error": "unknown control path"}))


def tables_from_protocol(text):
    acc, egr = [], []
    for line in text.splitlines():
        ws = line.split()
        if not ws: continue
        if ws[0] == "access": acc.append(tuple(int(x) for x in ws[1:4]))
        elif ws[0] == "egress": egr.append(tuple(int(x) for x in ws[1:4]))
        elif ws[0] == "end": break
    return acc, egr


def main(argv):
    import argparse
    ap = argparse.ArgumentParser(description=__doc__.split("\n")[0])
    ap.add_argument("--port", type=int, required=True)
    ap.add_argument("--host", default="127.0.0.1")
    ap.add_argument("--dataset", help="protocol text; its access / egress lines are the tables")
    ap.add_argument("--tables", help='JSON {"access": [[stop,time,dist],...], "egress": [...]}')
    ap.add_argument("--script", help="file with one fault kind (optionally kind@origin|destination) per line, consumed per table request")
    a = ap.parse_args(argv)
    acc, egr = [], []
    if a.dataset:
        acc, egr = tables_from_protocol(open(a.dataset).read())
    if a.tables:
        j = json.load(open(a.tables)); acc, egr = j.get("access", []), j.get("egress", [])
    s = Stub(acc, egr, port=a.port, host=a.host)
    if a.script:
        s.set_script([l.strip() for l in open(a.script) if l.strip() and not l.startswith("#")])
    s.start()
    print("osrm_stub listening on %s:%d" % (s.host, s.port), flush=True)
    try:
        while True:
            time.sleep(3600)
    except KeyboardInterrupt:
        s.stop()


if __name__ == "__main__":
    main(sys.argv[1:])
