// Hook implementation for the REAL server binary built with -DTRROUTING_VERIF (target "server-hooked"): holds a request
// for VERIF_HOLD_MS milliseconds at the point where it leaves TransitData::getConnectionsForScenario ("hit", or "after-set"
// on a miss), so that two requests sent together are certainly inside their calculations at the same time. Without
// VERIF_HOLD_MS the hook does nothing. Used by check/conc_checks.py (C14, HTTP leg): the answers of overlapping requests
// must equal the answers of the same requests served alone.
#include <chrono>
#include <thread>
#include <cstdlib>
#include <cstring>
extern "C" void trrouting_verif_point(const char *name) {
  static const char *ms = std::getenv("VERIF_HOLD_MS");
  if (!ms) return;
  if (std::strcmp(name, "hit") != 0 && std::strcmp(name, "after-set") != 0) return;
  std::this_thread::sleep_for(std::chrono::milliseconds(std::atoi(ms)));
}
