// In-process CONCURRENCY harness for property C14 (no routing logic of its own).
//
// Same line protocol and in-memory DataFetcher as core_harness.cpp, plus, inside a dataset block:
//
//   thread <t> <request line>     the request (route | summary | accessibility ...) is assigned to thread t
//                                 (threads are 0..N-1; several requests of one thread run in the given order)
//   sched <t> <t> <t> ...         ONE forced run: fresh TransitData shared by all threads, every thread runs its
//                                 requests, the interleaving at the yield points is the given sequence of thread ids
//   sched                         (empty) = a run in which all threads run freely from the start
//   soak <n>                      n unforced runs (fresh TransitData each, threads released together by a barrier)
//
// Yield points: the four guarded hooks of TransitData::getConnectionsForScenario ("hit", "miss", "before-set",
// "after-set", compiled in by -DTRROUTING_VERIF) call trrouting_verif_point(), which this file supplies; a thread
// also yields at "start" (before each of its requests) and at "finish" (after each of them).  At a yield point the
// thread records the event and BLOCKS until the controller grants it one step; one step = run to the next yield
// point (or to the end of the thread).  The controller reads the schedule left to right; element t means "wait until
// thread t is blocked at a yield point, let it run until it blocks again or ends" -- so during the forced part exactly
// one thread runs at any time and the event order is the order of the cache operations.  An element naming a thread
// that has already ended is skipped (line `S`).  When the schedule is exhausted all threads run freely (line `F`;
// events after it are recorded under a mutex but their order is no longer the order of the cache operations).
//
// Output (stdout), per run r = 0,1,... of the block:
//   R <dataset> <r> forced|free|soak
//   E <thread> <request-index-in-thread> <where>       global order
//   S <position> <thread>                              skipped schedule element
//   F                                                  free running begins here
//   A <dataset> <r> <thread> <request-index-in-thread> <compact JSON body>
//   X <dataset> <r>                                    run complete
// A controller wait of more than 60 s prints `D <what>` and exits with code 3 (harness deadlock: never seen).
#include <iostream>
#include <fstream>
#include <sstream>
#include <map>
#include <vector>
#include <string>
#include <thread>
#include <mutex>
#include <atomic>
#include <chrono>
#include <condition_variable>
#include <boost/uuid/uuid.hpp>
#include <boost/uuid/uuid_io.hpp>
#include <boost/uuid/string_generator.hpp>
#include <nlohmann/json.hpp>
#include "spdlog/spdlog.h"
#include "data_fetcher.hpp"
#include "transit_data.hpp"
#include "calculator.hpp"
#include "geofilter.hpp"
#include "node.hpp"
#include "line.hpp"
#include "path.hpp"
#include "trip.hpp"
#include "mode.hpp"
#include "agency.hpp"
#include "service.hpp"
#include "scenario.hpp"
#include "data_source.hpp"
#include "person.hpp"
#include "od_trip.hpp"
#include "point.hpp"
#include "parameters.hpp"
#include "routing_result.hpp"
#include "result_to_v2.hpp"
#include "result_to_v2_accessibility.hpp"
#include "result_to_v2_summary.hpp"

// line short names are deliberately NOT unique (lines 0 and 2 share "L0", every fourth line has an empty one): anything that
// identifies a line by its short name instead of its uuid collapses two lines (check/canon.py line_short mirrors this)
static inline std::string verifLineShortname(size_t i) { return i % 4 == 3 ? std::string("") : "L" + std::to_string(i % 2); }

using namespace TrRouting;

// ------------------------------------------------------------------ the controller

struct Ctl {
  std::mutex m;
  std::condition_variable cv;
  bool freeRun = false;
  std::vector<int> state;          // 0 running, 1 blocked at a yield point, 2 ended
  std::vector<int> grant;          // 1 = the controller lets the thread take one step
  std::vector<std::string> events; // E / S / F lines in global order
  void init(size_t n, bool free_) { state.assign(n, 0); grant.assign(n, 0); events.clear(); freeRun = free_; }
  void yield(int t, int req, const char *where) {
    std::unique_lock<std::mutex> lk(m);
    events.push_back("E " + std::to_string(t) + " " + std::to_string(req) + " " + where);
    if (freeRun) return;
    state[t] = 1;
    cv.notify_all();
    cv.wait(lk, [&] { return freeRun || grant[t] > 0; });
    grant[t] = 0;
    state[t] = 0;
  }
  void ended(int t) { std::unique_lock<std::mutex> lk(m); state[t] = 2; cv.notify_all(); }
  // wait until thread t is blocked or has ended; returns its state
  int waitParked(int t, const char *what) {
    std::unique_lock<std::mutex> lk(m);
    if (!cv.wait_for(lk, std::chrono::seconds(60), [&] { return state[t] != 0; })) {
      std::cout << "D controller waited 60 s for thread " << t << " (" << what << ")" << std::endl;
      _exit(3);
    }
    return state[t];
  }
  void step(int t) {
    { std::unique_lock<std::mutex> lk(m); grant[t] = 1; state[t] = 0; cv.notify_all(); }
    waitParked(t, "step");
  }
  void release() { std::unique_lock<std::mutex> lk(m); events.push_back("F"); freeRun = true; cv.notify_all(); }
};

static Ctl ctl;
static thread_local int tlThread = -1;
static thread_local int tlReq = 0;

extern "C" void trrouting_verif_point(const char *where) {
  if (tlThread >= 0) ctl.yield(tlThread, tlReq, where);
}

// ------------------------------------------------------------------ dataset (as core_harness.cpp)

static boost::uuids::uuid mk(int kind, int i) {
  char buf[64];
  snprintf(buf, sizeof buf, "00000000-0000-0000-%04x-%012x", kind, i);
  return boost::uuids::string_generator()(std::string(buf));
}
// modes 0 and 1 are two entries of the server's own table that share one extended GTFS route type (tram / tramTrain: 900), so that a
// comparison of modes by anything but their name shows (seeded change C02-r5)
static const char *MODES[] = {"tram", "tramTrain", "transferable"};

struct DS {
  int nstops = 0;
  std::vector<std::tuple<int,int,int,int>> foot;
  struct L { int agency; int mode; };
  std::vector<L> lines;
  struct P { int line; std::vector<int> stops; std::vector<int> dist; };
  std::vector<P> paths;
  struct T { int path; int service; int id; std::vector<int> arr, dep, cb, cu; };
  std::vector<T> trips;
  int nagencies = 1, nservices = 1;
  struct S { std::vector<int> services, onlyLines, exceptLines, onlyAgencies, exceptAgencies, onlyModes, exceptModes; };
  std::vector<S> scenarios;
  bool cacheAll = false;
};

struct Fetch : DataFetcher {
  const DS &d; Fetch(const DS &d_) : d(d_) {}
  const std::map<std::string, Mode> getModes() override {
    std::map<std::string, Mode> m;
    m.emplace("bus", Mode("bus", "Bus", 3, 700));
    m.emplace("tram", Mode("tram", "Tram/LRT", 0, 900));
    m.emplace("tramTrain", Mode("tramTrain", "Tram Train", 0, 900));
    m.emplace("rail", Mode("rail", "Rail", 2, 100));
    m.emplace(Mode::TRANSFERABLE, Mode(Mode::TRANSFERABLE, "Transferable", -1, -1));
    return m;
  }
  int getDataSources(std::map<boost::uuids::uuid, DataSource>&, std::string) override { return 0; }
  int getPersons(std::map<boost::uuids::uuid, Person>&, const std::map<boost::uuids::uuid, DataSource>&, std::string) override { return 0; }
  int getOdTrips(std::map<boost::uuids::uuid, OdTrip>&, const std::map<boost::uuids::uuid, DataSource>&, const std::map<boost::uuids::uuid, Person>&, const std::map<boost::uuids::uuid, Node>&, std::string) override { return 0; }
  int getAgencies(std::map<boost::uuids::uuid, Agency>& ts, std::string) override {
    ts.clear();
    for (int i = 0; i < d.nagencies; i++) { Agency a; a.uuid = mk(2, i); a.acronym = "A" + std::to_string(i); a.name = "Agency" + std::to_string(i); ts[a.uuid] = a; }
    return 0;
  }
  int getServices(std::map<boost::uuids::uuid, Service>& ts, std::string) override {
    ts.clear();
    for (int i = 0; i < d.nservices; i++) { Service s; s.uuid = mk(3, i); s.name = "S" + std::to_string(i); ts[s.uuid] = s; }
    return 0;
  }
  int getNodes(std::map<boost::uuids::uuid, Node>& ts, std::string) override {
    ts.clear();
    for (int i = 0; i < d.nstops; i++)
      ts.emplace(mk(1, i), Node(mk(1, i), i, "c" + std::to_string(i), "n" + std::to_string(i), "", std::make_unique<Point>(0.0, i)));
    for (auto &[a, b, t, di] : d.foot) {
      ts.at(mk(1, a)).transferableNodes.push_back(NodeTimeDistance(ts.at(mk(1, b)), t, di));
      ts.at(mk(1, b)).reverseTransferableNodes.push_back(NodeTimeDistance(ts.at(mk(1, a)), t, di));
    }
    return 0;
  }
  int getLines(std::map<boost::uuids::uuid, Line>& ts, const std::map<boost::uuids::uuid, Agency>& ag, const std::map<std::string, Mode>& modes, std::string) override {
    ts.clear();
    for (size_t i = 0; i < d.lines.size(); i++)
      ts.emplace(mk(4, i), Line(mk(4, i), ag.at(mk(2, d.lines[i].agency)), modes.at(MODES[d.lines[i].mode]), verifLineShortname(i), "Line" + std::to_string(i), "", 0));
    return 0;
  }
  int getPaths(std::map<boost::uuids::uuid, Path>& ts, const std::map<boost::uuids::uuid, Line>& lines, const std::map<boost::uuids::uuid, Node>& nodes, std::string) override {
    ts.clear();
    for (size_t i = 0; i < d.paths.size(); i++) {
      std::vector<std::reference_wrapper<const Node>> nr; std::vector<std::reference_wrapper<const Trip>> tr; std::vector<int> tt;
      for (int s : d.paths[i].stops) nr.push_back(nodes.at(mk(1, s)));
      ts.emplace(mk(5, i), Path(mk(5, i), lines.at(mk(4, d.paths[i].line)), "o", "", nr, tr, tt, d.paths[i].dist));
    }
    return 0;
  }
  int getScenarios(std::map<boost::uuids::uuid, Scenario>& ts, const std::map<boost::uuids::uuid, Service>& sv, const std::map<boost::uuids::uuid, Line>& ln, const std::map<boost::uuids::uuid, Agency>& ag, const std::map<boost::uuids::uuid, Node>&, const std::map<std::string, Mode>& md, std::string) override {
    ts.clear();
    for (size_t i = 0; i < d.scenarios.size(); i++) {
      auto u = mk(6, i); auto &s = ts[u]; s.uuid = u; s.name = "sc";
      for (int x : d.scenarios[i].services) s.servicesList.push_back(sv.at(mk(3, x)));
      for (int x : d.scenarios[i].onlyLines) s.onlyLines.push_back(ln.at(mk(4, x)));
      for (int x : d.scenarios[i].exceptLines) s.exceptLines.push_back(ln.at(mk(4, x)));
      for (int x : d.scenarios[i].onlyAgencies) s.onlyAgencies.push_back(ag.at(mk(2, x)));
      for (int x : d.scenarios[i].exceptAgencies) s.exceptAgencies.push_back(ag.at(mk(2, x)));
      for (int x : d.scenarios[i].onlyModes) s.onlyModes.push_back(md.at(MODES[x]));
      for (int x : d.scenarios[i].exceptModes) s.exceptModes.push_back(md.at(MODES[x]));
    }
    return 0;
  }
  int getSchedules(std::map<boost::uuids::uuid, Trip>& trips, const std::map<boost::uuids::uuid, Line>&, std::map<boost::uuids::uuid, Path>& paths, const std::map<boost::uuids::uuid, Service>& services, std::vector<Connection>& connections, std::string) override {
    trips.clear(); connections.clear(); connections.shrink_to_fit();
    size_t total = 0; for (auto &t : d.trips) total += t.arr.empty() ? 0 : t.arr.size() - 1;
    connections.reserve(total);
    for (size_t i = 0; i < d.trips.size(); i++) {
      auto &t = d.trips[i]; Path &p = paths.at(mk(5, t.path)); const Line &l = p.line;
      auto u = mk(7, t.id);
      trips.emplace(u, Trip(u, l.agency, l, p, l.mode, services.at(mk(3, t.service)), 0));
      Trip &trip = trips.at(u);
      for (size_t k = 0; k + 1 < t.arr.size(); k++)
        connections.push_back(Connection(p.nodesRef[k].get(), p.nodesRef[k + 1].get(), t.dep[k], t.arr[k + 1], trip, t.cb[k] == 1, t.cu[k + 1] == 1, k + 1, 0, l.mode.isTransferable() ? 0 : -1));
    }
    return 0;
  }
};

// the walking router as a table (read-only after parsing; shared by all threads like the server's one GeoFilter)
struct TableGeo : GeoFilter {
  std::vector<std::tuple<int,int,int>> acc, egr;
  std::vector<NodeTimeDistance> getAccessibleNodesFootpathsFromPoint(const Point &point, const std::map<boost::uuids::uuid, Node> &nodes, int maxT, float, bool) override {
    std::vector<NodeTimeDistance> r;
    auto &tab = point.latitude < 1.5 ? acc : egr;
    for (auto &[s, t, di] : tab) if (t <= maxT) r.push_back(NodeTimeDistance(nodes.at(mk(1, s)), t, di));
    return r;
  }
};

static std::vector<int> ints(std::istringstream &is) { std::vector<int> v; std::string w; while (is >> w) { if (w == ";") break; v.push_back(std::stoi(w)); } return v; }

// one request, exactly as the HTTP handlers / core_harness.cpp do it: fresh Calculator, real parameter parsing, real rendering
static std::string answer(TransitData &td, GeoFilter &geo, const std::string &q) {
  std::istringstream is(q); std::string kind; is >> kind;
  std::ostringstream out;
  std::vector<std::pair<std::string, std::string>> params;
  std::string kv;
  bool hasPlace = false, hasOrigin = false, hasDest = false;
  while (is >> kv) {
    auto p = kv.find('='); std::string key = kv.substr(0, p), val = p == std::string::npos ? "" : kv.substr(p + 1);
    if (key == "scenario") { key = "scenario_id"; val = boost::uuids::to_string(mk(6, std::stoi(val))); }
    if (key == "place") hasPlace = true;
    if (key == "origin") hasOrigin = true;
    if (key == "destination") hasDest = true;
    params.push_back({key, val});
  }
  Calculator calc(td, geo);
  try {
    if (kind == "accessibility") {
      bool fwd = true; for (auto &p : params) if (p.first == "time_type" && p.second == "1") fwd = false;
      if (!hasPlace) params.push_back({"place", fwd ? "0,1" : "0,2"});
      auto qp = AccessibilityParameters::createAccessibilityParameter(params, td.getScenarios());
      try { auto r = calc.calculateAllNodes(qp); if (r.get() != nullptr) out << ResultToV2AccessibilityResponse::resultToJsonString(*r, qp).dump(); else out << "{\"status\":\"empty\"}"; }
      catch (NoRoutingFoundException &e) { out << ResultToV2AccessibilityResponse::noRoutingFoundResponse(qp, e.getReason()).dump(); }
    } else {
      if (!hasOrigin) params.push_back({"origin", "0,1"});
      if (!hasDest) params.push_back({"destination", "0,2"});
      auto qp = RouteParameters::createRouteODParameter(params, td.getScenarios());
      bool summary = kind == "summary";
      try {
        if (qp.isWithAlternatives()) {
          auto r = calc.alternativesRouting(qp);
          out << (summary ? ResultToV2SummaryResponse::resultToJsonString(r, qp) : ResultToV2Response::resultToJsonString(r, qp)).dump();
        } else {
          auto r = calc.calculateSingle(qp);
          if (r.get() != nullptr) out << (summary ? ResultToV2SummaryResponse::resultToJsonString(*r, qp) : ResultToV2Response::resultToJsonString(*r, qp)).dump();
          else out << "{\"status\":\"empty\"}";
        }
      } catch (NoRoutingFoundException &e) {
        out << (summary ? ResultToV2SummaryResponse::noRoutingFoundResponse(qp, e.getReason()) : ResultToV2Response::noRoutingFoundResponse(qp, e.getReason())).dump();
      }
    }
  } catch (ParameterException &e) { out << "{\"status\":\"query_error\",\"type\":" << (int)e.getType() << "}"; }
  catch (std::exception &e) { nlohmann::json j; j["status"] = "exception"; j["what"] = e.what(); out << j.dump(); }
  return out.str();
}

// ------------------------------------------------------------------ runs

struct Run { bool soak = false; int n = 1; bool freeFromStart = false; std::vector<int> sched; };

static void oneRun(const std::string &id, int r, const DS &d, TableGeo &geo, const std::vector<std::vector<std::string>> &reqs,
                   const std::vector<int> &sched, bool freeFromStart, const char *label, bool printEvents) {
  size_t n = reqs.size();
  Fetch f(d);
  TransitData td(f, d.cacheAll);
  std::vector<std::vector<std::string>> answers(n);
  ctl.init(n, false);
  std::atomic<int> barrier{0};
  std::vector<std::thread> ths;
  for (size_t t = 0; t < n; t++) {
    ths.emplace_back([&, t]() {
      tlThread = (int)t;
      for (size_t k = 0; k < reqs[t].size(); k++) {
        tlReq = (int)k;
        ctl.yield((int)t, (int)k, "start");
        if (freeFromStart && k == 0) { barrier.fetch_add(1); while (barrier.load() < (int)n) std::this_thread::yield(); }
        answers[t].push_back(answer(td, geo, reqs[t][k]));
        ctl.yield((int)t, (int)k, "finish");
      }
      tlThread = -1;
      ctl.ended((int)t);
    });
    // threads are created one by one and parked at their first "start": the trace begins deterministically
    ctl.waitParked((int)t, "start");
  }
  std::vector<std::string> skips;
  if (!freeFromStart) {
    for (size_t i = 0; i < sched.size(); i++) {
      int t = sched[i];
      if (t < 0 || t >= (int)n) continue;
      if (ctl.waitParked(t, "before step") == 2) {
        std::unique_lock<std::mutex> lk(ctl.m);
        ctl.events.push_back("S " + std::to_string(i) + " " + std::to_string(t));
        continue;
      }
      ctl.step(t);
    }
  }
  ctl.release();
  for (auto &t : ths) t.join();
  std::cout << "R " << id << " " << r << " " << label << "\n";
  if (printEvents) for (auto &e : ctl.events) std::cout << e << "\n";
  for (size_t t = 0; t < n; t++)
    for (size_t k = 0; k < answers[t].size(); k++)
      std::cout << "A " << id << " " << r << " " << t << " " << k << " " << answers[t][k] << "\n";
  std::cout << "X " << id << " " << r << "\n";
  std::cout.flush();
}

static void runBlock(const std::string &id, DS &d, TableGeo &geo, const std::vector<std::vector<std::string>> &reqs, const std::vector<Run> &runs) {
  int r = 0;
  for (auto &run : runs) {
    if (run.soak) { for (int i = 0; i < run.n; i++) oneRun(id, r++, d, geo, reqs, {}, true, "soak", false); }
    else oneRun(id, r++, d, geo, reqs, run.sched, run.freeFromStart, run.freeFromStart ? "free" : "forced", true);
  }
}

int main(int argc, char **argv) {
  spdlog::set_level(getenv("TRDEBUG") ? spdlog::level::debug : spdlog::level::off);
  std::ifstream fin; if (argc > 1) fin.open(argv[1]);
  std::istream &in = argc > 1 ? static_cast<std::istream&>(fin) : std::cin;
  DS d; TableGeo geo; std::vector<std::vector<std::string>> reqs; std::vector<Run> runs; std::string id = "0";
  std::string line;
  auto flush = [&]() { if (d.nstops > 0 || !runs.empty()) runBlock(id, d, geo, reqs, runs); d = DS(); geo = TableGeo(); reqs.clear(); runs.clear(); };
  while (std::getline(in, line)) {
    std::istringstream is(line); std::string k; is >> k;
    if (k.empty() || k[0] == '#') continue;
    if (k == "dataset") { flush(); is >> id; }
    else if (k == "end") { flush(); }
    else if (k == "stops") is >> d.nstops;
    else if (k == "agencies") is >> d.nagencies;
    else if (k == "services") is >> d.nservices;
    else if (k == "cacheall") { int x; is >> x; d.cacheAll = x != 0; }
    else if (k == "foot") { int a, b, t, x; is >> a >> b >> t >> x; d.foot.push_back({a, b, t, x}); }
    else if (k == "line") { DS::L l; is >> l.agency >> l.mode; d.lines.push_back(l); }
    else if (k == "path") { DS::P p; is >> p.line; p.stops = ints(is); p.dist = ints(is); d.paths.push_back(p); }
    else if (k == "trip") { DS::T t; is >> t.path >> t.service >> t.id; t.arr = ints(is); t.dep = ints(is); t.cb = ints(is); t.cu = ints(is);
      if (t.cb.empty()) t.cb.assign(t.arr.size(), 1); if (t.cu.empty()) t.cu.assign(t.arr.size(), 1); d.trips.push_back(t); }
    else if (k == "trip2") {}
    else if (k == "scenario") { DS::S s; s.services = ints(is); s.onlyLines = ints(is); s.exceptLines = ints(is); s.onlyAgencies = ints(is); s.exceptAgencies = ints(is); s.onlyModes = ints(is); s.exceptModes = ints(is); d.scenarios.push_back(s); }
    else if (k == "access") { int s, t, x; is >> s >> t >> x; geo.acc.push_back({s, t, x}); }
    else if (k == "egress") { int s, t, x; is >> s >> t >> x; geo.egr.push_back({s, t, x}); }
    else if (k == "thread") { size_t t; is >> t; std::string rest; std::getline(is, rest); size_t p = rest.find_first_not_of(' ');
      if (t > 63) { std::cerr << "bad thread number: " << line << "\n"; return 2; }
      if (reqs.size() <= t) reqs.resize(t + 1); reqs[t].push_back(p == std::string::npos ? "" : rest.substr(p)); }
    else if (k == "sched") { Run r; int t; bool any = false; while (is >> t) { r.sched.push_back(t); any = true; } r.freeFromStart = !any; runs.push_back(r); }
    else if (k == "soak") { Run r; r.soak = true; is >> r.n; runs.push_back(r); }
    else if (k == "route" || k == "accessibility" || k == "summary" || k == "update") {}   // requests of the sequential protocol: not run here
    else { std::cerr << "bad line: " << line << "\n"; return 2; }
  }
  flush();
  return 0;
}
