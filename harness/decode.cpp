// decode: cache directory -> RECORDS text of /verif/notes/loader-protocol.md (what the files contain, record by
// record).  Uses ONLY the Cap'n Proto readers generated from /repo/include/capnp/*.capnp, boost's uuid
// string_generator (to classify uuid text the way every loader does) and nlohmann::json (path `data` field).
// No repo loader code is included or called.
//
//   decode <cache-dir>
//
// Every file is read with a PackedFdMessageReader (traversal limit 64 Mi words) and traversed completely (ALL fields
// of the schema, through the generated toString(), not only the printed ones); its lines
// are buffered and emitted only when the traversal ended without exception, otherwise the file is `bad` and
// carries no records.  A collection file whose open() fails with ENOENT is `missing`.
// Per-node / per-line files: the directory entries of <dir>/nodes and <dir>/lines named node_<uuid>.capnpbin /
// line_<uuid>.capnpbin where <uuid> is the canonical text of a uuid (boost::uuids::to_string form: that is the only
// name the loader ever opens); the uuid comes from the FILE NAME; sections are sorted by uuid value.
#include <iostream>
#include <sstream>
#include <vector>
#include <string>
#include <algorithm>
#include <functional>
#include <cstring>
#include <cerrno>
#include <fcntl.h>
#include <unistd.h>
#include <dirent.h>
#include <kj/exception.h>
#include <capnp/message.h>
#include <capnp/serialize-packed.h>
#include <boost/uuid/uuid.hpp>
#include <boost/uuid/uuid_io.hpp>
#include <boost/uuid/string_generator.hpp>
#include <nlohmann/json.hpp>
#include "capnp/nodeCollection.capnp.h"
#include "capnp/node.capnp.h"
#include "capnp/lineCollection.capnp.h"
#include "capnp/line.capnp.h"
#include "capnp/pathCollection.capnp.h"
#include "capnp/scenarioCollection.capnp.h"
#include "capnp/serviceCollection.capnp.h"
#include "capnp/agencyCollection.capnp.h"

static const ::capnp::ReaderOptions OPTS = {64 * 1024 * 1024};

// 128-bit value of a uuid (most significant byte first) as a decimal string
static std::string uuidDec(const boost::uuids::uuid &u) {
  unsigned __int128 v = 0;
  for (int i = 0; i < 16; i++) v = (v << 8) | (unsigned __int128)u.data[i];
  if (v == 0) return "0";
  char buf[48]; int n = 0;
  while (v != 0) { buf[n++] = (char)('0' + (int)(v % 10)); v /= 10; }
  std::string s; while (n > 0) s += buf[--n];
  return s;
}
static bool parseUuid(const std::string &text, boost::uuids::uuid &out) {
  boost::uuids::string_generator gen;
  try { out = gen(text); return true; } catch (...) { return false; }
}
// uuid text from a file -> token
static std::string U(const std::string &text) {
  if (text.empty()) return "empty";
  boost::uuids::uuid u;
  return parseUuid(text, u) ? uuidDec(u) : std::string("bad");
}
// short names and the like
static std::string S(const std::string &s) {
  if (s.empty()) return "?";
  for (unsigned char c : s) if (!(isalnum(c) || c == '_')) return "?";
  return s;
}

// "ok" | "missing" | "bad"; lines of the file are appended to `out` only when the full traversal succeeded
static std::string readFile(const std::string &path, bool enoentIsMissing, std::vector<std::string> &out,
                            const std::function<void(::capnp::PackedFdMessageReader &, std::vector<std::string> &)> &body) {
  int fd = open(path.c_str(), O_RDONLY);
  if (fd < 0) return (errno == ENOENT && enoentIsMissing) ? "missing" : "bad";
  std::vector<std::string> buf; bool ok = false;
  try {
    ::capnp::PackedFdMessageReader msg(fd, OPTS);
    body(msg, buf);
    ok = true;
  }
  catch (const kj::Exception &) {}
  catch (const std::exception &) {}
  catch (...) {}
  close(fd);
  if (!ok) return "bad";
  out.insert(out.end(), buf.begin(), buf.end());
  return "ok";
}

// one field of a segment object: integer | `-` (absent or null) | `x` (present, not a number)
static std::string segField(const nlohmann::json &o, const char *key) {
  auto it = o.find(key);
  if (it == o.end() || it->is_null()) return "-";
  if (it->is_number()) return std::to_string(it->get<int>()); // floats: the truncation nlohmann does when converting to int
  return "x";
}
// seg tokens of a path with n nodesUuids (leading blank included), or " badjson"
static std::string segTokens(const std::string &data, size_t n) {
  nlohmann::json j;
  try { j = nlohmann::json::parse(data); } catch (...) { return " badjson"; }
  if (!j.is_object()) return " badjson";
  const nlohmann::json *segs = nullptr;
  auto it = j.find("segments");
  if (it != j.end()) {
    if (!it->is_array()) return " badjson";
    for (auto &e : *it) if (!(e.is_object() || e.is_null())) return " badjson";
    segs = &*it;
  }
  std::string s;
  for (size_t i = 0; i < n; i++) {
    std::string d = "-", t = "-";
    if (segs && i < segs->size() && (*segs)[i].is_object()) { d = segField((*segs)[i], "distanceMeters"); t = segField((*segs)[i], "travelTimeSeconds"); }
    s += " J" + d + "," + t;
  }
  return s;
}

// <dir>/<sub>/<prefix><uuid>.capnpbin entries, sorted by uuid value
static std::vector<std::pair<boost::uuids::uuid, std::string>> listFiles(const std::string &dir, const std::string &sub, const std::string &prefix) {
  std::vector<std::pair<boost::uuids::uuid, std::string>> v;
  const std::string suffix = ".capnpbin";
  DIR *d = opendir((dir + "/" + sub).c_str());
  if (!d) return v;
  while (struct dirent *e = readdir(d)) {
    std::string name = e->d_name;
    if (name.size() <= prefix.size() + suffix.size()) continue;
    if (name.compare(0, prefix.size(), prefix) != 0 || name.compare(name.size() - suffix.size(), suffix.size(), suffix) != 0) continue;
    std::string mid = name.substr(prefix.size(), name.size() - prefix.size() - suffix.size());
    boost::uuids::uuid u;
    if (!parseUuid(mid, u) || boost::uuids::to_string(u) != mid) continue;
    v.push_back({u, dir + "/" + sub + "/" + name});
  }
  closedir(d);
  std::sort(v.begin(), v.end(), [](const auto &a, const auto &b) { return a.first < b.first; });
  return v;
}

template <class L> static std::string textList(L list, std::string (*f)(const std::string &)) {
  std::string s; for (auto t : list) s += " " + f(std::string(t.cStr(), t.size())); return s;
}
template <class L> static std::string intList(L list) {
  std::string s; for (auto x : list) s += " " + std::to_string((long long)x); return s;
}
static std::string str(::capnp::Text::Reader t) { return std::string(t.cStr(), t.size()); }
// FULL traversal of a message: the generated stringifier visits every field, list and text of the struct (also the
// ones the protocol does not print), so that any invalid pointer anywhere in the file raises the kj::Exception
template <class R> static R full(R root) { (void)root.toString().flatten(); return root; }

int main(int argc, char **argv) {
  if (argc != 2) { std::cerr << "usage: decode <cache-dir>\n"; return 2; }
  std::string dir = argv[1];
  std::vector<std::string> out, body;
  std::string st;
  out.push_back("records");

  // the three uuid-only collections: one token per record on the header line
  st = readFile(dir + "/agencies.capnpbin", true, body, [](auto &m, auto &b) {
    std::string s; for (auto a : full(m.template getRoot<agencyCollection::AgencyCollection>()).getAgencies()) s += " " + U(str(a.getUuid())); b.push_back(s); });
  out.push_back("agencies " + st + (body.empty() ? "" : body[0])); body.clear();
  st = readFile(dir + "/services.capnpbin", true, body, [](auto &m, auto &b) {
    std::string s; for (auto a : full(m.template getRoot<serviceCollection::ServiceCollection>()).getServices()) s += " " + U(str(a.getUuid())); b.push_back(s); });
  out.push_back("services " + st + (body.empty() ? "" : body[0])); body.clear();
  st = readFile(dir + "/nodes.capnpbin", true, body, [](auto &m, auto &b) {
    std::string s; for (auto a : full(m.template getRoot<nodeCollection::NodeCollection>()).getNodes()) s += " " + U(str(a.getUuid())); b.push_back(s); });
  out.push_back("nodes " + st + (body.empty() ? "" : body[0])); body.clear();

  for (auto &f : listFiles(dir, "nodes", "node_")) {
    st = readFile(f.second, false, body, [](auto &m, auto &b) {
      auto n = full(m.template getRoot<node::Node>());
      b.push_back(" ;" + textList(n.getTransferableNodesUuids(), U) + " ;" + intList(n.getTransferableNodesTravelTimes()) + " ;" + intList(n.getTransferableNodesDistances())); });
    out.push_back("nodefile " + uuidDec(f.first) + " " + st + (body.empty() ? " ; ; ;" : body[0])); body.clear();
  }

  st = readFile(dir + "/lines.capnpbin", true, body, [](auto &m, auto &b) {
    for (auto l : full(m.template getRoot<lineCollection::LineCollection>()).getLines())
      b.push_back("line " + U(str(l.getUuid())) + " " + U(str(l.getAgencyUuid())) + " " + S(str(l.getMode()))); });
  out.push_back("lines " + st); out.insert(out.end(), body.begin(), body.end()); body.clear();

  st = readFile(dir + "/paths.capnpbin", true, body, [](auto &m, auto &b) {
    for (auto p : full(m.template getRoot<pathCollection::PathCollection>()).getPaths()) {
      auto nodes = p.getNodesUuids();
      b.push_back("path " + U(str(p.getUuid())) + " " + U(str(p.getLineUuid())) + " ;" + textList(nodes, U) + " ;" + segTokens(str(p.getData()), nodes.size()));
    } });
  out.push_back("paths " + st); out.insert(out.end(), body.begin(), body.end()); body.clear();

  st = readFile(dir + "/scenarios.capnpbin", true, body, [](auto &m, auto &b) {
    for (auto s : full(m.template getRoot<scenarioCollection::ScenarioCollection>()).getScenarios())
      b.push_back("scenario " + U(str(s.getUuid())) + " " + U(str(s.getSimulationUuid())) +
                  " ;" + textList(s.getServicesUuids(), U) +
                  " ;" + textList(s.getOnlyLinesUuids(), U) + " ;" + textList(s.getExceptLinesUuids(), U) +
                  " ;" + textList(s.getOnlyAgenciesUuids(), U) + " ;" + textList(s.getExceptAgenciesUuids(), U) +
                  " ;" + textList(s.getOnlyNodesUuids(), U) + " ;" + textList(s.getExceptNodesUuids(), U) +
                  " ;" + textList(s.getOnlyModesShortnames(), S) + " ;" + textList(s.getExceptModesShortnames(), S)); });
  out.push_back("scenarios " + st); out.insert(out.end(), body.begin(), body.end()); body.clear();

  for (auto &f : listFiles(dir, "lines", "line_")) {
    st = readFile(f.second, false, body, [](auto &m, auto &b) {
      for (auto sc : full(m.template getRoot<line::Line>()).getSchedules()) {
        b.push_back("sched " + U(str(sc.getServiceUuid())));
        for (auto pe : sc.getPeriods()) {
          b.push_back("period");
          for (auto t : pe.getTrips())
            b.push_back("trip " + U(str(t.getUuid())) + " " + U(str(t.getPathUuid())) +
                        " ;" + intList(t.getNodeArrivalTimesSeconds()) + " ;" + intList(t.getNodeDepartureTimesSeconds()) +
                        " ;" + intList(t.getNodesCanBoard()) + " ;" + intList(t.getNodesCanUnboard()));
        }
      } });
    out.push_back("linefile " + uuidDec(f.first) + " " + st); out.insert(out.end(), body.begin(), body.end()); body.clear();
  }
  out.push_back("end");
  for (auto &l : out) std::cout << l << "\n";
  return 0;
}
