#!/usr/bin/env python3
"""Single entry point:  ./check.py <property> [--tier quick|thorough] [--replay file]
exit 0 = property held on everything explored; exit 1 + `VIOLATION property=<id> replay=<path>` otherwise."""
import argparse, os, sys
sys.path.insert(0, os.path.dirname(os.path.abspath(__file__)))
from check import core, inproc


def main():
    ap = argparse.ArgumentParser()
    ap.add_argument("prop")
    ap.add_argument("--tier", default=os.environ.get("VERIF_TIER", "quick"))
    ap.add_argument("--replay")
    a = ap.parse_args()
    seed = core.seed_from_env()
    tier = a.tier if a.tier in ("quick", "thorough") else "quick"
    from check import registry
    return registry.run(a.prop, tier, seed, a.replay)


if __name__ == "__main__":
    sys.exit(main())
